//! Minimal in-memory UDP replacement under virtual time: FIFO per destination, fixed latency, loss only
//! (never reorders, never duplicates) — exactly the network Datagram.tla models (Lose / Deliver in order).
use std::{
    collections::{HashMap, VecDeque},
    io,
    net::SocketAddr,
    sync::{Arc, Mutex},
    task::{Context, Poll, Waker},
    time::Duration,
};

use bytes::BytesMut;
use qbase::net::route::{Line, Link, Pathway, Route};
use qinterface::{bind_uri::BindUri, io::IO};

use crate::util::Rng;

struct Inbox {
    q: VecDeque<(tokio::time::Instant, Vec<u8>, SocketAddr)>,
    waker: Option<Waker>,
}

pub struct NetInner {
    inboxes: HashMap<SocketAddr, Inbox>,
    server: SocketAddr,
    next_port: u16,
    rng: Rng,
    /// percentage of client->server UDP datagrams dropped while `lossy` is on
    pub drop_c2s: u64,
    pub lossy: bool,
    pub sent_c2s: u64,
    pub dropped_c2s: u64,
}

#[derive(Clone)]
pub struct Net {
    pub inner: Arc<Mutex<NetInner>>,
    latency: Duration,
}

impl Net {
    pub fn new(server: SocketAddr, seed: u64, drop_c2s: u64, latency_ms: u64) -> Self {
        Net {
            inner: Arc::new(Mutex::new(NetInner {
                inboxes: HashMap::new(),
                server,
                next_port: 50000,
                rng: Rng(seed ^ 0xda7a_6a11),
                drop_c2s,
                lossy: false,
                sent_c2s: 0,
                dropped_c2s: 0,
            })),
            latency: Duration::from_millis(latency_ms),
        }
    }

    pub fn set_lossy(&self, on: bool) {
        self.inner.lock().unwrap().lossy = on;
    }

    pub fn bind(&self, uri: BindUri) -> MemIo {
        let mut addr = SocketAddr::try_from(&uri).expect("inet bind uri");
        let mut g = self.inner.lock().unwrap();
        if addr.port() == 0 {
            addr.set_port(g.next_port);
            g.next_port += 1;
        }
        g.inboxes.entry(addr).or_insert(Inbox { q: VecDeque::new(), waker: None });
        MemIo { net: self.clone(), uri, addr, closed: false }
    }

    fn send_one(&self, src: SocketAddr, dst: SocketAddr, data: &[u8]) {
        {
            let mut g = self.inner.lock().unwrap();
            if dst == g.server {
                g.sent_c2s += 1;
                if g.lossy && g.drop_c2s > 0 {
                    let pct = g.drop_c2s;
                    if g.rng.below(100) < pct {
                        g.dropped_c2s += 1;
                        return;
                    }
                }
            }
        }
        // queued at once with its arrival time (same latency for everything => FIFO per destination, no reordering);
        // the timer only wakes the receiver
        let at = tokio::time::Instant::now() + self.latency;
        {
            let mut g = self.inner.lock().unwrap();
            match g.inboxes.get_mut(&dst) {
                Some(ib) => ib.q.push_back((at, data.to_vec(), src)),
                None => return,
            }
        }
        let net = self.clone();
        tokio::spawn(async move {
            tokio::time::sleep_until(at).await;
            let mut g = net.inner.lock().unwrap();
            if let Some(ib) = g.inboxes.get_mut(&dst) {
                if let Some(w) = ib.waker.take() {
                    w.wake();
                }
            }
        });
    }
}

pub struct MemIo {
    net: Net,
    uri: BindUri,
    addr: SocketAddr,
    closed: bool,
}

impl IO for MemIo {
    fn bind_uri(&self) -> BindUri {
        self.uri.clone()
    }
    fn bound_addr(&self) -> io::Result<SocketAddr> {
        Ok(self.addr)
    }
    fn max_segment_size(&self) -> io::Result<usize> {
        Ok(1500)
    }
    fn max_segments(&self) -> io::Result<usize> {
        Ok(4)
    }
    fn poll_send(&self, _cx: &mut Context, pkts: &[io::IoSlice], route: Route) -> Poll<io::Result<usize>> {
        if self.closed {
            return Poll::Ready(Err(io::Error::other("closed")));
        }
        let dst = route.line.link.dst;
        for p in pkts {
            self.net.send_one(self.addr, dst, p);
        }
        Poll::Ready(Ok(pkts.len()))
    }
    fn poll_recv(&self, cx: &mut Context, pkts: &mut [BytesMut], route: &mut [Route]) -> Poll<io::Result<usize>> {
        if self.closed {
            return Poll::Ready(Err(io::Error::other("closed")));
        }
        let mut g = self.net.inner.lock().unwrap();
        let ib = g.inboxes.get_mut(&self.addr).unwrap();
        let cap = pkts.len().min(route.len());
        let mut n = 0;
        while n < cap {
            match ib.q.front() {
                Some((at, _, _)) if *at <= tokio::time::Instant::now() => {}
                _ => break,
            }
            let (_, data, src) = ib.q.pop_front().unwrap();
            let len = data.len().min(pkts[n].len());
            pkts[n][..len].copy_from_slice(&data[..len]);
            let local = self.addr;
            let pathway = Pathway::new(src.into(), local.into());
            let mut line = Line::default();
            line.link = Link::new(src, local).flip();
            line.seg_size = len as u16;
            route[n] = Route::new(pathway.flip(), line);
            n += 1;
        }
        if n == 0 {
            ib.waker = Some(cx.waker().clone());
            return Poll::Pending;
        }
        Poll::Ready(Ok(n))
    }
    fn poll_close(&mut self, _cx: &mut Context) -> Poll<io::Result<()>> {
        self.closed = true;
        let mut g = self.net.inner.lock().unwrap();
        if let Some(ib) = g.inboxes.get_mut(&self.addr) {
            if let Some(w) = ib.waker.take() {
                w.wake();
            }
        }
        Poll::Ready(Ok(()))
    }
}
