//! vh-params — C18: replay of Gen_Params behaviours into the real transport-parameter code
//! (`qbase::param`): the wire parser `Parameters::<Role>::parse_from_bytes`, the typed setters
//! `Parameters::<Role>::set`, and the two-event protocol `Parameters::recv_remote_params` /
//! `initial_scid_from_peer_need_equal` behind an `ArcParameters`, with a `remote_ready()` future
//! polled under a counting waker.  The harness has NO table of its own: ids, types and values come from
//! the behaviour (decimal strings / hex strings) and are logged back the same way; Trace_Params judges.
#![allow(dead_code)]
#[path = "../../../src/util.rs"]
mod util;

use std::{
    future::Future,
    pin::Pin,
    sync::{
        Arc,
        atomic::{AtomicU64, Ordering},
    },
    task::{Context, Poll, Wake, Waker},
    time::Duration,
};

use bytes::Bytes;
use qbase::{
    cid::ConnectionId,
    error::{Error as QErr, QuicError},
    param::{
        ArcParameters, ClientParameters, ParameterId, ParameterValue, ParameterValueType, Parameters, PeerParameters,
        ServerParameters, preferred_address::be_preferred_address,
    },
    token::ResetToken,
    varint::VarInt,
};
use serde_json::{Value, json};
use util::{Out, guarded, quiet_panics, read_lines};

struct CountWaker(AtomicU64);
impl Wake for CountWaker {
    fn wake(self: Arc<Self>) {
        self.0.fetch_add(1, Ordering::SeqCst);
    }
    fn wake_by_ref(self: &Arc<Self>) {
        self.0.fetch_add(1, Ordering::SeqCst);
    }
}

fn unhex(s: &str) -> Vec<u8> {
    (0..s.len() / 2).map(|i| u8::from_str_radix(&s[2 * i..2 * i + 2], 16).unwrap()).collect()
}
fn put_varint(out: &mut Vec<u8>, v: u64) {
    if v < 1 << 6 {
        out.push(v as u8)
    } else if v < 1 << 14 {
        out.extend_from_slice(&((v as u16) | 0x4000).to_be_bytes())
    } else if v < 1 << 30 {
        out.extend_from_slice(&((v as u32) | 0x8000_0000).to_be_bytes())
    } else {
        assert!(v < 1 << 62);
        out.extend_from_slice(&(v | 0xC000_0000_0000_0000).to_be_bytes())
    }
}

/// one entry {id, t, v}: t = "v" varint value (decimal string), "x" raw bytes (hex), "f" zero length
fn entry_bytes(e: &Value) -> Vec<u8> {
    match e["t"].as_str().unwrap() {
        "v" => {
            let mut b = vec![];
            put_varint(&mut b, e["v"].as_str().unwrap().parse::<u64>().unwrap());
            b
        }
        "x" => unhex(e["v"].as_str().unwrap()),
        _ => vec![],
    }
}
fn encode(entries: &[Value]) -> Vec<u8> {
    let mut out = vec![];
    for e in entries {
        put_varint(&mut out, e["id"].as_u64().unwrap());
        let b = entry_bytes(e);
        put_varint(&mut out, b.len() as u64);
        out.extend_from_slice(&b);
    }
    out
}

fn kind_q(e: &QuicError) -> String {
    format!("{:?}", e.kind())
}
fn kind_e(e: &QErr) -> String {
    format!("{:?}", e.kind())
}

/// typed construction through the public setters; Err = (index of the failing entry (1-based), error)
fn typed_value(id: ParameterId, e: &Value) -> ParameterValue {
    let raw = entry_bytes(e);
    match id.value_type() {
        ParameterValueType::VarInt => ParameterValue::VarInt(VarInt::from_u64(e["v"].as_str().unwrap().parse().unwrap()).unwrap()),
        ParameterValueType::Duration => ParameterValue::Duration(Duration::from_millis(e["v"].as_str().unwrap().parse().unwrap())),
        ParameterValueType::Boolean => ParameterValue::True,
        ParameterValueType::Bytes => ParameterValue::Bytes(Bytes::from(raw)),
        ParameterValueType::ResetToken => ParameterValue::ResetToken(ResetToken::new(&raw)),
        ParameterValueType::ConnectionId => ParameterValue::ConnectionId(ConnectionId::from_slice(&raw)),
        ParameterValueType::PreferredAddress => ParameterValue::PreferredAddress(be_preferred_address(&raw).unwrap().1),
    }
}
fn typed_build(sender: &str, entries: &[Value]) -> Result<PeerParameters, (usize, QuicError)> {
    fn fill<R: qbase::role::IntoRole + Default>(
        p: &mut qbase::param::core::Parameters<R>,
        entries: &[Value],
    ) -> Result<(), (usize, QuicError)> {
        for (i, e) in entries.iter().enumerate() {
            let id = ParameterId::try_from(VarInt::from_u64(e["id"].as_u64().unwrap()).unwrap())
                .unwrap_or_else(|_| panic!("harness: typed mode cannot express unknown id"));
            p.set(id, typed_value(id, e)).map_err(|err| (i + 1, QuicError::from(err)))?;
        }
        Ok(())
    }
    if sender == "client" {
        let mut p = ClientParameters::default();
        fill(&mut p, entries)?;
        Ok(PeerParameters::Client(p))
    } else {
        let mut p = ServerParameters::default();
        fill(&mut p, entries)?;
        Ok(PeerParameters::Server(p))
    }
}

type Fut = Pin<Box<dyn Future<Output = Result<(), String>>>>;

struct World {
    arc: &'static ArcParameters,
    role: String,
    mode: String,
    fut: Option<Fut>,
    fut_state: &'static str,
    fut_kind: String,
    cw: Arc<CountWaker>,
    waker: Waker,
    parsed: Option<PeerParameters>,
    /// which call under test is running (for attributing a panic)
    stage: &'static str,
}

impl World {
    fn new(op: &[Value]) -> World {
        // ["new", role, mode, odcid, lidle, rem]
        let role = op[1].as_str().unwrap().to_string();
        let mode = op[2].as_str().unwrap().to_string();
        let lidle: u64 = op[4].as_str().unwrap().parse().unwrap();
        let params = if role == "client" {
            let mut local = qbase::param::handy::client_parameters();
            local.set(ParameterId::MaxIdleTimeout, Duration::from_millis(lidle)).unwrap();
            local.set(ParameterId::InitialSourceConnectionId, ConnectionId::from_slice(&[0xcc; 8])).unwrap();
            let rem = op[5].as_array().unwrap();
            let remembered = rem.first().map(|l| match typed_build("server", l.as_array().unwrap()) {
                Ok(PeerParameters::Server(p)) => p,
                _ => panic!("harness: remembered parameters must be settable"),
            });
            Parameters::new_client(local, remembered, ConnectionId::from_slice(&unhex(op[3].as_str().unwrap())))
        } else {
            let mut local = qbase::param::handy::server_parameters();
            local.set(ParameterId::MaxIdleTimeout, Duration::from_millis(lidle)).unwrap();
            local.set(ParameterId::InitialSourceConnectionId, ConnectionId::from_slice(&[0x55; 8])).unwrap();
            local.set(ParameterId::OriginalDestinationConnectionId, ConnectionId::from_slice(&[0x0d; 8])).unwrap();
            Parameters::new_server(local)
        };
        let arc: &'static ArcParameters = Box::leak(Box::new(ArcParameters::from(params)));
        let cw = Arc::new(CountWaker(AtomicU64::new(0)));
        let waker = Waker::from(cw.clone());
        let fut: Fut = Box::pin(async move {
            match arc.remote_ready().await {
                Ok(guard) => {
                    drop(guard);
                    Ok(())
                }
                Err(e) => Err(kind_e(&e)),
            }
        });
        let mut w = World { arc, role, mode, fut: Some(fut), fut_state: "pending", fut_kind: String::new(), cw, waker, parsed: None, stage: "new" };
        w.poll_fut();
        w
    }

    fn poll_fut(&mut self) {
        if let Some(f) = self.fut.as_mut() {
            let mut cx = Context::from_waker(&self.waker);
            match f.as_mut().poll(&mut cx) {
                Poll::Pending => {}
                Poll::Ready(Ok(())) => {
                    self.fut_state = "ok";
                    self.fut = None;
                }
                Poll::Ready(Err(k)) => {
                    self.fut_state = "err";
                    self.fut_kind = k;
                    self.fut = None;
                }
            }
        }
    }

    /// cheap scalar state after a call (the future is re-polled only if its waker fired, like a real task)
    fn post(&mut self, ev: &mut Value) {
        let wakes = self.cw.0.swap(0, Ordering::SeqCst);
        if wakes > 0 {
            self.poll_fut();
        }
        let o = ev.as_object_mut().unwrap();
        o.insert("wakes".into(), json!(wakes));
        o.insert("fut".into(), json!(self.fut_state));
        o.insert("futkind".into(), json!(self.fut_kind));
        match self.arc.lock_guard() {
            Ok(g) => {
                let idle = match g.negotiated_max_idle_timeout() {
                    None => "unknown".to_string(),
                    Some(Duration::MAX) => "none".to_string(),
                    Some(d) => d.as_millis().to_string(),
                };
                o.insert("guard".into(), json!("ok"));
                o.insert("ready".into(), json!(g.is_remote_params_ready()));
                o.insert("idle".into(), json!(idle));
                o.insert("ridle".into(), json!(g.get_remote::<Duration>(ParameterId::MaxIdleTimeout).is_some()));
                o.insert("hasrem".into(), json!(g.remembered().is_some()));
            }
            Err(e) => {
                o.insert("guard".into(), json!(kind_e(&e)));
                o.insert("ready".into(), json!(false));
                o.insert("idle".into(), json!("unknown"));
                o.insert("ridle".into(), json!(false));
                o.insert("hasrem".into(), json!(false));
            }
        }
    }

    /// what the connection does with an error returned by a handler: it becomes the connection error
    fn conn_error(&self, e: &QuicError) {
        self.arc.on_conn_error(&QErr::from(e.clone()));
    }

    fn step(&mut self, op: &[Value], out: &mut Vec<Value>) {
        match op[0].as_str().unwrap() {
            "retry" => {
                self.stage = "retry";
                let cid = op[1].as_str().unwrap();
                let mut ev = json!({"ev": "retry", "cid": cid});
                match self.arc.lock_guard() {
                    Ok(mut g) => {
                        g.retry_scid_from_server_need_equal(ConnectionId::from_slice(&unhex(cid)));
                        ev["ok"] = json!(true);
                        ev["kind"] = json!("");
                    }
                    Err(e) => {
                        ev["ok"] = json!(false);
                        ev["kind"] = json!(kind_e(&e));
                    }
                }
                self.post(&mut ev);
                out.push(ev);
            }
            "params" => {
                let sender = if self.role == "client" { "server" } else { "client" };
                let entries = op[1].as_array().unwrap();
                // 1. the extension is parsed (wire) / built through the setters (typed)
                self.stage = if self.mode == "wire" { "parse" } else { "typed" };
                let (name, res): (&str, Result<PeerParameters, (usize, QuicError)>) = if self.mode == "wire" {
                    let bytes = encode(entries);
                    let r = if sender == "client" {
                        ClientParameters::parse_from_bytes(&bytes).map(PeerParameters::Client)
                    } else {
                        ServerParameters::parse_from_bytes(&bytes).map(PeerParameters::Server)
                    };
                    ("parse", r.map_err(|e| (0, e)))
                } else {
                    ("typed", typed_build(sender, entries))
                };
                let mut ev = json!({"ev": name, "sender": sender, "params": entries});
                match res {
                    Ok(p) => {
                        ev["ok"] = json!(true);
                        ev["kind"] = json!("");
                        ev["at"] = json!(0);
                        ev["why"] = json!("");
                        self.parsed = Some(p);
                    }
                    Err((at, e)) => {
                        ev["ok"] = json!(false);
                        ev["kind"] = json!(kind_q(&e));
                        ev["at"] = json!(at);
                        ev["why"] = json!(e.reason().to_string());
                        self.conn_error(&e);
                    }
                }
                self.post(&mut ev);
                out.push(ev);
                // 2. tls.rs try_process_ee / try_process_ch: 0-RTT decision against the remembered set, then recv_remote_params
                let Some(p) = self.parsed.take() else { return };
                self.stage = "recv";
                let mut ev = json!({"ev": "recv"});
                let mut failed = None;
                match self.arc.lock_guard() {
                    Ok(mut g) => {
                        let z = match (g.remembered().cloned(), &p) {
                            (Some(r), PeerParameters::Server(n)) => {
                                if r.is_0rtt_accepted(n) { "yes" } else { "no" }
                            }
                            _ => "na",
                        };
                        ev["zrtt"] = json!(z);
                        match g.recv_remote_params(p) {
                            Ok(()) => {
                                ev["ok"] = json!(true);
                                ev["kind"] = json!("");
                            }
                            Err(e) => {
                                ev["ok"] = json!(false);
                                ev["kind"] = json!(kind_q(&e));
                                failed = Some(e);
                            }
                        }
                    }
                    Err(e) => {
                        ev["zrtt"] = json!("na");
                        ev["ok"] = json!(false);
                        ev["kind"] = json!(kind_e(&e));
                    }
                }
                if let Some(e) = failed {
                    self.conn_error(&e);
                }
                self.post(&mut ev);
                out.push(ev);
            }
            "scid" => {
                self.stage = "scid";
                let cid = op[1].as_str().unwrap();
                let mut ev = json!({"ev": "scid", "cid": cid});
                let mut failed = None;
                match self.arc.lock_guard() {
                    Ok(mut g) => match g.initial_scid_from_peer_need_equal(ConnectionId::from_slice(&unhex(cid))) {
                        Ok(()) => {
                            ev["ok"] = json!(true);
                            ev["kind"] = json!("");
                        }
                        Err(e) => {
                            ev["ok"] = json!(false);
                            ev["kind"] = json!(kind_q(&e));
                            failed = Some(e);
                        }
                    },
                    Err(e) => {
                        ev["ok"] = json!(false);
                        ev["kind"] = json!(kind_e(&e));
                    }
                }
                if let Some(e) = failed {
                    self.conn_error(&e);
                }
                self.post(&mut ev);
                out.push(ev);
            }
            other => panic!("harness: unknown op {other}"),
        }
    }
}

fn replay(args: &[String]) -> i32 {
    quiet_panics();
    let mut out = Out::create(&args[1]);
    let mut runs = 0u64;
    for line in read_lines(&args[0]) {
        let ops: Vec<Value> = serde_json::from_str(&line).unwrap();
        let new = ops[0].as_array().unwrap().clone();
        let mut evs: Vec<Value> = vec![];
        let mut reset = json!({"ev": "reset", "role": new[1], "mode": new[2], "odcid": new[3], "lidle": new[4], "rem": new[5]});
        let mut world = match guarded(|| World::new(&new)) {
            Ok(w) => w,
            Err(msg) => {
                // nothing could be observed: the reset event carries the initial state so that the panic is what gets reported
                for (k, v) in [("wakes", json!(0)), ("fut", json!("pending")), ("futkind", json!("")), ("guard", json!("ok")),
                               ("ready", json!(false)), ("idle", json!("unknown")), ("ridle", json!(false)),
                               ("hasrem", json!(!new[5].as_array().unwrap().is_empty()))] {
                    reset[k] = v;
                }
                out.emit(&reset);
                out.emit(&json!({"ev": "panic", "op": ["new", new], "msg": msg}));
                continue;
            }
        };
        world.post(&mut reset);
        out.emit(&reset);
        for op in &ops[1..] {
            let a = op.as_array().unwrap();
            let r = guarded(|| world.step(a, &mut evs));
            for e in evs.drain(..) {
                out.emit(&e);
            }
            if let Err(msg) = r {
                out.emit(&json!({"ev": "panic", "op": [world.stage, op], "msg": msg}));
                break;
            }
        }
        runs += 1;
    }
    out.finish();
    eprintln!("vh-params: {runs} runs");
    0
}

fn main() {
    let args: Vec<String> = std::env::args().collect();
    let code = match args.get(1).map(|s| s.as_str()) {
        Some("replay") if args.len() >= 4 => replay(&args[2..]),
        _ => {
            eprintln!("usage: vh-params replay <behaviours.ndjson> <trace.ndjson>");
            2
        }
    };
    std::process::exit(code);
}
