//! vh-sched — harness of the stream output scheduler (extension X1, spec StreamSched.tla).
//! Rust only drives the real code and records; Trace_StreamSched (TLC) judges.
//!
//!   vh-sched replay <behaviours.ndjson> <trace-out.ndjson>
//!       every behaviour `[cfg, op, op, ...]` is executed on ONE real client-role `DataStreams` with a real
//!       `FlowController` and real `Parameters`.  A packet is assembled the way qconnection does it
//!       (`Repeat(StreamFramePackages)`): `DataStreams::package(..).dump(&mut pkt)` is called until it fails, and every
//!       single call is recorded as one `once` event (room before / after, the frame written or the signals returned,
//!       connection credit afterwards).
//!   vh-sched random <seed> <runs> <depth> <behaviours-out.ndjson>
//!       seeded long schedules: continuous writers, bursts, small windows, stream turnover.
//!
//! ops:  ["open", "bi"|"uni"]  ["write", sid, n]  ["fin", sid]  ["cancel", sid]  ["stop", sid]  ["ack", sid]
//!       ["rstack", sid]  ["wu", sid, inc]  ["md", inc]  ["pack", cap]
#[path = "../../../src/util.rs"]
#[allow(dead_code)]
mod util;

use std::{
    collections::BTreeMap,
    sync::{Arc, Mutex},
    task::{Context, Poll},
};

use bytes::{BufMut, Bytes, buf::UninitSlice};
use futures::task::noop_waker_ref;
use qbase::{
    cid::ConnectionId,
    flow::FlowController,
    frame::{
        DataBlockedFrame, Frame, MaxDataFrame, MaxStreamDataFrame, StopSendingFrame, StreamCtlFrame, StreamFrame,
        io::{ReceiveFrame, SendFrame},
    },
    net::tx::ArcSendWakers,
    packet::{Package, RecordFrame},
    param::{ArcParameters, ClientParameters, ParameterId, Parameters, ServerParameters, handy},
    role::Role,
    sid::{Dir, StreamId, handy::ConsistentConcurrency},
    util::ContinuousData,
    varint::VarInt,
};
use qrecovery::{
    recv::Reader,
    send::{CancelStream, Writer},
    streams::{DataStreams, Ext},
};
use serde_json::{Value, json};

use crate::util::{Out, Rng, content_byte, guarded, quiet_panics, read_lines};

#[derive(Clone, Default, Debug)]
struct Broker {
    ctl: Arc<Mutex<Vec<StreamCtlFrame>>>,
}
impl SendFrame<StreamCtlFrame> for Broker {
    fn send_frame<I: IntoIterator<Item = StreamCtlFrame>>(&self, iter: I) {
        self.ctl.lock().unwrap().extend(iter);
    }
}
impl SendFrame<DataBlockedFrame> for Broker {
    fn send_frame<I: IntoIterator<Item = DataBlockedFrame>>(&self, _iter: I) {}
}
impl SendFrame<MaxDataFrame> for Broker {
    fn send_frame<I: IntoIterator<Item = MaxDataFrame>>(&self, _iter: I) {}
}

/// A packet under assembly: bounded buffer recording the STREAM frames written into it.
struct Pkt {
    buf: bytes::buf::Limit<Vec<u8>>,
    frames: Vec<(StreamFrame, Vec<u8>)>,
}
impl Pkt {
    fn new(capacity: usize) -> Self {
        Self { buf: Vec::with_capacity(capacity).limit(capacity), frames: Vec::new() }
    }
}
unsafe impl BufMut for Pkt {
    fn remaining_mut(&self) -> usize {
        self.buf.remaining_mut()
    }
    unsafe fn advance_mut(&mut self, cnt: usize) {
        unsafe { self.buf.advance_mut(cnt) }
    }
    fn chunk_mut(&mut self) -> &mut UninitSlice {
        self.buf.chunk_mut()
    }
}
impl<D: ContinuousData> RecordFrame<Frame<D>, D> for Pkt {
    fn record_frame(&mut self, frame: &Frame<D>) {
        if let Frame::Stream(frame, data) = frame {
            self.frames.push((*frame, data.to_bytes().to_vec()));
        }
    }
}

fn sbyte(sid: u64, i: u64) -> u8 {
    content_byte(i.wrapping_add(sid.wrapping_mul(1000003)))
}
fn sid_json(s: StreamId) -> u64 {
    let ty = match (s.role(), s.dir()) {
        (Role::Client, Dir::Bi) => 0,
        (Role::Server, Dir::Bi) => 1,
        (Role::Client, Dir::Uni) => 2,
        (Role::Server, Dir::Uni) => 3,
    };
    s.id() * 4 + ty
}
fn sid_from(v: u64) -> StreamId {
    let (role, dir) = match v % 4 {
        0 => (Role::Client, Dir::Bi),
        1 => (Role::Server, Dir::Bi),
        2 => (Role::Client, Dir::Uni),
        _ => (Role::Server, Dir::Uni),
    };
    StreamId::new(role, dir, v / 4)
}

struct World {
    streams: DataStreams<Broker>,
    flow: FlowController<Broker>,
    params: ArcParameters,
    broker: Broker,
    writers: BTreeMap<u64, Writer<Ext<Broker>>>,
    _readers: Vec<Reader<Ext<Broker>>>,
    written: BTreeMap<u64, u64>,
    inflight: BTreeMap<u64, Vec<StreamFrame>>,
    max_sd: BTreeMap<u64, u64>,
    swin_bi: u64,
    swin_uni: u64,
    cmax: u64,
}

fn make_world(cfg: &Value) -> World {
    let g = |k: &str| cfg[k].as_u64().unwrap();
    let (swin_bi, swin_uni, cwin, nstreams) = (g("swin_bi"), g("swin_uni"), g("cwin"), cfg["streams"].as_u64().unwrap_or(8));
    let mut cp: ClientParameters = handy::client_parameters();
    let mut sp: ServerParameters = handy::server_parameters();
    let v = |x: u64| VarInt::from_u64(x).unwrap();
    // what the peer (server) grants us
    sp.set(ParameterId::InitialMaxData, v(cwin)).unwrap();
    sp.set(ParameterId::InitialMaxStreamDataBidiRemote, v(swin_bi)).unwrap();
    sp.set(ParameterId::InitialMaxStreamDataBidiLocal, v(swin_bi)).unwrap();
    sp.set(ParameterId::InitialMaxStreamDataUni, v(swin_uni)).unwrap();
    sp.set(ParameterId::InitialMaxStreamsBidi, v(nstreams)).unwrap();
    sp.set(ParameterId::InitialMaxStreamsUni, v(nstreams)).unwrap();
    let odcid = ConnectionId::from_slice(&[1, 2, 3, 4, 5, 6, 7, 8]);
    let cscid = ConnectionId::from_slice(&[9, 9, 9, 9, 1, 1, 1, 1]);
    let sscid = ConnectionId::from_slice(&[7, 7, 7, 7, 2, 2, 2, 2]);
    cp.set(ParameterId::InitialSourceConnectionId, cscid).unwrap();
    sp.set(ParameterId::InitialSourceConnectionId, sscid).unwrap();
    sp.set(ParameterId::OriginalDestinationConnectionId, odcid).unwrap();
    let params: ArcParameters = Parameters::new_client(cp.clone(), None, odcid).into();

    // like qconnection::builder: built from the local parameters and the default remote ones, revised by the handshake
    let broker = Broker::default();
    let wakers = ArcSendWakers::default();
    let streams = DataStreams::new(
        Role::Client,
        &cp,
        &ServerParameters::default(),
        Box::new(ConsistentConcurrency::new(8, 8)),
        broker.clone(),
        wakers.clone(),
        None,
    );
    let flow = FlowController::new(0, 1 << 20, broker.clone(), wakers);
    {
        let mut gd = params.lock_guard().unwrap();
        gd.recv_remote_params(sp.clone()).unwrap();
        gd.initial_scid_from_peer_need_equal(sscid).unwrap();
    }
    streams.revise_params(false, &sp);
    flow.sender.revise_max_data(false, cwin);
    World {
        streams, flow, params, broker, writers: BTreeMap::new(), _readers: vec![], written: BTreeMap::new(),
        inflight: BTreeMap::new(), max_sd: BTreeMap::new(), swin_bi, swin_uni, cmax: cwin,
    }
}

impl World {
    fn conn_avail(&self) -> u64 {
        self.flow.sender.credit(usize::MAX >> 4).map(|c| c.available() as u64).unwrap_or(0)
    }

    /// one packet: the loop of qbase::packet::io::Repeat over DataStreams::package, one event per call
    fn pack(&mut self, cap: usize, out: &mut Vec<Value>) {
        out.push(json!({"ev": "pack", "cap": cap}));
        let mut pkt = Pkt::new(cap);
        let mut pkgs = self.streams.package(self.flow.sender.clone(), false);
        loop {
            let before = pkt.remaining_mut();
            let nframes = pkt.frames.len();
            match pkgs.dump(&mut pkt) {
                Ok(_) => {
                    let after = pkt.remaining_mut();
                    let avail = self.conn_avail();
                    let new = &pkt.frames[nframes..];
                    if new.len() != 1 {
                        out.push(json!({"ev": "once", "rem": before, "ok": true, "sid": -1, "off": 0, "len": 0, "fin": false,
                                        "rem2": after, "avail": avail, "data_ok": false, "nframes": new.len()}));
                        return;
                    }
                    let (f, data) = &new[0];
                    let sid = sid_json(f.stream_id());
                    let ok = data.len() == f.len() && data.iter().enumerate().all(|(i, b)| *b == sbyte(sid, f.offset() + i as u64));
                    self.inflight.entry(sid).or_default().push(*f);
                    out.push(json!({"ev": "once", "rem": before, "ok": true, "sid": sid, "off": f.offset(), "len": f.len(), "fin": f.is_fin(),
                                    "rem2": after, "avail": avail, "data_ok": ok}));
                    if after >= before {
                        // a call that claims success without using room would never end the loop
                        out.push(json!({"ev": "stuck", "rem": before}));
                        return;
                    }
                }
                Err(sig) => {
                    let avail = self.conn_avail();
                    out.push(json!({"ev": "once", "rem": before, "ok": false, "sig": sig.bits(), "avail": avail}));
                    return;
                }
            }
        }
    }

    fn step(&mut self, op: &Value, out: &mut Vec<Value>) {
        let a = op.as_array().unwrap();
        let name = a[0].as_str().unwrap();
        let mut cx = Context::from_waker(noop_waker_ref());
        match name {
            "open" => {
                let dir = a[1].as_str().unwrap();
                if dir == "bi" {
                    let mut fut = Box::pin(self.streams.open_bi(&self.params));
                    if let Poll::Ready(Ok(Some((sid, (r, w))))) = fut.as_mut().poll(&mut cx) {
                        let s = sid_json(sid);
                        self._readers.push(r);
                        self.writers.insert(s, w);
                        self.max_sd.insert(s, self.swin_bi);
                        out.push(json!({"ev": "open", "sid": s, "room": self.swin_bi}));
                    }
                } else {
                    let mut fut = Box::pin(self.streams.open_uni(&self.params));
                    if let Poll::Ready(Ok(Some((sid, w)))) = fut.as_mut().poll(&mut cx) {
                        let s = sid_json(sid);
                        self.writers.insert(s, w);
                        self.max_sd.insert(s, self.swin_uni);
                        out.push(json!({"ev": "open", "sid": s, "room": self.swin_uni}));
                    }
                }
            }
            "write" => {
                let (sid, n) = (a[1].as_u64().unwrap(), a[2].as_u64().unwrap());
                let Some(w) = self.writers.get_mut(&sid) else { return };
                let from = *self.written.get(&sid).unwrap_or(&0);
                let data: Vec<u8> = (from..from + n).map(|i| sbyte(sid, i)).collect();
                let (res, acc) = match w.poll_write(&mut cx, Bytes::from(data)) {
                    Poll::Ready(Ok(())) => ("ok", n),
                    Poll::Ready(Err(_)) => ("err", 0),
                    Poll::Pending => ("pending", 0),
                };
                *self.written.entry(sid).or_insert(0) += acc;
                out.push(json!({"ev": "write", "sid": sid, "n": n, "acc": acc, "res": res}));
            }
            "fin" => {
                let sid = a[1].as_u64().unwrap();
                let Some(w) = self.writers.get_mut(&sid) else { return };
                let res = match w.poll_shutdown(&mut cx) {
                    Poll::Ready(Ok(())) => "ok",
                    Poll::Ready(Err(_)) => "err",
                    Poll::Pending => "pending",
                };
                out.push(json!({"ev": "fin", "sid": sid, "res": res}));
            }
            "cancel" => {
                let sid = a[1].as_u64().unwrap();
                let Some(w) = self.writers.get_mut(&sid) else { return };
                w.cancel(7);
                out.push(json!({"ev": "cancel", "sid": sid, "by": "app"}));
            }
            "stop" => {
                let sid = a[1].as_u64().unwrap();
                if !self.writers.contains_key(&sid) {
                    return;
                }
                let f = StopSendingFrame::new(sid_from(sid), VarInt::from_u32(9));
                let res = self.streams.recv_frame(StreamCtlFrame::StopSending(f));
                out.push(json!({"ev": "cancel", "sid": sid, "by": "peer", "res": res.is_ok()}));
            }
            "ack" => {
                let sid = a[1].as_u64().unwrap();
                let frames = self.inflight.remove(&sid).unwrap_or_default();
                if frames.is_empty() {
                    return;
                }
                for f in &frames {
                    self.streams.on_data_acked(*f);
                }
                out.push(json!({"ev": "ack", "sid": sid, "n": frames.len()}));
            }
            "rstack" => {
                let sid = a[1].as_u64().unwrap();
                let f = {
                    let mut ctl = self.broker.ctl.lock().unwrap();
                    let pos = ctl.iter().position(|c| matches!(c, StreamCtlFrame::ResetStream(r) if sid_json(r.stream_id()) == sid));
                    pos.map(|p| ctl.remove(p))
                };
                let Some(StreamCtlFrame::ResetStream(r)) = f else { return };
                self.streams.on_reset_acked(r);
                out.push(json!({"ev": "rstack", "sid": sid}));
            }
            "wu" => {
                let (sid, inc) = (a[1].as_u64().unwrap(), a[2].as_u64().unwrap());
                let Some(cur) = self.max_sd.get_mut(&sid) else { return };
                *cur += inc;
                let v = *cur;
                let f = MaxStreamDataFrame::new(sid_from(sid), VarInt::from_u64(v).unwrap());
                let res = self.streams.recv_frame(StreamCtlFrame::MaxStreamData(f));
                out.push(json!({"ev": "wu", "sid": sid, "v": v, "res": res.is_ok()}));
            }
            "md" => {
                self.cmax += a[1].as_u64().unwrap();
                let res = self.flow.sender.recv_frame(MaxDataFrame::new(VarInt::from_u64(self.cmax).unwrap()));
                out.push(json!({"ev": "md", "v": self.cmax, "res": res.is_ok(), "avail": self.conn_avail()}));
            }
            "pack" => self.pack(a[1].as_u64().unwrap() as usize, out),
            o => panic!("unknown op {o}"),
        }
    }
}

fn run_one(cfg: &Value, ops: &[Value], out: &mut Out) {
    out.emit(&json!({"ev": "reset", "cfg": cfg, "ops": serde_json::to_string(ops).unwrap()}));
    let mut w = match guarded(|| make_world(cfg)) {
        Ok(w) => w,
        Err(msg) => {
            out.emit(&json!({"ev": "panic", "op": "setup", "msg": msg}));
            return;
        }
    };
    out.emit(&json!({"ev": "init", "credit": w.conn_avail()}));
    let mut all: Vec<Value> = ops.to_vec();
    // fair finish: packets with room keep being assembled until one stays empty
    let drain = cfg["drain"].as_u64().unwrap_or(0);
    for _ in 0..drain {
        all.push(json!(["pack", 1200]));
    }
    let nops = ops.len();
    for (i, op) in all.iter().enumerate() {
        let mut evs = vec![];
        let r = guarded(|| w.step(op, &mut evs));
        let empty_pack = evs.len() == 2 && evs[1]["ok"] == json!(false);
        for e in &evs {
            out.emit(e);
        }
        if let Err(msg) = r {
            out.emit(&json!({"ev": "panic", "op": op, "msg": msg}));
            std::mem::forget(w);
            return;
        }
        if i >= nops && empty_pack {
            break;
        }
    }
}

fn replay(args: &[String]) -> i32 {
    quiet_panics();
    let mut out = Out::create(&args[1]);
    let mut n = 0u64;
    for line in read_lines(&args[0]) {
        let v: Vec<Value> = serde_json::from_str(&line).expect("behaviour json");
        run_one(&v[0], &v[1..], &mut out);
        n += 1;
    }
    out.finish();
    println!("{{\"behaviours\": {n}}}");
    0
}

/// seeded long schedules
fn random(args: &[String]) -> i32 {
    let seed: u64 = args[0].parse().unwrap();
    let runs: u64 = args[1].parse().unwrap();
    let depth: u64 = args[2].parse().unwrap();
    let mut out = Out::create(&args[3]);
    let mut rng = Rng(seed);
    for run in 0..runs {
        let kind = run % 4;
        // 0: big windows (the scheduler alone decides), 1: small stream windows, 2: small connection window, 3: everything small
        let big = 1u64 << 24;
        let small = |rng: &mut Rng| match rng.below(3) { 0 => rng.range(0, 200), 1 => rng.range(200, 5000), _ => rng.range(5000, 20000) };
        let (swin_bi, swin_uni, cwin) = match kind {
            0 => (big, big, big),
            1 => (small(&mut rng), small(&mut rng), big),
            2 => (big, big, small(&mut rng) + small(&mut rng)),
            _ => (small(&mut rng), small(&mut rng), small(&mut rng) + small(&mut rng)),
        };
        let cfg = json!({"swin_bi": swin_bi, "swin_uni": swin_uni, "cwin": cwin, "streams": 8, "drain": 400});
        let mut ops = vec![cfg];
        let nopen = rng.range(2, 4);
        let mut sids: Vec<u64> = vec![];
        let (mut nbi, mut nuni) = (0u64, 0u64);
        let mut open = |rng: &mut Rng, ops: &mut Vec<Value>, sids: &mut Vec<u64>| {
            if rng.chance(1, 2) {
                ops.push(json!(["open", "bi"]));
                sids.push(nbi * 4);
                nbi += 1;
            } else {
                ops.push(json!(["open", "uni"]));
                sids.push(nuni * 4 + 2);
                nuni += 1;
            }
        };
        for _ in 0..nopen {
            open(&mut rng, &mut ops, &mut sids);
        }
        let wsize = |rng: &mut Rng| match rng.below(5) { 0 => rng.range(1, 30), 1 => rng.range(30, 1200), 2 => rng.range(1200, 4096), 3 => rng.range(4096, 9000), _ => 4096 };
        let cap = |rng: &mut Rng| match rng.below(6) { 0 => rng.range(1, 40), 1 => rng.range(40, 300), 2 => rng.range(4000, 12000), _ => rng.range(1000, 1500) };
        // a stream that the application keeps feeding faster than packets drain it
        let hog = sids[rng.below(sids.len() as u64) as usize];
        let hogging = run % 3 != 2;
        let mut step = 0;
        while step < depth {
            step += 1;
            let sid = sids[rng.below(sids.len() as u64) as usize];
            let c = rng.below(100);
            if hogging && c < 30 {
                ops.push(json!(["write", hog, rng.range(1500, 6000)]));
                ops.push(json!(["pack", cap(&mut rng)]));
                step += 1;
            } else if c < 45 {
                ops.push(json!(["write", sid, wsize(&mut rng)]));
            } else if c < 75 {
                ops.push(json!(["pack", cap(&mut rng)]));
            } else if c < 79 {
                ops.push(json!(["fin", sid]));
            } else if c < 81 {
                ops.push(json!(["cancel", sid]));
            } else if c < 82 {
                ops.push(json!(["stop", sid]));
            } else if c < 88 {
                ops.push(json!(["ack", sid]));
            } else if c < 90 {
                ops.push(json!(["rstack", sid]));
            } else if c < 94 {
                ops.push(json!(["wu", sid, small(&mut rng)]));
            } else if c < 97 {
                ops.push(json!(["md", small(&mut rng)]));
            } else if sids.len() < 8 {
                open(&mut rng, &mut ops, &mut sids);
            }
        }
        out.emit(&Value::Array(ops));
    }
    out.finish();
    0
}

fn main() {
    let args: Vec<String> = std::env::args().skip(1).collect();
    let rc = match args.first().map(|s| s.as_str()) {
        Some("replay") => replay(&args[1..]),
        Some("random") => random(&args[1..]),
        _ => {
            eprintln!("usage: vh-sched replay <beh> <trace> | random <seed> <runs> <depth> <out>");
            2
        }
    };
    std::process::exit(rc);
}
