//! Real rustls QUIC handshakes run in memory (client <-> server, no network, no packet protection of the CRYPTO data
//! itself) to obtain REAL Handshake / 0-RTT / 1-RTT keys and the 1-RTT `Secrets` that `OneRttPacketKeys` updates from.
use std::sync::Arc;

use rustls::{
    ClientConfig, DigitallySignedStruct, RootCertStore, ServerConfig, SignatureScheme,
    client::danger::{HandshakeSignatureValid, ServerCertVerified, ServerCertVerifier},
    crypto::CryptoProvider,
    pki_types::{CertificateDer, PrivateKeyDer, ServerName, UnixTime, pem::PemObject},
    quic::{ClientConnection, DirectionalKeys, KeyChange, Keys, Secrets, ServerConnection, Version},
};

/// The certificate chain is not what is under test: accept the repository's test certificate whatever the clock says.
#[derive(Debug)]
struct AcceptAny(Arc<CryptoProvider>);
impl ServerCertVerifier for AcceptAny {
    fn verify_server_cert(
        &self,
        _: &CertificateDer<'_>,
        _: &[CertificateDer<'_>],
        _: &ServerName<'_>,
        _: &[u8],
        _: UnixTime,
    ) -> Result<ServerCertVerified, rustls::Error> {
        Ok(ServerCertVerified::assertion())
    }
    fn verify_tls12_signature(
        &self,
        m: &[u8],
        c: &CertificateDer<'_>,
        d: &DigitallySignedStruct,
    ) -> Result<HandshakeSignatureValid, rustls::Error> {
        rustls::crypto::verify_tls12_signature(m, c, d, &self.0.signature_verification_algorithms)
    }
    fn verify_tls13_signature(
        &self,
        m: &[u8],
        c: &CertificateDer<'_>,
        d: &DigitallySignedStruct,
    ) -> Result<HandshakeSignatureValid, rustls::Error> {
        rustls::crypto::verify_tls13_signature(m, c, d, &self.0.signature_verification_algorithms)
    }
    fn supported_verify_schemes(&self) -> Vec<SignatureScheme> {
        self.0.signature_verification_algorithms.supported_schemes()
    }
}

pub struct TlsCtx {
    pub provider: Arc<CryptoProvider>,
    client: Arc<ClientConfig>,
    server: Arc<ServerConfig>,
}

/// Everything one handshake yields, per side.
pub struct SideKeys {
    pub handshake: Keys,
    pub one_rtt: Keys,
    pub secrets: Secrets,
    pub zero_rtt: Option<DirectionalKeys>,
}

impl TlsCtx {
    pub fn new(repo: &str) -> Self {
        let provider = Arc::new(rustls::crypto::ring::default_provider());
        let dir = format!("{repo}/tests/keychain/localhost");
        let chain: Vec<CertificateDer<'static>> =
            CertificateDer::pem_file_iter(format!("{dir}/server.cert")).expect("server.cert").map(|c| c.unwrap()).collect();
        let key = PrivateKeyDer::from_pem_file(format!("{dir}/server.key")).expect("server.key");
        let mut roots = RootCertStore::empty();
        for c in CertificateDer::pem_file_iter(format!("{dir}/ca.cert")).expect("ca.cert") {
            roots.add(c.unwrap()).unwrap();
        }
        let mut client = ClientConfig::builder_with_provider(provider.clone())
            .with_protocol_versions(&[&rustls::version::TLS13])
            .unwrap()
            .with_root_certificates(roots)
            .with_no_client_auth();
        client.dangerous().set_certificate_verifier(Arc::new(AcceptAny(provider.clone())));
        client.enable_early_data = true;
        client.alpn_protocols = vec![b"vh".to_vec()];
        let mut server = ServerConfig::builder_with_provider(provider.clone())
            .with_protocol_versions(&[&rustls::version::TLS13])
            .unwrap()
            .with_no_client_auth()
            .with_single_cert(chain, key)
            .unwrap();
        server.max_early_data_size = 0xffff_ffff;
        server.alpn_protocols = vec![b"vh".to_vec()];
        Self { provider, client: Arc::new(client), server: Arc::new(server) }
    }

    /// Initial keys exactly as qconnection::builder::initial_keys_with derives them.
    pub fn initial_keys(&self, origin_dcid: &[u8], side: rustls::Side) -> Keys {
        self.provider
            .cipher_suites
            .iter()
            .find_map(|cs| match (cs.suite(), cs.tls13()) {
                (rustls::CipherSuite::TLS13_AES_128_GCM_SHA256, Some(suite)) => Some(suite.quic_suite()),
                _ => None,
            })
            .flatten()
            .expect("crypto provider does not provide supported cipher suite")
            .keys(origin_dcid, side, Version::V1)
    }

    /// One complete handshake.  Returns (client side, server side).  From the second call on the client resumes and
    /// both sides also have 0-RTT keys.
    pub fn handshake(&self) -> (SideKeys, SideKeys) {
        let params = vec![0u8; 8];
        let mut c = ClientConnection::new(self.client.clone(), Version::V1, ServerName::try_from("localhost").unwrap(), params.clone()).unwrap();
        let mut s = ServerConnection::new(self.server.clone(), Version::V1, params).unwrap();
        let c0 = c.zero_rtt_keys();
        let mut s0 = None;
        let (mut chs, mut shs, mut c1, mut s1) = (None, None, None, None);
        let mut buf = Vec::new();
        for _ in 0..24 {
            let mut progress = false;
            loop {
                buf.clear();
                let kc = c.write_hs(&mut buf);
                if !buf.is_empty() {
                    s.read_hs(&buf).expect("server read_hs");
                    progress = true;
                    if s0.is_none() {
                        s0 = s.zero_rtt_keys();
                    }
                }
                match kc {
                    Some(KeyChange::Handshake { keys }) => chs = Some(keys),
                    Some(KeyChange::OneRtt { keys, next }) => c1 = Some((keys, next)),
                    None => break,
                }
            }
            loop {
                buf.clear();
                let kc = s.write_hs(&mut buf);
                if !buf.is_empty() {
                    c.read_hs(&buf).expect("client read_hs");
                    progress = true;
                }
                match kc {
                    Some(KeyChange::Handshake { keys }) => shs = Some(keys),
                    Some(KeyChange::OneRtt { keys, next }) => s1 = Some((keys, next)),
                    None => break,
                }
            }
            if !progress && !c.is_handshaking() && !s.is_handshaking() {
                break;
            }
        }
        assert!(!c.is_handshaking() && !s.is_handshaking(), "in-memory TLS handshake did not complete");
        let (ck, cs) = c1.expect("client 1-RTT keys");
        let (sk, ss) = s1.expect("server 1-RTT keys");
        (
            SideKeys { handshake: chs.expect("client hs keys"), one_rtt: ck, secrets: cs, zero_rtt: c0 },
            SideKeys { handshake: shs.expect("server hs keys"), one_rtt: sk, secrets: ss, zero_rtt: s0 },
        )
    }
}
