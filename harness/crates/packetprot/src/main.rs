//! vh-packetprot — C06 binding: assembles packets with the REAL PacketWriter + encrypt_and_protect_packet and REAL
//! rustls keys, runs the REAL receive path (PacketReader -> CipherPacket::decrypt_{long,short}_packet with the
//! RcvdJournal's decode_pn) on the genuine and on tampered datagrams, and records what happened.  Trace_PacketProt.tla
//! (TLC) judges the records.
//!
//!   vh-packetprot matrix <cases.ndjson> <trace.ndjson> <seed> <all_bits_up_to> <samples> [threads]
//!   vh-packetprot seq    <schedules.ndjson> <trace.ndjson> [threads]
#[path = "../../../src/util.rs"]
#[allow(dead_code)]
mod util;
mod tls;

use std::{collections::BTreeMap, sync::Arc, time::Duration};

use bytes::{BufMut, BytesMut};
use futures::FutureExt;
use qbase::{
    cid::ConnectionId,
    frame::AckFrame,
    varint::VarInt,
    packet::{
        AssemblePacket, DataHeader, GetDcid, GetScid, KeyPhaseBit, LongHeaderBuilder, OneRttHeader, Packet, PacketNumber,
        PacketReader, PacketWriter, SpinBit,
        decrypt::remove_protection_of_short_packet,
        header::long,
        keys::{ArcKeys, ArcOneRttKeys, ArcZeroRttKeys, DirectionalKeys},
    },
    role::Role,
};
use qinterface::component::route::CipherPacket;
use qrecovery::journal::ArcRcvdJournal;
use serde_json::{Value, json};
use util::{Out, Rng, guarded, quiet_panics, read_lines};

const PTO: Duration = Duration::from_millis(100);
/// RcvdJournal::MAX_PN_GAP (fix e72bd15): decode_pn refuses a number more than this far ahead of the next expected one
const STEP: u64 = 1 << 16;

thread_local! {
    /// which call into the code under test is running (for the record of a panic)
    static PHASE: std::cell::Cell<&'static str> = const { std::cell::Cell::new("setup") };
}
fn phase(p: &'static str) {
    PHASE.with(|c| c.set(p));
}
fn cur_phase_name() -> &'static str {
    PHASE.with(|c| c.get())
}

/// Put a RcvdJournal into the state "every packet up to `target` was received, acknowledged, and the acknowledgement
/// confirmed by the peer" using its public API only.  Done in steps of 2^16 numbers because the journal keeps one record
/// per number between the oldest tracked and the largest received one (a direct jump to 8.4 M would allocate 700 MB):
/// on_rcvd_pn (not ack-eliciting) -> gen_ack_frame_util (our packet `ack_pn` carries the ACK) -> on_rcvd_ack (the peer
/// acknowledges `ack_pn`) -> the records are confirmed and rotate out.  Afterwards the next expected number is target + 1.
fn advance(j: &ArcRcvdJournal, target: u64) {
    let (mut at, mut ack_pn) = (0u64, 0u64);
    loop {
        let next = (at + STEP).min(target);
        j.on_rcvd_pn(next, false, PTO);
        j.gen_ack_frame_util(ack_pn, next, tokio::time::Instant::now(), 64).expect("gen_ack_frame_util");
        let v = |x: u64| VarInt::from_u64(x).unwrap();
        j.on_rcvd_ack(&AckFrame::new(v(ack_pn), v(0), v(0), vec![], None));
        ack_pn += 1;
        at = next;
        if at >= target {
            break;
        }
    }
}

// ------------------------------------------------------------------------------------------------------------------
// endpoints: the key containers exactly as the spaces hold them

struct Endpoint {
    handshake: ArcKeys,
    zero: ArcZeroRttKeys,
    one: ArcOneRttKeys,
}

fn endpoint(k: tls::SideKeys, role: Role) -> Endpoint {
    let handshake = ArcKeys::new_pending();
    handshake.set_keys(k.handshake.into());
    let zero = ArcZeroRttKeys::new_pending(role);
    zero.set_keys(k.zero_rtt.expect("0-RTT keys (resumed handshake)").into());
    let one = ArcOneRttKeys::new_pending();
    one.set_keys(k.one_rtt, k.secrets);
    Endpoint { handshake, zero, one }
}

/// (client, server) of one fresh real handshake
fn pair(ctx: &tls::TlsCtx) -> (Endpoint, Endpoint) {
    let (c, s) = ctx.handshake();
    (endpoint(c, Role::Client), endpoint(s, Role::Server))
}

fn ctx_with_ticket() -> tls::TlsCtx {
    let repo = std::env::var("VERIF_REPO").unwrap_or_else(|_| "/repo".into());
    let ctx = tls::TlsCtx::new(&repo);
    let _ = ctx.handshake(); // the first handshake only fetches session tickets so that later ones have 0-RTT keys
    ctx
}

struct Receiver<'a> {
    ep: &'a Endpoint,
    initial: ArcKeys,
    j_initial: ArcRcvdJournal,
    j_handshake: ArcRcvdJournal,
    j_data: ArcRcvdJournal,
}

impl<'a> Receiver<'a> {
    fn new(ep: &'a Endpoint, initial: ArcKeys) -> Self {
        Self {
            ep,
            initial,
            j_initial: ArcRcvdJournal::with_capacity(16, None),
            j_handshake: ArcRcvdJournal::with_capacity(16, None),
            j_data: ArcRcvdJournal::with_capacity(16, None),
        }
    }
    fn journal(&self, sp: &str) -> &ArcRcvdJournal {
        match sp {
            "initial" => &self.j_initial,
            "handshake" => &self.j_handshake,
            _ => &self.j_data,
        }
    }
    fn cur_phase(&self) -> u8 {
        let (_, pk) = self.ep.one.remote_keys().unwrap();
        let (kp, _) = pk.lock_guard().get_local();
        u8::from(kp != KeyPhaseBit::Zero)
    }
}

#[derive(Debug, Clone, PartialEq)]
struct Delivered {
    sp: &'static str,
    dcid: Vec<u8>,
    scid: Vec<u8>,
    token: Vec<u8>,
    pn: u64,
    kp: Option<u8>,
    spin: Option<u8>,
    body: Vec<u8>,
}

#[derive(Debug)]
enum Got {
    Accepted(Delivered),
    Dropped(&'static str), // decrypt_* returned None
    ConnError,             // decrypt_* returned Some(Err(..)): reserved bits
    NonData(&'static str), // Version Negotiation / Retry: carries no frames
    ParseErr(&'static str),
}

fn parse_err_class(e: &qbase::packet::error::Error) -> &'static str {
    use qbase::packet::error::Error::*;
    match e {
        UnsupportedVersion(_) => "parse:version",
        InvalidFixedBit => "parse:fixedbit",
        IncompleteType(_) => "parse:incomplete_type",
        IncompleteHeader(..) => "parse:incomplete_header",
        IncompletePacket(..) => "parse:incomplete_packet",
        UnderSampling(..) => "parse:undersampling",
        RemoveProtectionFailure => "parse:hp",
        InvalidReservedBits(..) => "parse:reserved",
        DecryptPacketFailure => "parse:decrypt",
        #[allow(unreachable_patterns)]
        _ => "parse:other",
    }
}

/// The receive path: qtraversal::route (PacketReader over the datagram) -> RcvdPacketQueue::deliver (CipherPacket::new)
/// -> {Initial,Handshake,Data}Space::decrypt_*_packet (keys of the space, decode_pn of the space's RcvdJournal).
fn receive(dgram: &[u8], dcid_len: usize, rx: &Receiver) -> (Vec<Got>, Option<u8>) {
    let mut out = Vec::new();
    let mut kp_seen = None;
    for item in PacketReader::new(BytesMut::from(dgram), dcid_len) {
        let packet = match item {
            Err(e) => {
                out.push(Got::ParseErr(parse_err_class(&e)));
                continue;
            }
            Ok(Packet::VN(_)) => {
                out.push(Got::NonData("vn"));
                continue;
            }
            Ok(Packet::Retry(_)) => {
                out.push(Got::NonData("retry"));
                continue;
            }
            Ok(Packet::Data(p)) => p,
        };
        macro_rules! long {
            ($hdr:expr, $sp:expr, $keys:expr, $token:expr) => {{
                let hdr = $hdr;
                let (dcid, scid) = (hdr.dcid().to_vec(), hdr.scid().to_vec());
                let token: Vec<u8> = $token(&hdr);
                let journal = rx.journal($sp);
                let Some(keys) = $keys else {
                    out.push(Got::Dropped("nokeys"));
                    continue;
                };
                let cipher = CipherPacket::new(hdr, packet.bytes, packet.offset);
                match cipher.decrypt_long_packet(keys.header.as_ref(), keys.packet.as_ref(), |pn| journal.decode_pn(pn)) {
                    None => out.push(Got::Dropped("dropped")),
                    Some(Err(_)) => out.push(Got::ConnError),
                    Some(Ok(plain)) => out.push(Got::Accepted(Delivered {
                        sp: $sp,
                        dcid,
                        scid,
                        token,
                        pn: plain.pn(),
                        kp: None,
                        spin: None,
                        body: plain.body().to_vec(),
                    })),
                }
            }};
        }
        match packet.header {
            DataHeader::Long(long::DataHeader::Initial(h)) => {
                long!(h, "initial", rx.initial.get_remote_keys().now_or_never().flatten().map(|k| k.remote), |h: &long::InitialHeader| h.token().clone())
            }
            DataHeader::Long(long::DataHeader::Handshake(h)) => {
                long!(h, "handshake", rx.ep.handshake.get_remote_keys().now_or_never().flatten().map(|k| k.remote), |_h: &long::HandshakeHeader| Vec::new())
            }
            DataHeader::Long(long::DataHeader::ZeroRtt(h)) => {
                long!(h, "zerortt", rx.ep.zero.get_decrypt_keys().and_then(|f| f.now_or_never().flatten()), |_h: &long::ZeroRttHeader| Vec::new())
            }
            DataHeader::Short(h) => {
                let dcid = h.dcid().to_vec();
                let spin = Some(u8::from(h.spin() != SpinBit::Zero));
                let Some((hpk, pk)) = rx.ep.one.get_remote_keys().now_or_never().flatten() else {
                    out.push(Got::Dropped("nokeys"));
                    continue;
                };
                // the key-phase bit the receive path will see: the same function on a copy of the bytes
                let mut copy = packet.bytes.to_vec();
                let kp = match remove_protection_of_short_packet(hpk.as_ref(), &mut copy, packet.offset) {
                    Ok(Some((_, kp))) => Some(u8::from(kp != KeyPhaseBit::Zero)),
                    _ => None,
                };
                kp_seen = kp_seen.or(kp);
                let cipher = CipherPacket::new(h, packet.bytes, packet.offset);
                match cipher.decrypt_short_packet(hpk.as_ref(), &pk, |pn| rx.j_data.decode_pn(pn)) {
                    None => out.push(Got::Dropped("dropped")),
                    Some(Err(_)) => out.push(Got::ConnError),
                    Some(Ok(plain)) => out.push(Got::Accepted(Delivered {
                        sp: "onertt",
                        dcid,
                        scid: Vec::new(),
                        token: Vec::new(),
                        pn: plain.pn(),
                        kp,
                        spin,
                        body: plain.body().to_vec(),
                    })),
                }
            }
        }
    }
    (out, kp_seen)
}

// ------------------------------------------------------------------------------------------------------------------
// assembling

#[derive(Clone, Debug)]
struct Layout {
    regions: Vec<(&'static str, usize, usize)>, // name, first byte, length in bytes
}

struct Assembled {
    want: Delivered,
    dgram: Vec<u8>,
    layout: Layout,
    plen: usize,
    dcid_len: usize,
}

fn cid(len: usize, salt: u8) -> ConnectionId {
    let v: Vec<u8> = (0..len).map(|i| (i as u8).wrapping_mul(37).wrapping_add(salt)).collect();
    ConnectionId::from_slice(&v)
}

fn encoded_pn(pn: u64, acked: u64, plen: usize) -> PacketNumber {
    let e = match plen {
        1 => PacketNumber::U8(pn as u8), // PacketNumber::encode never chooses one byte (16-bit minimum); built directly
        _ => PacketNumber::encode(pn, acked),
    };
    assert_eq!(e.size(), plen, "pn {pn} acked {acked} does not encode to {plen} bytes");
    e
}

/// regions as this harness lays the packet out, cut to the bytes the writer really produced
fn clamp_regions(r: Vec<(&'static str, usize, usize)>, sent: usize) -> Vec<(&'static str, usize, usize)> {
    r.into_iter().map(|(n, start, len)| (n, start.min(sent), len.min(sent.saturating_sub(start)))).collect()
}

struct LongSpec<'a> {
    sp: &'static str,
    dcid: ConnectionId,
    scid: ConnectionId,
    token: &'a [u8],
}

/// body_len = None: fill the datagram of `dgram_size` bytes
fn assemble_long(s: &LongSpec, keys: DirectionalKeys, pn: u64, epn: PacketNumber, body: &[u8], dgram_size: Option<usize>) -> Assembled {
    phase("assemble");
    let b = LongHeaderBuilder::with_cid(s.dcid, s.scid);
    let tag = keys.packet.tag_len();
    let toklen_sz = if s.sp == "initial" { if s.token.len() < 64 { 1 } else { 2 } } else { 0 };
    let hdr_len = 1 + 4 + 1 + s.dcid.len() + 1 + s.scid.len() + toklen_sz + if s.sp == "initial" { s.token.len() } else { 0 };
    let size = dgram_size.unwrap_or(hdr_len + 2 + epn.size() + body.len() + tag);
    let mut buf = vec![0u8; size];
    let body_used;
    let sent = {
        macro_rules! go {
            ($h:expr) => {{
                let h = $h;
                let mut w = PacketWriter::new_long(&h, &mut buf, (pn, epn), keys).expect("PacketWriter::new_long");
                let n = if dgram_size.is_some() { w.remaining_mut() } else { body.len() };
                w.put_slice(&body[..n]);
                body_used = n;
                w.encrypt_and_protect_packet().0
            }};
        }
        match s.sp {
            "initial" => go!(b.initial(s.token.to_vec())),
            "zerortt" => go!(b.zero_rtt()),
            _ => go!(b.handshake()),
        }
    };
    // what the writer says it produced is what goes on the wire, whatever layout this harness expected
    let sent = sent.min(size);
    buf.truncate(sent);
    let d = s.dcid.len();
    let c = s.scid.len();
    let mut regions = vec![("first", 0, 1), ("version", 1, 4), ("dcil", 5, 1), ("dcid", 6, d), ("scil", 6 + d, 1), ("scid", 7 + d, c)];
    let mut o = 7 + d + c;
    if s.sp == "initial" {
        regions.push(("toklen", o, toklen_sz));
        o += toklen_sz;
        regions.push(("token", o, s.token.len()));
        o += s.token.len();
    }
    regions.push(("length", o, 2));
    o += 2;
    regions.push(("pn", o, epn.size()));
    o += epn.size();
    regions.push(("payload", o, body_used));
    o += body_used;
    regions.push(("tag", o, tag));
    let regions = clamp_regions(regions, sent);
    Assembled {
        want: Delivered {
            sp: s.sp,
            dcid: s.dcid.to_vec(),
            scid: s.scid.to_vec(),
            token: if s.sp == "initial" { s.token.to_vec() } else { Vec::new() },
            pn,
            kp: None,
            spin: None,
            body: body[..body_used].to_vec(),
        },
        dgram: buf,
        layout: Layout { regions },
        plen: epn.size(),
        dcid_len: d,
    }
}

/// 1-RTT packet with the sender's CURRENT keys, obtained the way DataSpace::new_packet obtains them
fn assemble_short(tx: &Endpoint, dcid: ConnectionId, pn: u64, epn: PacketNumber, body: &[u8], dgram_size: Option<usize>) -> Assembled {
    phase("assemble");
    let (hpk, pk) = tx.one.get_local_keys().expect("1-RTT keys");
    let (key_phase, pk) = pk.lock_guard().get_local();
    let keys = DirectionalKeys { header: hpk, packet: pk };
    let tag = keys.packet.tag_len();
    let h = OneRttHeader::new(SpinBit::Zero, dcid);
    let size = dgram_size.unwrap_or(1 + dcid.len() + epn.size() + body.len() + tag);
    let mut buf = vec![0u8; size];
    let body_used;
    let sent = {
        let mut w = PacketWriter::new_short(&h, &mut buf, (pn, epn), keys, key_phase).expect("PacketWriter::new_short");
        let n = if dgram_size.is_some() { w.remaining_mut() } else { body.len() };
        w.put_slice(&body[..n]);
        body_used = n;
        w.encrypt_and_protect_packet().0
    };
    let sent = sent.min(size);
    buf.truncate(sent);
    let d = dcid.len();
    let regions = clamp_regions(
        vec![("first", 0, 1), ("dcid", 1, d), ("pn", 1 + d, epn.size()), ("payload", 1 + d + epn.size(), body_used), ("tag", size - tag, tag)],
        sent,
    );
    Assembled {
        want: Delivered {
            sp: "onertt",
            dcid: dcid.to_vec(),
            scid: Vec::new(),
            token: Vec::new(),
            pn,
            kp: Some(u8::from(key_phase != KeyPhaseBit::Zero)),
            spin: Some(0),
            body: body[..body_used].to_vec(),
        },
        dgram: buf,
        layout: Layout { regions },
        plen: epn.size(),
        dcid_len: d,
    }
}

// ------------------------------------------------------------------------------------------------------------------
// presenting datagrams and recording

#[derive(Default)]
struct Tally {
    n: u64,
    nacc: u64,
    nident: u64,
    extra: u64,
    nconn: u64,
    outcomes: BTreeMap<&'static str, u64>,
    bad: Vec<i64>,
    kp: Option<u8>,
    panics: Vec<(i64, String)>,
}

/// Present one datagram; `pos` = flipped bit position (or -1).
fn present(t: &mut Tally, a: &Assembled, dgram: &[u8], rx: &Receiver, pos: i64) -> bool {
    t.n += 1;
    phase("rx");
    let gots = match guarded(|| receive(dgram, a.dcid_len, rx)) {
        Ok((g, kp)) => {
            t.kp = kp;
            g
        }
        Err(msg) => {
            *t.outcomes.entry("panic").or_default() += 1;
            if t.panics.len() < 4 {
                t.panics.push((pos, msg));
            }
            return false;
        }
    };
    let mut delivered = Vec::new();
    for (i, g) in gots.iter().enumerate() {
        let class = match g {
            Got::Accepted(d) => {
                delivered.push(d);
                "accepted"
            }
            Got::Dropped(c) => c,
            Got::ConnError => {
                t.nconn += 1;
                "conn_error"
            }
            Got::NonData(c) => c,
            Got::ParseErr(c) => c,
        };
        if i == 0 || matches!(g, Got::Accepted(_)) {
            *t.outcomes.entry(class).or_default() += 1;
        }
    }
    if delivered.is_empty() {
        return false;
    }
    t.nacc += 1;
    t.extra += delivered.len() as u64 - 1;
    if delivered.len() == 1 && *delivered[0] == a.want {
        t.nident += 1;
    }
    if t.bad.len() < 8 {
        t.bad.push(pos);
    }
    true
}

fn rx_event(a: &Assembled, gen_: u64, tamper: &str, keys: &str, t: &Tally, reg: bool, rx: &Receiver) -> Value {
    let mut e = json!({"ev": "rx", "sp": a.want.sp, "gen": gen_, "pn": a.want.pn, "plen": a.plen, "tamper": tamper, "keys": keys,
        "n": t.n, "nacc": t.nacc, "nident": t.nident, "extra": t.extra, "nconn": t.nconn, "reg": reg,
        "outcomes": t.outcomes, "bad": t.bad, "cur_phase": rx.cur_phase()});
    if t.n == 1 {
        e["kp"] = json!(t.kp.map(|k| k as i64).unwrap_or(-1));
    }
    e
}

fn flip(d: &[u8], bit: usize) -> Vec<u8> {
    let mut v = d.to_vec();
    v[bit / 8] ^= 0x80 >> (bit % 8);
    v
}

fn body_bytes(rng: &mut Rng, n: usize) -> Vec<u8> {
    (0..n).map(|_| rng.next() as u8).collect()
}

struct MatrixCfg {
    seed: u64,
    all_bits_up_to: usize,
    samples: usize,
}

/// One packet of the case matrix with all its tamper kinds = one run.
/// A panic anywhere in the code under test is data: the run ends with a panic record naming the phase, the next case goes on.
fn run_case(case: &Value, idx: usize, ctx: &tls::TlsCtx, other: &(Endpoint, Endpoint), cfg: &MatrixCfg, events: &mut Vec<Value>) {
    phase("setup");
    if let Err(msg) = guarded(|| run_case_inner(case, idx, ctx, other, cfg, events)) {
        if events.is_empty() {
            events.push(json!({"ev": "reset", "case": case, "idx": idx}));
        }
        events.push(json!({"ev": "panic", "phase": cur_phase_name(), "op": [cur_phase_name(), case["ty"], idx], "n": 1, "msg": msg, "case": case}));
    }
}

fn run_case_inner(case: &Value, idx: usize, ctx: &tls::TlsCtx, other: &(Endpoint, Endpoint), cfg: &MatrixCfg, events: &mut Vec<Value>) {
    let ty = case["ty"].as_str().unwrap();
    let tok = case["tok"].as_u64().unwrap() as usize;
    let gen_ = case["gen"].as_u64().unwrap();
    let dl = case["dcid"].as_u64().unwrap() as usize;
    let sl = case["scid"].as_u64().unwrap() as usize;
    let plen = case["plen"].as_u64().unwrap() as usize;
    let pay = case["pay"].as_str().unwrap();
    let kinds: Vec<String> = case["kinds"].as_array().unwrap().iter().map(|k| k.as_str().unwrap().to_string()).collect();
    let mut rng = Rng(cfg.seed ^ (idx as u64).wrapping_mul(0x9E37_79B9_7F4A_7C15));
    events.push(json!({"ev": "reset", "case": case, "idx": idx}));
    phase("keys");

    let (tx, rxe) = pair(ctx);
    let dcid = cid(dl, 0x11);
    let scid = cid(sl, 0xa3);
    let token = body_bytes(&mut rng, tok);
    let ini_tx = ArcKeys::with_keys(ctx.initial_keys(&dcid, rustls::Side::Client).into());
    let ini_rx = ArcKeys::with_keys(ctx.initial_keys(&dcid, rustls::Side::Server).into());
    let rx_far = Receiver::new(&rxe, ini_rx.clone());
    let rx = Receiver::new(&rxe, ini_rx);
    let mut other_dcid = dcid.to_vec();
    other_dcid.push(0x5a);
    other_dcid.truncate(20);
    if other_dcid == dcid.to_vec() {
        other_dcid[0] ^= 1;
    }
    let rx_other = Receiver::new(&other.1, ArcKeys::with_keys(ctx.initial_keys(&other_dcid, rustls::Side::Server).into()));

    let sp: &'static str = match ty {
        "initial" => "initial",
        "zerortt" => "zerortt",
        "handshake" => "handshake",
        _ => "onertt",
    };
    let pnspace = if sp == "zerortt" || sp == "onertt" { "data" } else { sp };
    // The packet of this case.  pn_len is forced by the SENDER's largest acknowledged number (PacketNumber::encode); the
    // receiver is up to date within the journal's window: it has received everything up to pn - 1 - lag.
    let (pn, acked): (u64, u64) = match plen {
        1 => (1003, 990),
        2 => (40_003, 39_990),
        3 => (140_003, 100_003),
        _ => (8_455_147, 66_447),
    };
    let lag: u64 = match (idx % 3, plen) {
        (0, _) => 0,
        (1, _) => 6,
        (_, 1) => 100,
        (_, 2) => 30_000,
        _ => STEP - 1,
    };
    let npre = if sp == "onertt" { gen_ } else { 0 };
    let p0 = pn - 1 - lag - npre;
    phase("journal");
    advance(rx.journal(sp), p0);
    events.push(json!({"ev": "position", "s": pnspace, "n": p0}));

    // 1-RTT after `gen` key updates: the sender updates, one genuine packet takes the receiver along, the receiver
    // drops the previous read key (phase_out, as the API documents)
    let mut next_pn = p0 + 1;
    if sp == "onertt" {
        for g in 1..=gen_ {
            {
                phase("supdate");
                tx.one.get_local_keys().unwrap().1.lock_guard().update();
            }
            events.push(json!({"ev": "supdate", "sgen": g}));
            let a = assemble_short(&tx, dcid, next_pn, encoded_pn(next_pn, next_pn - 1, 2), &body_bytes(&mut rng, 24), None);
            next_pn += 1;
            let mut t = Tally::default();
            let acc = present(&mut t, &a, &a.dgram, &rx, -1);
            if acc {
                {
                    phase("journal");
                    rx.j_data.on_rcvd_pn(a.want.pn, true, PTO);
                }
            }
            events.push(rx_event(&a, g, "none", "same", &t, acc, &rx));
            {
                phase("phaseout");
                rx.ep.one.remote_keys().unwrap().1.lock_guard().phase_out();
            }
            events.push(json!({"ev": "phaseout"}));
        }
    }
    let full = pay == "full";
    let body_len = match pay {
        "min" => std::cmp::max(1, 4usize.saturating_sub(plen)),
        "small" => 32,
        "medium" => 256,
        _ => 1200,
    };
    let body = body_bytes(&mut rng, body_len);
    let dsize = if full { Some(1200) } else { None };
    let build = |pn: u64, acked: u64| -> Assembled {
        let epn = encoded_pn(pn, acked, plen);
        match sp {
            "onertt" => assemble_short(&tx, dcid, pn, epn, &body, dsize),
            "initial" => assemble_long(&LongSpec { sp, dcid, scid, token: &token }, ini_tx.get_local_keys().unwrap().local, pn, epn, &body, dsize),
            "handshake" => assemble_long(&LongSpec { sp, dcid, scid, token: &[] }, tx.handshake.get_local_keys().unwrap().local, pn, epn, &body, dsize),
            _ => assemble_long(&LongSpec { sp, dcid, scid, token: &[] }, tx.zero.get_encrypt_keys().expect("client 0-RTT keys"), pn, epn, &body, dsize),
        }
    };
    let a = build(pn, acked);
    let note_panics = |t: &Tally, kind: &str, events: &mut Vec<Value>| {
        if let Some((pos, msg)) = t.panics.first() {
            let n = t.outcomes.get("panic").copied().unwrap_or(1);
            events.push(json!({"ev": "panic", "phase": "rx", "op": ["rx", sp, kind, pos, idx], "n": n, "msg": msg}));
        }
    };

    for kind in &kinds {
        let mut t = Tally::default();
        let k = kind.as_str();
        match k {
            "none" => {
                present(&mut t, &a, &a.dgram, &rx, -1);
                // NOT registered in the journal: the tampered copies below must get as far as the AEAD
                events.push(rx_event(&a, gen_, "none", "same", &t, false, &rx));
            }
            "trunc1" | "trunctag" | "extend1" => {
                let mut d = a.dgram.clone();
                match k {
                    "trunc1" => d.truncate(d.len() - 1),
                    "trunctag" => d.truncate(d.len() - 16),
                    _ => d.push(rng.next() as u8),
                }
                present(&mut t, &a, &d, &rx, -1);
                events.push(rx_event(&a, gen_, k, "same", &t, false, &rx));
            }
            "wrongkeys" => {
                present(&mut t, &a, &a.dgram, &rx_other, -1);
                events.push(rx_event(&a, gen_, "none", "other", &t, false, &rx_other));
            }
            "wrongpn" => {
                // the same packet number plus one window: the truncated number is identical, the receiver reconstructs
                // the number of the genuine packet, not this one
                let shift = 1u64 << (8 * plen);
                let b = build(pn + shift, if plen <= 2 { acked + shift } else { shift });
                present(&mut t, &b, &b.dgram, &rx, -1);
                events.push(rx_event(&b, gen_, "none", "same", &t, false, &rx));
            }
            "wronggen" => {
                // two further key updates on the sender only: same key-phase bit, different key
                for _ in 0..2 {
                    {
                phase("supdate");
                tx.one.get_local_keys().unwrap().1.lock_guard().update();
            }
                }
                events.push(json!({"ev": "supdate", "sgen": gen_ + 1}));
                events.push(json!({"ev": "supdate", "sgen": gen_ + 2}));
                let b = build(pn + 1, acked);
                present(&mut t, &b, &b.dgram, &rx, -1);
                events.push(rx_event(&b, gen_ + 2, "none", "same", &t, false, &rx));
            }
            region => {
                let &(_, start, len) = a.layout.regions.iter().find(|r| r.0 == region).unwrap_or_else(|| panic!("case {idx}: no region {region}"));
                let bits = len * 8;
                if bits == 0 {
                    continue; // the writer produced fewer bytes than the layout this harness expected
                }
                let positions: Vec<usize> = if bits <= cfg.all_bits_up_to {
                    (0..bits).collect()
                } else {
                    let mut v: Vec<usize> = (0..16).chain(bits - 16..bits).collect();
                    for _ in 0..cfg.samples {
                        v.push(rng.below(bits as u64) as usize);
                    }
                    v.sort_unstable();
                    v.dedup();
                    v
                };
                for p in positions {
                    let bit = start * 8 + p;
                    let d = flip(&a.dgram, bit);
                    present(&mut t, &a, &d, &rx, bit as i64);
                }
                events.push(rx_event(&a, gen_, region, "same", &t, false, &rx));
            }
        }
        note_panics(&t, k, events);
    }

    // A receiver that is MORE than 2^16 packets behind: the number reconstructs, but since e72bd15 the journal refuses the
    // jump (InvalidPacketNumber::TooLarge).  The judge leaves this case open ("either"); it is recorded as its own run.
    if sp != "onertt" && plen >= 3 && idx % 4 == 0 {
        let far = pn - 1 - 70_000;
        phase("journal");
        advance(rx_far.journal(sp), far);
        events.push(json!({"ev": "reset", "case": case, "idx": idx, "far": true}));
        events.push(json!({"ev": "position", "s": pnspace, "n": far}));
        let mut t = Tally::default();
        present(&mut t, &a, &a.dgram, &rx_far, -1);
        events.push(rx_event(&a, gen_, "none", "same", &t, false, &rx_far));
        note_panics(&t, "farbehind", events);
    }
}

fn threads_arg(a: Option<&String>) -> usize {
    a.and_then(|s| s.parse().ok())
        .or_else(|| std::env::var("VERIF_WORKERS").ok().and_then(|s| s.parse().ok()))
        .unwrap_or(4)
        .clamp(1, 16)
}

/// fan `n` jobs out over threads; each job appends its events to its own vector; results come back in job order
fn fan_out<F>(n: usize, threads: usize, f: F) -> Vec<Vec<Value>>
where
    F: Fn(usize, &tls::TlsCtx, &(Endpoint, Endpoint), &mut Vec<Value>) + Sync,
{
    let mut results: Vec<Vec<Value>> = (0..n).map(|_| Vec::new()).collect();
    let next = std::sync::atomic::AtomicUsize::new(0);
    let slots: Vec<std::sync::Mutex<&mut Vec<Value>>> = results.iter_mut().map(std::sync::Mutex::new).collect();
    std::thread::scope(|s| {
        for _ in 0..threads {
            s.spawn(|| {
                // (the TLS handshakes are rustls, not code under test; a failure here is a harness error)
                let ctx = ctx_with_ticket();
                let other = pair(&ctx);
                loop {
                    let i = next.fetch_add(1, std::sync::atomic::Ordering::Relaxed);
                    if i >= n {
                        break;
                    }
                    let mut ev = Vec::new();
                    f(i, &ctx, &other, &mut ev);
                    **slots[i].lock().unwrap() = ev;
                }
            });
        }
    });
    drop(slots);
    results
}

fn write_out(path: &str, results: Vec<Vec<Value>>) {
    let mut out = Out::create(path);
    for r in &results {
        for e in r {
            out.emit(e);
        }
    }
    out.finish();
}

fn matrix(args: &[String]) -> i32 {
    let cases: Vec<Value> = read_lines(&args[0]).map(|l| serde_json::from_str(&l).unwrap()).collect();
    let cfg = MatrixCfg { seed: args[2].parse().unwrap(), all_bits_up_to: args[3].parse().unwrap(), samples: args[4].parse().unwrap() };
    let threads = threads_arg(args.get(5));
    let results = fan_out(cases.len(), threads, |i, ctx, other, ev| run_case(&cases[i], i, ctx, other, &cfg, ev));
    write_out(&args[1], results);
    0
}

// ------------------------------------------------------------------------------------------------------------------
// key-phase schedules

fn run_schedule(ops: &Value, idx: usize, ctx: &tls::TlsCtx, events: &mut Vec<Value>) {
    phase("setup");
    if let Err(msg) = guarded(|| run_schedule_inner(ops, idx, ctx, events)) {
        if events.is_empty() {
            events.push(json!({"ev": "reset", "ops": ops, "idx": idx}));
        }
        events.push(json!({"ev": "panic", "phase": cur_phase_name(), "op": [cur_phase_name(), "onertt", idx], "n": 1, "msg": msg}));
    }
}

fn run_schedule_inner(ops: &Value, idx: usize, ctx: &tls::TlsCtx, events: &mut Vec<Value>) {
    events.push(json!({"ev": "reset", "ops": ops, "idx": idx}));
    phase("keys");
    let (tx, rxe) = pair(ctx);
    let dcid = cid(8, 0x42);
    let rx = Receiver::new(&rxe, ArcKeys::new_pending());
    let mut rng = Rng(idx as u64 + 1);
    let mut sgen = 0u64;
    let mut next_pn = 0u64;
    let mut held: Option<(Assembled, u64)> = None;
    let fresh = |tx: &Endpoint, next_pn: &mut u64, rng: &mut Rng| -> Assembled {
        let pn = *next_pn;
        *next_pn += 1;
        assemble_short(tx, dcid, pn, encoded_pn(pn, pn.saturating_sub(3), 2), &body_bytes(rng, 24), None)
    };
    for op in ops.as_array().unwrap() {
        let name = op[0].as_str().unwrap();
        let deliver = |a: &Assembled, dgram: &[u8], g: u64, tamper: &str, events: &mut Vec<Value>| {
            let mut t = Tally::default();
            let acc = present(&mut t, a, dgram, &rx, -1);
            if acc {
                {
                    phase("journal");
                    rx.j_data.on_rcvd_pn(a.want.pn, true, PTO);
                }
            }
            events.push(rx_event(a, g, tamper, "same", &t, acc, &rx));
            if let Some((pos, msg)) = t.panics.first() {
                events.push(json!({"ev": "panic", "phase": "rx", "op": ["rx", "onertt", tamper, pos, idx], "n": 1, "msg": msg}));
            }
        };
        match name {
            "s" => {
                let a = fresh(&tx, &mut next_pn, &mut rng);
                deliver(&a, &a.dgram, sgen, "none", events);
            }
            "f" => {
                // an attacker's copy with the key-phase bit flipped: header protection is an XOR mask, so flipping the
                // protected bit flips the bit the receiver sees
                let a = fresh(&tx, &mut next_pn, &mut rng);
                let mut d = a.dgram.clone();
                d[0] ^= 0x04;
                deliver(&a, &d, sgen, "phasebit", events);
            }
            "t" => {
                let a = fresh(&tx, &mut next_pn, &mut rng);
                let mut d = a.dgram.clone();
                let n = d.len();
                d[n - 20] ^= 0x10;
                deliver(&a, &d, sgen, "payload", events);
            }
            "u" => {
                // a packet of the old generation stays in the network (reordering) ...
                held = Some((fresh(&tx, &mut next_pn, &mut rng), sgen));
                // ... and the sender updates its keys
                {
                phase("supdate");
                tx.one.get_local_keys().unwrap().1.lock_guard().update();
            }
                sgen += 1;
                events.push(json!({"ev": "supdate", "sgen": sgen}));
            }
            "o" => {
                let (a, g) = held.take().expect("schedule delivers a held packet that does not exist");
                deliver(&a, &a.dgram, g, "none", events);
            }
            "p" => {
                {
                phase("phaseout");
                rx.ep.one.remote_keys().unwrap().1.lock_guard().phase_out();
            }
                events.push(json!({"ev": "phaseout", "cur_phase": rx.cur_phase()}));
            }
            other => panic!("unknown op {other}"),
        }
    }
}

fn seq(args: &[String]) -> i32 {
    let scheds: Vec<Value> = read_lines(&args[0]).map(|l| serde_json::from_str(&l).unwrap()).collect();
    let threads = threads_arg(args.get(2));
    let results = fan_out(scheds.len(), threads, |i, ctx, _other, ev| run_schedule(&scheds[i], i, ctx, ev));
    write_out(&args[1], results);
    0
}

fn main() {
    quiet_panics();
    let args: Vec<String> = std::env::args().collect();
    if args.len() < 2 {
        eprintln!("usage: vh-packetprot matrix|seq ...");
        std::process::exit(2);
    }
    let _keep: Arc<()> = Arc::new(());
    let code = match args[1].as_str() {
        "matrix" => matrix(&args[2..]),
        "seq" => seq(&args[2..]),
        other => {
            eprintln!("unknown command {other}");
            2
        }
    };
    std::process::exit(code);
}
