//! vh-antiamp — C15 binding: replays TLC-generated call sequences (Gen_AntiAmp) into the REAL
//! `qconnection::path::AntiAmplifier` (with the real `ArcSendWaker` it wakes and the real
//! `Constraints` built from its balance) and records one NDJSON event per call with the result,
//! the counter (as a signed 64-bit number: a wrapped counter shows up negative), the state and the
//! wake-ups issued.  Trace_AntiAmp.tla (TLC) is the judge.
#[path = "../../../src/util.rs"]
#[allow(dead_code)]
mod util;

use std::{
    future::Future,
    pin::pin,
    sync::{
        Arc, Mutex,
        atomic::{AtomicUsize, Ordering},
    },
    task::{Context, Poll, Wake, Waker},
};

use qbase::net::tx::{ArcSendWaker, Signals};
use qconnection::path::{AntiAmplifier, Constraints};
use serde_json::{Value, json};
use util::{Out, guarded, quiet_panics, read_lines};

/// The burst task as seen from its waker.  Besides counting, it performs the woken task's first step right inside
/// `wake` — asking for the balance — which reproduces deterministically the interleaving "the woken task (another worker
/// thread) runs before the waking thread executes its next statement".  What it saw is recorded with the call that woke it.
struct CountWaker {
    count: AtomicUsize,
    aa: Arc<AntiAmplifier>,
    seen: Mutex<Vec<Value>>,
}
impl Wake for CountWaker {
    fn wake(self: Arc<Self>) {
        self.wake_by_ref();
    }
    fn wake_by_ref(self: &Arc<Self>) {
        self.count.fetch_add(1, Ordering::SeqCst);
        let (kind, v) = classify(&self.aa, self.aa.balance());
        self.seen.lock().unwrap().push(json!({"r": kind, "v": v}));
    }
}

fn classify(aa: &AntiAmplifier, r: Result<Option<usize>, Signals>) -> (&'static str, i64) {
    match r {
        Ok(Some(usize::MAX)) if aa.verif_state().1 == 1 => ("max", 0i64),
        Ok(Some(c)) => ("credit", c as i64),
        Ok(None) => ("none", 0),
        Err(s) if s == Signals::CREDIT => ("wait", 0),
        Err(_) => ("wait-for-other-signal", 0),
    }
}

/// the segment cases of Gen_AntiAmp!GenSegCases (index is 1-based): (quota, buf, [(want, inflight)])
fn seg_case(i: u64) -> (Option<usize>, usize, Vec<(usize, bool)>) {
    match i {
        1 => (None, 1200, vec![(300, true), (1200, true)]),
        2 => (Some(500), 1200, vec![(300, false), (1200, true), (50, true)]),
        3 => (None, 100, vec![(60, true), (60, false)]),
        _ => panic!("unknown segment case {i}"),
    }
}

fn clip(x: usize) -> i64 {
    if x > (1usize << 29) { -1 } else { x as i64 }
}

struct World {
    tx_waker: ArcSendWaker,
    aa: Arc<AntiAmplifier>,
    count: Arc<CountWaker>,
    waker: Waker,
    /// what the burst task got from its last balance() (what it hands to Constraints::new)
    last_balance: Option<usize>,
}

impl World {
    fn new() -> Self {
        let tx_waker = ArcSendWaker::new();
        let aa = Arc::new(AntiAmplifier::new(tx_waker.clone()));
        let count = Arc::new(CountWaker { count: AtomicUsize::new(0), aa: aa.clone(), seen: Mutex::new(vec![]) });
        World {
            aa,
            tx_waker,
            waker: Waker::from(count.clone()),
            count,
            last_balance: None,
        }
    }

    fn obs(&self, mut ev: Value, wakes_before: usize) -> Value {
        let (credit, state) = self.aa.verif_state();
        let o = ev.as_object_mut().unwrap();
        o.insert("credit".into(), json!(credit as i64));
        o.insert("state".into(), json!(state));
        o.insert("wakes".into(), json!(self.count.count.load(Ordering::SeqCst) - wakes_before));
        o.insert("woke_saw".into(), Value::Array(std::mem::take(&mut *self.count.seen.lock().unwrap())));
        ev
    }

    fn step(&mut self, op: &Value) -> Value {
        let a = op.as_array().unwrap();
        let name = a[0].as_str().unwrap();
        let arg = |i: usize| a[i].as_u64().unwrap();
        let w0 = self.count.count.load(Ordering::SeqCst);
        match name {
            "rcvd" => {
                let n = arg(1) as usize;
                self.aa.on_rcvd(n);
                self.obs(json!({"ev": "rcvd", "n": n}), w0)
            }
            "balance" => {
                let r = self.aa.balance();
                let (kind, v) = classify(&self.aa, r);
                self.last_balance = r.ok().flatten();
                self.obs(json!({"ev": "balance", "r": kind, "v": v}), w0)
            }
            "sent" => {
                let n = arg(1) as usize;
                self.aa.on_sent(n);
                self.last_balance = None;
                self.obs(json!({"ev": "sent", "n": n}), w0)
            }
            "grant" => {
                self.aa.grant();
                self.obs(json!({"ev": "grant"}), w0)
            }
            "abort" => {
                self.aa.abort();
                self.obs(json!({"ev": "abort"}), w0)
            }
            "wait" => {
                // what `path.tx_waker.wait_for(s).await` does on one poll of the burst task
                let fut = pin!(self.tx_waker.wait_for(Signals::CREDIT));
                let mut cx = Context::from_waker(&self.waker);
                let r = match fut.poll(&mut cx) {
                    Poll::Ready(()) => "ready",
                    Poll::Pending => "pending",
                };
                self.obs(json!({"ev": "wait", "r": r}), w0)
            }
            "seg" => {
                // PacketsAssembler::new + assemble: Constraints::new(balance, quota); per packet constrain + commit
                let (quota, buf, pkts) = seg_case(arg(1));
                // the generator explores both debit outcomes; where the real object went the other way the burst
                // task holds no balance here and simply does not assemble anything
                let Some(limit) = self.last_balance else {
                    return self.obs(json!({"ev": "noop", "op": "seg"}), w0);
                };
                let mut cons = Constraints::new(limit, quota.unwrap_or(usize::MAX));
                let mut buffer = vec![0u8; buf];
                let mut off = 0usize;
                let mut takes = vec![];
                for (want, inflight) in &pkts {
                    let room = cons.constrain(&mut buffer[off..]).len();
                    let take = room.min(*want);
                    cons.commit(take, *inflight);
                    off += take;
                    takes.push(take);
                }
                let (cl, sq) = probe(&cons);
                let pk: Vec<Value> = pkts.iter().map(|(w, f)| json!({"want": w, "inflight": f})).collect();
                self.obs(
                    json!({"ev": "seg", "case": arg(1), "quota": quota.map(|q| q as i64).unwrap_or(-1), "buf": buf,
                           "pkts": pk, "takes": takes, "cl": cl, "sq": sq}),
                    w0,
                )
            }
            other => panic!("unknown op {other}"),
        }
    }
}

/// credit_limit and send_quota of a Constraints (fields are private; the derived Debug prints both)
fn probe(c: &Constraints) -> (i64, i64) {
    let s = format!("{c:?}");
    let field = |name: &str| -> i64 {
        let t = s.split(name).nth(1).unwrap_or_else(|| panic!("no {name} in {s}"));
        let digits: String = t.chars().skip_while(|c| !c.is_ascii_digit()).take_while(|c| c.is_ascii_digit()).collect();
        clip(digits.parse::<usize>().unwrap())
    };
    (field("credit_limit"), field("send_quota"))
}

fn replay(args: &[String]) -> i32 {
    let (beh, out) = (&args[0], &args[1]);
    let mut out = Out::create(out);
    quiet_panics();
    for line in read_lines(beh) {
        let ops: Value = serde_json::from_str(&line).unwrap();
        out.emit(&json!({"ev": "reset"}));
        let mut w = World::new();
        for op in ops.as_array().unwrap() {
            match guarded(|| w.step(op)) {
                Ok(ev) => out.emit(&ev),
                Err(msg) => {
                    out.emit(&json!({"ev": "panic", "op": op, "msg": msg}));
                    break;
                }
            }
        }
    }
    out.finish();
    0
}

fn main() {
    let args: Vec<String> = std::env::args().collect();
    let code = match args.get(1).map(|s| s.as_str()) {
        Some("replay") if args.len() == 4 => replay(&args[2..]),
        _ => {
            eprintln!("usage: vh-antiamp replay <behaviours.ndjson> <trace.ndjson>");
            2
        }
    };
    std::process::exit(code);
}
