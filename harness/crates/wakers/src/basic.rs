//! Adapters of the stack's waiter/notifier objects to the common `Inst` trait (public API only).
use std::{
    net::SocketAddr,
    sync::{Arc, Mutex},
    task::{Context, Poll},
};

use bytes::Bytes;
use qbase::{
    ArcReceiving,
    cid::{ArcCidCell, ArcRemoteCids, ConnectionId},
    error::{Error, ErrorKind, QuicError},
    frame::{
        CryptoFrame, DatagramFrame, FrameType, MaxStreamsFrame, NewConnectionIdFrame, RetireConnectionIdFrame, StreamsBlockedFrame,
        io::{ReceiveFrame, SendFrame},
    },
    net::{
        addr::EndpointAddr,
        route::Pathway,
        tx::{ArcSendWaker, ArcSendWakers, Signals},
    },
    packet::keys::{ArcKeys, ArcOneRttKeys, ArcZeroRttKeys},
    param::{ArcParameters, ClientParameters, ParameterId, Parameters, ServerParameters, handy},
    role::Role,
    sid::{ArcLocalStreamIds, Dir},
    util::ArcAsyncDeque,
    varint::VarInt,
};
use qconnection::path::AntiAmplifier;
use qdatagram::{DatagramIncoming, DatagramReader};
use qrecovery::crypto::CryptoStream;
use tokio::io::{AsyncRead, AsyncWrite, ReadBuf};

use crate::{Inst, Res, Spec, poll_once};

pub fn conn_error() -> Error {
    QuicError::new(ErrorKind::Internal, FrameType::Padding.into(), "verif: connection failed").into()
}

fn sig(c: char) -> Signals {
    match c {
        'a' => Signals::WRITTEN,
        'b' => Signals::CONGESTION,
        _ => panic!("unknown signal {c}"),
    }
}
fn sigs(need: &str) -> Signals {
    need.chars().fold(Signals::empty(), |acc, c| acc | sig(c))
}

// ---------------------------------------------------------------------------------------------------
// SendWaker / SendWakers: the condition flags live here and are read by `check` outside the SendWaker lock
// (as Burst does with the results of its load attempts); a notifier is flag(s) then notify(s).
struct SwInst {
    sws: Vec<ArcSendWaker>,
    all: Option<ArcSendWakers>,
    flags: [u32; 2],
    need: [Option<Signals>; 2],
}

fn pathway(i: u16) -> Pathway {
    let l: SocketAddr = format!("127.0.0.1:{}", 1000 + i).parse().unwrap();
    let r: SocketAddr = format!("127.0.0.2:{}", 2000 + i).parse().unwrap();
    Pathway::new(EndpointAddr::direct(l), EndpointAddr::direct(r))
}

impl SwInst {
    fn single() -> Box<dyn Inst> {
        Box::new(SwInst { sws: vec![ArcSendWaker::new()], all: None, flags: [0; 2], need: [None; 2] })
    }
    fn fanout_with(rotated: bool) -> Box<dyn Inst> {
        let all = ArcSendWakers::new();
        let sws = vec![ArcSendWaker::new(), ArcSendWaker::new()];
        for (i, sw) in sws.iter().enumerate() {
            all.insert(pathway(i as u16), sw);
        }
        if rotated {
            // an earlier, unrelated notification: the round-robin cursor of wake_all_by is no longer at its initial value
            all.wake_all_by(Signals::PING);
        }
        Box::new(SwInst { sws, all: Some(all), flags: [0; 2], need: [None; 2] })
    }
    fn fanout() -> Box<dyn Inst> {
        Self::fanout_with(false)
    }
    fn rotated() -> Box<dyn Inst> {
        Self::fanout_with(true)
    }
}

impl Inst for SwInst {
    fn consume(&self) -> bool {
        true
    }
    fn check(&mut self, w: usize, need: &str) -> Res {
        if w >= self.sws.len() {
            return None;
        }
        let mut any = false;
        for c in need.chars() {
            let i = (c as u8 - b'a') as usize;
            if self.flags[i] > 0 {
                self.flags[i] -= 1;
                any = true;
            }
        }
        if any {
            self.need[w] = None;
            Some("ready")
        } else {
            self.need[w] = Some(sigs(need));
            Some("need")
        }
    }
    fn wait(&mut self, w: usize, cx: &mut Context<'_>) -> Res {
        let s = self.need[w]?;
        match poll_once(self.sws[w].wait_for(s), cx) {
            Poll::Ready(()) => {
                self.need[w] = None;
                Some("ready")
            }
            Poll::Pending => Some("pending"),
        }
    }
    fn drop_waiter(&mut self, w: usize) -> Option<()> {
        self.need[w].take().map(|_| ())
    }
    fn flag(&mut self, s: &str) -> Option<()> {
        self.flags[(s.as_bytes()[0] - b'a') as usize] += 1;
        Some(())
    }
    fn notify(&mut self, s: &str) -> Option<()> {
        let sg = sig(s.chars().next().unwrap());
        match &self.all {
            Some(all) => all.wake_all_by(sg),
            None => self.sws[0].wake_by(sg),
        }
        Some(())
    }
}

// ---------------------------------------------------------------------------------------------------
struct Deque {
    q: ArcAsyncDeque<u32>,
    how: u8,
}
impl Inst for Deque {
    fn fresh_wakers(&self) -> bool {
        false // documented contract: one consumer task; a different waker while one is registered is a panic / assert
    }
    fn consume(&self) -> bool {
        true
    }
    fn poll(&mut self, _w: usize, cx: &mut Context<'_>) -> Res {
        Some(match self.q.poll_pop(cx) {
            Poll::Ready(Some(_)) => "ready",
            Poll::Ready(None) => "closed",
            Poll::Pending => "pending",
        })
    }
    fn set(&mut self) -> Option<()> {
        match self.how {
            0 => self.q.push_back(7),
            1 => self.q.push_front(7),
            _ => (&self.q).extend([7]),
        }
        Some(())
    }
    fn close(&mut self) -> Option<()> {
        self.q.close();
        Some(())
    }
}

// ---------------------------------------------------------------------------------------------------
/// qbase::Receiving: one-shot (Pending -> Rcvd -> Read); polled as the Future it implements
struct Recving {
    r: ArcReceiving<u32>,
    set: bool,
    done: bool,
}
impl Inst for Recving {
    fn consume(&self) -> bool {
        true
    }
    fn poll(&mut self, _w: usize, cx: &mut Context<'_>) -> Res {
        if self.done {
            return None; // a completed future is not polled again
        }
        Some(match poll_once(self.r.clone(), cx) {
            Poll::Ready(Ok(Some(_))) => {
                self.done = true;
                "ready"
            }
            Poll::Ready(Ok(None)) => "closed",
            Poll::Ready(Err(_)) => "closed",
            Poll::Pending => "pending",
        })
    }
    fn set(&mut self) -> Option<()> {
        if self.set || self.done {
            return None; // a second frame is ignored by design
        }
        self.set = true;
        self.r.recv_frame(7).ok()
    }
    fn close(&mut self) -> Option<()> {
        if self.done {
            return None;
        }
        self.r.reset();
        Some(())
    }
}

// ---------------------------------------------------------------------------------------------------
fn rustls_keys() -> rustls::quic::Keys {
    let provider = rustls::crypto::ring::default_provider();
    provider
        .cipher_suites
        .iter()
        .find_map(|cs| match (cs.suite(), cs.tls13()) {
            (rustls::CipherSuite::TLS13_AES_128_GCM_SHA256, Some(suite)) => Some(suite.quic_suite()),
            _ => None,
        })
        .flatten()
        .expect("ring provides TLS13_AES_128_GCM_SHA256")
        .keys(&[1, 2, 3, 4, 5, 6, 7, 8], rustls::Side::Client, rustls::quic::Version::V1)
}

enum AnyKeys {
    Long(ArcKeys),
    Zero(ArcZeroRttKeys),
    One(ArcOneRttKeys),
}
struct KeysInst {
    k: AnyKeys,
    set: bool,
    closed: bool,
}
impl Inst for KeysInst {
    fn fresh_wakers(&self) -> bool {
        false // documented contract: one consumer task; a different waker while one is registered is a panic / assert
    }
    fn consume(&self) -> bool {
        false
    }
    fn poll(&mut self, _w: usize, cx: &mut Context<'_>) -> Res {
        let some = match &self.k {
            AnyKeys::Long(k) => poll_once(k.get_remote_keys(), cx).map(|o| o.is_some()),
            AnyKeys::Zero(k) => poll_once(k.get_decrypt_keys().expect("server role"), cx).map(|o| o.is_some()),
            AnyKeys::One(k) => poll_once(k.get_remote_keys(), cx).map(|o| o.is_some()),
        };
        Some(match some {
            Poll::Ready(true) => "ready",
            Poll::Ready(false) => "closed",
            Poll::Pending => "pending",
        })
    }
    fn set(&mut self) -> Option<()> {
        if self.set || self.closed {
            return None; // documented: set once, never after invalidation
        }
        self.set = true;
        match &mut self.k {
            AnyKeys::Long(k) => k.set_keys(rustls_keys().into()),
            AnyKeys::Zero(k) => k.set_keys(rustls_keys().remote.into()),
            AnyKeys::One(k) => {
                let Some((keys, secrets)) = one_rtt_material() else {
                    eprintln!("vh-wakers: in-memory TLS 1.3 handshake did not yield 1-RTT keys; ArcOneRttKeys::set_keys not exercised");
                    return None;
                };
                k.set_keys(keys, secrets)
            }
        }
        Some(())
    }
    fn close(&mut self) -> Option<()> {
        if self.closed {
            return None; // ArcOneRttKeys::invalid twice is unreachable!() by design
        }
        self.closed = true;
        match &self.k {
            AnyKeys::Long(k) => drop(k.invalid()),
            AnyKeys::Zero(k) => drop(k.invalid()),
            AnyKeys::One(k) => drop(k.invalid()),
        }
        Some(())
    }
}

/// 1-RTT key material needs `rustls::quic::Secrets`, which only a real TLS 1.3 handshake produces
fn one_rtt_material() -> Option<(rustls::quic::Keys, rustls::quic::Secrets)> {
    crate::hooked::one_rtt_material()
}

// ---------------------------------------------------------------------------------------------------
struct Params {
    p: ArcParameters,
    role: Role,
    scid_first: bool,
    halves: u8,
    closed: bool,
    cp: ClientParameters,
    sp: ServerParameters,
    cscid: ConnectionId,
    sscid: ConnectionId,
}
impl Params {
    fn make(role: Role, scid_first: bool) -> Box<dyn Inst> {
        let mut cp: ClientParameters = handy::client_parameters();
        let mut sp: ServerParameters = handy::server_parameters();
        let odcid = ConnectionId::from_slice(&[1, 2, 3, 4, 5, 6, 7, 8]);
        let cscid = ConnectionId::from_slice(&[9, 9, 9, 9, 1, 1, 1, 1]);
        let sscid = ConnectionId::from_slice(&[7, 7, 7, 7, 2, 2, 2, 2]);
        cp.set(ParameterId::InitialSourceConnectionId, cscid).unwrap();
        sp.set(ParameterId::InitialSourceConnectionId, sscid).unwrap();
        sp.set(ParameterId::OriginalDestinationConnectionId, odcid).unwrap();
        let p: ArcParameters = match role {
            Role::Client => Parameters::new_client(cp.clone(), None, odcid).into(),
            Role::Server => Parameters::new_server(sp.clone()).into(),
        };
        Box::new(Params { p, role, scid_first, halves: 0, closed: false, cp, sp, cscid, sscid })
    }
    /// the two notifier calls that together make the remote parameters ready, in either order
    fn half(&mut self, scid: bool) -> Option<()> {
        let mut g = self.p.lock_guard().ok()?;
        if scid {
            g.initial_scid_from_peer_need_equal(if self.role == Role::Client { self.sscid } else { self.cscid }).ok()
        } else if self.role == Role::Client {
            g.recv_remote_params(self.sp.clone()).ok()
        } else {
            g.recv_remote_params(self.cp.clone()).ok()
        }
    }
}
impl Inst for Params {
    fn consume(&self) -> bool {
        false
    }
    fn poll(&mut self, _w: usize, cx: &mut Context<'_>) -> Res {
        Some(match poll_once(self.p.remote_ready(), cx) {
            Poll::Ready(Ok(_guard)) => "ready",
            Poll::Ready(Err(_)) => "closed",
            Poll::Pending => "pending",
        })
    }
    fn touch(&mut self) -> Option<()> {
        if self.halves != 0 || self.closed {
            return None;
        }
        self.halves = 1;
        self.half(self.scid_first)
    }
    fn set(&mut self) -> Option<()> {
        if self.halves != 1 || self.closed {
            return None;
        }
        self.halves = 2;
        self.half(!self.scid_first)
    }
    fn close(&mut self) -> Option<()> {
        self.closed = true;
        self.p.on_conn_error(&conn_error());
        Some(())
    }
}

// ---------------------------------------------------------------------------------------------------
#[derive(Clone, Default)]
struct Sink;
impl SendFrame<StreamsBlockedFrame> for Sink {
    fn send_frame<I: IntoIterator<Item = StreamsBlockedFrame>>(&self, _iter: I) {}
}
impl SendFrame<RetireConnectionIdFrame> for Sink {
    fn send_frame<I: IntoIterator<Item = RetireConnectionIdFrame>>(&self, _iter: I) {}
}

struct LocalSid {
    ids: ArcLocalStreamIds<Sink>,
    dir: Dir,
    max: u64,
}
impl Inst for LocalSid {
    fn consume(&self) -> bool {
        true
    }
    fn poll(&mut self, _w: usize, cx: &mut Context<'_>) -> Res {
        Some(match self.ids.poll_alloc_sid(cx, self.dir) {
            Poll::Ready(Some(_)) => "ready",
            Poll::Ready(None) => "closed",
            Poll::Pending => "pending",
        })
    }
    fn set(&mut self) -> Option<()> {
        self.max += 1;
        self.ids.recv_max_streams_frame(MaxStreamsFrame::with(self.dir, VarInt::from_u64(self.max).unwrap()));
        Some(())
    }
    /// MAX_STREAMS that does not raise the limit of this direction
    fn touch(&mut self) -> Option<()> {
        self.ids.recv_max_streams_frame(MaxStreamsFrame::with(self.dir, VarInt::from_u64(self.max).unwrap()));
        let other = if self.dir == Dir::Bi { Dir::Uni } else { Dir::Bi };
        self.ids.recv_max_streams_frame(MaxStreamsFrame::with(other, VarInt::from_u64(self.max + 1).unwrap()));
        Some(())
    }
}

// ---------------------------------------------------------------------------------------------------
struct Dgram {
    incoming: DatagramIncoming,
    reader: DatagramReader,
}
impl Inst for Dgram {
    fn consume(&self) -> bool {
        true
    }
    fn poll(&mut self, _w: usize, cx: &mut Context<'_>) -> Res {
        Some(match self.reader.poll_recv(cx) {
            Poll::Ready(Ok(_)) => "ready",
            Poll::Ready(Err(_)) => "closed",
            Poll::Pending => "pending",
        })
    }
    fn set(&mut self) -> Option<()> {
        let data = Bytes::from_static(b"dg");
        let r = self.incoming.recv_datagram(DatagramFrame::new(true, VarInt::from_u32(2)), data);
        // after a connection error the frame is refused: the call is legal and changes nothing
        let _ = r;
        Some(())
    }
    fn close(&mut self) -> Option<()> {
        self.incoming.on_conn_error(&conn_error());
        Some(())
    }
}

/// qbase::util::Wakers::combine_with: several tasks share one single-slot object through a combined waker
struct Combined {
    wakers: Arc<qbase::util::Wakers>,
    inner: Dgram,
}
impl Inst for Combined {
    fn consume(&self) -> bool {
        true
    }
    fn poll(&mut self, _w: usize, cx: &mut Context<'_>) -> Res {
        let reader = &self.inner.reader;
        Some(match self.wakers.combine_with(cx, |cx| reader.poll_recv(cx)) {
            Poll::Ready(Ok(_)) => "ready",
            Poll::Ready(Err(_)) => "closed",
            Poll::Pending => "pending",
        })
    }
    fn set(&mut self) -> Option<()> {
        self.inner.set()
    }
    fn close(&mut self) -> Option<()> {
        self.inner.close()
    }
}

/// qconnection::path::RecvBuffer (PATH_RESPONSE frames): write / receive / dismiss over ArcAsyncDeque
struct RecvBuf(qconnection::path::RecvBuffer<u32>);
impl Inst for RecvBuf {
    fn fresh_wakers(&self) -> bool {
        false // documented contract: one consumer task; a different waker while one is registered is a panic / assert
    }
    fn consume(&self) -> bool {
        true
    }
    fn poll(&mut self, _w: usize, cx: &mut Context<'_>) -> Res {
        Some(match poll_once(self.0.receive(), cx) {
            Poll::Ready(Some(_)) => "ready",
            Poll::Ready(None) => "closed",
            Poll::Pending => "pending",
        })
    }
    fn set(&mut self) -> Option<()> {
        self.0.write(7);
        Some(())
    }
    fn close(&mut self) -> Option<()> {
        self.0.dismiss();
        Some(())
    }
}

// ---------------------------------------------------------------------------------------------------
struct CryptoRead {
    s: CryptoStream,
    next: u64,
    far: u64,
}
impl Inst for CryptoRead {
    fn fresh_wakers(&self) -> bool {
        false // documented contract: one consumer task; a different waker while one is registered is a panic / assert
    }
    fn consume(&self) -> bool {
        true
    }
    fn poll(&mut self, _w: usize, cx: &mut Context<'_>) -> Res {
        let mut b = [0u8; 1];
        let mut rb = ReadBuf::new(&mut b);
        let mut rd = self.s.reader();
        Some(match std::pin::Pin::new(&mut rd).poll_read(cx, &mut rb) {
            Poll::Ready(Ok(())) if rb.filled().len() == 1 => "ready",
            Poll::Ready(_) => "closed",
            Poll::Pending => "pending",
        })
    }
    fn set(&mut self) -> Option<()> {
        let f = CryptoFrame::new(VarInt::from_u64(self.next).unwrap(), VarInt::from_u32(1));
        self.next += 1;
        self.s.incoming().recv_frame((f, Bytes::from_static(b"x"))).ok()
    }
    /// out-of-order data (never becomes contiguous within a run) and a duplicate of delivered data
    fn touch(&mut self) -> Option<()> {
        let f = CryptoFrame::new(VarInt::from_u64(self.far).unwrap(), VarInt::from_u32(1));
        self.far += 2;
        self.s.incoming().recv_frame((f, Bytes::from_static(b"y"))).ok()
    }
}

/// CryptoStreamWriter::poll_flush: ready when everything written was acknowledged
struct CryptoFlush {
    s: CryptoStream,
    acked: u64,
    total: u64,
}
impl CryptoFlush {
    fn make() -> Box<dyn Inst> {
        let s = CryptoStream::new(ArcSendWakers::default());
        let t = crate::Task::new();
        let mut cx = Context::from_waker(&t.waker);
        let mut w = s.writer();
        for _ in 0..3 {
            assert!(matches!(std::pin::Pin::new(&mut w).poll_write(&mut cx, b"z"), Poll::Ready(Ok(1))));
        }
        // put the three bytes on the wire
        let mut p = crate::Pkt::new(64);
        s.outgoing().try_load_data_into(&mut p, false).expect("crypto data loads");
        Box::new(CryptoFlush { s, acked: 0, total: 3 })
    }
}
impl Inst for CryptoFlush {
    fn fresh_wakers(&self) -> bool {
        false // documented contract: one consumer task; a different waker while one is registered is a panic / assert
    }
    fn consume(&self) -> bool {
        false
    }
    fn poll(&mut self, _w: usize, cx: &mut Context<'_>) -> Res {
        let mut w = self.s.writer();
        Some(match std::pin::Pin::new(&mut w).poll_flush(cx) {
            Poll::Ready(Ok(())) => "ready",
            Poll::Ready(Err(_)) => "closed",
            Poll::Pending => "pending",
        })
    }
    /// acknowledge one byte, not the last one
    fn touch(&mut self) -> Option<()> {
        if self.acked + 1 >= self.total {
            return None;
        }
        let f = CryptoFrame::new(VarInt::from_u64(self.acked).unwrap(), VarInt::from_u32(1));
        self.acked += 1;
        self.s.outgoing().on_data_acked(&f);
        Some(())
    }
    /// acknowledge everything outstanding
    fn set(&mut self) -> Option<()> {
        if self.acked >= self.total {
            return None;
        }
        let f = CryptoFrame::new(VarInt::from_u64(self.acked).unwrap(), VarInt::from_u64(self.total - self.acked).unwrap());
        self.acked = self.total;
        self.s.outgoing().on_data_acked(&f);
        Some(())
    }
}

// ---------------------------------------------------------------------------------------------------
struct Cell {
    remote: ArcRemoteCids<Sink>,
    cell: ArcCidCell<Sink>,
    sw: ArcSendWaker,
    need: Option<Signals>,
    seq: u64,
    closed: bool,
}
impl Inst for Cell {
    fn consume(&self) -> bool {
        false
    }
    fn check(&mut self, _w: usize, _need: &str) -> Res {
        Some(match self.cell.borrow_cid(self.sw.clone()) {
            Ok(Some(_borrowed)) => {
                self.need = None;
                "ready"
            }
            Ok(None) => {
                self.need = None;
                "closed"
            }
            Err(s) => {
                self.need = Some(s);
                "need"
            }
        })
    }
    fn wait(&mut self, _w: usize, cx: &mut Context<'_>) -> Res {
        let s = self.need?;
        Some(match poll_once(self.sw.wait_for(s), cx) {
            Poll::Ready(()) => {
                self.need = None;
                "ready"
            }
            Poll::Pending => "pending",
        })
    }
    fn drop_waiter(&mut self, _w: usize) -> Option<()> {
        self.need.take().map(|_| ())
    }
    fn set(&mut self) -> Option<()> {
        if self.closed {
            return None; // the path is gone: RemoteCids no longer serves this cell
        }
        let b = self.seq as u8 + 1;
        let cid = ConnectionId::from_slice(&[b, b, b, b, b ^ 0x55, 1, 2, 3]);
        let f = NewConnectionIdFrame::new(cid, VarInt::from_u64(self.seq).unwrap(), VarInt::from_u32(0));
        self.seq += 1;
        self.remote.recv_frame(f).ok().map(|_| ())
    }
    fn close(&mut self) -> Option<()> {
        self.closed = true;
        self.cell.retire();
        Some(())
    }
}

/// AntiAmplifier: balance() is the check, on_rcvd the notifier, abort / grant end the limit
struct Aa {
    aa: AntiAmplifier,
    sw: ArcSendWaker,
    need: Option<Signals>,
    grant: bool,
}
impl Inst for Aa {
    fn consume(&self) -> bool {
        true
    }
    fn check(&mut self, _w: usize, _need: &str) -> Res {
        Some(match self.aa.balance() {
            Ok(Some(usize::MAX)) => {
                self.need = None;
                "closed" // granted: no limit any more
            }
            Ok(Some(_credit)) => {
                self.aa.on_sent(3); // spend what one received byte bought
                self.need = None;
                "ready"
            }
            Ok(None) => {
                self.need = None;
                "closed"
            }
            Err(s) => {
                self.need = Some(s);
                "need"
            }
        })
    }
    fn wait(&mut self, _w: usize, cx: &mut Context<'_>) -> Res {
        let s = self.need?;
        Some(match poll_once(self.sw.wait_for(s), cx) {
            Poll::Ready(()) => {
                self.need = None;
                "ready"
            }
            Poll::Pending => "pending",
        })
    }
    fn drop_waiter(&mut self, _w: usize) -> Option<()> {
        self.need.take().map(|_| ())
    }
    fn set(&mut self) -> Option<()> {
        self.aa.on_rcvd(1);
        Some(())
    }
    fn close(&mut self) -> Option<()> {
        if self.grant { self.aa.grant() } else { self.aa.abort() }
        Some(())
    }
}

// ---------------------------------------------------------------------------------------------------
pub fn specs() -> Vec<Spec> {
    const SLOT1: &[&str] = &["slot1"];
    const SLOT2: &[&str] = &["slot2"];
    vec![
        Spec { name: "ArcSendWaker", classes: &["sw1"], make: SwInst::single,
               binds: "check = harness flags (outside the lock); wait = ArcSendWaker::wait_for(signals) polled once; notify = wake_by" },
        Spec { name: "ArcSendWakers", classes: &["sw2", "sw2ab"], make: SwInst::fanout,
               binds: "one ArcSendWaker per task inserted under its Pathway; notify = ArcSendWakers::wake_all_by" },
        Spec { name: "ArcSendWakers/rotated", classes: &["sw2", "sw2ab"], make: SwInst::rotated,
               binds: "as above, after an earlier wake_all_by(PING) (round-robin cursor not at its initial value)" },
        Spec { name: "AsyncDeque/push_back", classes: SLOT1, make: || Box::new(Deque { q: ArcAsyncDeque::new(), how: 0 }),
               binds: "poll = poll_pop; set = push_back; close = close" },
        Spec { name: "AsyncDeque/push_front", classes: SLOT1, make: || Box::new(Deque { q: ArcAsyncDeque::new(), how: 1 }),
               binds: "poll = poll_pop; set = push_front; close = close" },
        Spec { name: "AsyncDeque/extend", classes: SLOT1, make: || Box::new(Deque { q: ArcAsyncDeque::new(), how: 2 }),
               binds: "poll = poll_pop; set = Extend::extend; close = close" },
        Spec { name: "Receiving", classes: SLOT1, make: || Box::new(Recving { r: ArcReceiving::default(), set: false, done: false }),
               binds: "poll = <ArcReceiving as Future>::poll; set = recv_frame; close = reset" },
        Spec { name: "ArcKeys", classes: SLOT1, make: || Box::new(KeysInst { k: AnyKeys::Long(ArcKeys::new_pending()), set: false, closed: false }),
               binds: "poll = get_remote_keys().poll; set = set_keys; close = invalid" },
        Spec { name: "ArcZeroRttKeys", classes: SLOT1,
               make: || Box::new(KeysInst { k: AnyKeys::Zero(ArcZeroRttKeys::new_pending(Role::Server)), set: false, closed: false }),
               binds: "poll = get_decrypt_keys().poll; set = set_keys; close = invalid" },
        Spec { name: "ArcOneRttKeys", classes: SLOT1,
               make: || Box::new(KeysInst { k: AnyKeys::One(ArcOneRttKeys::new_pending()), set: false, closed: false }),
               binds: "poll = get_remote_keys().poll; set = set_keys(keys, secrets of a real TLS handshake); close = invalid" },
        Spec { name: "Parameters/client/scid-first", classes: SLOT2, make: || Params::make(Role::Client, true),
               binds: "poll = remote_ready().poll; touch = initial_scid_from_peer_need_equal; set = recv_remote_params; close = on_conn_error" },
        Spec { name: "Parameters/client/params-first", classes: SLOT2, make: || Params::make(Role::Client, false),
               binds: "poll = remote_ready().poll; touch = recv_remote_params; set = initial_scid_from_peer_need_equal; close = on_conn_error" },
        Spec { name: "Parameters/server/params-first", classes: SLOT2, make: || Params::make(Role::Server, false),
               binds: "as above on Parameters::new_server" },
        Spec { name: "LocalStreamIds/bi", classes: SLOT2,
               make: || Box::new(LocalSid { ids: ArcLocalStreamIds::new(Role::Client, 0, 0, Sink, ArcSendWakers::default()), dir: Dir::Bi, max: 0 }),
               binds: "poll = poll_alloc_sid(Bi); set = recv_max_streams_frame(max+1); touch = MAX_STREAMS not raising the limit / other direction" },
        Spec { name: "LocalStreamIds/uni", classes: SLOT2,
               make: || Box::new(LocalSid { ids: ArcLocalStreamIds::new(Role::Server, 0, 0, Sink, ArcSendWakers::default()), dir: Dir::Uni, max: 0 }),
               binds: "poll = poll_alloc_sid(Uni); set = recv_max_streams_frame(max+1)" },
        Spec { name: "DatagramReader", classes: SLOT1,
               make: || { let incoming = DatagramIncoming::new(1200); let reader = incoming.new_reader().unwrap(); Box::new(Dgram { incoming, reader }) },
               binds: "poll = poll_recv; set = DatagramIncoming::recv_datagram; close = on_conn_error" },
        Spec { name: "Wakers/combine_with", classes: SLOT2,
               make: || { let incoming = DatagramIncoming::new(1200); let reader = incoming.new_reader().unwrap();
                          Box::new(Combined { wakers: Arc::new(qbase::util::Wakers::new()), inner: Dgram { incoming, reader } }) },
               binds: "two tasks poll DatagramReader::poll_recv through qbase::util::Wakers::combine_with; set = recv_datagram; close = on_conn_error" },
        Spec { name: "RecvBuffer", classes: SLOT1, make: || Box::new(RecvBuf(qconnection::path::RecvBuffer::new())),
               binds: "poll = receive().poll; set = write; close = dismiss" },
        Spec { name: "CryptoStreamReader", classes: SLOT1,
               make: || Box::new(CryptoRead { s: CryptoStream::new(ArcSendWakers::default()), next: 0, far: 1000 }),
               binds: "poll = AsyncRead::poll_read(1 byte); set = incoming().recv_frame(next byte); touch = out-of-order frame" },
        Spec { name: "CryptoStreamWriter/flush", classes: SLOT1, make: CryptoFlush::make,
               binds: "3 bytes written and sent; poll = AsyncWrite::poll_flush; touch = on_data_acked(one byte, not last); set = on_data_acked(rest)" },
        Spec { name: "CidCell", classes: &["cellF"],
               make: || { let remote = ArcRemoteCids::new(8, Sink); let cell = remote.apply_dcid();
                          Box::new(Cell { remote, cell, sw: ArcSendWaker::new(), need: None, seq: 0, closed: false }) },
               binds: "check = ArcCidCell::borrow_cid(tx_waker); wait = tx_waker.wait_for(CONNECTION_ID); set = NEW_CONNECTION_ID via ArcRemoteCids::recv_frame; close = retire" },
        Spec { name: "AntiAmplifier/abort", classes: &["cellT"],
               make: || { let sw = ArcSendWaker::new(); Box::new(Aa { aa: AntiAmplifier::new(sw.clone()), sw, need: None, grant: false }) },
               binds: "check = balance (+ on_sent of one unit); wait = tx_waker.wait_for(CREDIT); set = on_rcvd(1); close = abort" },
        Spec { name: "AntiAmplifier/grant", classes: &["cellT"],
               make: || { let sw = ArcSendWaker::new(); Box::new(Aa { aa: AntiAmplifier::new(sw.clone()), sw, need: None, grant: true }) },
               binds: "as above; close = grant" },
    ]
}

#[allow(dead_code)]
fn _unused(_: Arc<Mutex<()>>) {}
