//! Instances that need more than the public API:
//! * `SendBuffer::write` consists of two critical sections (signal the send task; store the frame).  Under
//!   `cfg(gmquic_verif)` the code tells a thread-local sink when each one has completed; the call runs on a
//!   helper thread that is held at the first sync point, so that the other task's calls can be placed
//!   between the two critical sections - the granularity the property quantifies over.
//! * 1-RTT keys need `rustls::quic::Secrets`, which only a real TLS 1.3 handshake produces.
use std::{
    sync::{Arc, mpsc},
    task::{Context, Poll},
    thread::JoinHandle,
    time::Duration,
};

use qbase::{
    frame::PingFrame,
    net::tx::{ArcSendWaker, Signals},
};
use qconnection::path::{SendBuffer, sendbuf_verif};
use serde_json::{Value, json};

use crate::{Extra, Inst, Pkt, Res, Spec, poll_once};

struct Helper {
    points: mpsc::Receiver<&'static str>,
    go: mpsc::Sender<()>,
    handle: JoinHandle<()>,
}

struct SendBuf {
    buf: Arc<SendBuffer<PingFrame>>,
    sw: ArcSendWaker,
    need: Option<Signals>,
    helper: Option<Helper>,
    /// a frame is in the buffer (it holds one frame: a second write would overwrite, which is not a second token)
    present: bool,
}

fn point_event(p: &str, op: Option<&str>) -> Value {
    let mut e = match p {
        "notified" => json!({"ev": "notified", "s": "a"}),
        "stored" => json!({"ev": "stored", "s": "a"}),
        "done" => json!({"ev": "ndone", "s": "a"}),
        o => panic!("unknown sync point {o}"),
    };
    if let Some(op) = op {
        e["op"] = json!(op);
    }
    e
}

impl Inst for SendBuf {
    fn consume(&self) -> bool {
        true
    }
    /// the send task's load attempt: takes the frame if there is one
    fn check(&mut self, _w: usize, _need: &str) -> Res {
        let mut pkt = Pkt::new(64);
        Some(match self.buf.try_load_frames_into(&mut pkt) {
            Ok(()) => {
                self.need = None;
                self.present = false;
                "ready"
            }
            Err(s) => {
                self.need = Some(s);
                "need"
            }
        })
    }
    fn wait(&mut self, _w: usize, cx: &mut Context<'_>) -> Res {
        let s = self.need?;
        Some(match poll_once(self.sw.wait_for(s), cx) {
            Poll::Ready(()) => {
                self.need = None;
                "ready"
            }
            Poll::Pending => "pending",
        })
    }
    fn drop_waiter(&mut self, _w: usize) -> Option<()> {
        self.need.take().map(|_| ())
    }
    /// start `write` on a helper thread and run it to the end of its first critical section
    fn nbegin(&mut self) -> Option<Extra> {
        if self.helper.is_some() || self.present {
            return None;
        }
        let (ptx, prx) = mpsc::channel::<&'static str>();
        let (gtx, grx) = mpsc::channel::<()>();
        let buf = self.buf.clone();
        let handle = std::thread::spawn(move || {
            let tx = ptx.clone();
            let mut held = false;
            sendbuf_verif::set_sink(Some(Box::new(move |p| {
                let _ = tx.send(p);
                if !held {
                    held = true;
                    let _ = grx.recv();
                }
            })));
            buf.write(PingFrame);
            sendbuf_verif::set_sink(None);
            let _ = ptx.send("done");
        });
        let first = prx.recv_timeout(Duration::from_secs(20)).expect("SendBuffer::write reaches its first sync point");
        self.present |= first == "stored";
        self.helper = Some(Helper { points: prx, go: gtx, handle });
        Some(vec![point_event(first, Some("nbegin"))])
    }
    /// let `write` run to completion
    fn nend(&mut self) -> Option<Extra> {
        let h = self.helper.take()?;
        let _ = h.go.send(());
        let mut evs = vec![];
        loop {
            let p = h.points.recv_timeout(Duration::from_secs(20)).expect("SendBuffer::write completes");
            self.present |= p == "stored";
            evs.push(point_event(p, if p == "done" { Some("nend") } else { None }));
            if p == "done" {
                break;
            }
        }
        let _ = h.handle.join();
        Some(evs)
    }
    fn finish(&mut self) {
        if let Some(h) = self.helper.take() {
            let _ = h.go.send(());
            let _ = h.handle.join();
        }
    }
}

// ---------------------------------------------------------------------------------------------------
/// Runs a TLS 1.3 handshake between a rustls QUIC client and server in memory (certificates of the repository's
/// test keychain) and returns the client's 1-RTT keys and secrets.
pub fn one_rtt_material() -> Option<(rustls::quic::Keys, rustls::quic::Secrets)> {
    use rustls::{
        pki_types::{CertificateDer, PrivateKeyDer, pem::PemObject},
        quic::{ClientConnection, KeyChange, ServerConnection, Version},
    };
    let repo = std::env::var("VERIF_REPO").unwrap_or_else(|_| "/repo".to_string());
    let dir = format!("{repo}/tests/keychain/localhost");
    let provider = Arc::new(rustls::crypto::ring::default_provider());
    let mut roots = rustls::RootCertStore::empty();
    for c in CertificateDer::pem_file_iter(format!("{dir}/ca.cert")).ok()? {
        roots.add(c.ok()?).ok()?;
    }
    let certs: Vec<CertificateDer<'static>> = CertificateDer::pem_file_iter(format!("{dir}/server.cert")).ok()?.filter_map(|c| c.ok()).collect();
    let key = PrivateKeyDer::from_pem_file(format!("{dir}/server.key")).ok()?;
    let mut ccfg = rustls::ClientConfig::builder_with_provider(provider.clone())
        .with_protocol_versions(&[&rustls::version::TLS13])
        .ok()?
        .with_root_certificates(roots)
        .with_no_client_auth();
    ccfg.alpn_protocols = vec![b"h3".to_vec()];
    let mut scfg = rustls::ServerConfig::builder_with_provider(provider)
        .with_protocol_versions(&[&rustls::version::TLS13])
        .ok()?
        .with_no_client_auth()
        .with_single_cert(certs, key)
        .ok()?;
    scfg.alpn_protocols = vec![b"h3".to_vec()];
    let mut client = ClientConnection::new(Arc::new(ccfg), Version::V1, "localhost".try_into().ok()?, vec![0x0f, 0x00]).ok()?;
    let mut server = ServerConnection::new(Arc::new(scfg), Version::V1, vec![0x0f, 0x00]).ok()?;
    let mut result = None;
    for _ in 0..10 {
        let mut buf = Vec::new();
        let kc = client.write_hs(&mut buf);
        if let Some(KeyChange::OneRtt { keys, next }) = kc {
            result = Some((keys, next));
        }
        if !buf.is_empty() {
            server.read_hs(&buf).ok()?;
        }
        // a key change is reported per write_hs call: drain the server's flights one at a time
        loop {
            let mut buf = Vec::new();
            let kc = server.write_hs(&mut buf);
            if !buf.is_empty() {
                client.read_hs(&buf).ok()?;
            }
            if kc.is_none() && buf.is_empty() {
                break;
            }
        }
        if result.is_some() {
            break;
        }
    }
    result
}

pub fn specs() -> Vec<Spec> {
    vec![Spec {
        name: "SendBuffer",
        classes: &["swh"],
        make: || {
            let sw = ArcSendWaker::new();
            Box::new(SendBuf { buf: Arc::new(SendBuffer::new(sw.clone())), sw, need: None, helper: None, present: false })
        },
        binds: "check = try_load_frames_into; wait = tx_waker.wait_for(TRANSPORT); nbegin/nend = SendBuffer::write on a helper thread held between its \
                two critical sections (cfg(gmquic_verif) sync points `notified` / `stored`)",
    }]
}
