//! Stream reader / writer / listener waiters over one real `DataStreams` endpoint; the peer is played by the
//! adapter, which hands the endpoint the frames a peer would send (STREAM, MAX_STREAM_DATA, MAX_STREAMS,
//! RESET_STREAM, STOP_SENDING) and the acknowledgements of what the endpoint put into packets.
use std::{
    pin::Pin,
    sync::{Arc, Mutex},
    task::{Context, Poll},
};

use bytes::Bytes;
use qbase::{
    cid::ConnectionId,
    flow::FlowController,
    frame::{
        DataBlockedFrame, MaxDataFrame, MaxStreamDataFrame, MaxStreamsFrame, ResetStreamFrame, StopSendingFrame, StreamCtlFrame, StreamFrame,
        io::{ReceiveFrame, SendFrame},
    },
    net::tx::ArcSendWakers,
    param::{ArcParameters, ClientParameters, ParameterId, Parameters, ServerParameters, handy},
    role::Role,
    sid::{Dir, StreamId, handy::ConsistentConcurrency},
    varint::VarInt,
};
use qrecovery::{
    recv::Reader,
    send::Writer,
    streams::{DataStreams, Ext},
};
use tokio::io::{AsyncRead, ReadBuf};

use crate::{Inst, Pkt, Res, Spec, basic::conn_error, poll_once};

#[derive(Clone, Default, Debug)]
pub struct Broker {
    ctl: Arc<Mutex<Vec<StreamCtlFrame>>>,
}
impl SendFrame<StreamCtlFrame> for Broker {
    fn send_frame<I: IntoIterator<Item = StreamCtlFrame>>(&self, iter: I) {
        self.ctl.lock().unwrap().extend(iter);
    }
}
impl SendFrame<DataBlockedFrame> for Broker {
    fn send_frame<I: IntoIterator<Item = DataBlockedFrame>>(&self, _iter: I) {}
}
impl SendFrame<MaxDataFrame> for Broker {
    fn send_frame<I: IntoIterator<Item = MaxDataFrame>>(&self, _iter: I) {}
}

fn v(x: u64) -> VarInt {
    VarInt::from_u64(x).unwrap()
}

/// One endpoint after the handshake: `role` is ours; the peer's parameters are `peer_*`.
struct End {
    streams: DataStreams<Broker>,
    flow: FlowController<Broker>,
    params: ArcParameters,
}

struct PeerLimits {
    streams_bidi: u64,
    streams_uni: u64,
    data_bidi_remote: u64,
    data_bidi_local: u64,
    data_uni: u64,
}

fn endpoint(role: Role, peer: PeerLimits) -> End {
    let mut cp: ClientParameters = handy::client_parameters();
    let mut sp: ServerParameters = handy::server_parameters();
    let odcid = ConnectionId::from_slice(&[1, 2, 3, 4, 5, 6, 7, 8]);
    let cscid = ConnectionId::from_slice(&[9, 9, 9, 9, 1, 1, 1, 1]);
    let sscid = ConnectionId::from_slice(&[7, 7, 7, 7, 2, 2, 2, 2]);
    cp.set(ParameterId::InitialSourceConnectionId, cscid).unwrap();
    sp.set(ParameterId::InitialSourceConnectionId, sscid).unwrap();
    sp.set(ParameterId::OriginalDestinationConnectionId, odcid).unwrap();
    // our own limits are generous; the peer's are what the instance is about
    let ours: [(ParameterId, u64); 6] = [
        (ParameterId::InitialMaxData, 1 << 20),
        (ParameterId::InitialMaxStreamDataBidiLocal, 1000),
        (ParameterId::InitialMaxStreamDataBidiRemote, 1000),
        (ParameterId::InitialMaxStreamDataUni, 1000),
        (ParameterId::InitialMaxStreamsBidi, 16),
        (ParameterId::InitialMaxStreamsUni, 16),
    ];
    let theirs: [(ParameterId, u64); 6] = [
        (ParameterId::InitialMaxData, 1 << 20),
        (ParameterId::InitialMaxStreamDataBidiLocal, peer.data_bidi_local),
        (ParameterId::InitialMaxStreamDataBidiRemote, peer.data_bidi_remote),
        (ParameterId::InitialMaxStreamDataUni, peer.data_uni),
        (ParameterId::InitialMaxStreamsBidi, peer.streams_bidi),
        (ParameterId::InitialMaxStreamsUni, peer.streams_uni),
    ];
    let broker = Broker::default();
    let wakers = ArcSendWakers::default();
    let conc = Box::new(ConsistentConcurrency::new(16, 16));
    match role {
        Role::Client => {
            for (id, x) in ours {
                cp.set(id, v(x)).unwrap();
            }
            for (id, x) in theirs {
                sp.set(id, v(x)).unwrap();
            }
            let streams = DataStreams::new(Role::Client, &cp, &ServerParameters::default(), conc, broker.clone(), wakers.clone(), None);
            let flow = FlowController::new(0, 1 << 20, broker.clone(), wakers);
            let params: ArcParameters = Parameters::new_client(cp.clone(), None, odcid).into();
            {
                let mut g = params.lock_guard().unwrap();
                g.recv_remote_params(sp.clone()).unwrap();
                g.initial_scid_from_peer_need_equal(sscid).unwrap();
            }
            streams.revise_params(false, &sp);
            flow.sender.revise_max_data(false, 1 << 20);
            End { streams, flow, params }
        }
        Role::Server => {
            for (id, x) in ours {
                sp.set(id, v(x)).unwrap();
            }
            for (id, x) in theirs {
                cp.set(id, v(x)).unwrap();
            }
            let streams = DataStreams::new(Role::Server, &sp, &ClientParameters::default(), conc, broker.clone(), wakers.clone(), None);
            let flow = FlowController::new(0, 1 << 20, broker.clone(), wakers);
            let params: ArcParameters = Parameters::new_server(sp.clone()).into();
            {
                let mut g = params.lock_guard().unwrap();
                g.recv_remote_params(cp.clone()).unwrap();
                g.initial_scid_from_peer_need_equal(cscid).unwrap();
            }
            streams.revise_params(false, &cp);
            flow.sender.revise_max_data(false, 1 << 20);
            End { streams, flow, params }
        }
    }
}

fn stream_frame(sid: StreamId, off: u64, len: usize, fin: bool) -> (StreamFrame, Bytes) {
    let mut f = StreamFrame::new(sid, off, len);
    f.set_eos_flag(fin);
    (f, Bytes::from(vec![b's'; len]))
}

#[derive(Clone, Copy, PartialEq)]
enum CloseKind {
    /// FIN at the end of what was delivered (reader), STOP_SENDING from the peer (writer)
    Peer,
    /// RESET_STREAM from the peer
    Reset,
    /// the connection fails
    ConnError,
}

// ---------------------------------------------------------------------------------------------------
/// server endpoint, the peer's bidirectional stream 0; the application task reads it
struct ReaderInst {
    end: End,
    reader: Reader<Ext<Broker>>,
    sid: StreamId,
    next: u64,
    largest: u64,
    far: u64,
    kind: CloseKind,
    closed: bool,
}
impl ReaderInst {
    fn make(kind: CloseKind) -> Box<dyn Inst> {
        let end = endpoint(Role::Server, PeerLimits { streams_bidi: 16, streams_uni: 16, data_bidi_remote: 1000, data_bidi_local: 1000, data_uni: 1000 });
        let sid = StreamId::new(Role::Client, Dir::Bi, 0);
        // the peer opens the stream with an empty frame
        end.streams.recv_frame(stream_frame(sid, 0, 0, false)).expect("stream opens");
        let t = crate::Task::new();
        let mut cx = Context::from_waker(&t.waker);
        let Poll::Ready(Ok((_, (reader, _writer)))) = poll_once(end.streams.accept_bi(&end.params), &mut cx) else { panic!("accept_bi not ready") };
        Box::new(ReaderInst { end, reader, sid, next: 0, largest: 0, far: 40, kind, closed: false })
    }
}
impl Inst for ReaderInst {
    fn consume(&self) -> bool {
        true
    }
    fn poll(&mut self, _w: usize, cx: &mut Context<'_>) -> Res {
        let mut b = [0u8; 1];
        let mut rb = ReadBuf::new(&mut b);
        Some(match Pin::new(&mut self.reader).poll_read(cx, &mut rb) {
            Poll::Ready(Ok(())) if rb.filled().len() == 1 => "ready",
            Poll::Ready(Ok(())) => "closed", // end of stream
            Poll::Ready(Err(_)) => "closed",
            Poll::Pending => "pending",
        })
    }
    fn set(&mut self) -> Option<()> {
        if self.closed {
            return None; // a peer does not send data after FIN / RESET_STREAM; a failed connection receives nothing
        }
        let r = self.end.streams.recv_frame(stream_frame(self.sid, self.next, 1, false));
        self.next += 1;
        self.largest = self.largest.max(self.next);
        r.ok().map(|_| ())
    }
    /// a frame that does not make the stream readable: a duplicate (FIN variant, where the final size must stay
    /// exact) or out-of-order data
    fn touch(&mut self) -> Option<()> {
        if self.closed {
            return None;
        }
        let r = if self.kind == CloseKind::Peer {
            if self.next > 0 { self.end.streams.recv_frame(stream_frame(self.sid, 0, 1, false)) } else { self.end.streams.recv_frame(stream_frame(self.sid, 0, 0, false)) }
        } else {
            self.far += 2;
            self.largest = self.largest.max(self.far + 1);
            self.end.streams.recv_frame(stream_frame(self.sid, self.far, 1, false))
        };
        r.ok().map(|_| ())
    }
    fn close(&mut self) -> Option<()> {
        if self.closed {
            return None;
        }
        self.closed = true;
        match self.kind {
            CloseKind::Peer => self.end.streams.recv_frame(stream_frame(self.sid, self.next, 0, true)).ok().map(|_| ()),
            CloseKind::Reset => self
                .end
                .streams
                .recv_frame(StreamCtlFrame::ResetStream(ResetStreamFrame::new(self.sid, VarInt::from_u32(5), v(self.largest))))
                .ok()
                .map(|_| ()),
            CloseKind::ConnError => {
                self.end.streams.on_conn_error(&conn_error());
                Some(())
            }
        }
    }
}

// ---------------------------------------------------------------------------------------------------
#[derive(Clone, Copy, PartialEq)]
enum WriteOp {
    /// poll_write of one byte; condition: room in the stream's send window
    Write,
    /// poll_flush; condition: everything written was acknowledged
    Flush,
    /// poll_shutdown; condition: data and FIN acknowledged
    Shutdown,
}

/// client endpoint, locally opened bidirectional stream 0 whose send window is the peer's to raise
struct WriterInst {
    end: End,
    writer: Writer<Ext<Broker>>,
    sid: StreamId,
    op: WriteOp,
    kind: CloseKind,
    window: u64,
    /// frames put into packets, not yet acknowledged
    flight: Vec<StreamFrame>,
    shutting: bool,
    partial: bool,
    done: bool,
    closed: bool,
}
impl WriterInst {
    fn make(op: WriteOp, kind: CloseKind) -> Box<dyn Inst> {
        let window = if op == WriteOp::Write { 0 } else { 10 };
        let end = endpoint(Role::Client, PeerLimits { streams_bidi: 4, streams_uni: 4, data_bidi_remote: window, data_bidi_local: window, data_uni: window });
        let t = crate::Task::new();
        let mut cx = Context::from_waker(&t.waker);
        let Poll::Ready(Ok(Some((sid, (_reader, mut writer))))) = poll_once(end.streams.open_bi(&end.params), &mut cx) else { panic!("open_bi not ready") };
        let mut flight = vec![];
        if op != WriteOp::Write {
            assert!(matches!(writer.poll_write(&mut cx, Bytes::from_static(b"abc")), Poll::Ready(Ok(()))));
        }
        if op == WriteOp::Flush {
            flight = Self::pack(&end);
            assert!(!flight.is_empty());
        }
        Box::new(WriterInst { end, writer, sid, op, kind, window, flight, shutting: false, partial: false, done: false, closed: false })
    }
    /// the send task: put what can be sent into a packet
    fn pack(end: &End) -> Vec<StreamFrame> {
        let mut pkt = Pkt::new(1200);
        let _ = end.streams.try_load_data_into(&mut pkt, &end.flow.sender, false);
        pkt.streams.into_iter().map(|(f, _)| f).collect()
    }
}
impl Inst for WriterInst {
    fn consume(&self) -> bool {
        self.op == WriteOp::Write
    }
    fn poll(&mut self, _w: usize, cx: &mut Context<'_>) -> Res {
        if self.done {
            return None; // flush / shutdown completed: the future is not polled again
        }
        let r = match self.op {
            WriteOp::Write => self.writer.poll_write(cx, Bytes::from_static(b"w")),
            WriteOp::Flush => self.writer.poll_flush(cx),
            WriteOp::Shutdown => {
                self.shutting = true;
                self.writer.poll_shutdown(cx)
            }
        };
        Some(match r {
            Poll::Ready(Ok(())) => {
                if self.op == WriteOp::Shutdown {
                    self.done = true;
                }
                "ready"
            }
            Poll::Ready(Err(_)) => "closed",
            Poll::Pending => "pending",
        })
    }
    fn set(&mut self) -> Option<()> {
        if self.closed {
            return None;
        }
        match self.op {
            WriteOp::Write => {
                self.window += 1;
                self.end.streams.recv_frame(StreamCtlFrame::MaxStreamData(MaxStreamDataFrame::new(self.sid, v(self.window)))).ok().map(|_| ())
            }
            WriteOp::Flush => {
                if self.flight.is_empty() {
                    return None;
                }
                for f in std::mem::take(&mut self.flight) {
                    if self.partial && f.offset() == 0 {
                        let mut rest = StreamFrame::new(self.sid, 1, f.len() - 1);
                        rest.set_eos_flag(f.is_fin());
                        self.end.streams.on_data_acked(rest);
                    } else {
                        self.end.streams.on_data_acked(f);
                    }
                }
                Some(())
            }
            WriteOp::Shutdown => {
                // the condition "data and FIN acknowledged" can only come true after the task asked for the shutdown
                if !self.shutting {
                    return None;
                }
                self.flight.extend(Self::pack(&self.end));
                if !self.flight.iter().any(|f| f.is_fin()) {
                    return None;
                }
                for f in std::mem::take(&mut self.flight) {
                    self.end.streams.on_data_acked(f);
                }
                Some(())
            }
        }
    }
    fn touch(&mut self) -> Option<()> {
        if self.closed {
            return None;
        }
        match self.op {
            // MAX_STREAM_DATA that does not raise the limit
            WriteOp::Write => self.end.streams.recv_frame(StreamCtlFrame::MaxStreamData(MaxStreamDataFrame::new(self.sid, v(self.window)))).ok().map(|_| ()),
            // acknowledge the first byte only
            WriteOp::Flush => {
                if self.partial || self.flight.is_empty() {
                    return None;
                }
                self.partial = true;
                self.end.streams.on_data_acked(StreamFrame::new(self.sid, 0, 1));
                Some(())
            }
            // the send task runs (data, and FIN if asked for, go into a packet) but nothing is acknowledged yet
            WriteOp::Shutdown => {
                self.flight.extend(Self::pack(&self.end));
                Some(())
            }
        }
    }
    fn close(&mut self) -> Option<()> {
        if self.closed {
            return None;
        }
        self.closed = true;
        match self.kind {
            CloseKind::Peer | CloseKind::Reset => self
                .end
                .streams
                .recv_frame(StreamCtlFrame::StopSending(StopSendingFrame::new(self.sid, VarInt::from_u32(6))))
                .ok()
                .map(|_| ()),
            CloseKind::ConnError => {
                self.end.streams.on_conn_error(&conn_error());
                Some(())
            }
        }
    }
}

// ---------------------------------------------------------------------------------------------------
/// server endpoint; the application accepts streams the peer opens
struct ListenerInst {
    end: End,
    dir: Dir,
    opened: u64,
    closed: bool,
}
impl Inst for ListenerInst {
    fn consume(&self) -> bool {
        true
    }
    fn poll(&mut self, _w: usize, cx: &mut Context<'_>) -> Res {
        Some(match self.dir {
            Dir::Bi => match poll_once(self.end.streams.accept_bi(&self.end.params), cx) {
                Poll::Ready(Ok(_)) => "ready",
                Poll::Ready(Err(_)) => "closed",
                Poll::Pending => "pending",
            },
            Dir::Uni => match poll_once(self.end.streams.accept_uni(), cx) {
                Poll::Ready(Ok(_)) => "ready",
                Poll::Ready(Err(_)) => "closed",
                Poll::Pending => "pending",
            },
        })
    }
    fn set(&mut self) -> Option<()> {
        if self.closed {
            return None;
        }
        let sid = StreamId::new(Role::Client, self.dir, self.opened);
        self.opened += 1;
        self.end.streams.recv_frame(stream_frame(sid, 0, 1, false)).ok().map(|_| ())
    }
    /// more data on an already opened stream, and a stream of the other direction
    fn touch(&mut self) -> Option<()> {
        if self.closed || self.opened == 0 {
            return None;
        }
        let sid = StreamId::new(Role::Client, self.dir, self.opened - 1);
        self.end.streams.recv_frame(stream_frame(sid, 1, 1, false)).ok().map(|_| ())
    }
    fn close(&mut self) -> Option<()> {
        if self.closed {
            return None;
        }
        self.closed = true;
        self.end.streams.on_conn_error(&conn_error());
        Some(())
    }
}

/// client endpoint; open_bi / open_uni blocked on the peer's stream limit (LocalStreamIds through DataStreams);
/// a failing connection ends the pending open with its error
struct OpenInst {
    end: End,
    dir: Dir,
    max: u64,
    closed: bool,
}
impl Inst for OpenInst {
    fn consume(&self) -> bool {
        true
    }
    fn poll(&mut self, _w: usize, cx: &mut Context<'_>) -> Res {
        Some(match self.dir {
            Dir::Bi => match poll_once(self.end.streams.open_bi(&self.end.params), cx) {
                Poll::Ready(Ok(Some(_))) => "ready",
                Poll::Ready(_) => "closed",
                Poll::Pending => "pending",
            },
            Dir::Uni => match poll_once(self.end.streams.open_uni(&self.end.params), cx) {
                Poll::Ready(Ok(Some(_))) => "ready",
                Poll::Ready(_) => "closed",
                Poll::Pending => "pending",
            },
        })
    }
    fn set(&mut self) -> Option<()> {
        if self.closed {
            return None;
        }
        self.max += 1;
        self.end.streams.recv_frame(StreamCtlFrame::MaxStreams(MaxStreamsFrame::with(self.dir, v(self.max)))).ok().map(|_| ())
    }
    fn touch(&mut self) -> Option<()> {
        if self.closed {
            return None;
        }
        self.end.streams.recv_frame(StreamCtlFrame::MaxStreams(MaxStreamsFrame::with(self.dir, v(self.max)))).ok().map(|_| ())
    }
    fn close(&mut self) -> Option<()> {
        if self.closed {
            return None;
        }
        self.closed = true;
        self.end.streams.on_conn_error(&conn_error());
        Some(())
    }
}

fn listener(dir: Dir) -> Box<dyn Inst> {
    let end = endpoint(Role::Server, PeerLimits { streams_bidi: 16, streams_uni: 16, data_bidi_remote: 1000, data_bidi_local: 1000, data_uni: 1000 });
    Box::new(ListenerInst { end, dir, opened: 0, closed: false })
}
fn opener(dir: Dir) -> Box<dyn Inst> {
    let end = endpoint(Role::Client, PeerLimits { streams_bidi: 0, streams_uni: 0, data_bidi_remote: 100, data_bidi_local: 100, data_uni: 100 });
    Box::new(OpenInst { end, dir, max: 0, closed: false })
}

pub fn specs() -> Vec<Spec> {
    const SLOT1: &[&str] = &["slot1"];
    vec![
        Spec { name: "StreamReader/fin", classes: SLOT1, make: || ReaderInst::make(CloseKind::Peer),
               binds: "poll = AsyncRead::poll_read(1 byte); set = next in-order STREAM byte; touch = duplicate frame; close = STREAM FIN at the delivered end" },
        Spec { name: "StreamReader/reset", classes: SLOT1, make: || ReaderInst::make(CloseKind::Reset),
               binds: "as above; touch = out-of-order STREAM frame; close = RESET_STREAM" },
        Spec { name: "StreamReader/connerr", classes: SLOT1, make: || ReaderInst::make(CloseKind::ConnError),
               binds: "as above; close = DataStreams::on_conn_error" },
        Spec { name: "StreamWriter/write/stop", classes: SLOT1, make: || WriterInst::make(WriteOp::Write, CloseKind::Peer),
               binds: "window 0; poll = Writer::poll_write(1 byte); set = MAX_STREAM_DATA(+1); touch = MAX_STREAM_DATA(same); close = STOP_SENDING" },
        Spec { name: "StreamWriter/write/connerr", classes: SLOT1, make: || WriterInst::make(WriteOp::Write, CloseKind::ConnError),
               binds: "as above; close = DataStreams::on_conn_error" },
        Spec { name: "StreamWriter/flush/stop", classes: SLOT1, make: || WriterInst::make(WriteOp::Flush, CloseKind::Peer),
               binds: "3 bytes written and packed; poll = poll_flush; touch = ack of byte 0; set = ack of the rest; close = STOP_SENDING" },
        Spec { name: "StreamWriter/flush/connerr", classes: SLOT1, make: || WriterInst::make(WriteOp::Flush, CloseKind::ConnError),
               binds: "as above; close = DataStreams::on_conn_error" },
        Spec { name: "StreamWriter/shutdown/stop", classes: SLOT1, make: || WriterInst::make(WriteOp::Shutdown, CloseKind::Peer),
               binds: "3 bytes written; poll = poll_shutdown; touch = send task packs; set = pack + ack of data and FIN (after shutdown was asked); close = STOP_SENDING" },
        Spec { name: "StreamWriter/shutdown/connerr", classes: SLOT1, make: || WriterInst::make(WriteOp::Shutdown, CloseKind::ConnError),
               binds: "as above; close = DataStreams::on_conn_error" },
        Spec { name: "Listener/accept_bi", classes: SLOT1, make: || listener(Dir::Bi),
               binds: "poll = accept_bi().poll; set = peer opens the next bidirectional stream; touch = more data on an open stream; close = on_conn_error" },
        Spec { name: "Listener/accept_uni", classes: SLOT1, make: || listener(Dir::Uni),
               binds: "poll = accept_uni().poll; set = peer opens the next unidirectional stream; close = on_conn_error" },
        Spec { name: "DataStreams/open_bi", classes: &["slot2"], make: || opener(Dir::Bi),
               binds: "peer limit 0; poll = open_bi().poll; set = MAX_STREAMS(+1); touch = MAX_STREAMS(same); close = DataStreams::on_conn_error" },
        Spec { name: "DataStreams/open_uni", classes: &["slot2"], make: || opener(Dir::Uni),
               binds: "peer limit 0; poll = open_uni().poll; set = MAX_STREAMS(+1); touch = MAX_STREAMS(same); close = DataStreams::on_conn_error" },
    ]
}
