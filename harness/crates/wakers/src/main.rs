//! vh-wakers — C16 "no wake-up is ever lost".
//!
//! Executes TLC-generated call orders (Gen_Wakers.tla) on the REAL waiter/notifier objects of the stack,
//! one counting `Waker` per task, and records one NDJSON event per call: the call, its result, and the wake
//! counters of all tasks after the call.  Trace_Wakers.tla (TLC) is the judge; nothing is decided here.
//!
//!   vh-wakers list
//!   vh-wakers replay <behaviours.ndjson> <trace-out.ndjson> [--only inst1,inst2]
//!
//! A behaviour is `["<class>", op, op, ...]`; it is executed on every instance registered for the class.
//! A call that is not applicable to a concrete object in its current state (set_keys twice, wait after a
//! successful check, close on an object that has no close ...) makes the adapter return `None`: the whole
//! sequence is dropped for that instance (its applicable prefix is the prefix of other sequences).
#[path = "../../../src/util.rs"]
#[allow(dead_code)]
mod util;

mod basic;
mod hooked;
mod streams;

use std::{
    future::Future,
    sync::{
        Arc, Mutex,
        atomic::{AtomicU64, AtomicUsize, Ordering::SeqCst},
    },
    task::{Context, Poll, RawWaker, RawWakerVTable, Waker},
};

use serde_json::{Value, json};
use util::{Out, guarded, quiet_panics, read_lines};

// ---------------------------------------------------------------------------------------------------
// Counting wakers.  Every poll / wait of a task hands the object a FRESH waker (a new generation: `will_wake` is
// false against every earlier one).  Only an invocation of the task's LATEST generation counts as a wake-up of the
// task (`cnt`); invocations of older generations are counted separately (`stale`) and are spurious for the spec:
// the Future contract obliges an object to wake the waker of the most recent poll only.  Objects whose documented
// contract is "always the same waker" (they panic / assert on a different one) get the same generation on every poll.
pub struct TaskState {
    latest: AtomicUsize,
    pub cnt: AtomicUsize,
    pub stale: AtomicUsize,
}
struct GenWaker {
    task: Arc<TaskState>,
    generation: usize,
}
impl GenWaker {
    fn invoked(&self) {
        if self.generation == self.task.latest.load(SeqCst) {
            self.task.cnt.fetch_add(1, SeqCst);
        } else {
            self.task.stale.fetch_add(1, SeqCst);
        }
    }
}
static VT: RawWakerVTable = RawWakerVTable::new(vt_clone, vt_wake, vt_wake_by_ref, vt_drop);
unsafe fn vt_clone(p: *const ()) -> RawWaker {
    unsafe { Arc::increment_strong_count(p as *const GenWaker) };
    RawWaker::new(p, &VT)
}
unsafe fn vt_wake(p: *const ()) {
    let a = unsafe { Arc::from_raw(p as *const GenWaker) };
    a.invoked();
}
unsafe fn vt_wake_by_ref(p: *const ()) {
    unsafe { &*(p as *const GenWaker) }.invoked();
}
unsafe fn vt_drop(p: *const ()) {
    drop(unsafe { Arc::from_raw(p as *const GenWaker) });
}

pub struct Task {
    pub st: Arc<TaskState>,
    /// the waker of the current generation
    pub waker: Waker,
}
impl Task {
    fn make(st: &Arc<TaskState>, generation: usize) -> Waker {
        let g = Arc::new(GenWaker { task: st.clone(), generation });
        let raw = RawWaker::new(Arc::into_raw(g) as *const (), &VT);
        unsafe { Waker::from_raw(raw) }
    }
    pub fn new() -> Self {
        let st = Arc::new(TaskState { latest: AtomicUsize::new(0), cnt: AtomicUsize::new(0), stale: AtomicUsize::new(0) });
        let waker = Self::make(&st, 0);
        Task { st, waker }
    }
    /// a new generation for the next poll
    pub fn renew(&mut self) {
        let g = self.st.latest.fetch_add(1, SeqCst) + 1;
        self.waker = Self::make(&self.st, g);
    }
}

/// A packet under assembly: bounded buffer that records which frames were written into it.
pub struct Pkt {
    buf: bytes::buf::Limit<Vec<u8>>,
    pub streams: Vec<(qbase::frame::StreamFrame, Vec<u8>)>,
    pub cryptos: Vec<qbase::frame::CryptoFrame>,
}
impl Pkt {
    pub fn new(capacity: usize) -> Self {
        use bytes::BufMut;
        Self { buf: Vec::with_capacity(capacity).limit(capacity), streams: vec![], cryptos: vec![] }
    }
}
unsafe impl bytes::BufMut for Pkt {
    fn remaining_mut(&self) -> usize {
        self.buf.remaining_mut()
    }
    unsafe fn advance_mut(&mut self, cnt: usize) {
        unsafe { self.buf.advance_mut(cnt) }
    }
    fn chunk_mut(&mut self) -> &mut bytes::buf::UninitSlice {
        self.buf.chunk_mut()
    }
}
impl<D: qbase::util::ContinuousData> qbase::packet::RecordFrame<qbase::frame::Frame<D>, D> for Pkt {
    fn record_frame(&mut self, frame: &qbase::frame::Frame<D>) {
        match frame {
            qbase::frame::Frame::Stream(f, data) => self.streams.push((*f, data.to_bytes().to_vec())),
            qbase::frame::Frame::Crypto(f, _) => self.cryptos.push(*f),
            _ => {}
        }
    }
}

pub fn poll_once<F: Future>(f: F, cx: &mut Context<'_>) -> Poll<F::Output> {
    let mut f = std::pin::pin!(f);
    f.as_mut().poll(cx)
}

// ---------------------------------------------------------------------------------------------------
/// `None`: the call is not applicable (sequence dropped).  Results: "ready" | "pending" | "need" | "closed".
pub type Res = Option<&'static str>;
/// extra events a call produced through a code hook (hooked notifiers), recorded before the call's own event
pub type Extra = Vec<Value>;

pub trait Inst {
    /// a Ready result takes one token of the condition
    fn consume(&self) -> bool;
    fn cond0(&self) -> u64 {
        0
    }
    /// check + register under one lock
    fn poll(&mut self, _w: usize, _cx: &mut Context<'_>) -> Res {
        None
    }
    /// evaluation of the condition outside the waker's lock; `need` names the signals the task wants
    fn check(&mut self, _w: usize, _need: &str) -> Res {
        None
    }
    /// registration with the SendWaker for what the last check lacked
    fn wait(&mut self, _w: usize, _cx: &mut Context<'_>) -> Res {
        None
    }
    fn drop_waiter(&mut self, _w: usize) -> Option<()> {
        Some(())
    }
    fn set(&mut self) -> Option<()> {
        None
    }
    fn touch(&mut self) -> Option<()> {
        None
    }
    fn close(&mut self) -> Option<()> {
        None
    }
    fn flag(&mut self, _s: &str) -> Option<()> {
        None
    }
    fn notify(&mut self, _s: &str) -> Option<()> {
        None
    }
    /// hooked notifier: start the call on a helper thread, run it to its first sync point
    fn nbegin(&mut self) -> Option<Extra> {
        None
    }
    /// let the hooked notifier call run to completion
    fn nend(&mut self) -> Option<Extra> {
        None
    }
    /// called at the end of a run (release helper threads)
    fn finish(&mut self) {}
    /// false: the object's documented contract is that it is always polled with the same waker (it panics / asserts
    /// on a different one), so the task keeps one waker generation for its whole life
    fn fresh_wakers(&self) -> bool {
        true
    }
}

pub struct Spec {
    pub name: &'static str,
    pub classes: &'static [&'static str],
    pub make: fn() -> Box<dyn Inst>,
    /// the binding in one line (for `list`)
    pub binds: &'static str,
}

fn registry() -> Vec<Spec> {
    let mut v = basic::specs();
    v.extend(hooked::specs());
    v.extend(streams::specs());
    v
}

// ---------------------------------------------------------------------------------------------------
static PROGRESS: AtomicU64 = AtomicU64::new(0);
static CURRENT: Mutex<String> = Mutex::new(String::new());

fn watchdog() {
    std::thread::spawn(|| {
        let mut last = u64::MAX;
        let mut still = 0;
        loop {
            std::thread::sleep(std::time::Duration::from_millis(500));
            let p = PROGRESS.load(SeqCst);
            if p == last {
                still += 1;
                if still >= 60 {
                    let cur = CURRENT.lock().map(|g| g.clone()).unwrap_or_default();
                    eprintln!("{{\"ev\":\"hang\",\"at\":{cur}}}");
                    std::process::exit(3);
                }
            } else {
                last = p;
                still = 0;
            }
        }
    });
}

fn wk(tasks: &[Task]) -> Value {
    json!(tasks.iter().map(|t| t.st.cnt.load(SeqCst)).collect::<Vec<_>>())
}
fn stale(tasks: &[Task]) -> Value {
    json!(tasks.iter().map(|t| t.st.stale.load(SeqCst)).collect::<Vec<_>>())
}

/// Executes one call order on a fresh instance.  Returns the recorded events, or None if a call was not applicable.
fn run_one(spec: &Spec, class: &str, ops: &[Value]) -> Option<Vec<Value>> {
    let mut tasks = [Task::new(), Task::new()];
    let mut inst = match guarded(|| (spec.make)()) {
        Ok(i) => i,
        Err(msg) => {
            return Some(vec![
                json!({"ev": "reset", "inst": spec.name, "class": class, "consume": true, "cond0": 0}),
                json!({"ev": "panic", "op": ["new"], "msg": msg}),
            ]);
        }
    };
    let fresh = inst.fresh_wakers();
    let mut evs = vec![json!({"ev": "reset", "inst": spec.name, "class": class, "consume": inst.consume(), "cond0": inst.cond0(), "fresh": fresh})];
    let mut dropped = false;
    for op in ops {
        PROGRESS.fetch_add(1, SeqCst);
        let a = op.as_array().unwrap();
        let name = a[0].as_str().unwrap();
        let w = a.get(1).and_then(|x| x.as_u64()).unwrap_or(0) as usize;
        let s = a.get(if name == "check" { 2 } else { 1 }).and_then(|x| x.as_str()).unwrap_or("");
        let ti = w.saturating_sub(1).min(1);
        if fresh && (name == "poll" || name == "wait") {
            tasks[ti].renew();
        }
        let r: Result<Option<Vec<Value>>, String> = guarded(|| {
            let mut cx = Context::from_waker(&tasks[ti].waker);
            Some(match name {
                "poll" => vec![json!({"ev": "poll", "w": w, "r": inst.poll(w - 1, &mut cx)?})],
                "check" => vec![json!({"ev": "check", "w": w, "s": s, "r": inst.check(w - 1, s)?})],
                "wait" => vec![json!({"ev": "wait", "w": w, "r": inst.wait(w - 1, &mut cx)?})],
                "drop" => {
                    inst.drop_waiter(w - 1)?;
                    vec![json!({"ev": "drop", "w": w})]
                }
                "set" => {
                    inst.set()?;
                    vec![json!({"ev": "set"})]
                }
                "touch" => {
                    inst.touch()?;
                    vec![json!({"ev": "touch"})]
                }
                "close" => {
                    inst.close()?;
                    vec![json!({"ev": "close"})]
                }
                "flag" => {
                    inst.flag(s)?;
                    vec![json!({"ev": "flag", "s": s})]
                }
                "notify" => {
                    inst.notify(s)?;
                    vec![json!({"ev": "notify", "s": s})]
                }
                "nbegin" => inst.nbegin()?,
                "nend" => inst.nend()?,
                o => panic!("unknown op {o}"),
            })
        });
        match r {
            Ok(Some(list)) => {
                for mut ev in list {
                    ev["wk"] = wk(&tasks);
                    ev["stale"] = stale(&tasks);
                    evs.push(ev);
                }
            }
            Ok(None) => {
                dropped = true;
                break;
            }
            Err(msg) => {
                evs.push(json!({"ev": "panic", "op": op, "msg": msg}));
                break;
            }
        }
    }
    let _ = guarded(|| inst.finish());
    // the object (and any waker it still stores) is dropped here; wakes on drop are not part of the property
    if dropped { None } else { Some(evs) }
}

fn replay(args: &[String]) -> i32 {
    quiet_panics();
    watchdog();
    let only: Option<Vec<String>> = args.iter().position(|a| a == "--only").map(|i| args[i + 1].split(',').map(|s| s.to_string()).collect());
    let reg = registry();
    let mut out = Out::create(&args[1]);
    let mut kept = std::collections::BTreeMap::<&str, u64>::new();
    let mut dropped = std::collections::BTreeMap::<&str, u64>::new();
    for line in read_lines(&args[0]) {
        let beh: Vec<Value> = serde_json::from_str(&line).expect("behaviour json");
        let class = beh[0].as_str().unwrap().to_string();
        for spec in reg.iter().filter(|s| s.classes.contains(&class.as_str())) {
            if let Some(o) = &only {
                if !o.iter().any(|n| n == spec.name) {
                    continue;
                }
            }
            *CURRENT.lock().unwrap() = json!({"inst": spec.name, "ops": &beh[1..]}).to_string();
            match run_one(spec, &class, &beh[1..]) {
                Some(evs) => {
                    for e in &evs {
                        out.emit(e);
                    }
                    *kept.entry(spec.name).or_default() += 1;
                }
                None => *dropped.entry(spec.name).or_default() += 1,
            }
        }
    }
    out.finish();
    println!("{}", json!({"kept": kept, "dropped": dropped}));
    0
}

fn main() {
    let args: Vec<String> = std::env::args().collect();
    let code = match args.get(1).map(|s| s.as_str()) {
        Some("list") => {
            let v: Vec<Value> = registry().iter().map(|s| json!({"name": s.name, "classes": s.classes, "binds": s.binds})).collect();
            println!("{}", Value::Array(v));
            0
        }
        Some("replay") => replay(&args[2..]),
        _ => {
            eprintln!("usage: vh-wakers list | replay <behaviours> <trace-out> [--only a,b]");
            2
        }
    };
    std::process::exit(code);
}
