//! Counting global allocator: while ARMED, every allocation is added to BYTES (cumulative, not net); once the
//! cumulative count passes CAP the allocation is refused (null), which makes the Rust runtime abort the process
//! ("memory allocation of N bytes failed").  The supervisor records that as an allocation blow-up of the case.
use std::{
    alloc::{GlobalAlloc, Layout, System},
    ptr::null_mut,
    sync::atomic::{AtomicBool, AtomicUsize, Ordering::Relaxed},
};

pub struct Counting;
pub static ARMED: AtomicBool = AtomicBool::new(false);
pub static BYTES: AtomicUsize = AtomicUsize::new(0);
/// far above the specification's bound for any generated case (see Trace_Hostile: 4096*K*(bytes+held+1) < 8 MiB)
pub const CAP: usize = 48 << 20;

#[inline]
fn charge(n: usize) -> bool {
    if ARMED.load(Relaxed) {
        let t = BYTES.fetch_add(n, Relaxed).saturating_add(n);
        if t > CAP {
            return false;
        }
    }
    true
}

unsafe impl GlobalAlloc for Counting {
    unsafe fn alloc(&self, l: Layout) -> *mut u8 {
        if !charge(l.size()) {
            return null_mut();
        }
        unsafe { System.alloc(l) }
    }
    unsafe fn alloc_zeroed(&self, l: Layout) -> *mut u8 {
        if !charge(l.size()) {
            return null_mut();
        }
        unsafe { System.alloc_zeroed(l) }
    }
    unsafe fn dealloc(&self, p: *mut u8, l: Layout) {
        unsafe { System.dealloc(p, l) }
    }
    unsafe fn realloc(&self, p: *mut u8, l: Layout, new_size: usize) -> *mut u8 {
        if new_size > l.size() && !charge(new_size - l.size()) {
            return null_mut();
        }
        unsafe { System.realloc(p, l, new_size) }
    }
}

pub fn arm() {
    BYTES.store(0, Relaxed);
    ARMED.store(true, Relaxed);
}
pub fn disarm() -> usize {
    ARMED.store(false, Relaxed);
    BYTES.load(Relaxed)
}
