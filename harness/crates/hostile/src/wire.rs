//! The harness' own frame encoder: hostile frames are produced as BYTES (so that any 62-bit value can be put in any
//! field, including combinations the library's constructors would refuse) and then go through the real parser.
pub const MAX: u64 = (1 << 62) - 1;

pub fn vi(b: &mut Vec<u8>, v: u64) {
    assert!(v <= MAX);
    if v < 1 << 6 {
        b.push(v as u8);
    } else if v < 1 << 14 {
        b.extend_from_slice(&((v as u16) | 0x4000).to_be_bytes());
    } else if v < 1 << 30 {
        b.extend_from_slice(&((v as u32) | 0x8000_0000).to_be_bytes());
    } else {
        b.extend_from_slice(&(v | 0xC000_0000_0000_0000).to_be_bytes());
    }
}

pub fn ack(largest: u64, first: u64, ranges: &[(u64, u64)]) -> Vec<u8> {
    let mut b = vec![0x02];
    vi(&mut b, largest);
    vi(&mut b, 0); // delay
    vi(&mut b, ranges.len() as u64);
    vi(&mut b, first);
    for (g, l) in ranges {
        vi(&mut b, *g);
        vi(&mut b, *l);
    }
    b
}

pub fn crypto(off: u64, data: &[u8]) -> Vec<u8> {
    let mut b = vec![0x06];
    vi(&mut b, off);
    vi(&mut b, data.len() as u64);
    b.extend_from_slice(data);
    b
}

pub fn new_cid(seq: u64, rpt: u64, cid: &[u8], token: &[u8; 16]) -> Vec<u8> {
    let mut b = vec![0x18];
    vi(&mut b, seq);
    vi(&mut b, rpt);
    b.push(cid.len() as u8);
    b.extend_from_slice(cid);
    b.extend_from_slice(token);
    b
}

pub fn retire_cid(seq: u64) -> Vec<u8> {
    let mut b = vec![0x19];
    vi(&mut b, seq);
    b
}

pub fn max_data(v: u64) -> Vec<u8> {
    let mut b = vec![0x10];
    vi(&mut b, v);
    b
}

pub fn max_stream_data(sid: u64, v: u64) -> Vec<u8> {
    let mut b = vec![0x11];
    vi(&mut b, sid);
    vi(&mut b, v);
    b
}

pub fn max_streams(uni: bool, v: u64) -> Vec<u8> {
    let mut b = vec![if uni { 0x13 } else { 0x12 }];
    vi(&mut b, v);
    b
}

pub fn stream(sid: u64, off: u64, data: &[u8], fin: bool) -> Vec<u8> {
    let mut b = vec![0x08 | 0x04 | 0x02 | fin as u8];
    vi(&mut b, sid);
    vi(&mut b, off);
    vi(&mut b, data.len() as u64);
    b.extend_from_slice(data);
    b
}

pub fn reset_stream(sid: u64, code: u64, final_size: u64) -> Vec<u8> {
    let mut b = vec![0x04];
    vi(&mut b, sid);
    vi(&mut b, code);
    vi(&mut b, final_size);
    b
}

pub fn stop_sending(sid: u64, code: u64) -> Vec<u8> {
    let mut b = vec![0x05];
    vi(&mut b, sid);
    vi(&mut b, code);
    b
}
