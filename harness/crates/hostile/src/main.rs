//! vh-hostile — C04: hostile but well-formed frames cost bounded work and get the RFC's error.
//!
//! `vh-hostile run <cases.ndjson> <trace.ndjson> [workers] [timeout_ms]`
//!     supervisor: feeds the cases (one TLC-generated behaviour per line: legitimate history + one hostile frame
//!     class) to re-exec'ed child processes, one case at a time, under a wall-clock watchdog; a child that hangs
//!     or dies (allocation cap) is killed/reaped, the case is recorded as timed out / aborted, a new child continues.
//! `vh-hostile child`
//!     reads cases from stdin, builds the real objects, replays the legitimate history, instantiates the class to
//!     concrete 62-bit values, runs parser + real dispatch with the counting allocator armed, prints the events.
#[path = "../../../src/util.rs"]
#[allow(dead_code)]
mod util;
mod alloc;
mod wire;
mod world;

use std::{
    collections::HashSet,
    io::{BufRead, BufReader, Write},
    process::{Child, Command, Stdio},
    sync::{
        Arc, Mutex,
        atomic::{AtomicUsize, Ordering},
        mpsc,
    },
    time::{Duration, Instant},
};

use serde_json::{Value, json};

#[global_allocator]
static GLOBAL: alloc::Counting = alloc::Counting;

fn main() {
    let args: Vec<String> = std::env::args().collect();
    let code = match args.get(1).map(|s| s.as_str()) {
        Some("child") => child(),
        Some("run") => run(&args[2..]),
        _ => {
            eprintln!("usage: vh-hostile run <cases> <trace> [workers] [timeout_ms] | child");
            2
        }
    };
    std::process::exit(code);
}

// ------------------------------------------------------------------------------------------------
fn say(line: &str) {
    let mut o = std::io::stdout().lock();
    o.write_all(line.as_bytes()).unwrap();
    o.write_all(b"\n").unwrap();
    o.flush().unwrap();
}

fn run_case(ops: &[Value]) {
    let init = ops[0].as_array().unwrap();
    let (focus, space) = (init[1].as_str().unwrap(), init[2].as_str().unwrap());
    say(&json!({"ev": "reset", "focus": focus, "space": space}).to_string());
    let mut w = match util::guarded(|| world::World::new(focus, space)) {
        Ok(w) => w,
        Err(msg) => {
            say(&json!({"ev": "panic", "op": ["init"], "msg": msg}).to_string());
            return;
        }
    };
    for op in &ops[1..] {
        let a = op.as_array().unwrap();
        let name = a[0].as_str().unwrap();
        if name != "hostile" {
            match util::guarded(|| w.legit(a)) {
                Ok(ev) => say(&ev.to_string()),
                Err(msg) => {
                    say(&json!({"ev": "panic", "op": op, "msg": msg}).to_string());
                    return;
                }
            }
            continue;
        }
        let (kind, cls) = (a[1].as_str().unwrap(), &a[2]);
        let Some((bytes, vals)) = w.instantiate(kind, cls) else {
            say("#skip");
            return;
        };
        let held = w.held();
        let pre = w.pre();
        let mut ev = json!({"ev": "hostile", "focus": focus, "space": space, "kind": kind, "cls": cls, "vals": vals,
                            "bytes": bytes.len(), "held": held});
        say(&format!("#pre {ev}"));
        let t0 = Instant::now();
        alloc::arm();
        let r = util::guarded(|| w.hostile(kind, &bytes));
        let allocated = alloc::disarm();
        let us = t0.elapsed().as_micros() as u64;
        let (res, msg) = match r {
            Ok(s) => (s, String::new()),
            Err(m) => ("panic".to_string(), m),
        };
        let post = util::guarded(|| w.post(kind, &pre)).unwrap_or_else(|m| json!({"changed": true, "post_panic": m}));
        ev["res"] = json!(res);
        ev["msg"] = json!(msg.chars().take(160).collect::<String>());
        ev["alloc"] = json!(allocated);
        ev["us"] = json!(us);
        ev["timed_out"] = json!(false);
        ev["aborted"] = json!(false);
        ev["state_changed"] = post["changed"].clone();
        ev["post"] = post;
        say(&ev.to_string());
        return;
    }
}

fn child() -> i32 {
    util::quiet_panics();
    let stdin = std::io::stdin();
    for line in stdin.lock().lines() {
        let line = line.unwrap();
        if line.trim().is_empty() {
            continue;
        }
        let ops: Vec<Value> = serde_json::from_str(&line).expect("case json");
        let rt = util::paused_rt();
        rt.block_on(async { run_case(&ops) });
        drop(rt);
        say("#done");
    }
    0
}

// ------------------------------------------------------------------------------------------------
struct Kid {
    proc: Child,
    rx: mpsc::Receiver<String>,
    err: Arc<Mutex<String>>,
}

fn spawn_kid() -> Kid {
    let exe = std::env::current_exe().unwrap();
    let mut proc = Command::new(exe).arg("child").stdin(Stdio::piped()).stdout(Stdio::piped()).stderr(Stdio::piped()).spawn().expect("spawn child");
    let out = proc.stdout.take().unwrap();
    let errp = proc.stderr.take().unwrap();
    let (tx, rx) = mpsc::channel();
    std::thread::spawn(move || {
        for l in BufReader::new(out).lines() {
            match l {
                Ok(l) => {
                    if tx.send(l).is_err() {
                        break;
                    }
                }
                Err(_) => break,
            }
        }
    });
    let err = Arc::new(Mutex::new(String::new()));
    let e2 = err.clone();
    std::thread::spawn(move || {
        for l in BufReader::new(errp).lines().map_while(Result::ok) {
            let mut g = e2.lock().unwrap();
            if g.len() < 4000 {
                g.push_str(&l);
                g.push('\n');
            }
        }
    });
    Kid { proc, rx, err }
}

enum Outcome {
    Done(Vec<String>),
    Skip,
    Timeout(Vec<String>, Option<String>),
    Died(Vec<String>, Option<String>, String),
}

/// run one case in `kid`; on timeout / death the kid is killed and must be replaced by the caller
fn one(kid: &mut Kid, case: &str, timeout: Duration) -> Outcome {
    let stdin = kid.proc.stdin.as_mut().unwrap();
    if stdin.write_all(case.as_bytes()).is_err() || stdin.write_all(b"\n").is_err() || stdin.flush().is_err() {
        return Outcome::Died(vec![], None, "stdin closed".into());
    }
    let mut lines = vec![];
    let mut pre = None;
    let mut deadline = Instant::now() + Duration::from_secs(20); // set-up and legitimate history: generous
    loop {
        let left = deadline.saturating_duration_since(Instant::now());
        match kid.rx.recv_timeout(left) {
            Ok(l) => {
                if l == "#done" {
                    return Outcome::Done(lines);
                } else if l == "#skip" {
                    // wait for #done
                    let _ = kid.rx.recv_timeout(Duration::from_secs(20));
                    return Outcome::Skip;
                } else if let Some(p) = l.strip_prefix("#pre ") {
                    pre = Some(p.to_string());
                    deadline = Instant::now() + timeout; // the measured call starts now
                } else {
                    lines.push(l);
                }
            }
            Err(mpsc::RecvTimeoutError::Timeout) => {
                let _ = kid.proc.kill();
                let _ = kid.proc.wait();
                return Outcome::Timeout(lines, pre);
            }
            Err(mpsc::RecvTimeoutError::Disconnected) => {
                let st = kid.proc.wait().map(|s| format!("{s}")).unwrap_or_default();
                std::thread::sleep(Duration::from_millis(20));
                let e = kid.err.lock().unwrap().clone();
                return Outcome::Died(lines, pre, format!("{st}; {}", e.trim().chars().rev().take(300).collect::<String>().chars().rev().collect::<String>()));
            }
        }
    }
}

fn finish_pre(pre: &str, res: &str, timed_out: bool, aborted: bool, msg: &str) -> String {
    let mut ev: Value = serde_json::from_str(pre).unwrap();
    ev["res"] = json!(res);
    ev["msg"] = json!(msg.chars().take(300).collect::<String>());
    ev["alloc"] = json!(if aborted { alloc::CAP } else { 0 });
    ev["us"] = json!(0);
    ev["timed_out"] = json!(timed_out);
    ev["aborted"] = json!(aborted);
    ev["state_changed"] = json!(false);
    ev["post"] = json!({});
    ev.to_string()
}

fn class_key(case: &str) -> String {
    let ops: Vec<Value> = serde_json::from_str(case).unwrap();
    let init = &ops[0];
    let h = ops.last().unwrap();
    // the additional ranges of an ACK add nothing to a first range that already blows up
    if h[1] == "ack" { format!("{}|ack|{}|{}", init[2], h[2]["a"], h[2]["b"]) } else { format!("{}|{}|{}", init[2], h[1], h[2]) }
}

fn run(args: &[String]) -> i32 {
    let cases: Vec<String> = util::read_lines(&args[0]).collect();
    let workers: usize = args.get(2).and_then(|s| s.parse().ok()).unwrap_or(4).max(1);
    let timeout = Duration::from_millis(args.get(3).and_then(|s| s.parse().ok()).unwrap_or(2000));
    let n = cases.len();
    let cases = Arc::new(cases);
    let next = Arc::new(AtomicUsize::new(0));
    let results: Arc<Mutex<Vec<Option<Vec<String>>>>> = Arc::new(Mutex::new(vec![None; n]));
    let bad: Arc<Mutex<HashSet<String>>> = Arc::new(Mutex::new(HashSet::new()));
    let stats = Arc::new(Mutex::new([0u64; 6])); // done, skipped(class disabled), timeouts, deaths, skipped-after-blowup, flaky timeouts
    let mut hs = vec![];
    for _ in 0..workers.min(n.max(1)) {
        let (cases, next, results, bad, stats) = (cases.clone(), next.clone(), results.clone(), bad.clone(), stats.clone());
        hs.push(std::thread::spawn(move || {
            let mut kid = spawn_kid();
            loop {
                let i = next.fetch_add(1, Ordering::Relaxed);
                if i >= cases.len() {
                    break;
                }
                let case = &cases[i];
                let key = class_key(case);
                if bad.lock().unwrap().contains(&key) {
                    stats.lock().unwrap()[4] += 1;
                    continue;
                }
                let mut out = one(&mut kid, case, timeout);
                if let Outcome::Timeout(..) = out {
                    // confirm in a fresh process with twice the budget before calling it a hang
                    kid = spawn_kid();
                    let again = one(&mut kid, case, timeout * 2);
                    if let Outcome::Done(_) = again {
                        stats.lock().unwrap()[5] += 1;
                    }
                    out = again;
                }
                let lines = match out {
                    Outcome::Done(l) => {
                        stats.lock().unwrap()[0] += 1;
                        Some(l)
                    }
                    Outcome::Skip => {
                        stats.lock().unwrap()[1] += 1;
                        None
                    }
                    Outcome::Timeout(mut l, pre) => {
                        kid = spawn_kid();
                        stats.lock().unwrap()[2] += 1;
                        match pre {
                            Some(p) => {
                                bad.lock().unwrap().insert(key);
                                l.push(finish_pre(&p, "timeout", true, false, "watchdog: handler still running"));
                            }
                            None => l.push(json!({"ev": "panic", "op": ["history"], "msg": "hang while replaying the legitimate history"}).to_string()),
                        }
                        Some(l)
                    }
                    Outcome::Died(mut l, pre, why) => {
                        kid = spawn_kid();
                        stats.lock().unwrap()[3] += 1;
                        match pre {
                            Some(p) => {
                                bad.lock().unwrap().insert(key);
                                let oom = why.contains("memory allocation of");
                                l.push(finish_pre(&p, if oom { "abort:alloc" } else { "abort" }, false, true, &why));
                            }
                            None => l.push(json!({"ev": "panic", "op": ["history"], "msg": format!("child died while replaying the legitimate history: {why}")}).to_string()),
                        }
                        Some(l)
                    }
                };
                results.lock().unwrap()[i] = lines;
            }
            let _ = kid.proc.kill();
            let _ = kid.proc.wait();
        }));
    }
    for h in hs {
        h.join().unwrap();
    }
    let mut out = util::Out::create(&args[1]);
    let mut runs = 0u64;
    for r in results.lock().unwrap().iter().flatten() {
        for l in r {
            let v: Value = serde_json::from_str(l).unwrap_or_else(|_| json!({"ev": "garbage", "line": l}));
            out.emit(&v);
        }
        runs += 1;
    }
    out.finish();
    let s = stats.lock().unwrap();
    println!(
        "{}",
        json!({"cases": n, "runs": runs, "done": s[0], "class_disabled": s[1], "timeouts": s[2], "deaths": s[3],
               "skipped_after_blowup": s[4], "flaky_timeouts": s[5]})
    );
    0
}
