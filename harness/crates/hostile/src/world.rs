//! The real objects a hostile frame meets, set up by a short legitimate history, and the real dispatch order of
//! qconnection/src/space/{initial,handshake,data}.rs.
use std::{
    collections::BTreeSet,
    future::Future,
    pin::Pin,
    sync::{
        Arc, Mutex,
        atomic::{AtomicU16, AtomicU64, Ordering},
    },
    task::{Context, Poll},
    time::Duration,
};

use bytes::{BufMut, Bytes, buf::UninitSlice};
use futures::task::noop_waker_ref;
use qbase::{
    Epoch,
    cid::{ArcCidCell, ArcLocalCids, ArcRemoteCids, ConnectionId, GenUniqueCid, RetireCid},
    error::Error,
    flow::FlowController,
    frame::{
        AckFrame, CryptoFrame, DataBlockedFrame, Frame, GetFrameType, MaxDataFrame, NewConnectionIdFrame, ReliableFrame,
        RetireConnectionIdFrame, StreamCtlFrame,
        io::{ReceiveFrame, SendFrame, be_frame},
    },
    net::tx::{ArcSendWaker, ArcSendWakers},
    packet::{
        PacketNumber, RecordFrame,
        r#type::{
            Type,
            long::{Type as LongType, Ver1},
            short::OneRtt,
        },
    },
    param::{ArcParameters, ClientParameters, ParameterId, Parameters, ServerParameters, handy},
    role::Role,
    sid::handy::ConsistentConcurrency,
    util::ContinuousData,
    varint::VarInt,
};
use qcongestion::{Algorithm, ArcCC, Feedback, HandshakeStatus, PathStatus, Transport};
use qconnection::GuaranteedFrame;
use qevent::quic::recovery::PacketLostTrigger;
use qrecovery::{
    crypto::CryptoStream,
    journal::{ArcRcvdJournal, ArcSentJournal, Journal},
    reliable::ArcReliableFrameDeque,
    streams::DataStreams,
};
use serde_json::{Value, json};
use tokio::io::AsyncWrite;

use crate::wire::{self, MAX};

pub fn kind_of(e: &Error) -> String {
    match e {
        Error::Quic(q) => format!("{:?}", q.kind()),
        other => format!("{other:?}").chars().take(40).collect(),
    }
}

fn res_of<T>(r: &Result<T, Error>) -> String {
    match r {
        Ok(_) => "ok".into(),
        Err(e) => format!("err:{}", kind_of(e)),
    }
}

/// parse one frame with the real parser
fn parse(bytes: &[u8], ty: Type) -> Result<Frame, Error> {
    let raw = Bytes::copy_from_slice(bytes);
    match be_frame(&raw, ty) {
        Ok((_n, f, _t)) => Ok(f),
        Err(e) => Err(Error::Quic(e.into())),
    }
}

fn ptype(space: &str) -> Type {
    match space {
        "initial" => Type::Long(LongType::V1(Ver1::INITIAL)),
        "handshake" => Type::Long(LongType::V1(Ver1::HANDSHAKE)),
        _ => Type::Short(OneRtt::from(0u8)),
    }
}

// ------------------------------------------------------------------------------------------------
// a packet under assembly that records the CRYPTO frames put into it
struct Pkt {
    buf: bytes::buf::Limit<Vec<u8>>,
    crypto: Vec<CryptoFrame>,
}
impl Pkt {
    fn new(cap: usize) -> Self {
        Self { buf: Vec::with_capacity(cap).limit(cap), crypto: vec![] }
    }
}
unsafe impl BufMut for Pkt {
    fn remaining_mut(&self) -> usize {
        self.buf.remaining_mut()
    }
    unsafe fn advance_mut(&mut self, cnt: usize) {
        unsafe { self.buf.advance_mut(cnt) }
    }
    fn chunk_mut(&mut self) -> &mut UninitSlice {
        self.buf.chunk_mut()
    }
}
impl<D: ContinuousData> RecordFrame<Frame<D>, D> for Pkt {
    fn record_frame(&mut self, frame: &Frame<D>) {
        if let Frame::Crypto(f, _) = frame {
            self.crypto.push(*f);
        }
    }
}

#[derive(Default)]
struct Tracker(AtomicU64);
impl Feedback for Tracker {
    fn may_loss(&self, _t: PacketLostTrigger, pns: &mut dyn Iterator<Item = u64>) {
        self.0.fetch_add(pns.count() as u64, Ordering::Relaxed);
    }
}

enum SentJ {
    C(ArcSentJournal<CryptoFrame>),
    D(ArcSentJournal<GuaranteedFrame>),
}
impl SentJ {
    fn next(&self) -> u64 {
        match self {
            SentJ::C(j) => j.new_packet().pn().0,
            SentJ::D(j) => j.new_packet().pn().0,
        }
    }
    fn send(&self, frames: &[CryptoFrame], trivial: bool) -> u64 {
        let (rt, et) = (Duration::from_millis(100), Duration::from_millis(300));
        match self {
            SentJ::C(j) => {
                let mut g = j.new_packet();
                let pn = g.pn().0;
                if trivial {
                    g.record_trivial();
                }
                for f in frames {
                    g.record_frame(*f);
                }
                g.build_with_time(rt, et);
                pn
            }
            SentJ::D(j) => {
                let mut g = j.new_packet();
                let pn = g.pn().0;
                if trivial {
                    g.record_trivial();
                }
                for f in frames {
                    g.record_frame(GuaranteedFrame::Crypto(*f));
                }
                g.build_with_time(rt, et);
                pn
            }
        }
    }
    /// destructive probe: is `pn` still un-acknowledged in the journal?  (acknowledges it)
    fn probe_unacked(&self, pn: u64) -> bool {
        match self {
            SentJ::C(j) => j.rotate().on_packet_acked(pn).count() > 0,
            SentJ::D(j) => j.rotate().on_packet_acked(pn).count() > 0,
        }
    }
}

pub struct SpaceWorld {
    space: String,
    epoch: Epoch,
    ty: Type,
    sent: SentJ,
    rj: ArcRcvdJournal,
    cc: ArcCC,
    crypto: CryptoStream,
    ack_rx: Box<dyn ReceiveFrame<AckFrame, Output = ()>>,
    lost: Arc<Tracker>,
    // mirror of the legitimate history
    unacked: BTreeSet<u64>,
    rcvd: Vec<u64>,
    rx_next: u64,
    crx_off: u64,
}

impl SpaceWorld {
    pub fn new(space: &str) -> Self {
        let epoch = match space {
            "initial" => Epoch::Initial,
            "handshake" => Epoch::Handshake,
            _ => Epoch::Data,
        };
        let wakers = ArcSendWakers::default();
        let crypto = CryptoStream::new(wakers.clone());
        let lost = Arc::new(Tracker::default());
        let hs = Arc::new(HandshakeStatus::new(true));
        let status = PathStatus::new(hs, Arc::new(AtomicU16::new(1200)));
        status.release_anti_amplification_limit();
        let trackers: [Arc<dyn Feedback>; 3] = [lost.clone(), lost.clone(), lost.clone()];
        let cc = ArcCC::new(Algorithm::NewReno, Duration::from_millis(25), trackers, status, ArcSendWaker::new());
        let (sent, rj, ack_rx): (SentJ, ArcRcvdJournal, Box<dyn ReceiveFrame<AckFrame, Output = ()>>) = match epoch {
            Epoch::Data => {
                let j: Journal<GuaranteedFrame> = Journal::with_capacity(16, None);
                let sp: ServerParameters = handy::server_parameters();
                let cp = ClientParameters::default();
                let deque: ArcReliableFrameDeque<ReliableFrame> = ArcReliableFrameDeque::with_capacity_and_wakers(8, wakers.clone());
                let streams: qconnection::DataStreams =
                    DataStreams::new(Role::Server, &sp, &cp, Box::new(ConsistentConcurrency::new(2, 2)), deque, wakers.clone(), None);
                let rx = qconnection::space::verif::ack_receiver_data(&j, streams, &crypto);
                (SentJ::D(j.of_sent_packets()), j.of_rcvd_packets(), Box::new(rx))
            }
            Epoch::Initial => {
                let j: Journal<CryptoFrame> = Journal::with_capacity(16, None);
                let rx = qconnection::space::verif::ack_receiver_initial(&j, &crypto);
                (SentJ::C(j.of_sent_packets()), j.of_rcvd_packets(), Box::new(rx))
            }
            Epoch::Handshake => {
                let j: Journal<CryptoFrame> = Journal::with_capacity(16, None);
                let rx = qconnection::space::verif::ack_receiver_handshake(&j, &crypto);
                (SentJ::C(j.of_sent_packets()), j.of_rcvd_packets(), Box::new(rx))
            }
        };
        Self {
            space: space.to_string(),
            epoch,
            ty: ptype(space),
            sent,
            rj,
            cc,
            crypto,
            ack_rx,
            lost,
            unacked: BTreeSet::new(),
            rcvd: vec![],
            rx_next: 0,
            crx_off: 0,
        }
    }

    /// the ACK arm of the frame dispatcher closure in space/{initial,handshake,data}.rs followed by the piped
    /// receiver (Ack*Space::recv_frame): congestion controller, received journal, then the sent journal.
    fn dispatch_ack(&self, f: AckFrame) -> Result<(), Error> {
        self.cc.on_ack_rcvd(self.epoch, &f);
        self.rj.on_rcvd_ack(&f);
        self.ack_rx.recv_frame(f)
    }

    fn send_one(&mut self, with_ack: bool) -> u64 {
        let mut cx = Context::from_waker(noop_waker_ref());
        let mut w = self.crypto.writer();
        let _ = Pin::new(&mut w).poll_write(&mut cx, &[7u8; 10]);
        let mut pkt = Pkt::new(1200);
        let _ = self.crypto.outgoing().try_load_data_into(&mut pkt, false);
        let pn = self.sent.next();
        let mut ack = None;
        if with_ack && let Some(&largest) = self.rcvd.iter().max() {
            let _ = self.rj.gen_ack_frame_util(pn, largest, tokio::time::Instant::now(), 1000);
            ack = Some(largest);
        }
        let got = self.sent.send(&pkt.crypto, with_ack);
        assert_eq!(pn, got);
        self.cc.on_pkt_sent(self.epoch, pn, true, 1200, true, ack);
        self.unacked.insert(pn);
        pn
    }

    fn rcv_pn(&mut self, pn: u64) -> String {
        match self.rj.decode_pn(PacketNumber::encode(pn, pn.saturating_sub(1))) {
            Ok(p) => {
                self.rj.on_rcvd_pn(p, true, self.cc.get_pto(self.epoch));
                self.cc.on_pkt_rcvd(self.epoch, p, true);
                self.rcvd.push(p);
                self.rx_next = self.rx_next.max(p + 1);
                "ok".into()
            }
            Err(e) => format!("drop:{e:?}"),
        }
    }

    fn rj_snapshot(&self) -> Vec<String> {
        self.rcvd
            .iter()
            .map(|pn| format!("{:?}", self.rj.decode_pn(PacketNumber::encode(*pn, pn.saturating_sub(1)))))
            .collect()
    }

    pub fn legit(&mut self, op: &[Value]) -> Value {
        let name = op[0].as_str().unwrap();
        match name {
            "send" => {
                let k = op[1].as_u64().unwrap();
                let first = self.sent.next();
                for _ in 0..k {
                    self.send_one(false);
                }
                json!({"ev": "send", "k": k, "first": first, "next": self.sent.next()})
            }
            "sendack" => {
                let pn = self.send_one(true);
                json!({"ev": "sendack", "pn": pn, "next": self.sent.next()})
            }
            "rcv" | "rcvskip" => {
                let pn = self.rx_next + (name == "rcvskip") as u64;
                let res = self.rcv_pn(pn);
                json!({"ev": name, "pn": pn, "res": res})
            }
            "peerack" => {
                let which = op[1].as_str().unwrap();
                let hi = self.sent.next() - 1;
                let lo = if which == "all" { *self.unacked.iter().next().unwrap_or(&hi) } else { hi };
                let f = parse(&wire::ack(hi, hi - lo, &[]), self.ty);
                let r = f.and_then(|f| match f {
                    Frame::Ack(a) => self.dispatch_ack(a),
                    _ => unreachable!(),
                });
                if r.is_ok() {
                    self.unacked.retain(|p| *p < lo);
                }
                json!({"ev": "peerack", "which": which, "lo": lo, "hi": hi, "res": res_of(&r)})
            }
            "crx" => {
                let off = self.crx_off;
                let r = parse(&wire::crypto(off, &[9u8; 10]), self.ty).and_then(|f| match f {
                    Frame::Crypto(f, d) => self.crypto.incoming().recv_frame((f, d)),
                    _ => unreachable!(),
                });
                if r.is_ok() {
                    self.crx_off += 10;
                }
                json!({"ev": "crx", "off": off, "len": 10, "res": res_of(&r)})
            }
            o => panic!("unknown legit op {o} for a space world"),
        }
    }

    /// concrete frame bytes for a hostile class, or None if the class is not enabled in this state
    pub fn instantiate(&self, kind: &str, cls: &Value) -> Option<(Vec<u8>, Value)> {
        let s = |k: &str| cls[k].as_str().unwrap_or("-").to_string();
        let next = self.sent.next();
        match kind {
            "ack" => {
                let l = match s("a").as_str() {
                    "old" => {
                        if next == 0 || self.unacked.contains(&0) {
                            return None;
                        }
                        0
                    }
                    "mid" => *self.unacked.iter().next()?,
                    "last" => next.checked_sub(1)?,
                    "next" => next,
                    "next1" => next + 1,
                    "p31" => 1 << 31,
                    "max" => MAX,
                    o => panic!("ack L {o}"),
                };
                let f = match s("b").as_str() {
                    "zero" => 0,
                    "all" => l,
                    "neg" => {
                        if l == MAX {
                            return None;
                        }
                        l + 1
                    }
                    "huge" => {
                        if l == MAX {
                            return None;
                        }
                        MAX
                    }
                    o => panic!("ack F {o}"),
                };
                let r = match s("c").as_str() {
                    "r0" => 0,
                    "r1" => 1,
                    "r3" => 3,
                    o => panic!("ack R {o}"),
                };
                let g = match s("d").as_str() {
                    "small" | "-" => 0,
                    "huge" => MAX,
                    o => panic!("ack G {o}"),
                };
                let ranges: Vec<(u64, u64)> = (0..r).map(|_| (g, 0)).collect();
                Some((wire::ack(l, f, &ranges), json!({"largest": l.to_string(), "first": f.to_string(), "ranges": r, "gap": g.to_string()})))
            }
            "pnjump" => {
                let target = self.rx_next
                    + match s("a").as_str() {
                        "next" => 0,
                        "p20" => 1 << 20,
                        "p31m" => (1 << 31) - 1,
                        o => panic!("pnjump {o}"),
                    };
                Some(((target as u32).to_be_bytes().to_vec(), json!({"pn": target.to_string()})))
            }
            "crypto" => {
                let off = match s("a").as_str() {
                    "dup" => {
                        if self.crx_off < 5 {
                            return None;
                        }
                        0
                    }
                    "next" => self.crx_off,
                    "gap" => self.crx_off + 100,
                    "p31" => 1 << 31,
                    "p61m" => (1 << 61) - 1,
                    "p62m" => MAX - 5,
                    "over" => MAX,
                    o => panic!("crypto O {o}"),
                };
                Some((wire::crypto(off, &[3u8; 5]), json!({"off": off.to_string(), "len": 5})))
            }
            o => panic!("unknown hostile kind {o} for a space world"),
        }
    }

    pub fn held(&self) -> u64 {
        (self.unacked.len() + self.rcvd.len()) as u64
    }

    pub fn pre(&self) -> Value {
        json!({"rj": self.rj_snapshot(), "lost": self.lost.0.load(Ordering::Relaxed)})
    }

    /// the measured call: parser + real dispatch
    pub fn hostile(&mut self, kind: &str, bytes: &[u8]) -> String {
        match kind {
            "ack" => match parse(bytes, self.ty) {
                Err(e) => format!("err:{}", kind_of(&e)),
                Ok(Frame::Ack(a)) => res_of(&self.dispatch_ack(a)),
                Ok(_) => unreachable!(),
            },
            "pnjump" => {
                let enc = PacketNumber::U32(u32::from_be_bytes(bytes.try_into().unwrap()));
                match self.rj.decode_pn(enc) {
                    Ok(p) => {
                        self.rj.on_rcvd_pn(p, true, self.cc.get_pto(self.epoch));
                        self.cc.on_pkt_rcvd(self.epoch, p, true);
                        "ok".into()
                    }
                    Err(e) => format!("drop:{e:?}"),
                }
            }
            "crypto" => match parse(bytes, self.ty) {
                Err(e) => format!("err:{}", kind_of(&e)),
                Ok(Frame::Crypto(f, d)) => res_of(&self.crypto.incoming().recv_frame((f, d))),
                Ok(_) => unreachable!(),
            },
            o => panic!("unknown hostile kind {o}"),
        }
    }

    /// after the hostile frame: did protocol state move?  (destructive probe of the sent journal)
    pub fn post(&mut self, kind: &str, pre: &Value) -> Value {
        let rj_after = self.rj_snapshot();
        let rj_changed = json!(rj_after) != pre["rj"];
        let before = self.unacked.len();
        let mut after = 0;
        if kind == "ack" {
            for pn in self.unacked.iter() {
                if self.sent.probe_unacked(*pn) {
                    after += 1;
                }
            }
        } else {
            after = before;
        }
        json!({"unacked_before": before, "unacked_after": after, "rj_changed": rj_changed,
               "cc_lost": self.lost.0.load(Ordering::Relaxed) - pre["lost"].as_u64().unwrap(),
               "changed": (kind == "ack" && (after != before || rj_changed)), "space": self.space})
    }
}

// ------------------------------------------------------------------------------------------------
#[derive(Clone, Default)]
struct Retired(Arc<Mutex<Vec<u64>>>);
impl SendFrame<RetireConnectionIdFrame> for Retired {
    fn send_frame<I: IntoIterator<Item = RetireConnectionIdFrame>>(&self, iter: I) {
        self.0.lock().unwrap().extend(iter.into_iter().map(|f| f.sequence()));
    }
}

#[derive(Clone, Default)]
struct Issued {
    counter: Arc<AtomicU64>,
    frames: Arc<Mutex<Vec<(u64, u64)>>>,
    retired: Arc<Mutex<Vec<ConnectionId>>>,
}
impl GenUniqueCid for Issued {
    fn gen_unique_cid(&self) -> ConnectionId {
        let n = self.counter.fetch_add(1, Ordering::Relaxed) + 1;
        cid_of(0x4000 + n)
    }
}
impl RetireCid for Issued {
    fn retire_cid(&self, cid: ConnectionId) {
        self.retired.lock().unwrap().push(cid);
    }
}
impl SendFrame<NewConnectionIdFrame> for Issued {
    fn send_frame<I: IntoIterator<Item = NewConnectionIdFrame>>(&self, iter: I) {
        self.frames.lock().unwrap().extend(iter.into_iter().map(|f| (f.sequence(), f.retire_prior_to())));
    }
}

fn cid_bytes(seq: u64) -> [u8; 8] {
    let mut b = (seq ^ 0x5a5a_0000_0000_0000).to_be_bytes();
    b[0] |= 0x80;
    b
}
fn cid_of(seq: u64) -> ConnectionId {
    ConnectionId::from_slice(&cid_bytes(seq))
}

pub const RC_LIMIT: u64 = 2;
pub const LC_LIMIT: u64 = 3;

pub struct CidWorld {
    ty: Type,
    remote: ArcRemoteCids<Retired>,
    retired: Retired,
    _cell: ArcCidCell<Retired>,
    local: ArcLocalCids<Issued>,
    issued: Issued,
    // mirror
    known: BTreeSet<u64>,
    rpt: u64,
    next_seq: u64,
    lc_next: u64,
    lc_retired: BTreeSet<u64>,
}

impl CidWorld {
    pub fn new() -> Self {
        let retired = Retired::default();
        let remote = ArcRemoteCids::new(RC_LIMIT, retired.clone());
        let cell = remote.apply_dcid();
        remote.apply_initial_dcid(cid_of(0), &cell);
        let issued = Issued::default();
        let local = ArcLocalCids::new(cid_of(0x4000), issued.clone());
        local.set_limit(LC_LIMIT).unwrap();
        retired.0.lock().unwrap().clear();
        issued.frames.lock().unwrap().clear();
        Self {
            ty: ptype("data"),
            remote,
            retired,
            _cell: cell,
            local,
            issued,
            known: [0].into(),
            rpt: 0,
            next_seq: 1,
            lc_next: LC_LIMIT,
            lc_retired: BTreeSet::new(),
        }
    }

    fn recv_newcid(&self, bytes: &[u8]) -> Result<(), Error> {
        match parse(bytes, self.ty)? {
            Frame::NewConnectionId(f) => self.remote.recv_frame(f).map(|_| ()),
            _ => unreachable!(),
        }
    }
    fn recv_retire(&self, bytes: &[u8]) -> Result<(), Error> {
        match parse(bytes, self.ty)? {
            Frame::RetireConnectionId(f) => self.local.recv_frame(f),
            _ => unreachable!(),
        }
    }
    fn take_retired(&self) -> usize {
        std::mem::take(&mut *self.retired.0.lock().unwrap()).len()
    }
    fn take_issued(&self) -> usize {
        std::mem::take(&mut *self.issued.frames.lock().unwrap()).len()
    }

    pub fn legit(&mut self, op: &[Value]) -> Value {
        match op[0].as_str().unwrap() {
            "newcid" => {
                let mode = op[1].as_str().unwrap();
                let seq = self.next_seq;
                let rpt = if mode == "rpt" { seq } else { self.rpt };
                let r = self.recv_newcid(&wire::new_cid(seq, rpt, &cid_bytes(seq), &[seq as u8; 16]));
                if r.is_ok() {
                    self.known.insert(seq);
                    self.next_seq += 1;
                    if rpt > self.rpt {
                        self.rpt = rpt;
                        self.known.retain(|s| *s >= rpt);
                    }
                }
                json!({"ev": "newcid", "mode": mode, "seq": seq, "rpt": rpt, "res": res_of(&r), "retired": self.take_retired()})
            }
            "retire" => {
                let seq = (0..self.lc_next).find(|s| !self.lc_retired.contains(s)).unwrap();
                let r = self.recv_retire(&wire::retire_cid(seq));
                if r.is_ok() {
                    self.lc_retired.insert(seq);
                    self.lc_next += 1;
                }
                json!({"ev": "retire", "seq": seq, "res": res_of(&r), "issued": self.take_issued()})
            }
            o => panic!("unknown legit op {o} for the cid world"),
        }
    }

    pub fn instantiate(&self, kind: &str, cls: &Value) -> Option<(Vec<u8>, Value)> {
        let s = |k: &str| cls[k].as_str().unwrap_or("-").to_string();
        match kind {
            "newcid" => {
                let seq = match s("a").as_str() {
                    "dup" => *self.known.iter().next_back()?,
                    "next" => self.next_seq,
                    "skip" => self.next_seq + 1,
                    "p31" => 1 << 31,
                    "max" => MAX,
                    o => panic!("newcid S {o}"),
                };
                let rpt = match s("b").as_str() {
                    "zero" => 0,
                    "cur" => self.rpt,
                    "seq" => seq,
                    "seqm1" => seq.checked_sub(1)?,
                    o => panic!("newcid P {o}"),
                };
                Some((wire::new_cid(seq, rpt, &cid_bytes(seq), &[seq as u8; 16]), json!({"seq": seq.to_string(), "rpt": rpt.to_string()})))
            }
            "retirecid" => {
                let seq = match s("a").as_str() {
                    "active" => (0..self.lc_next).find(|s| !self.lc_retired.contains(s))?,
                    "retired" => *self.lc_retired.iter().next()?,
                    "next" => self.lc_next,
                    "p31" => 1 << 31,
                    "max" => MAX,
                    o => panic!("retirecid S {o}"),
                };
                Some((wire::retire_cid(seq), json!({"seq": seq.to_string()})))
            }
            o => panic!("unknown hostile kind {o} for the cid world"),
        }
    }

    pub fn held(&self) -> u64 {
        self.known.len() as u64 + (self.lc_next - self.lc_retired.len() as u64)
    }

    pub fn pre(&self) -> Value {
        json!({"latest": format!("{:?}", self.remote.latest_dcid()), "lret": self.issued.retired.lock().unwrap().len()})
    }

    pub fn hostile(&mut self, kind: &str, bytes: &[u8]) -> String {
        match kind {
            "newcid" => res_of(&self.recv_newcid(bytes)),
            "retirecid" => res_of(&self.recv_retire(bytes)),
            o => panic!("unknown hostile kind {o}"),
        }
    }

    pub fn post(&mut self, _kind: &str, pre: &Value) -> Value {
        let retired = self.take_retired();
        let issued = self.take_issued();
        let latest = format!("{:?}", self.remote.latest_dcid());
        let lret = self.issued.retired.lock().unwrap().len();
        let changed = retired > 0 || issued > 0 || json!(latest) != pre["latest"] || json!(lret) != pre["lret"];
        json!({"retire_frames": retired, "newcid_frames": issued, "changed": changed})
    }
}

// ------------------------------------------------------------------------------------------------
#[derive(Clone, Default)]
pub struct Broker {
    ctl: Arc<Mutex<Vec<StreamCtlFrame>>>,
    other: Arc<AtomicU64>,
}
impl SendFrame<StreamCtlFrame> for Broker {
    fn send_frame<I: IntoIterator<Item = StreamCtlFrame>>(&self, iter: I) {
        self.ctl.lock().unwrap().extend(iter);
    }
}
impl SendFrame<DataBlockedFrame> for Broker {
    fn send_frame<I: IntoIterator<Item = DataBlockedFrame>>(&self, iter: I) {
        self.other.fetch_add(iter.into_iter().count() as u64, Ordering::Relaxed);
    }
}
impl SendFrame<MaxDataFrame> for Broker {
    fn send_frame<I: IntoIterator<Item = MaxDataFrame>>(&self, iter: I) {
        self.other.fetch_add(iter.into_iter().count() as u64, Ordering::Relaxed);
    }
}

/// what we (the server under test) advertised, and what the peer advertised to us
pub const OUR_MAX_DATA: u64 = 100;
pub const OUR_BIDI_LOCAL: u64 = 30;
pub const OUR_BIDI_REMOTE: u64 = 40;
pub const OUR_UNI: u64 = 50;
pub const OUR_STREAMS: u64 = 2;
pub const PEER_MAX_DATA: u64 = 60;
pub const PEER_STREAMS: u64 = 1;

pub struct StreamWorld {
    ty: Type,
    streams: DataStreams<Broker>,
    flow: FlowController<Broker>,
    params: ArcParameters,
    broker: Broker,
    keep: Vec<Box<dyn std::any::Any>>,
    // mirror
    opened: [u64; 2], // bi, uni
    rx: [u64; 2],     // bytes received on client bidi 0 / client uni 0 (sid 0 / sid 2)
}

impl StreamWorld {
    pub fn new() -> Self {
        let mut cp: ClientParameters = handy::client_parameters();
        let mut sp: ServerParameters = handy::server_parameters();
        let v = |x: u64| VarInt::from_u64(x).unwrap();
        for (id, x) in [
            (ParameterId::InitialMaxData, OUR_MAX_DATA),
            (ParameterId::InitialMaxStreamDataBidiLocal, OUR_BIDI_LOCAL),
            (ParameterId::InitialMaxStreamDataBidiRemote, OUR_BIDI_REMOTE),
            (ParameterId::InitialMaxStreamDataUni, OUR_UNI),
            (ParameterId::InitialMaxStreamsBidi, OUR_STREAMS),
            (ParameterId::InitialMaxStreamsUni, OUR_STREAMS),
        ] {
            sp.set(id, v(x)).unwrap();
        }
        for (id, x) in [
            (ParameterId::InitialMaxData, PEER_MAX_DATA),
            (ParameterId::InitialMaxStreamDataBidiLocal, 20),
            (ParameterId::InitialMaxStreamDataBidiRemote, 21),
            (ParameterId::InitialMaxStreamDataUni, 22),
            (ParameterId::InitialMaxStreamsBidi, PEER_STREAMS),
            (ParameterId::InitialMaxStreamsUni, PEER_STREAMS),
        ] {
            cp.set(id, v(x)).unwrap();
        }
        let odcid = ConnectionId::from_slice(&[1, 2, 3, 4, 5, 6, 7, 8]);
        let cscid = ConnectionId::from_slice(&[9, 9, 9, 9, 1, 1, 1, 1]);
        let sscid = ConnectionId::from_slice(&[7, 7, 7, 7, 2, 2, 2, 2]);
        cp.set(ParameterId::InitialSourceConnectionId, cscid).unwrap();
        sp.set(ParameterId::InitialSourceConnectionId, sscid).unwrap();
        sp.set(ParameterId::OriginalDestinationConnectionId, odcid).unwrap();
        let params: ArcParameters = Parameters::new_server(sp.clone()).into();
        let broker = Broker::default();
        let wakers = ArcSendWakers::default();
        let streams = DataStreams::new(
            Role::Server,
            &sp,
            &ClientParameters::default(),
            Box::new(ConsistentConcurrency::new(OUR_STREAMS, OUR_STREAMS)),
            broker.clone(),
            wakers.clone(),
            None,
        );
        let flow = FlowController::new(0, OUR_MAX_DATA, broker.clone(), wakers);
        {
            let mut g = params.lock_guard().unwrap();
            g.recv_remote_params(cp.clone()).unwrap();
            g.initial_scid_from_peer_need_equal(cscid).unwrap();
        }
        streams.revise_params(false, &cp);
        flow.sender.revise_max_data(false, PEER_MAX_DATA);
        Self { ty: ptype("data"), streams, flow, params, broker, keep: vec![], opened: [0, 0], rx: [0, 0] }
    }

    fn deliver(&self, bytes: &[u8]) -> Result<(), Error> {
        match parse(bytes, self.ty)? {
            Frame::Stream(f, d) => {
                let fty = f.frame_type();
                let n = self.streams.recv_data((f, d))?;
                self.flow.on_new_rcvd(fty, n)?;
                Ok(())
            }
            Frame::StreamCtl(c) => {
                let fty = c.frame_type();
                let n = self.streams.recv_stream_control(c)?;
                self.flow.on_new_rcvd(fty, n)?;
                Ok(())
            }
            Frame::MaxData(f) => self.flow.sender.recv_frame(f),
            _ => unreachable!(),
        }
    }

    fn open(&mut self, dir: &str) -> (String, u64) {
        let mut cx = Context::from_waker(noop_waker_ref());
        if dir == "bi" {
            let mut fut = Box::pin(self.streams.open_bi(&self.params));
            let r = fut.as_mut().poll(&mut cx);
            drop(fut);
            match r {
                Poll::Ready(Ok(Some((sid, rw)))) => {
                    self.keep.push(Box::new(rw));
                    ("ok".into(), u64::from(sid))
                }
                Poll::Ready(Ok(None)) => ("exhausted".into(), 0),
                Poll::Ready(Err(e)) => (format!("err:{}", kind_of(&e)), 0),
                Poll::Pending => ("pending".into(), 0),
            }
        } else {
            let mut fut = Box::pin(self.streams.open_uni(&self.params));
            let r = fut.as_mut().poll(&mut cx);
            drop(fut);
            match r {
                Poll::Ready(Ok(Some((sid, w)))) => {
                    self.keep.push(Box::new(w));
                    ("ok".into(), u64::from(sid))
                }
                Poll::Ready(Ok(None)) => ("exhausted".into(), 0),
                Poll::Ready(Err(e)) => (format!("err:{}", kind_of(&e)), 0),
                Poll::Pending => ("pending".into(), 0),
            }
        }
    }

    fn avail(&self) -> u64 {
        self.flow.sender.credit(usize::MAX >> 4).map(|c| c.available() as u64).unwrap_or(0)
    }

    pub fn legit(&mut self, op: &[Value]) -> Value {
        match op[0].as_str().unwrap() {
            "open" => {
                let dir = op[1].as_str().unwrap();
                let (res, sid) = self.open(dir);
                if res == "ok" {
                    self.opened[(dir == "uni") as usize] += 1;
                }
                json!({"ev": "open", "dir": dir, "res": res, "sid": sid})
            }
            "rx" => {
                let dir = op[1].as_str().unwrap();
                let i = (dir == "uni") as usize;
                let off = self.rx[i];
                let r = self.deliver(&wire::stream(if i == 0 { 0 } else { 2 }, off, &[5u8; 10], false));
                if r.is_ok() {
                    self.rx[i] += 10;
                }
                json!({"ev": "rx", "dir": dir, "off": off, "len": 10, "res": res_of(&r)})
            }
            o => panic!("unknown legit op {o} for the stream world"),
        }
    }

    fn sid_of(&self, c: &str) -> Option<u64> {
        Some(match c {
            "peer_bi" => 0,
            "peer_uni" => 2,
            "local_bi_open" => {
                if self.opened[0] == 0 {
                    return None;
                }
                1
            }
            "local_uni_open" => {
                if self.opened[1] == 0 {
                    return None;
                }
                3
            }
            "local_bi_unopened" => 4 * self.opened[0] + 1,
            "local_uni_unopened" => 4 * self.opened[1] + 3,
            "beyond_bi" => (OUR_STREAMS + 1) * 4,
            "beyond_uni" => (OUR_STREAMS + 1) * 4 + 2,
            "huge_bi" => ((1u64 << 60) - 1) * 4,
            o => panic!("sid class {o}"),
        })
    }

    /// receive limit and bytes received so far of the stream a sid class refers to (peer-initiated ones)
    fn limit_of(&self, c: &str) -> (u64, u64) {
        match c {
            "peer_uni" | "beyond_uni" => (OUR_UNI, self.rx[1]),
            "local_bi_open" | "local_bi_unopened" => (OUR_BIDI_LOCAL, 0),
            "peer_bi" => (OUR_BIDI_REMOTE, self.rx[0]),
            _ => (OUR_BIDI_REMOTE, 0),
        }
    }

    pub fn instantiate(&self, kind: &str, cls: &Value) -> Option<(Vec<u8>, Value)> {
        let s = |k: &str| cls[k].as_str().unwrap_or("-").to_string();
        match kind {
            "maxdata" => {
                let v = match s("a").as_str() {
                    "lower" => PEER_MAX_DATA - 1,
                    "equal" => PEER_MAX_DATA,
                    "higher" => PEER_MAX_DATA + 10,
                    "max" => MAX,
                    o => panic!("maxdata {o}"),
                };
                Some((wire::max_data(v), json!({"v": v.to_string()})))
            }
            "maxstreams" => {
                let v = match s("b").as_str() {
                    "lower" => PEER_STREAMS - 1,
                    "equal" => PEER_STREAMS,
                    "higher" => PEER_STREAMS + 2,
                    "p60m" => (1 << 60) - 1,
                    "p60" => 1 << 60,
                    "over60" => (1 << 60) + 1,
                    "max" => MAX,
                    o => panic!("maxstreams {o}"),
                };
                Some((wire::max_streams(s("a") == "uni", v), json!({"v": v.to_string()})))
            }
            "maxstreamdata" => {
                let sid = self.sid_of(&s("a"))?;
                let v = match s("b").as_str() {
                    "lower" => 1,
                    "higher" => 1000,
                    "max" => MAX,
                    o => panic!("maxstreamdata {o}"),
                };
                Some((wire::max_stream_data(sid, v), json!({"sid": sid.to_string(), "v": v.to_string()})))
            }
            "stream" => {
                let sid = self.sid_of(&s("a"))?;
                let (limit, got) = self.limit_of(&s("a"));
                let len = 5u64;
                let off = match s("b").as_str() {
                    "inwin" => got,
                    "atlimit" => limit - len,
                    "overlimit" => limit - len + 1,
                    "p31" => 1 << 31,
                    "endmax" => MAX - len,
                    "overmax" => MAX - 2,
                    o => panic!("stream O {o}"),
                };
                let fin = s("c") == "fin";
                Some((wire::stream(sid, off, &[6u8; 5], fin), json!({"sid": sid.to_string(), "off": off.to_string(), "len": len, "fin": fin})))
            }
            "reset" => {
                let sid = self.sid_of(&s("a"))?;
                let (limit, got) = self.limit_of(&s("a"));
                let fs = match s("b").as_str() {
                    "exact" => got,
                    "below" => got.checked_sub(1)?,
                    "atlimit" => limit,
                    "overlimit" => limit + 1,
                    "max" => MAX,
                    o => panic!("reset F {o}"),
                };
                Some((wire::reset_stream(sid, 7, fs), json!({"sid": sid.to_string(), "final": fs.to_string()})))
            }
            "stop" => {
                let sid = self.sid_of(&s("a"))?;
                Some((wire::stop_sending(sid, 7), json!({"sid": sid.to_string()})))
            }
            o => panic!("unknown hostile kind {o} for the stream world"),
        }
    }

    pub fn held(&self) -> u64 {
        self.opened[0] + self.opened[1] + (self.rx[0] > 0) as u64 + (self.rx[1] > 0) as u64
    }

    pub fn pre(&self) -> Value {
        json!({"ctl": self.broker.ctl.lock().unwrap().len(), "other": self.broker.other.load(Ordering::Relaxed)})
    }

    pub fn hostile(&mut self, _kind: &str, bytes: &[u8]) -> String {
        res_of(&self.deliver(bytes))
    }

    pub fn post(&mut self, kind: &str, pre: &Value) -> Value {
        let ctl = self.broker.ctl.lock().unwrap().len() as u64 - pre["ctl"].as_u64().unwrap();
        let mut j = json!({"ctl_frames": ctl, "changed": ctl > 0});
        match kind {
            "maxdata" => {
                let a = self.avail();
                j["avail"] = json!(a.min(1 << 30));
            }
            "maxstreams" => {
                // how many more streams can be opened now (at most 6 are tried), per direction
                for (i, dir) in ["bi", "uni"].iter().enumerate() {
                    let mut n = 0;
                    while n < 6 && self.open(dir).0 == "ok" {
                        n += 1;
                    }
                    j[format!("can_open_{dir}")] = json!(n);
                    let _ = i;
                }
            }
            _ => {}
        }
        j
    }
}

pub enum World {
    Space(SpaceWorld),
    Cid(CidWorld),
    Stream(StreamWorld),
}

impl World {
    pub fn new(focus: &str, space: &str) -> Self {
        match focus {
            "ack" | "pn" | "crypto" => World::Space(SpaceWorld::new(space)),
            "rcid" | "lcid" => World::Cid(CidWorld::new()),
            "stream" => World::Stream(StreamWorld::new()),
            o => panic!("unknown focus {o}"),
        }
    }
    pub fn legit(&mut self, op: &[Value]) -> Value {
        match self {
            World::Space(w) => w.legit(op),
            World::Cid(w) => w.legit(op),
            World::Stream(w) => w.legit(op),
        }
    }
    pub fn instantiate(&self, kind: &str, cls: &Value) -> Option<(Vec<u8>, Value)> {
        match self {
            World::Space(w) => w.instantiate(kind, cls),
            World::Cid(w) => w.instantiate(kind, cls),
            World::Stream(w) => w.instantiate(kind, cls),
        }
    }
    pub fn held(&self) -> u64 {
        match self {
            World::Space(w) => w.held(),
            World::Cid(w) => w.held(),
            World::Stream(w) => w.held(),
        }
    }
    pub fn pre(&self) -> Value {
        match self {
            World::Space(w) => w.pre(),
            World::Cid(w) => w.pre(),
            World::Stream(w) => w.pre(),
        }
    }
    pub fn hostile(&mut self, kind: &str, bytes: &[u8]) -> String {
        match self {
            World::Space(w) => w.hostile(kind, bytes),
            World::Cid(w) => w.hostile(kind, bytes),
            World::Stream(w) => w.hostile(kind, bytes),
        }
    }
    pub fn post(&mut self, kind: &str, pre: &Value) -> Value {
        match self {
            World::Space(w) => w.post(kind, pre),
            World::Cid(w) => w.post(kind, pre),
            World::Stream(w) => w.post(kind, pre),
        }
    }
}

#[allow(dead_code)]
fn _assert_future<F: Future>(_: &F) {}
