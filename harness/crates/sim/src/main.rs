//! vh-sim — the whole gm-quic stack (real QuicClient + QuicListeners, real TLS) over an in-memory datagram
//! network under virtual time, with a fault schedule.  One NDJSON trace per run, from three sources: the network
//! (every datagram out and in), the application driver (every call with its result and virtual completion time)
//! and a capturing qlog exporter.  The runtime is single-threaded: log order is the real order.
//!
//!   vh-sim run <scenarios.ndjson> <trace-out.ndjson>
#[path = "../../../src/util.rs"]
#[allow(dead_code)]
mod util;
mod net;
mod parse;

use std::{
    net::SocketAddr,
    sync::{Arc, Mutex},
    time::Duration,
};

use dquic::{
    prelude::{handy::*, *},
    qbase::{param::{ClientParameters, ParameterId, ServerParameters}, sid::Dir},
    qinterface::{component::route::QuicRouter, manager::InterfaceManager},
    qresolve::Source,
};
use qevent::{
    GroupID, VantagePointType,
    telemetry::{ExportEvent, QLog, Span},
};
use rustls::pki_types::{CertificateDer, pem::PemObject};
use serde_json::{Value, json};
use tokio::io::{AsyncReadExt, AsyncWriteExt};

use crate::{
    net::{Faults, Log, Net},
    util::{Out, read_lines},
};

const CA_CERT: &[u8] = include_bytes!("/repo/tests/keychain/localhost/ca.cert");
const SERVER_CERT: &[u8] = include_bytes!("/repo/tests/keychain/localhost/server.cert");
const SERVER_KEY: &[u8] = include_bytes!("/repo/tests/keychain/localhost/server.key");

static PANICS: Mutex<Vec<String>> = Mutex::new(Vec::new());

// ---------------------------------------------------------------------------------------------
// qlog capture
struct Capture {
    log: Log,
    side: &'static str,
    mode: String,
}
impl ExportEvent for Capture {
    fn emit(&self, event: qevent::Event) {
        // C20: every event serialises to a JSON object and parses back to an equal event
        // (equal = the parsed event serialises to the same JSON value: untagged enums may parse into a different but
        // equivalent in-memory variant, which is not held against the code)
        let (q, rt_ok) = match serde_json::to_string(&event) {
            Ok(s) => {
                let orig = serde_json::from_str::<Value>(&s).unwrap_or(Value::Null);
                let back: Result<qevent::Event, _> = serde_json::from_str(&s);
                // compare the two DOCUMENTS (text -> Value on both sides: an f32 field re-serialises to the same short text)
                let rt = match &back {
                    Ok(b) => serde_json::to_string(b).ok().and_then(|s2| serde_json::from_str::<Value>(&s2).ok()).map(|v| v == orig).unwrap_or(false),
                    Err(_) => false,
                };
                (orig, rt)
            }
            Err(_) => (Value::Null, false),
        };
        self.log.push(json!({"ev": "qlog", "side": self.side, "rt_ok": rt_ok, "q": q}));
    }
    fn filter_event(&self, scheme: &'static str) -> bool {
        match self.mode.as_str() {
            "filtered" => scheme.contains("packet") || scheme.contains("connection"),
            _ => true,
        }
    }
    fn filter_raw_data(&self) -> bool {
        self.mode == "raw"
    }
}
struct CaptureLogger {
    log: Log,
    mode: String,
}
impl QLog for CaptureLogger {
    fn new_trace(&self, vantage_point: VantagePointType, group_id: GroupID) -> Span {
        let side = match vantage_point {
            VantagePointType::Client => "cli",
            VantagePointType::Server => "srv",
            _ => "net",
        };
        qevent::span!(Arc::new(Capture { log: self.log.clone(), side, mode: self.mode.clone() }), group_id = group_id)
    }
}

fn qlogger(log: &Log, mode: &str) -> Arc<dyn QLog + Send + Sync> {
    match mode {
        "noop" | "none" => Arc::new(NoopLogger),
        m => Arc::new(CaptureLogger { log: log.clone(), mode: m.to_string() }),
    }
}

// ---------------------------------------------------------------------------------------------
fn sid_num(s: StreamId) -> u64 {
    let ty = match (s.role(), s.dir()) {
        (Role::Client, Dir::Bi) => 0,
        (Role::Server, Dir::Bi) => 1,
        (Role::Client, Dir::Uni) => 2,
        (Role::Server, Dir::Uni) => 3,
    };
    s.id() * 4 + ty
}
/// content of stream `sid`, direction-independent (the echo returns what it read)
fn sbyte(sid: u64, i: u64) -> u8 {
    util::content_byte(i.wrapping_add(sid.wrapping_mul(1000003)))
}
fn chunk(sid: u64, from: u64, n: u64) -> Vec<u8> {
    (from..from + n).map(|i| sbyte(sid, i)).collect()
}
fn check(sid: u64, from: u64, data: &[u8]) -> bool {
    data.iter().enumerate().all(|(i, b)| *b == sbyte(sid, from + i as u64))
}
fn errs(e: &dyn std::fmt::Display) -> String {
    e.to_string().chars().take(160).collect()
}

#[derive(Clone)]
struct App {
    log: Log,
    side: &'static str,
    /// pause between the chunks an application writes (keeps the connection busy for a while)
    pace_ms: u64,
}
impl App {
    fn ev(&self, op: &str, sid: u64, mut extra: Value) {
        extra["ev"] = json!("app");
        extra["side"] = json!(self.side);
        extra["op"] = json!(op);
        extra["sid"] = json!(sid);
        self.log.push(extra);
    }
}

async fn write_stream(app: App, sid: u64, mut w: StreamWriter, size: u64, chunk_sz: u64, fin: bool) -> bool {
    let mut at = 0u64;
    while at < size {
        if app.pace_ms > 0 && at > 0 {
            tokio::time::sleep(Duration::from_millis(app.pace_ms)).await;
        }
        let n = chunk_sz.min(size - at);
        app.ev("write", sid, json!({"n": n}));
        if let Err(e) = w.write_all(&chunk(sid, at, n)).await {
            app.ev("err", sid, json!({"what": "write", "msg": errs(&e)}));
            return false;
        }
        app.ev("wdone", sid, json!({"n": n}));
        at += n;
    }
    if fin {
        app.ev("shutdown", sid, json!({}));
        if let Err(e) = w.shutdown().await {
            app.ev("err", sid, json!({"what": "shutdown", "msg": errs(&e)}));
            return false;
        }
        app.ev("sdone", sid, json!({}));
    }
    true
}

/// read until end of stream; returns bytes read if the stream ended cleanly
async fn read_stream(app: App, sid: u64, mut r: StreamReader, bufsz: usize) -> Option<u64> {
    let mut buf = vec![0u8; bufsz];
    let mut at = 0u64;
    loop {
        match r.read(&mut buf).await {
            Ok(0) => {
                app.ev("eos", sid, json!({"at": at}));
                return Some(at);
            }
            Ok(n) => {
                let ok = check(sid, at, &buf[..n]);
                app.ev("read", sid, json!({"n": n, "data_ok": ok}));
                at += n as u64;
            }
            Err(e) => {
                app.ev("err", sid, json!({"what": "read", "msg": errs(&e)}));
                return None;
            }
        }
    }
}

async fn echo_stream(app: App, sid: u64, mut r: StreamReader, mut w: StreamWriter, bufsz: usize) -> bool {
    let mut buf = vec![0u8; bufsz];
    let mut at = 0u64;
    loop {
        match r.read(&mut buf).await {
            Ok(0) => {
                app.ev("eos", sid, json!({"at": at}));
                break;
            }
            Ok(n) => {
                let ok = check(sid, at, &buf[..n]);
                app.ev("read", sid, json!({"n": n, "data_ok": ok}));
                app.ev("write", sid, json!({"n": n}));
                if let Err(e) = w.write_all(&buf[..n]).await {
                    app.ev("err", sid, json!({"what": "write", "msg": errs(&e)}));
                    return false;
                }
                app.ev("wdone", sid, json!({"n": n}));
                at += n as u64;
            }
            Err(e) => {
                app.ev("err", sid, json!({"what": "read", "msg": errs(&e)}));
                return false;
            }
        }
    }
    app.ev("shutdown", sid, json!({}));
    if let Err(e) = w.shutdown().await {
        app.ev("err", sid, json!({"what": "shutdown", "msg": errs(&e)}));
        return false;
    }
    app.ev("sdone", sid, json!({}));
    true
}

fn dgram_payload(id: u32, size: usize) -> Vec<u8> {
    let mut v = Vec::with_capacity(size);
    v.extend_from_slice(&id.to_be_bytes()[..size.min(4)]);
    for i in v.len()..size {
        v.push(util::content_byte(id as u64 * 7919 + i as u64));
    }
    v
}

async fn server_conn(app: App, conn: Connection, sc: Value) {
    let bufsz = sc["srv_buf"].as_u64().unwrap_or(4096) as usize;
    let mut tasks = tokio::task::JoinSet::new();
    {
        let (app, conn) = (app.clone(), conn.clone());
        tasks.spawn(async move {
            let mut inner = tokio::task::JoinSet::new();
            loop {
                match conn.accept_bi_stream().await {
                    Ok((sid, (r, w))) => {
                        let sid = sid_num(sid);
                        app.ev("accept", sid, json!({}));
                        inner.spawn(echo_stream(app.clone(), sid, r, w, bufsz));
                    }
                    Err(e) => {
                        app.ev("err", 0, json!({"what": "accept_bi", "msg": errs(&e)}));
                        break;
                    }
                }
            }
            while inner.join_next().await.is_some() {}
        });
    }
    {
        let (app, conn) = (app.clone(), conn.clone());
        tasks.spawn(async move {
            let mut inner = tokio::task::JoinSet::new();
            loop {
                match conn.accept_uni_stream().await {
                    Ok((sid, r)) => {
                        let sid = sid_num(sid);
                        app.ev("accept", sid, json!({}));
                        let app2 = app.clone();
                        inner.spawn(async move {
                            read_stream(app2, sid, r, bufsz).await;
                        });
                    }
                    Err(e) => {
                        app.ev("err", 0, json!({"what": "accept_uni", "msg": errs(&e)}));
                        break;
                    }
                }
            }
            while inner.join_next().await.is_some() {}
        });
    }
    {
        let (app, conn) = (app.clone(), conn.clone());
        tasks.spawn(async move {
            match conn.handshaked().await {
                Ok(()) => app.ev("handshaked", 0, json!({})),
                Err(e) => app.ev("err", 0, json!({"what": "handshaked", "msg": errs(&e)})),
            }
        });
    }
    if sc["dgrams"].as_u64().unwrap_or(0) > 0 || sc["dgram_reader"].as_bool().unwrap_or(false) {
        let (app, conn) = (app.clone(), conn.clone());
        tasks.spawn(async move {
            let mut reader = match conn.datagram_reader() {
                Ok(Ok(r)) => r,
                Ok(Err(e)) => {
                    app.ev("err", 0, json!({"what": "dgram_reader", "msg": errs(&e)}));
                    return;
                }
                Err(e) => {
                    app.ev("err", 0, json!({"what": "dgram_reader", "msg": errs(&e)}));
                    return;
                }
            };
            loop {
                match reader.recv().await {
                    Ok(b) => {
                        let id = if b.len() >= 4 { u32::from_be_bytes([b[0], b[1], b[2], b[3]]) } else { u32::MAX };
                        let ok = b.len() < 4 || b[..] == dgram_payload(id, b.len())[..];
                        app.ev("dgram_recv", 0, json!({"id": id, "size": b.len(), "data_ok": ok}));
                    }
                    Err(e) => {
                        app.ev("err", 0, json!({"what": "dgram_recv", "msg": errs(&e)}));
                        break;
                    }
                }
            }
        });
    }
    let term = conn.terminated().await;
    app.ev("terminated", 0, json!({"msg": errs(&term)}));
    while tasks.join_next().await.is_some() {}
    app.ev("conn_done", 0, json!({}));
}

async fn client_conn(app: App, conn: Connection, sc: Value) -> bool {
    let nbi = sc["bi"].as_u64().unwrap_or(1);
    let nuni = sc["uni"].as_u64().unwrap_or(0);
    let size = sc["size"].as_u64().unwrap_or(1000);
    let chunk_sz = sc["chunk"].as_u64().unwrap_or(4096).max(1);
    let bufsz = sc["cli_buf"].as_u64().unwrap_or(4096) as usize;
    let mut tasks = tokio::task::JoinSet::new();
    {
        // handshaked() is a pending operation like any other: it must complete (Ok or Err) when the connection ends
        let (app, conn) = (app.clone(), conn.clone());
        tasks.spawn(async move {
            match conn.handshaked().await {
                Ok(()) => app.ev("handshaked", 0, json!({})),
                Err(e) => app.ev("err", 0, json!({"what": "handshaked", "msg": errs(&e)})),
            }
            true
        });
    }
    if sc["cli_accepts"].as_bool().unwrap_or(false) {
        // the server never opens a stream in this workload: these accepts stay parked until the connection ends
        for bi in [true, false] {
            let (app, conn) = (app.clone(), conn.clone());
            tasks.spawn(async move {
                let r = if bi { conn.accept_bi_stream().await.map(|_| ()) } else { conn.accept_uni_stream().await.map(|_| ()) };
                match r {
                    Ok(()) => app.ev("accept", 0, json!({"unexpected": true})),
                    Err(e) => app.ev("err", 0, json!({"what": if bi { "accept_bi" } else { "accept_uni" }, "msg": errs(&e)})),
                }
                true
            });
        }
    }
    for i in 0..nbi {
        let (app, conn) = (app.clone(), conn.clone());
        let size = size + i * 37;
        tasks.spawn(async move {
            match conn.open_bi_stream().await {
                Ok(Some((sid, (r, w)))) => {
                    let sid = sid_num(sid);
                    app.ev("open", sid, json!({}));
                    let (wr, rd) = tokio::join!(write_stream(app.clone(), sid, w, size, chunk_sz, true), read_stream(app.clone(), sid, r, bufsz));
                    let ok = wr && rd == Some(size);
                    app.ev("stream_done", sid, json!({"ok": ok, "size": size, "echoed": rd.map(|x| x as i64).unwrap_or(-1)}));
                    ok
                }
                Ok(None) => {
                    app.ev("err", 0, json!({"what": "open_bi", "msg": "exhausted"}));
                    false
                }
                Err(e) => {
                    app.ev("err", 0, json!({"what": "open_bi", "msg": errs(&e)}));
                    false
                }
            }
        });
    }
    for i in 0..nuni {
        let (app, conn) = (app.clone(), conn.clone());
        let size = size / 2 + i * 11;
        tasks.spawn(async move {
            match conn.open_uni_stream().await {
                Ok(Some((sid, w))) => {
                    let sid = sid_num(sid);
                    app.ev("open", sid, json!({}));
                    let ok = write_stream(app.clone(), sid, w, size, chunk_sz, true).await;
                    app.ev("stream_done", sid, json!({"ok": ok, "size": size}));
                    ok
                }
                Ok(None) => {
                    app.ev("err", 0, json!({"what": "open_uni", "msg": "exhausted"}));
                    false
                }
                Err(e) => {
                    app.ev("err", 0, json!({"what": "open_uni", "msg": errs(&e)}));
                    false
                }
            }
        });
    }
    let ndg = sc["dgrams"].as_u64().unwrap_or(0);
    if ndg > 0 {
        let (app, conn) = (app.clone(), conn.clone());
        let dsize = sc["dgram_size"].as_u64().unwrap_or(100) as usize;
        tasks.spawn(async move {
            let writer = match conn.datagram_writer().await {
                Ok(Ok(w)) => w,
                Ok(Err(e)) => {
                    app.ev("err", 0, json!({"what": "dgram_writer", "msg": errs(&e)}));
                    return true;
                }
                Err(e) => {
                    app.ev("err", 0, json!({"what": "dgram_writer", "msg": errs(&e)}));
                    return true;
                }
            };
            for id in 0..ndg as u32 {
                let sz = dsize + (id as usize * 13) % 50;
                let res = writer.send(&dgram_payload(id, sz));
                app.ev("dgram_send", 0, json!({"id": id, "size": sz, "res": if res.is_ok() { "ok".to_string() } else { errs(&res.unwrap_err()) }}));
                tokio::time::sleep(Duration::from_millis(3)).await;
            }
            true
        });
    }
    let mut all_ok = true;
    while let Some(r) = tasks.join_next().await {
        all_ok &= r.unwrap_or(false);
    }
    all_ok
}

fn set_params<P>(mut set: impl FnMut(ParameterId, u64), v: &Value, _p: std::marker::PhantomData<P>) {
    let ids = [
        ("max_data", ParameterId::InitialMaxData),
        ("bidi_local", ParameterId::InitialMaxStreamDataBidiLocal),
        ("bidi_remote", ParameterId::InitialMaxStreamDataBidiRemote),
        ("uni", ParameterId::InitialMaxStreamDataUni),
        ("streams_bidi", ParameterId::InitialMaxStreamsBidi),
        ("streams_uni", ParameterId::InitialMaxStreamsUni),
        ("max_datagram", ParameterId::MaxDatagramFrameSize),
        ("cid_limit", ParameterId::ActiveConnectionIdLimit),
    ];
    for (k, id) in ids {
        if let Some(x) = v.get(k).and_then(|x| x.as_u64()) {
            set(id, x);
        }
    }
}

async fn run_scenario(sc: Value, log: Log) -> Value {
    let seed = sc["seed"].as_u64().unwrap_or(1);
    let server_addr: SocketAddr = "127.0.0.1:4433".parse().unwrap();
    let faults = Faults::from_json(&sc["faults"], seed);
    let net = Net::new(log.clone(), faults, server_addr, sc["lat_ms"].as_u64().unwrap_or(5), sc["max_segments"].as_u64().unwrap_or(4) as usize);
    let netc = net.clone();
    let factory: Arc<dyn dquic::qinterface::io::ProductIO> = Arc::new(move |uri: BindUri| netc.bind(uri));
    let router = Arc::new(QuicRouter::default());
    let manager = Arc::new(InterfaceManager::new());
    let qmode = sc["qlog"].as_str().unwrap_or("capture").to_string();

    let mut sp: ServerParameters = server_parameters();
    let mut cp: ClientParameters = client_parameters();
    set_params(|id, v| sp.set(id, dquic::qbase::varint::VarInt::from_u64(v).unwrap()).unwrap(), &sc["sparams"], std::marker::PhantomData::<()>);
    set_params(|id, v| cp.set(id, dquic::qbase::varint::VarInt::from_u64(v).unwrap()).unwrap(), &sc["cparams"], std::marker::PhantomData::<()>);
    if let Some(ms) = sc["sparams"].get("idle_ms").and_then(|x| x.as_u64()) {
        sp.set(ParameterId::MaxIdleTimeout, Duration::from_millis(ms)).unwrap();
    }
    if let Some(ms) = sc["cparams"].get("idle_ms").and_then(|x| x.as_u64()) {
        cp.set(ParameterId::MaxIdleTimeout, Duration::from_millis(ms)).unwrap();
    }

    let listeners = QuicListeners::builder()
        .with_router(router.clone())
        .with_iface_factory(factory.clone())
        .with_iface_manager(manager.clone())
        .without_client_cert_verifier()
        .with_parameters(sp);
    let listeners = if qmode == "none" { listeners } else { listeners.with_qlog(qlogger(&log, &qmode)) };
    let listeners = listeners.listen(128).expect("listen");
    listeners.add_server("localhost", SERVER_CERT, SERVER_KEY, ["inet://127.0.0.1:4433"], None).await.expect("add_server");

    let sapp = App { log: log.clone(), side: "srv", pace_ms: 0 };
    let capp = App { log: log.clone(), side: "cli", pace_ms: sc["pace_ms"].as_u64().unwrap_or(0) };
    let close_at = sc["close"]["srv"].as_u64();
    let srv_close = close_at.is_some();
    let server_task = {
        let (listeners, sapp, sc) = (listeners.clone(), sapp.clone(), sc.clone());
        tokio::spawn(async move {
            let mut conns = tokio::task::JoinSet::new();
            while let Ok((conn, _name, _pathway, _link)) = listeners.accept().await {
                sapp.ev("accepted_conn", 0, json!({}));
                if srv_close {
                    if let Some(ms) = close_at {
                        let (c2, a2) = (conn.clone(), sapp.clone());
                        tokio::spawn(async move {
                            tokio::time::sleep_until(a2.log_t0() + Duration::from_millis(ms)).await;
                            a2.ev("close", 0, json!({}));
                            _ = c2.close("server closes", 7);
                        });
                    }
                }
                conns.spawn(server_conn(sapp.clone(), conn, sc.clone()));
            }
            while conns.join_next().await.is_some() {}
        })
    };

    let mut roots = rustls::RootCertStore::empty();
    roots.add_parsable_certificates(CertificateDer::pem_slice_iter(CA_CERT).map(Result::unwrap));
    let client = QuicClient::builder()
        .with_router(router)
        .with_iface_factory(factory)
        .with_iface_manager(manager)
        .with_root_certificates(roots)
        .with_parameters(cp)
        .without_cert();
    let client = if qmode == "none" { client } else { client.with_qlog(qlogger(&log, &qmode)) };
    let client = client
        .bind(["inet://127.0.0.1:40001"])
        .await
        .build();
    let client = Arc::new(client);

    let deadline = Duration::from_millis(sc["deadline_ms"].as_u64().unwrap_or(120_000));
    let cli_task = {
        let (capp, sc, client) = (capp.clone(), sc.clone(), client.clone());
        tokio::spawn(async move {
            capp.ev("connect", 0, json!({}));
            let conn = match client.connected_to_with_source("localhost", [(Source::System, server_addr.into())]).await {
                Ok(c) => c,
                Err(e) => {
                    capp.ev("err", 0, json!({"what": "connect", "msg": errs(&e)}));
                    return false;
                }
            };
            {
                if let Some(ms) = sc["close"]["cli"].as_u64() {
                    let (c2, a2) = (conn.clone(), capp.clone());
                    tokio::spawn(async move {
                        tokio::time::sleep_until(a2.log_t0() + Duration::from_millis(ms)).await;
                        a2.ev("close", 0, json!({}));
                        _ = c2.close("client closes", 9);
                    });
                }
            }
            let ok = client_conn(capp.clone(), conn.clone(), sc.clone()).await;
            capp.ev("workload_done", 0, json!({"ok": ok}));
            if sc["lingers"].as_bool().unwrap_or(false) {
                // stay idle: the negotiated idle timeout must close the connection
                let term = conn.terminated().await;
                capp.ev("terminated", 0, json!({"msg": errs(&term)}));
            } else {
                capp.ev("close", 0, json!({}));
                _ = conn.close("done", 0);
                let term = conn.terminated().await;
                capp.ev("terminated", 0, json!({"msg": errs(&term)}));
            }
            ok
        })
    };

    // the run ends when the client is done and the server saw the end of its connection, or at the deadline
    let mut cli_task = cli_task;
    let cli_res = tokio::time::timeout(deadline, &mut cli_task).await;
    let cli_done = cli_res.is_ok();
    let cli_ok = matches!(cli_res, Ok(Ok(true)));
    // give the server until the deadline to learn about the end of the connection
    let remaining = deadline.saturating_sub(Duration::from_micros(log.now_us()));
    let mut srv_finished = false;
    let t_end = tokio::time::Instant::now() + remaining;
    loop {
        let evs_done = log.count(|e| e["ev"] == "app" && e["side"] == "srv" && e["op"] == "conn_done");
        let evs_acc = log.count(|e| e["ev"] == "app" && e["side"] == "srv" && e["op"] == "accepted_conn");
        if evs_acc == evs_done && (evs_acc > 0 || cli_done) {
            srv_finished = true;
            break;
        }
        if tokio::time::Instant::now() >= t_end {
            break;
        }
        tokio::time::sleep(Duration::from_millis(50)).await;
    }
    listeners.shutdown();
    server_task.abort();
    cli_task.abort();
    json!({"ev": "final", "cli_done": cli_done, "cli_ok": cli_ok, "srv_done": srv_finished, "t": log.now_us()})
}

impl App {
    fn log_t0(&self) -> tokio::time::Instant {
        self.log.t0()
    }
}

fn cap(v: Option<&Value>) -> i64 {
    match v {
        Some(Value::Number(n)) => n.as_i64().map(|x| x.clamp(-1, i32::MAX as i64)).or_else(|| n.as_u64().map(|_| i32::MAX as i64)).or_else(|| n.as_f64().map(|f| (f as i64).clamp(-1, i32::MAX as i64))).unwrap_or(-1),
        _ => -1,
    }
}
fn st(v: Option<&Value>) -> String {
    v.and_then(|x| x.as_str()).unwrap_or("").to_string()
}

/// the part of a qlog event the trace specifications look at (TLC integers are 32-bit, no floats)
fn slim(e: &Value) -> Value {
    let q = &e["q"];
    let name = q["name"].as_str().unwrap_or("");
    let d = &q["data"];
    let mut o = json!({
        "ev": "q", "side": e["side"], "t": e["t"], "rt_ok": e["rt_ok"],
        "name": name.strip_prefix("quic:").unwrap_or(name),
        "scheme_ok": name.starts_with("quic:"),
        "has_time": q["time"].is_number(), "has_name": q["name"].is_string(), "has_data": q["data"].is_object(),
        "has_group": q.get("group_id").is_some(),
        "gid": q.get("group_id").and_then(|g| g.as_str()).unwrap_or(""),
    });
    match o["name"].as_str().unwrap() {
        "packet_sent" | "packet_received" | "packet_lost" | "packet_dropped" => {
            o["ty"] = json!(st(d["header"].get("packet_type")));
            o["pn"] = json!(cap(d["header"].get("packet_number")));
            o["len"] = json!(cap(d["raw"].get("length")));
            o["nframes"] = json!(d["frames"].as_array().map(|a| a.len()).unwrap_or(0));
            o["carries_data"] = json!(d["frames"].as_array().map(|a| a.iter().any(|f| matches!(f["frame_type"].as_str(), Some("stream") | Some("datagram")))).unwrap_or(false));
            o["trigger"] = json!(st(d.get("trigger")));
            o["has_header"] = json!(d["header"].is_object());
        }
        "connection_state_updated" => {
            o["new"] = json!(st(d.get("new")));
            o["old"] = json!(st(d.get("old")));
        }
        "stream_state_updated" => {
            o["sid"] = json!(cap(d.get("stream_id")));
            o["new"] = json!(st(d.get("new")));
            o["old"] = json!(st(d.get("old")));
            o["sside"] = json!(st(d.get("stream_side")));
            o["stype"] = json!(st(d.get("stream_type")));
        }
        "stream_data_moved" => {
            o["sid"] = json!(cap(d.get("stream_id")));
            o["off"] = json!(cap(d.get("offset")));
            o["len"] = json!(cap(d.get("length")));
            o["from"] = json!(st(d.get("from")));
            o["to"] = json!(st(d.get("to")));
        }
        "packets_acked" => {
            o["space"] = json!(st(d.get("packet_number_space")));
            let pns = d.get("packet_numbers").or_else(|| d.get("packet_nubers"));
            o["pns"] = json!(pns.and_then(|a| a.as_array()).map(|a| a.iter().map(|x| cap(Some(x))).collect::<Vec<_>>()).unwrap_or_default());
        }
        "recovery_metrics_updated" => {
            o["cwnd"] = json!(cap(d.get("congestion_window")));
            o["inflight"] = json!(cap(d.get("bytes_in_flight")));
            o["ssthresh"] = json!(cap(d.get("ssthresh")));
        }
        "connection_closed" => {
            o["owner"] = json!(st(d.get("owner")));
        }
        _ => {}
    }
    o
}

fn run(args: &[String]) -> i32 {
    std::panic::set_hook(Box::new(|info| {
        let msg = info.to_string().chars().take(300).collect::<String>();
        PANICS.lock().unwrap().push(msg);
    }));
    rustls::crypto::ring::default_provider().install_default().ok();
    let mut out = Out::create(&args[1]);
    let mut rawout = args.get(2).map(|p| Out::create(p));
    let mut n = 0;
    for line in read_lines(&args[0]) {
        let sc: Value = serde_json::from_str(&line).expect("scenario json");
        let rt = tokio::runtime::Builder::new_current_thread().enable_time().start_paused(true).build().unwrap();
        PANICS.lock().unwrap().clear();
        let (events, fin) = rt.block_on(async {
            let log = Log::new();
            let fin = run_scenario(sc.clone(), log.clone()).await;
            (log.take(), fin)
        });
        drop(rt);
        out.emit(&json!({"ev": "reset", "sc": sc, "scs": serde_json::to_string(&sc).unwrap()}));
        let mut sum: Vec<String> = events.iter().filter(|e| e["ev"] == "app" && e["op"] == "stream_done")
            .map(|e| format!("{}:{}:{}:{}", e["sid"], e["size"], e["ok"], e.get("echoed").cloned().unwrap_or(json!(-2)))).collect();
        sum.sort();
        sum.push(format!("cli_ok={}", fin["cli_ok"]));
        for e in events {
            if e["ev"] == "qlog" {
                let sl = slim(&e);
                let keep = match sc["qkeep"].as_str() {
                    Some("pkt") => sl["name"] == "packet_sent" || sl["name"] == "packet_received",
                    Some("life") => sl["name"] == "packet_sent" || sl["name"] == "connection_state_updated" || sl["name"] == "connection_closed",
                    _ => true,
                };
                if keep {
                    out.emit(&sl);
                }
                if let Some(raw) = rawout.as_mut() {
                    raw.emit(&e);
                }
            } else {
                out.emit(&e);
            }
        }
        for p in PANICS.lock().unwrap().drain(..) {
            out.emit(&json!({"ev": "panic", "msg": p}));
        }
        out.emit(&json!({"ev": "appsum", "sum": sum.join(",")}));
        out.emit(&fin);
        n += 1;
    }
    out.finish();
    if let Some(r) = rawout {
        r.finish();
    }
    println!("{{\"runs\": {n}}}");
    0
}

/// vh-sim events <trace-out.ndjson> — C20, "for all field values of the event builders": events built through the real
/// conversions from qbase types (transport parameters with every connection-id length 0..20, with and without
/// preferred_address, both owners and roles; ACK / STREAM / CRYPTO / DATAGRAM frames; packet headers) are emitted inside a span
/// with the capturing exporter, which round-trips each through JSON.  A panic while building or emitting is recorded.
fn events(args: &[String]) -> i32 {
    use dquic::qbase::{cid::ConnectionId, param::preferred_address::PreferredAddress, token::ResetToken};
    use qevent::quic::{Owner, transport::ParametersSet};
    std::panic::set_hook(Box::new(|info| {
        PANICS.lock().unwrap().push(info.to_string().chars().take(300).collect::<String>());
    }));
    let mut out = Out::create(&args[0]);
    let rt = tokio::runtime::Builder::new_current_thread().enable_time().start_paused(true).build().unwrap();
    let mut n = 0;
    rt.block_on(async {
        for (gi, with_pa) in [false, true].into_iter().enumerate() {
            for len in [0usize, 1, 7, 8, 19, 20] {
                let log = Log::new();
                let logger = CaptureLogger { log: log.clone(), mode: "capture".to_string() };
                let span = logger.new_trace(VantagePointType::Server, GroupID::from(format!("evt{gi}{len}")));
                PANICS.lock().unwrap().clear();
                let cid = ConnectionId::from_slice(&(0..len as u8).map(|b| b.wrapping_mul(37).wrapping_add(1)).collect::<Vec<u8>>());
                let r = std::panic::catch_unwind(std::panic::AssertUnwindSafe(|| {
                    span.in_scope(|| {
                        let mut sp: ServerParameters = server_parameters();
                        sp.set(ParameterId::InitialSourceConnectionId, cid).unwrap();
                        sp.set(ParameterId::OriginalDestinationConnectionId, cid).unwrap();
                        if with_pa {
                            let pa = PreferredAddress::new("192.0.2.7:4433".parse().unwrap(), "[2001:db8::7]:4434".parse().unwrap(), cid,
                                                           ResetToken::new(&[7u8; 16]));
                            sp.set(ParameterId::PreferredAddress, pa).unwrap();
                        }
                        qevent::event!(ParametersSet { owner: Owner::Remote, server_parameters: &sp });
                        let mut cp: ClientParameters = client_parameters();
                        cp.set(ParameterId::InitialSourceConnectionId, cid).unwrap();
                        qevent::event!(ParametersSet { owner: Owner::Local, client_parameters: &cp });
                    })
                }));
                out.emit(&json!({"ev": "reset", "sc": {"group": format!("evt-{gi}-{len}"), "qlog": "capture"}, "scs": "{}"}));
                for e in log.take() {
                    if e["ev"] == "qlog" {
                        out.emit(&slim(&e));
                    }
                }
                if r.is_err() || !PANICS.lock().unwrap().is_empty() {
                    for p in PANICS.lock().unwrap().drain(..) {
                        out.emit(&json!({"ev": "panic", "msg": p}));
                    }
                }
                out.emit(&json!({"ev": "final", "cli_done": true, "cli_ok": true, "srv_done": true, "t": 0}));
                n += 1;
            }
        }
    });
    out.finish();
    println!("{{\"runs\": {n}}}");
    0
}

fn main() {
    let args: Vec<String> = std::env::args().collect();
    let code = match args.get(1).map(|s| s.as_str()) {
        Some("run") => run(&args[2..]),
        Some("events") => events(&args[2..]),
        _ => {
            eprintln!("usage: vh-sim run <scenarios.ndjson> <trace.ndjson>");
            2
        }
    };
    std::process::exit(code);
}
