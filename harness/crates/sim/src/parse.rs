//! Independent (RFC 9000 §17) split of a UDP datagram into its coalesced QUIC packets:
//! only the unprotected invariants are read (form bit, type bits, version, cid lengths, token length, Length).
use serde_json::{Value, json};

fn varint(d: &[u8], at: usize) -> Option<(u64, usize)> {
    let b = *d.get(at)?;
    let n = 1usize << (b >> 6);
    if at + n > d.len() {
        return None;
    }
    let mut v = (b & 0x3f) as u64;
    for i in 1..n {
        v = (v << 8) | d[at + i] as u64;
    }
    Some((v, n))
}

pub fn packets(d: &[u8]) -> Value {
    let mut out = vec![];
    let mut at = 0usize;
    while at < d.len() {
        let b0 = d[at];
        if b0 & 0x80 == 0 {
            // zero bytes after the last long-header packet are datagram padding, not a packet
            let ty = if d[at..].iter().all(|b| *b == 0) { "pad" } else { "1rtt" };
            out.push(json!({"ty": ty, "off": at, "len": d.len() - at}));
            break;
        }
        if at + 7 > d.len() {
            out.push(json!({"ty": "garbage", "off": at, "len": d.len() - at}));
            break;
        }
        let version = u32::from_be_bytes([d[at + 1], d[at + 2], d[at + 3], d[at + 4]]);
        let mut p = at + 5;
        let dl = d[p] as usize;
        p += 1 + dl;
        if p >= d.len() {
            out.push(json!({"ty": "garbage", "off": at, "len": d.len() - at}));
            break;
        }
        let sl = d[p] as usize;
        p += 1 + sl;
        if version == 0 {
            out.push(json!({"ty": "vn", "off": at, "len": d.len() - at}));
            break;
        }
        let ty = (b0 & 0x30) >> 4;
        if ty == 3 {
            out.push(json!({"ty": "retry", "off": at, "len": d.len() - at}));
            break;
        }
        if ty == 0 {
            let Some((tl, n)) = varint(d, p) else {
                out.push(json!({"ty": "garbage", "off": at, "len": d.len() - at}));
                break;
            };
            p += n + tl as usize;
        }
        let Some((len, n)) = varint(d, p) else {
            out.push(json!({"ty": "garbage", "off": at, "len": d.len() - at}));
            break;
        };
        p += n;
        let end = p + len as usize;
        if end > d.len() {
            out.push(json!({"ty": "garbage", "off": at, "len": d.len() - at}));
            break;
        }
        let name = match ty { 0 => "initial", 1 => "0rtt", _ => "handshake" };
        out.push(json!({"ty": name, "off": at, "len": end - at}));
        at = end;
    }
    Value::Array(out)
}
