//! In-memory datagram network under virtual time, with a per-datagram fault schedule.
//! Every datagram handed to `poll_send` gets an index per direction ("c2s"/"s2c") and a fate:
//! deliver, drop, duplicate, delay, truncate, bit-flip.  Everything is recorded in the shared log.
use std::{
    collections::{HashMap, VecDeque},
    io,
    net::SocketAddr,
    sync::{Arc, Mutex},
    task::{Context, Poll, Waker},
    time::Duration,
};

use bytes::BytesMut;
use qbase::net::route::{Line, Link, Pathway, Route};
use qinterface::{bind_uri::BindUri, io::IO};
use serde_json::{Value, json};

use crate::util::Rng;

#[derive(Clone)]
pub struct Log {
    inner: Arc<Mutex<Vec<Value>>>,
    t0: tokio::time::Instant,
}
impl Log {
    pub fn new() -> Self {
        Log { inner: Arc::new(Mutex::new(Vec::new())), t0: tokio::time::Instant::now() }
    }
    /// virtual microseconds since the start of the run
    pub fn now_us(&self) -> u64 {
        self.t0.elapsed().as_micros() as u64
    }
    pub fn push(&self, mut v: Value) {
        v["t"] = json!(self.now_us());
        self.inner.lock().unwrap().push(v);
    }
    pub fn t0(&self) -> tokio::time::Instant {
        self.t0
    }
    pub fn count(&self, f: impl Fn(&Value) -> bool) -> usize {
        self.inner.lock().unwrap().iter().filter(|e| f(e)).count()
    }
    pub fn take(&self) -> Vec<Value> {
        std::mem::take(&mut *self.inner.lock().unwrap())
    }
}

#[derive(Clone, Debug)]
pub enum Fate {
    Deliver,
    Drop,
    Dup,
    /// deliver now and replay the same datagram much later (after the receiver's journal rotated the record out)
    DupLate(u64),
    Delay(u64),
    Trunc(usize),
    Flip(usize),
}

pub struct Faults {
    pub explicit: HashMap<(String, u64), Fate>,
    /// percentages for random faults, applied while `until_us` has not passed (None = forever)
    pub drop: u64,
    pub dup: u64,
    pub delay: u64,
    pub flip: u64,
    pub trunc: u64,
    pub until_us: Option<u64>,
    /// blackhole: drop everything in this direction from this datagram index on
    pub blackhole: HashMap<String, u64>,
    /// drop everything handed to the network from this virtual time on
    pub blackhole_after_us: Option<u64>,
    pub rng: Rng,
}
impl Faults {
    pub fn from_json(v: &Value, seed: u64) -> Self {
        let mut explicit = HashMap::new();
        for dir in ["c2s", "s2c"] {
            if let Some(m) = v.get(dir).and_then(|m| m.as_object()) {
                for (k, f) in m {
                    let idx: u64 = k.parse().unwrap();
                    let fate = match f {
                        Value::String(s) if s == "drop" => Fate::Drop,
                        Value::String(s) if s == "dup" => Fate::Dup,
                        Value::Array(a) if a[0] == "delay" => Fate::Delay(a[1].as_u64().unwrap()),
                        Value::Array(a) if a[0] == "duplate" => Fate::DupLate(a[1].as_u64().unwrap()),
                        Value::Array(a) if a[0] == "trunc" => Fate::Trunc(a[1].as_u64().unwrap() as usize),
                        Value::Array(a) if a[0] == "flip" => Fate::Flip(a[1].as_u64().unwrap() as usize),
                        _ => Fate::Deliver,
                    };
                    explicit.insert((dir.to_string(), idx), fate);
                }
            }
        }
        let g = |k: &str| v.get(k).and_then(|x| x.as_u64()).unwrap_or(0);
        let mut blackhole = HashMap::new();
        if let Some(m) = v.get("blackhole").and_then(|m| m.as_object()) {
            for (k, x) in m {
                blackhole.insert(k.clone(), x.as_u64().unwrap());
            }
        }
        Faults {
            explicit,
            drop: g("drop"),
            dup: g("dup"),
            delay: g("delay"),
            flip: g("flip"),
            trunc: g("trunc"),
            until_us: v.get("until_ms").and_then(|x| x.as_u64()).map(|m| m * 1000),
            blackhole,
            blackhole_after_us: v.get("blackhole_after_ms").and_then(|x| x.as_u64()).map(|m| m * 1000),
            rng: Rng(seed ^ 0x5eed_fa17),
        }
    }
    fn fate(&mut self, dir: &str, idx: u64, len: usize, now_us: u64) -> Fate {
        if let Some(f) = self.explicit.get(&(dir.to_string(), idx)) {
            return f.clone();
        }
        if self.blackhole_after_us.map(|u| now_us >= u).unwrap_or(false) {
            return Fate::Drop;
        }
        if let Some(from) = self.blackhole.get(dir) {
            if idx >= *from {
                return Fate::Drop;
            }
        }
        if self.until_us.map(|u| now_us >= u).unwrap_or(false) {
            return Fate::Deliver;
        }
        let total = self.drop + self.dup + self.delay + self.flip + self.trunc;
        if total == 0 {
            return Fate::Deliver;
        }
        let r = self.rng.below(100);
        let mut acc = self.drop;
        if r < acc {
            return Fate::Drop;
        }
        acc += self.dup;
        if r < acc {
            return Fate::Dup;
        }
        acc += self.delay;
        if r < acc {
            return Fate::Delay(self.rng.range(1, 60));
        }
        acc += self.flip;
        if r < acc {
            return Fate::Flip(self.rng.below((len * 8) as u64) as usize);
        }
        acc += self.trunc;
        if r < acc {
            return Fate::Trunc(self.rng.below(len as u64) as usize);
        }
        Fate::Deliver
    }
}

struct Inbox {
    q: VecDeque<(Vec<u8>, SocketAddr)>,
    waker: Option<Waker>,
}

pub struct NetInner {
    inboxes: HashMap<SocketAddr, Inbox>,
    counters: HashMap<String, u64>,
    faults: Faults,
    server: SocketAddr,
    next_port: u16,
}

#[derive(Clone)]
pub struct Net {
    inner: Arc<Mutex<NetInner>>,
    pub log: Log,
    latency: Duration,
    max_segments: usize,
}

impl Net {
    pub fn new(log: Log, faults: Faults, server: SocketAddr, latency_ms: u64, max_segments: usize) -> Self {
        Net {
            inner: Arc::new(Mutex::new(NetInner { inboxes: HashMap::new(), counters: HashMap::new(), faults, server, next_port: 50000 })),
            log,
            latency: Duration::from_millis(latency_ms),
            max_segments,
        }
    }

    pub fn bind(&self, uri: BindUri) -> MemIo {
        let mut addr = SocketAddr::try_from(&uri).expect("inet bind uri");
        let mut g = self.inner.lock().unwrap();
        if addr.port() == 0 {
            addr.set_port(g.next_port);
            g.next_port += 1;
        }
        g.inboxes.entry(addr).or_insert(Inbox { q: VecDeque::new(), waker: None });
        MemIo { net: self.clone(), uri, addr, closed: false }
    }

    fn deliver(&self, dst: SocketAddr, src: SocketAddr, data: Vec<u8>, dir: &str, idx: u64, copy: u32) {
        let mut g = self.inner.lock().unwrap();
        let len = data.len();
        if let Some(ib) = g.inboxes.get_mut(&dst) {
            ib.q.push_back((data, src));
            if let Some(w) = ib.waker.take() {
                w.wake();
            }
            drop(g);
            self.log.push(json!({"ev": "dlv", "dir": dir, "i": idx, "len": len, "copy": copy}));
        } else {
            drop(g);
            self.log.push(json!({"ev": "undeliverable", "dir": dir, "i": idx, "len": len}));
        }
    }

    fn send_one(&self, src: SocketAddr, dst: SocketAddr, data: &[u8]) {
        let (dir, idx, fate) = {
            let mut g = self.inner.lock().unwrap();
            let dir = if dst == g.server { "c2s" } else { "s2c" }.to_string();
            let c = g.counters.entry(dir.clone()).or_insert(0);
            let idx = *c;
            *c += 1;
            let now = self.log.now_us();
            let fate = g.faults.fate(&dir, idx, data.len(), now);
            (dir, idx, fate)
        };
        let pk = crate::parse::packets(data);
        let mut ev = json!({"ev": "dgram", "dir": dir, "i": idx, "len": data.len(), "pkts": pk});
        let mut sends: Vec<(Duration, Vec<u8>, u32)> = vec![];
        match fate {
            Fate::Deliver => {
                ev["fate"] = json!("deliver");
                sends.push((self.latency, data.to_vec(), 0));
            }
            Fate::Drop => {
                ev["fate"] = json!("drop");
            }
            Fate::Dup => {
                ev["fate"] = json!("dup");
                sends.push((self.latency, data.to_vec(), 0));
                sends.push((self.latency * 3, data.to_vec(), 1));
            }
            Fate::DupLate(ms) => {
                ev["fate"] = json!("dup");
                ev["arg"] = json!(ms);
                sends.push((self.latency, data.to_vec(), 0));
                sends.push((self.latency + Duration::from_millis(ms), data.to_vec(), 1));
            }
            Fate::Delay(ms) => {
                ev["fate"] = json!("delay");
                ev["arg"] = json!(ms);
                sends.push((self.latency + Duration::from_millis(ms), data.to_vec(), 0));
            }
            Fate::Trunc(n) => {
                ev["fate"] = json!("trunc");
                ev["arg"] = json!(n);
                sends.push((self.latency, data[..n.min(data.len())].to_vec(), 0));
            }
            Fate::Flip(bit) => {
                ev["fate"] = json!("flip");
                ev["arg"] = json!(bit);
                let mut d = data.to_vec();
                if !d.is_empty() {
                    let b = bit % (d.len() * 8);
                    d[b / 8] ^= 1 << (b % 8);
                }
                sends.push((self.latency, d, 0));
            }
        }
        self.log.push(ev);
        for (after, d, copy) in sends {
            let net = self.clone();
            let dirc = dir.clone();
            tokio::spawn(async move {
                tokio::time::sleep(after).await;
                net.deliver(dst, src, d, &dirc, idx, copy);
            });
        }
    }
}

pub struct MemIo {
    net: Net,
    uri: BindUri,
    addr: SocketAddr,
    closed: bool,
}

impl IO for MemIo {
    fn bind_uri(&self) -> BindUri {
        self.uri.clone()
    }
    fn bound_addr(&self) -> io::Result<SocketAddr> {
        Ok(self.addr)
    }
    fn max_segment_size(&self) -> io::Result<usize> {
        Ok(1500)
    }
    fn max_segments(&self) -> io::Result<usize> {
        Ok(self.net.max_segments)
    }
    fn poll_send(&self, _cx: &mut Context, pkts: &[io::IoSlice], route: Route) -> Poll<io::Result<usize>> {
        if self.closed {
            return Poll::Ready(Err(io::Error::other("closed")));
        }
        let dst = route.line.link.dst;
        for p in pkts {
            self.net.send_one(self.addr, dst, p);
        }
        Poll::Ready(Ok(pkts.len()))
    }
    fn poll_recv(&self, cx: &mut Context, pkts: &mut [BytesMut], route: &mut [Route]) -> Poll<io::Result<usize>> {
        if self.closed {
            return Poll::Ready(Err(io::Error::other("closed")));
        }
        let mut g = self.net.inner.lock().unwrap();
        let ib = g.inboxes.get_mut(&self.addr).unwrap();
        let cap = pkts.len().min(route.len());
        let mut n = 0;
        while n < cap {
            let Some((data, src)) = ib.q.pop_front() else { break };
            let len = data.len().min(pkts[n].len());
            pkts[n][..len].copy_from_slice(&data[..len]);
            let local = self.addr;
            let pathway = Pathway::new(src.into(), local.into());
            let mut line = Line::default();
            line.link = Link::new(src, local).flip();
            line.seg_size = len as u16;
            route[n] = Route::new(pathway.flip(), line);
            n += 1;
        }
        if n == 0 {
            ib.waker = Some(cx.waker().clone());
            return Poll::Pending;
        }
        Poll::Ready(Ok(n))
    }
    fn poll_close(&mut self, _cx: &mut Context) -> Poll<io::Result<()>> {
        self.closed = true;
        let mut g = self.net.inner.lock().unwrap();
        if let Some(ib) = g.inboxes.get_mut(&self.addr) {
            if let Some(w) = ib.waker.take() {
                w.wake();
            }
        }
        Poll::Ready(Ok(()))
    }
}
