//! Frames: abstract value (t, x) <-> qbase::frame::Frame, the real encoder (WriteFrame / WriteDataFrame,
//! EncodeSize) and the real decoders (be_frame, FrameReader).
use std::net::{IpAddr, Ipv4Addr, Ipv6Addr, SocketAddr};

use bytes::{BufMut, Bytes};
use qbase::{
    cid::ConnectionId,
    error::{ErrorFrameType, ErrorKind, QuicError},
    frame::{
        io::{WriteFrame, be_frame},
        *,
    },
    net::NatType,
    packet::r#type::{
        Type,
        long::{Type as LongType, Ver1},
        short::OneRtt,
    },
    sid::{Dir, StreamId},
    varint::VarInt,
};
use serde_json::{Value, json};

use crate::{bytes_of, jbytes, panic_ev, u64_of, util, util::guarded, v8, varint_of};

pub const EXT: u64 = 0x3d7e90;
pub const PTYPES: [&str; 4] = ["I", "Z", "H", "S"];

pub fn ptype(pt: &str) -> Type {
    match pt {
        "I" => Type::Long(LongType::V1(Ver1::INITIAL)),
        "Z" => Type::Long(LongType::V1(Ver1::ZERO_RTT)),
        "H" => Type::Long(LongType::V1(Ver1::HANDSHAKE)),
        "S" => Type::Short(OneRtt(0.into())),
        _ => panic!("packet type {pt}"),
    }
}

fn sid_of(v: &Value) -> StreamId {
    StreamId::from(varint_of(v))
}
fn addr_of(b: &[u8]) -> SocketAddr {
    let port = u16::from_be_bytes([b[0], b[1]]);
    match b.len() {
        6 => SocketAddr::new(IpAddr::V4(Ipv4Addr::new(b[2], b[3], b[4], b[5])), port),
        18 => {
            let mut ip = [0u8; 16];
            ip.copy_from_slice(&b[2..18]);
            SocketAddr::new(IpAddr::V6(Ipv6Addr::from(ip)), port)
        }
        n => panic!("address of {n} bytes"),
    }
}
pub fn addr_bytes(a: &SocketAddr) -> Vec<u8> {
    let mut v = a.port().to_be_bytes().to_vec();
    match a.ip() {
        IpAddr::V4(ip) => v.extend_from_slice(&ip.octets()),
        IpAddr::V6(ip) => v.extend_from_slice(&ip.octets()),
    }
    v
}
fn u32_of(v: &Value) -> u32 {
    u32::try_from(u64_of(v)).expect("the constructors of the extension frames take u32")
}
fn nat_of(v: &Value) -> NatType {
    NatType::try_from(u64_of(v) as u8).expect("nat type 0..5")
}

/// Build the Rust value through the public constructors.
pub fn build(t: u64, x: &[Value]) -> Frame<Bytes> {
    match t {
        0 => Frame::Padding(PaddingFrame),
        1 => Frame::Ping(PingFrame),
        30 => Frame::HandshakeDone(HandshakeDoneFrame),
        2 | 3 => {
            let r = bytes_of(&x[2]);
            assert!(r.len() % 16 == 8);
            let vals: Vec<VarInt> = r
                .chunks(8)
                .map(|c| VarInt::from_u64(u64::from_be_bytes(c.try_into().unwrap())).unwrap())
                .collect();
            let ranges = vals[1..].chunks(2).map(|p| (p[0], p[1])).collect();
            let ecn = (t == 3).then(|| EcnCounts::new(varint_of(&x[3]), varint_of(&x[4]), varint_of(&x[5])));
            Frame::Ack(AckFrame::new(varint_of(&x[0]), varint_of(&x[1]), vals[0], ranges, ecn))
        }
        4 => Frame::StreamCtl(ResetStreamFrame::new(sid_of(&x[0]), varint_of(&x[1]), varint_of(&x[2])).into()),
        5 => Frame::StreamCtl(StopSendingFrame::new(sid_of(&x[0]), varint_of(&x[1])).into()),
        6 => {
            let d = bytes_of(&x[1]);
            Frame::Crypto(CryptoFrame::new(varint_of(&x[0]), VarInt::try_from(d.len()).unwrap()), Bytes::from(d))
        }
        7 => Frame::NewToken(NewTokenFrame::new(bytes_of(&x[0]))),
        8..=15 => {
            let off = if t & 4 != 0 { u64_of(&x[1]) } else { 0 };
            let d = bytes_of(x.last().unwrap());
            let mut f = StreamFrame::new(sid_of(&x[0]), off, d.len());
            f.set_len_bit(if t & 2 != 0 { Len::Explicit } else { Len::Omit });
            f.set_eos_flag(t & 1 != 0);
            Frame::Stream(f, Bytes::from(d))
        }
        16 => Frame::MaxData(MaxDataFrame::new(varint_of(&x[0]))),
        17 => Frame::StreamCtl(MaxStreamDataFrame::new(sid_of(&x[0]), varint_of(&x[1])).into()),
        18 | 19 => Frame::StreamCtl(
            MaxStreamsFrame::with(if t == 18 { Dir::Bi } else { Dir::Uni }, varint_of(&x[0])).into(),
        ),
        20 => Frame::DataBlocked(DataBlockedFrame::new(varint_of(&x[0]))),
        21 => Frame::StreamCtl(StreamDataBlockedFrame::new(sid_of(&x[0]), varint_of(&x[1])).into()),
        22 | 23 => Frame::StreamCtl(
            StreamsBlockedFrame::with(if t == 22 { Dir::Bi } else { Dir::Uni }, varint_of(&x[0])).into(),
        ),
        24 => Frame::NewConnectionId(NewConnectionIdFrame::new(
            ConnectionId::from_slice(&bytes_of(&x[2])),
            varint_of(&x[0]),
            varint_of(&x[1]),
        )),
        25 => Frame::RetireConnectionId(RetireConnectionIdFrame::new(varint_of(&x[0]))),
        26 => Frame::PathChallenge(PathChallengeFrame::from_slice(&bytes_of(&x[0]))),
        27 => Frame::PathResponse(PathChallengeFrame::from_slice(&bytes_of(&x[0])).into()),
        28 => {
            let kind = ErrorKind::try_from(varint_of(&x[0])).expect("error kind");
            let fty = FrameType::try_from(varint_of(&x[1])).expect("frame type");
            let reason = String::from_utf8(bytes_of(&x[2])).expect("ascii reason");
            Frame::Close(ConnectionCloseFrame::new_quic(kind, ErrorFrameType::V1(fty), reason))
        }
        29 => Frame::Close(ConnectionCloseFrame::new_app(
            varint_of(&x[0]),
            String::from_utf8(bytes_of(&x[1])).expect("ascii reason"),
        )),
        48 | 49 => {
            let d = bytes_of(&x[0]);
            Frame::Datagram(DatagramFrame::new(t == 49, VarInt::try_from(d.len()).unwrap()), Bytes::from(d))
        }
        _ if t == EXT || t == EXT + 1 => Frame::AddAddress(AddAddressFrame::new(
            u32_of(&x[0]),
            addr_of(&bytes_of(&x[1])),
            u32_of(&x[2]),
            nat_of(&x[3]),
        )),
        _ if t == EXT + 2 || t == EXT + 3 => Frame::PunchMeNow(PunchMeNowFrame::new(
            u32_of(&x[0]),
            u32_of(&x[1]),
            addr_of(&bytes_of(&x[2])),
            u32_of(&x[3]),
            nat_of(&x[4]),
        )),
        _ if t == EXT + 4 => Frame::RemoveAddress(RemoveAddressFrame { seq_num: varint_of(&x[0]) }),
        _ if t == EXT + 5 => Frame::PunchHello(PunchHelloFrame::new(u32_of(&x[0]), u32_of(&x[1]), u32_of(&x[2]))),
        _ if t == EXT + 6 => Frame::PunchDone(PunchDoneFrame::new(u32_of(&x[0]), u32_of(&x[1]), u32_of(&x[2]))),
        _ => panic!("frame type {t}"),
    }
}

/// The VarInt fields of an extension frame, in declaration order.  Their accessors truncate to u32, so the full
/// values are taken from the derived Debug representation ("VarInt(123)").
fn debug_varints(f: &dyn std::fmt::Debug) -> Vec<u64> {
    let s = format!("{f:?}");
    let mut out = vec![];
    let mut rest = s.as_str();
    while let Some(i) = rest.find("VarInt(") {
        rest = &rest[i + 7..];
        let end = rest.find(')').unwrap();
        out.push(rest[..end].parse().unwrap());
        rest = &rest[end..];
    }
    out
}

/// Project a Rust frame onto the field list of layout `t` (the type the frame carries / the decoder reported).
pub fn project(f: &Frame<Bytes>, t: u64) -> Vec<Value> {
    match f {
        Frame::Padding(_) | Frame::Ping(_) | Frame::HandshakeDone(_) => vec![],
        Frame::Ack(a) => {
            let mut r = a.first_range().to_be_bytes().to_vec();
            for (g, l) in a.ranges() {
                r.extend_from_slice(&g.into_u64().to_be_bytes());
                r.extend_from_slice(&l.into_u64().to_be_bytes());
            }
            let mut v = vec![v8(a.largest()), v8(a.delay()), jbytes(&r)];
            if let Some(e) = a.ecn() {
                v.extend([v8(e.ect0()), v8(e.ect1()), v8(e.ce())]);
            }
            v
        }
        Frame::Close(ConnectionCloseFrame::Quic(c)) => vec![
            v8(VarInt::from(c.error_kind()).into_u64()),
            v8(VarInt::from(c.frame_type()).into_u64()),
            jbytes(c.reason().as_bytes()),
        ],
        Frame::Close(ConnectionCloseFrame::App(c)) => vec![v8(c.error_code()), jbytes(c.reason().as_bytes())],
        Frame::NewToken(n) => vec![jbytes(n.token())],
        Frame::MaxData(m) => vec![v8(m.max_data())],
        Frame::DataBlocked(m) => vec![v8(m.limit())],
        Frame::NewConnectionId(n) => vec![
            v8(n.sequence()),
            v8(n.retire_prior_to()),
            jbytes(n.connection_id()),
            jbytes(n.reset_token().as_slice()),
        ],
        Frame::RetireConnectionId(r) => vec![v8(r.sequence())],
        Frame::PathChallenge(p) => vec![jbytes(&p[..])],
        Frame::PathResponse(p) => vec![jbytes(&p[..])],
        Frame::StreamCtl(c) => match c {
            StreamCtlFrame::ResetStream(r) => {
                vec![v8(r.stream_id().into()), v8(r.app_error_code()), v8(r.final_size())]
            }
            StreamCtlFrame::StopSending(s) => vec![v8(s.stream_id().into()), v8(s.app_err_code())],
            StreamCtlFrame::MaxStreamData(m) => vec![v8(m.stream_id().into()), v8(m.max_stream_data())],
            StreamCtlFrame::MaxStreams(MaxStreamsFrame::Bi(v) | MaxStreamsFrame::Uni(v)) => vec![v8(v.into_u64())],
            StreamCtlFrame::StreamDataBlocked(m) => vec![v8(m.stream_id().into()), v8(m.maximum_stream_data())],
            StreamCtlFrame::StreamsBlocked(StreamsBlockedFrame::Bi(v) | StreamsBlockedFrame::Uni(v)) => {
                vec![v8(v.into_u64())]
            }
        },
        Frame::Stream(s, d) => {
            let mut v = vec![v8(s.stream_id().into())];
            if t & 4 != 0 {
                v.push(v8(s.offset()));
            }
            v.push(jbytes(d));
            v
        }
        Frame::Crypto(c, d) => vec![v8(c.offset()), jbytes(d)],
        Frame::Datagram(_, d) => vec![jbytes(d)],
        Frame::AddAddress(a) => {
            let n = debug_varints(a);
            let addr: &SocketAddr = a;
            vec![v8(n[0]), jbytes(&addr_bytes(addr)), v8(n[1]), v8(VarInt::from(a.nat_type()).into_u64())]
        }
        Frame::PunchMeNow(p) => {
            let n = debug_varints(p);
            vec![
                v8(n[0]),
                v8(n[1]),
                jbytes(&addr_bytes(&p.address())),
                v8(n[2]),
                v8(VarInt::from(p.nat_type()).into_u64()),
            ]
        }
        Frame::RemoveAddress(r) => vec![v8(r.seq_num.into_u64())],
        Frame::PunchHello(p) => debug_varints(p).into_iter().map(v8).collect(),
        Frame::PunchDone(p) => debug_varints(p).into_iter().map(v8).collect(),
    }
}

pub fn type_of(f: &Frame<Bytes>) -> u64 {
    VarInt::from(f.frame_type()).into_u64()
}
fn data_len(f: &Frame<Bytes>) -> usize {
    match f {
        Frame::Stream(_, d) | Frame::Crypto(_, d) | Frame::Datagram(_, d) => d.len(),
        _ => 0,
    }
}
pub fn class_of(e: qbase::frame::Error) -> String {
    let q = QuicError::from(e);
    match q.kind() {
        ErrorKind::FrameEncoding => "FrameEncoding".into(),
        ErrorKind::ProtocolViolation => "ProtocolViolation".into(),
        k => format!("{k:?}"),
    }
}

fn dec_item(r: Result<(usize, Frame<Bytes>, FrameType), qbase::frame::Error>) -> (Value, Option<Frame<Bytes>>) {
    match r {
        Ok((consumed, f, fty)) => {
            let t = VarInt::from(fty).into_u64();
            (json!({"ok": true, "t": t, "x": project(&f, t), "consumed": consumed, "class": ""}), Some(f))
        }
        Err(e) => {
            let detail = e.to_string();
            (json!({"ok": false, "t": 0, "x": [], "consumed": 0, "class": class_of(e), "err": detail.chars().take(120).collect::<String>()}), None)
        }
    }
}

pub fn c05(v: &Value, out: &mut util::Out) {
    let t = v["t"].as_u64().unwrap();
    let x = v["x"].as_array().unwrap().clone();
    let frame = match guarded(|| build(t, &x)) {
        Ok(f) => f,
        Err(msg) => {
            out.emit(&panic_ev("frame", "build", v.clone(), msg));
            return;
        }
    };
    // what was actually built (e.g. NEW_CONNECTION_ID draws a random reset token)
    let ta = type_of(&frame);
    let proj = project(&frame, ta);
    let enc = guarded(|| {
        let mut buf: Vec<u8> = Vec::new();
        buf.put_frame(&frame);
        buf
    });
    let bytes = match enc {
        Ok(b) => b,
        Err(msg) => {
            out.emit(&panic_ev("frame", "put_frame", json!({"t": ta, "x": proj}), msg));
            return;
        }
    };
    let sizes = guarded(|| (frame.encoding_size(), frame.max_encoding_size()));
    let (enc_size, max_size) = match sizes {
        Ok(s) => s,
        Err(msg) => {
            out.emit(&panic_ev("frame", "encoding_size", json!({"t": ta, "x": proj}), msg));
            return;
        }
    };
    // the admission rule of Package::dump: a frame is written when the remaining capacity is >= max_encoding_size()
    // or >= encoding_size(); so it must fit into exactly min(encoding_size, max_encoding_size) (+ its data) bytes
    let dl = data_len(&frame);
    let cap = enc_size.min(max_size) + dl;
    let mut arr = vec![0u8; cap];
    let fits = guarded(|| {
        let mut s = &mut arr[..];
        s.put_frame(&frame);
        cap - s.remaining_mut()
    });
    out.emit(&json!({"ev": "enc", "c": "frame", "t": ta, "kind": v["kind"], "x": proj, "bytes": bytes, "enc_size": enc_size,
        "max_size": max_size, "data_len": dl, "fits": fits.is_ok(), "admit_cap": cap}));
    let pts: Vec<String> = match v["pts"].as_array() {
        Some(a) => a.iter().map(|p| p.as_str().unwrap().to_string()).collect(),
        None => PTYPES.iter().map(|s| s.to_string()).collect(),
    };
    let raw = Bytes::from(bytes.clone());
    for pt in pts {
        match guarded(|| be_frame(&raw, ptype(&pt))) {
            Ok(r) => {
                let (mut item, f) = dec_item(r);
                let o = item.as_object_mut().unwrap();
                o.insert("ev".into(), json!("rdec"));
                o.insert("c".into(), json!("frame"));
                o.insert("pt".into(), json!(pt));
                o.insert("eq".into(), json!(f.map(|f| f == frame).unwrap_or(false)));
                out.emit(&item);
            }
            Err(msg) => out.emit(&panic_ev("frame", "be_frame", json!({"pt": pt, "b": bytes}), msg)),
        }
    }
}

/// C03: the payload is read with the real FrameReader in every packet type.
pub fn c03(b: &[u8], out: &mut util::Out) {
    for pt in PTYPES {
        let input = b.to_vec();
        let r = guarded(|| {
            let mut items = vec![];
            let mut noprogress = false;
            let mut reader = FrameReader::new(Bytes::from(input.clone()), ptype(pt));
            let mut left = input.len();
            // more iterations than bytes means the reader yields items without consuming input
            for _ in 0..input.len() + 2 {
                let before: usize = reader.len();
                match reader.next() {
                    None => break,
                    Some(Ok((f, fty))) => {
                        let consumed = before - reader.len();
                        let (item, _) = dec_item(Ok((consumed, f, fty)));
                        items.push(item);
                        if consumed == 0 {
                            noprogress = true;
                            break;
                        }
                        left -= consumed;
                    }
                    Some(Err(e)) => {
                        items.push(dec_item(Err(e)).0);
                        break;
                    }
                }
            }
            let _ = left;
            (items, noprogress)
        });
        match r {
            Ok((items, noprogress)) => out.emit(&json!({"ev": "payload", "c": "frame", "pt": pt, "in": b, "items": items, "noprogress": noprogress})),
            Err(msg) => out.emit(&panic_ev("frame", "FrameReader", json!({"pt": pt, "b": b}), msg)),
        }
    }
}
