//! Seeded random inputs for C03 (iii).  Only the INPUTS are produced here; they are decoded by the real code in
//! `c03` and judged by Trace_Wire (TLC evaluates the reference decoder on the recorded input).
use serde_json::json;

use crate::util::{Out, Rng};

const FRAME_TYPES: [u8; 33] = [
    0, 1, 2, 3, 4, 5, 6, 7, 8, 9, 10, 11, 12, 13, 14, 15, 16, 17, 18, 19, 20, 21, 22, 23, 24, 25, 26, 27, 28, 29, 30, 0x30, 0x31,
];
const PARAM_IDS: [u32; 22] = [0, 1, 2, 3, 4, 5, 6, 7, 8, 9, 10, 11, 12, 13, 14, 15, 16, 0x20, 0x2ab2, 0xffee, 0x11, 0x1b];

fn rand_len(r: &mut Rng) -> usize {
    match r.below(10) {
        0..=4 => r.below(12) as usize,
        5..=7 => r.below(80) as usize,
        8 => r.below(400) as usize,
        _ => r.range(400, 1500) as usize,
    }
}
fn rand_bytes(r: &mut Rng, n: usize) -> Vec<u8> {
    (0..n)
        .map(|_| match r.below(8) {
            0 => 0,
            1 => 0xff,
            2 => [0x3f, 0x40, 0x7f, 0x80, 0xbf, 0xc0, 20, 21][r.below(8) as usize],
            _ => r.below(256) as u8,
        })
        .collect()
}
fn put_varint(v: &mut Vec<u8>, x: u64, r: &mut Rng) {
    // any width that can hold the value (non-minimal encodings are legal)
    let min = if x < 1 << 6 { 0 } else if x < 1 << 14 { 1 } else if x < 1 << 30 { 2 } else { 3 };
    let w = if r.chance(1, 5) { r.range(min, 3) } else { min };
    match w {
        0 => v.push(x as u8),
        1 => v.extend_from_slice(&(0x4000u16 | x as u16).to_be_bytes()),
        2 => v.extend_from_slice(&(0x8000_0000u32 | x as u32).to_be_bytes()),
        _ => v.extend_from_slice(&(0xc000_0000_0000_0000u64 | x).to_be_bytes()),
    }
}
fn rand_value(r: &mut Rng) -> u64 {
    match r.below(6) {
        0 => r.below(64),
        1 => r.below(20000),
        2 => [0, 63, 64, 16383, 16384, (1 << 30) - 1, 1 << 30, (1 << 62) - 1, (1 << 60) - 1, 1 << 60, 1 << 61][r.below(11) as usize],
        3 => r.next() >> 2,
        _ => r.below(300),
    }
}

fn frame_input(r: &mut Rng) -> Vec<u8> {
    match r.below(4) {
        0 => {
            let n = rand_len(r);
            rand_bytes(r, n)
        }
        1 => {
            // a known type followed by random bytes
            let mut v = vec![FRAME_TYPES[r.below(33) as usize]];
            if r.chance(1, 6) {
                v = vec![0x80, 0x3d, 0x7e, 0x90 + r.below(8) as u8];
            }
            let n = rand_len(r);
            v.extend(rand_bytes(r, n));
            v
        }
        _ => {
            // a few frames made of a type and varints / length-prefixed chunks, then possibly truncated
            let mut v = vec![];
            for _ in 0..r.range(1, 4) {
                if r.chance(1, 6) {
                    v.extend_from_slice(&[0x80, 0x3d, 0x7e, 0x90 + r.below(8) as u8]);
                } else {
                    v.push(FRAME_TYPES[r.below(33) as usize]);
                }
                for _ in 0..r.below(6) {
                    if r.chance(1, 4) {
                        let n = r.below(24) as usize;
                        put_varint(&mut v, n as u64, r);
                        let b = rand_bytes(r, n);
                        v.extend(b);
                    } else {
                        let x = rand_value(r);
                        put_varint(&mut v, x, r);
                    }
                }
            }
            if r.chance(1, 3) && !v.is_empty() {
                let n = r.below(v.len() as u64) as usize;
                v.truncate(n);
            }
            v
        }
    }
}

fn dgram_input(r: &mut Rng) -> Vec<u8> {
    if r.chance(1, 5) {
        let n = rand_len(r);
        return rand_bytes(r, n);
    }
    let mut v = vec![];
    for _ in 0..r.range(1, 3) {
        if r.chance(1, 4) {
            // short header
            v.push(r.below(128) as u8);
            let n = r.below(60) as usize;
            v.extend(rand_bytes(r, n));
            continue;
        }
        v.push(0x80 | r.below(128) as u8);
        let ver = [0u32, 1, 1, 1, 2, 0xff00_001d, 0x6b33_43cf][r.below(7) as usize];
        v.extend_from_slice(&ver.to_be_bytes());
        for _ in 0..2 {
            let n = [0usize, 1, 8, 8, 20, 20, 21, 255][r.below(8) as usize];
            v.push(n as u8);
            let have = if r.chance(1, 8) { r.below(n as u64 + 1) as usize } else { n };
            v.extend(rand_bytes(r, have));
        }
        if r.chance(3, 4) {
            let n = r.below(70) as usize;
            put_varint(&mut v, n as u64, r); // token length (Initial) or Length
            v.extend(rand_bytes(r, n));
        }
        let n = [0u64, 19, 20, 21, 40, 1 << 40][r.below(6) as usize];
        put_varint(&mut v, n, r);
        let have = if r.chance(1, 4) { r.below(64) as usize } else { (n as usize).min(64) };
        v.extend(rand_bytes(r, have));
    }
    if r.chance(1, 4) && !v.is_empty() {
        let n = r.below(v.len() as u64) as usize;
        v.truncate(n);
    }
    v
}

fn params_input(r: &mut Rng) -> Vec<u8> {
    if r.chance(1, 6) {
        let n = rand_len(r).min(200);
        return rand_bytes(r, n);
    }
    let mut v = vec![];
    for _ in 0..r.below(7) {
        let id = if r.chance(1, 8) { rand_value(r) } else { PARAM_IDS[r.below(22) as usize] as u64 };
        put_varint(&mut v, id, r);
        let n = match r.below(8) {
            0 => 0,
            1 => 1,
            2 => 16,
            3 => [20usize, 21, 41, 49, 61, 62][r.below(6) as usize],
            _ => r.below(10) as usize,
        };
        let claimed = if r.chance(1, 10) { rand_value(r) } else { n as u64 };
        put_varint(&mut v, claimed, r);
        if r.chance(1, 2) && n > 0 {
            // a well-formed varint body of exactly n bytes when possible
            let mut b = vec![];
            let x = rand_value(r);
            put_varint(&mut b, x, r);
            if b.len() == n {
                v.extend(b);
                continue;
            }
        }
        v.extend(rand_bytes(r, n));
    }
    v
}

pub fn generate(seed: u64, n: u64, path: &str) -> i32 {
    let mut r = Rng(seed.wrapping_mul(0x9E37_79B9).wrapping_add(17));
    let mut out = Out::create(path);
    for i in 0..n {
        let (c, b) = match i % 4 {
            0 | 1 => ("in_frame", frame_input(&mut r)),
            2 => ("in_dgram", dgram_input(&mut r)),
            _ => ("in_params", params_input(&mut r)),
        };
        out.emit(&json!({"c": c, "b": b}));
    }
    out.finish();
    0
}
