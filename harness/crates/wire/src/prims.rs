//! Primitive codecs: varint, stream id, connection id, reset token, socket address, endpoint address.
use qbase::{
    cid::{ConnectionId, WriteConnectionId, be_connection_id},
    frame::EncodeSize,
    net::{
        Family, WriteSocketAddr,
        addr::{EndpointAddr, WriteEndpointAddr, be_endpoint_addr},
        be_socket_addr,
    },
    sid::{StreamId, WriteStreamId, be_streamid},
    token::{ResetToken, WriteResetToken, be_reset_token},
    varint::{VarInt, WriteVarInt, be_varint},
};
use serde_json::{Value, json};

use crate::{bytes_of, frames::addr_bytes, jbytes, panic_ev, util, util::guarded, v8, varint_of};

fn sock(b: &[u8]) -> std::net::SocketAddr {
    use std::net::*;
    let port = u16::from_be_bytes([b[0], b[1]]);
    if b.len() == 6 {
        SocketAddr::new(IpAddr::V4(Ipv4Addr::new(b[2], b[3], b[4], b[5])), port)
    } else {
        let mut ip = [0u8; 16];
        ip.copy_from_slice(&b[2..18]);
        SocketAddr::new(IpAddr::V6(Ipv6Addr::from(ip)), port)
    }
}

/// returns (projected value, bytes, announced size, announced max, decoded (value, consumed) on bytes ++ [7])
fn run(p: &str, x: &Value) -> (Value, Vec<u8>, usize, usize, Option<(Value, usize)>) {
    let mut buf: Vec<u8> = vec![];
    match p {
        "varint" => {
            let v = varint_of(x);
            buf.put_varint(&v);
            let mut inp = buf.clone();
            inp.push(7);
            let d = be_varint(&inp).ok().map(|(r, d)| (v8(d.into_u64()), inp.len() - r.len()));
            (v8(v.into_u64()), buf, v.encoding_size(), VarInt::MAX_SIZE, d)
        }
        "streamid" => {
            let s = StreamId::from(varint_of(x));
            buf.put_streamid(&s);
            let mut inp = buf.clone();
            inp.push(7);
            let d = be_streamid(&inp).ok().map(|(r, d)| (v8(d.into()), inp.len() - r.len()));
            (v8(s.into()), buf, s.encoding_size(), 8, d)
        }
        "cid" => {
            let c = ConnectionId::from_slice(&bytes_of(x));
            buf.put_connection_id(&c);
            let mut inp = buf.clone();
            inp.push(7);
            let d = be_connection_id(&inp).ok().map(|(r, d)| (jbytes(&d), inp.len() - r.len()));
            (jbytes(&c), buf, c.encoding_size(), 21, d)
        }
        "reset_token" => {
            let t = ResetToken::new(&bytes_of(x));
            buf.put_reset_token(&t);
            let mut inp = buf.clone();
            inp.push(7);
            let d = be_reset_token(&inp).ok().map(|(r, d)| (jbytes(d.as_slice()), inp.len() - r.len()));
            (jbytes(t.as_slice()), buf, t.encoding_size(), 16, d)
        }
        "addr4" | "addr6" => {
            let a = sock(&bytes_of(x));
            buf.put_socket_addr(&a);
            let fam = if p == "addr4" { Family::V4 } else { Family::V6 };
            let mut inp = buf.clone();
            inp.push(7);
            let d = be_socket_addr(&inp, fam).ok().map(|(r, d)| (jbytes(&addr_bytes(&d)), inp.len() - r.len()));
            (jbytes(&addr_bytes(&a)), buf, a.encoding_size(), a.max_encoding_size(), d)
        }
        "ep4" | "ep6" | "ep4agent" | "ep6agent" => {
            let b = bytes_of(x);
            let fam = if p.starts_with("ep4") { Family::V4 } else { Family::V6 };
            let n = if fam == Family::V4 { 6 } else { 18 };
            let agent = p.ends_with("agent");
            let e = if agent { EndpointAddr::with_agent(sock(&b[..n]), sock(&b[n..])) } else { EndpointAddr::direct(sock(&b)) };
            let proj = |e: &EndpointAddr| match e {
                EndpointAddr::Direct { addr } => addr_bytes(addr),
                EndpointAddr::Agent { agent, outer } => [addr_bytes(agent), addr_bytes(outer)].concat(),
            };
            buf.put_endpoint_addr(e);
            let mut inp = buf.clone();
            inp.push(7);
            let d = be_endpoint_addr(&inp, agent as u8, fam).ok().map(|(r, d)| (jbytes(&proj(&d)), inp.len() - r.len()));
            (jbytes(&proj(&e)), buf, e.encoding_size(), e.encoding_size(), d)
        }
        _ => panic!("codec {p}"),
    }
}

pub fn c05(v: &Value, out: &mut util::Out) {
    let p = v["p"].as_str().unwrap().to_string();
    let x = v["x"].clone();
    match guarded(|| run(&p, &x)) {
        Ok((px, bytes, size, max, d)) => {
            let (ok, dx, consumed) = match d {
                Some((dx, n)) => (true, dx, n),
                None => (false, json!([]), 0),
            };
            out.emit(&json!({"ev": "prim", "c": "prim", "p": p, "x": px, "bytes": bytes, "enc_size": size, "max_size": max,
                "ok": ok, "dx": dx, "consumed": consumed}));
        }
        Err(msg) => out.emit(&panic_ev("prim", &p, v.clone(), msg)),
    }
}
