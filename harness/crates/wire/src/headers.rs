//! Packet headers (put_header / be_packet_type + be_header / EncodeHeader::size) and datagrams (PacketReader).
use bytes::BytesMut;
use qbase::{
    cid::ConnectionId,
    packet::{
        DataHeader, EncodeHeader, GetDcid, GetScid, Header, OneRttHeader, Packet, PacketReader, SpinBit,
        header::{
            io::{WriteHeader, be_header},
            long::{self, io::LongHeaderBuilder},
        },
        r#type::io::be_packet_type,
    },
};
use serde_json::{Value, json};

use crate::{bytes_of, panic_ev, util, util::guarded};

fn hrec(k: &str, dcid: &[u8], scid: &[u8], tok: &[u8], extra: &[u8], spin: u8) -> Value {
    json!({"k": k, "dcid": dcid, "scid": scid, "tok": tok, "extra": extra, "spin": spin})
}
fn spin_of(s: SpinBit) -> u8 {
    if s == SpinBit::One { 1 } else { 0 }
}

pub fn build(h: &Value) -> Header {
    let k = h["k"].as_str().unwrap();
    let dcid = ConnectionId::from_slice(&bytes_of(&h["dcid"]));
    let scid = ConnectionId::from_slice(&bytes_of(&h["scid"]));
    let tok = bytes_of(&h["tok"]);
    let extra = bytes_of(&h["extra"]);
    let b = LongHeaderBuilder::with_cid(dcid, scid);
    match k {
        "initial" => Header::Initial(b.initial(tok)),
        "zero_rtt" => Header::ZeroRtt(b.zero_rtt()),
        "handshake" => Header::Handshake(b.handshake()),
        "retry" => Header::Retry(b.retry(tok, extra.try_into().expect("16-byte integrity tag"))),
        "vn" => Header::VN(b.vn(extra.chunks(4).map(|c| u32::from_be_bytes(c.try_into().unwrap())).collect())),
        "one_rtt" => Header::OneRtt(OneRttHeader::new(
            if h["spin"].as_u64() == Some(1) { SpinBit::One } else { SpinBit::Zero },
            dcid,
        )),
        _ => panic!("header kind {k}"),
    }
}

pub fn project(h: &Header) -> Value {
    match h {
        Header::VN(x) => {
            let vs: Vec<u8> = x.versions().iter().flat_map(|v| v.to_be_bytes()).collect();
            hrec("vn", x.dcid(), x.scid(), &[], &vs, 0)
        }
        Header::Retry(x) => hrec("retry", x.dcid(), x.scid(), x.token(), x.integrity(), 0),
        Header::Initial(x) => hrec("initial", x.dcid(), x.scid(), x.token(), &[], 0),
        Header::ZeroRtt(x) => hrec("zero_rtt", x.dcid(), x.scid(), &[], &[], 0),
        Header::Handshake(x) => hrec("handshake", x.dcid(), x.scid(), &[], &[], 0),
        Header::OneRtt(x) => hrec("one_rtt", x.dcid(), &[], &[], &[], spin_of(x.spin())),
    }
}

fn size_of(h: &Header) -> Option<usize> {
    match h {
        Header::Initial(x) => Some(x.size()),
        Header::ZeroRtt(x) => Some(x.size()),
        Header::Handshake(x) => Some(x.size()),
        Header::OneRtt(x) => Some(x.size()),
        _ => None, // Retry and Version Negotiation announce no size
    }
}

pub fn c05(v: &Value, out: &mut util::Out) {
    let hdr = match guarded(|| build(&v["h"])) {
        Ok(h) => h,
        Err(msg) => return out.emit(&panic_ev("hdr", "build", v.clone(), msg)),
    };
    let proj = project(&hdr);
    let bytes = match guarded(|| {
        let mut buf: Vec<u8> = vec![];
        buf.put_header(&hdr);
        buf
    }) {
        Ok(b) => b,
        Err(msg) => return out.emit(&panic_ev("hdr", "put_header", proj, msg)),
    };
    out.emit(&json!({"ev": "henc", "c": "hdr", "h": proj, "bytes": bytes, "size": size_of(&hdr).unwrap_or(0),
        "has_size": size_of(&hdr).is_some()}));
    let dl = bytes_of(&v["h"]["dcid"]).len();
    let r = guarded(|| {
        let (remain, ty) = be_packet_type(&bytes).map_err(|e| format!("{e:?}"))?;
        let (remain, h) = be_header(ty, dl, remain).map_err(|e| format!("{e:?}"))?;
        Ok::<_, String>((bytes.len() - remain.len(), project(&h)))
    });
    match r {
        Ok(Ok((consumed, h))) => {
            let eq = h == proj;
            out.emit(&json!({"ev": "hdec", "c": "hdr", "dl": dl, "ok": true, "h": h, "consumed": consumed, "eq": eq}))
        }
        Ok(Err(e)) => out.emit(&json!({"ev": "hdec", "c": "hdr", "dl": dl, "ok": false, "h": hrec("drop", &[], &[], &[], &[], 0),
            "consumed": 0, "eq": false, "err": e.chars().take(120).collect::<String>()})),
        Err(msg) => out.emit(&panic_ev("hdr", "be_header", json!({"dl": dl, "b": bytes}), msg)),
    }
}

fn item(k: &str, dcid: &[u8], scid: &[u8], tok: &[u8], extra: &[u8], spin: u8, consumed: usize, off: usize) -> Value {
    json!({"ok": true, "k": k, "dcid": dcid, "scid": scid, "tok": tok, "extra": extra, "spin": spin, "consumed": consumed, "off": off})
}

/// C03: the datagram is read with the real PacketReader for every requested local connection-id length.
pub fn c03(b: &[u8], dls: &[usize], out: &mut util::Out) {
    for &dl in dls {
        let r = guarded(|| {
            let mut items = vec![];
            let mut left = b.len();
            let mut stuck = false;
            let reader = PacketReader::new(BytesMut::from(b), dl);
            for (n, p) in reader.enumerate() {
                if n > b.len() + 1 {
                    stuck = true;
                    break;
                }
                match p {
                    Err(e) => {
                        items.push(json!({"ok": false, "k": "drop", "dcid": [], "scid": [], "tok": [], "extra": [], "spin": 0,
                            "consumed": 0, "off": 0, "err": format!("{e:?}").chars().take(100).collect::<String>()}));
                    }
                    Ok(Packet::VN(h)) => {
                        let p = project(&Header::VN(h));
                        items.push(item("vn", &bytes_of(&p["dcid"]), &bytes_of(&p["scid"]), &[], &bytes_of(&p["extra"]), 0, left, 0));
                        left = 0;
                    }
                    Ok(Packet::Retry(h)) => {
                        let p = project(&Header::Retry(h));
                        items.push(item("retry", &bytes_of(&p["dcid"]), &bytes_of(&p["scid"]), &bytes_of(&p["tok"]), &bytes_of(&p["extra"]), 0, left, 0));
                        left = 0;
                    }
                    Ok(Packet::Data(dp)) => {
                        let consumed = dp.bytes.len();
                        let it = match &dp.header {
                            DataHeader::Long(long::DataHeader::Initial(h)) => item("initial", h.dcid(), h.scid(), h.token(), &[], 0, consumed, dp.offset),
                            DataHeader::Long(long::DataHeader::ZeroRtt(h)) => item("zero_rtt", h.dcid(), h.scid(), &[], &[], 0, consumed, dp.offset),
                            DataHeader::Long(long::DataHeader::Handshake(h)) => item("handshake", h.dcid(), h.scid(), &[], &[], 0, consumed, dp.offset),
                            DataHeader::Short(h) => item("one_rtt", h.dcid(), &[], &[], &[], spin_of(h.spin()), consumed, dp.offset),
                        };
                        items.push(it);
                        if consumed == 0 || consumed > left {
                            stuck = true;
                            break;
                        }
                        left -= consumed;
                    }
                }
            }
            (items, stuck)
        });
        match r {
            Ok((items, stuck)) => out.emit(&json!({"ev": "dgram", "c": "dgram", "dl": dl, "in": b, "items": items, "noprogress": stuck})),
            Err(msg) => out.emit(&panic_ev("dgram", "PacketReader", json!({"dl": dl, "b": b}), msg)),
        }
    }
}
