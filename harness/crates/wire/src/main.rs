//! vh-wire — binds spec/Wire*.tla to the real codecs of qbase (C05 round trip / announced size,
//! C03 decoding untrusted bytes).  The harness only DRIVES the real encoders / decoders and RECORDS
//! what they did as NDJSON; Trace_Wire.tla (TLC) is the judge.
//!
//!   vh-wire c05 <values.ndjson> <trace.ndjson>
//!   vh-wire c03 <inputs.ndjson> <trace.ndjson> [dcid lens, e.g. 0,8,20]
//!   vh-wire random <seed> <n> <inputs.ndjson>
#![allow(dead_code)]
#[path = "../../../src/util.rs"]
mod util;

mod frames;
mod headers;
mod params;
mod prims;
mod random;

use std::{
    sync::{
        Arc, Mutex,
        atomic::{AtomicU64, Ordering},
    },
    time::Duration,
};

use qbase::varint::VarInt;
use serde_json::{Value, json};

pub fn v8(x: u64) -> Value {
    json!(x.to_be_bytes().to_vec())
}
pub fn bytes_of(v: &Value) -> Vec<u8> {
    v.as_array()
        .unwrap_or_else(|| panic!("byte array expected, got {v}"))
        .iter()
        .map(|x| x.as_u64().expect("byte") as u8)
        .collect()
}
pub fn u64_of(v: &Value) -> u64 {
    let b = bytes_of(v);
    assert_eq!(b.len(), 8, "8-byte value expected");
    u64::from_be_bytes(b.try_into().unwrap())
}
pub fn varint_of(v: &Value) -> VarInt {
    VarInt::from_u64(u64_of(v)).expect("value < 2^62")
}
pub fn jbytes(b: &[u8]) -> Value {
    json!(b)
}
pub fn slug(msg: &str) -> String {
    let mut s = String::new();
    for w in msg.split(|c: char| !c.is_ascii_alphanumeric()).filter(|w| !w.is_empty()).take(8) {
        if !s.is_empty() {
            s.push('_');
        }
        s.push_str(w);
    }
    s
}
pub fn panic_ev(c: &str, op: &str, input: Value, msg: String) -> Value {
    json!({"ev": "panic", "c": c, "op": [op], "in": input, "msg": msg, "slug": slug(&msg)})
}

/// Progress marker for the watchdog: index of the input being processed + a printable form of it.
pub struct Watch {
    pub tick: AtomicU64,
    pub cur: Mutex<String>,
}

fn run_with_watchdog(out_path: &str, f: impl FnOnce(Arc<Watch>) + Send + 'static) -> i32 {
    let w = Arc::new(Watch { tick: AtomicU64::new(0), cur: Mutex::new(String::new()) });
    let w2 = w.clone();
    let worker = std::thread::Builder::new()
        .stack_size(256 << 20)
        .spawn(move || f(w2))
        .unwrap();
    let limit = std::env::var("VH_WATCHDOG_S").ok().and_then(|s| s.parse().ok()).unwrap_or(20u64);
    let mut last = 0;
    let mut idle = 0u64;
    loop {
        std::thread::sleep(Duration::from_millis(250));
        if worker.is_finished() {
            return match worker.join() {
                Ok(()) => 0,
                Err(_) => 2,
            };
        }
        let t = w.tick.load(Ordering::Relaxed);
        if t != last {
            last = t;
            idle = 0;
        } else {
            idle += 1;
            if idle * 250 >= limit * 1000 {
                // a decoder that does not return is a violation of C03; the input is written next to the trace
                let cur = w.cur.lock().map(|s| s.clone()).unwrap_or_default();
                std::fs::write(format!("{out_path}.hang"), cur).ok();
                eprintln!("watchdog: no progress for {limit}s");
                return 3;
            }
        }
    }
}

fn main() {
    util::quiet_panics();
    let args: Vec<String> = std::env::args().collect();
    if args.len() < 2 {
        eprintln!("usage: vh-wire c05|c03|random ...");
        std::process::exit(2);
    }
    let code = match args[1].as_str() {
        "c05" => {
            let (inp, outp) = (args[2].clone(), args[3].clone());
            run_with_watchdog(&args[3], move |w| c05(&inp, &outp, w))
        }
        "c03" => {
            let (inp, outp) = (args[2].clone(), args[3].clone());
            let dls: Vec<usize> = args
                .get(4)
                .map(|s| s.split(',').map(|x| x.parse().unwrap()).collect())
                .unwrap_or_else(|| vec![0, 8, 20]);
            run_with_watchdog(&args[3], move |w| c03(&inp, &outp, &dls, w))
        }
        "random" => random::generate(args[2].parse().unwrap(), args[3].parse().unwrap(), &args[4]),
        other => {
            eprintln!("unknown command {other}");
            2
        }
    };
    std::process::exit(code);
}

fn c05(inp: &str, outp: &str, w: Arc<Watch>) {
    let mut out = util::Out::create(outp);
    for (i, line) in util::read_lines(inp).enumerate() {
        let v: Value = serde_json::from_str(&line).unwrap();
        *w.cur.lock().unwrap() = line.clone();
        w.tick.fetch_add(1, Ordering::Relaxed);
        let c = v["c"].as_str().unwrap().to_string();
        out.emit(&json!({"ev": "reset", "id": i, "c": c}));
        match c.as_str() {
            "frame" => frames::c05(&v, &mut out),
            "hdr" => headers::c05(&v, &mut out),
            "prim" => prims::c05(&v, &mut out),
            "params" => params::c05(&v, &mut out),
            _ => panic!("unknown component {c}"),
        }
    }
    out.finish();
}

fn c03(inp: &str, outp: &str, dls: &[usize], w: Arc<Watch>) {
    let mut out = util::Out::create(outp);
    for (i, line) in util::read_lines(inp).enumerate() {
        let v: Value = serde_json::from_str(&line).unwrap();
        *w.cur.lock().unwrap() = line.clone();
        w.tick.fetch_add(1, Ordering::Relaxed);
        let c = v["c"].as_str().unwrap().to_string();
        let b = bytes_of(&v["b"]);
        out.emit(&json!({"ev": "reset", "id": i, "c": c}));
        match c.as_str() {
            "in_frame" => frames::c03(&b, &mut out),
            "in_dgram" => headers::c03(&b, dls, &mut out),
            "in_params" => params::c03(&b, &mut out),
            _ => panic!("unknown component {c}"),
        }
    }
    out.finish();
}
