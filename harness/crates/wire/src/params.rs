//! Transport parameters: Parameters<Role>::set / put_parameters / parse_from_bytes / try_from_remembered_bytes.
use std::{
    net::{Ipv4Addr, Ipv6Addr, SocketAddrV4, SocketAddrV6},
    time::Duration,
};

use bytes::Bytes;
use qbase::{
    cid::ConnectionId,
    error::{ErrorKind, QuicError},
    param::{
        ClientParameters, ParameterId, ParameterValue, ParameterValueType, ServerParameters, WriteParameters,
        core::Parameters, preferred_address::PreferredAddress,
    },
    role::IntoRole,
    token::ResetToken,
    varint::VarInt,
};
use serde_json::{Value, json};

use crate::{bytes_of, jbytes, panic_ev, util, util::guarded, v8, varint_of};

pub const KNOWN: [u32; 20] = [0, 1, 2, 3, 4, 5, 6, 7, 8, 9, 10, 11, 12, 13, 14, 15, 16, 0x20, 0x2ab2, 0xffee];

fn pid(id: u32) -> ParameterId {
    ParameterId::try_from(VarInt::from_u32(id)).expect("known parameter id")
}

fn pa_of(b: &[u8]) -> PreferredAddress {
    let v4 = SocketAddrV4::new(Ipv4Addr::new(b[0], b[1], b[2], b[3]), u16::from_be_bytes([b[4], b[5]]));
    let mut ip6 = [0u8; 16];
    ip6.copy_from_slice(&b[6..22]);
    let v6 = SocketAddrV6::new(Ipv6Addr::from(ip6), u16::from_be_bytes([b[22], b[23]]), 0, 0);
    let n = b[24] as usize;
    PreferredAddress::new(v4, v6, ConnectionId::from_slice(&b[25..25 + n]), ResetToken::new(&b[25 + n..25 + n + 16]))
}
fn pa_bytes(p: &PreferredAddress) -> Vec<u8> {
    let mut v = p.address_v4().ip().octets().to_vec();
    v.extend_from_slice(&p.address_v4().port().to_be_bytes());
    v.extend_from_slice(&p.address_v6().ip().octets());
    v.extend_from_slice(&p.address_v6().port().to_be_bytes());
    let cid = p.connection_id();
    v.push(cid.len() as u8);
    v.extend_from_slice(&cid);
    v.extend_from_slice(p.stateless_reset_token().as_slice());
    v
}

fn value_of(id: ParameterId, val: &Value) -> ParameterValue {
    match id.value_type() {
        ParameterValueType::VarInt => ParameterValue::VarInt(varint_of(val)),
        ParameterValueType::Duration => ParameterValue::Duration(Duration::from_millis(varint_of(val).into_u64())),
        ParameterValueType::Boolean => ParameterValue::True,
        ParameterValueType::Bytes => ParameterValue::Bytes(Bytes::from(bytes_of(val))),
        ParameterValueType::ResetToken => ParameterValue::ResetToken(ResetToken::new(&bytes_of(val))),
        ParameterValueType::ConnectionId => ParameterValue::ConnectionId(ConnectionId::from_slice(&bytes_of(val))),
        ParameterValueType::PreferredAddress => ParameterValue::PreferredAddress(pa_of(&bytes_of(val))),
    }
}

fn build<R: IntoRole + Default>(ps: &[Value]) -> Parameters<R> {
    let mut p = Parameters::<R>::new();
    for e in ps {
        let id = pid(e["id"].as_u64().unwrap() as u32);
        p.set(id, value_of(id, &e["val"])).expect("legal parameter for the role");
    }
    p
}

fn project<R>(p: &Parameters<R>) -> Vec<Value> {
    let mut out = vec![];
    for id in KNOWN {
        let pidv = pid(id);
        if !p.contains(pidv) {
            continue;
        }
        let val = match pidv.value_type() {
            ParameterValueType::VarInt => v8(p.get::<VarInt>(pidv).unwrap().into_u64()),
            ParameterValueType::Duration => {
                let ms = p.get::<Duration>(pidv).unwrap().as_millis();
                v8(u64::try_from(ms).unwrap())
            }
            ParameterValueType::Boolean => json!([]),
            ParameterValueType::Bytes => jbytes(&p.get::<Bytes>(pidv).unwrap()),
            ParameterValueType::ResetToken => jbytes(p.get::<ResetToken>(pidv).unwrap().as_slice()),
            ParameterValueType::ConnectionId => jbytes(&p.get::<ConnectionId>(pidv).unwrap()),
            ParameterValueType::PreferredAddress => jbytes(&pa_bytes(&p.get::<PreferredAddress>(pidv).unwrap())),
        };
        out.push(json!({"id": id, "val": val}));
    }
    out
}

fn class_of(e: &QuicError) -> String {
    match e.kind() {
        ErrorKind::TransportParameter => "TransportParameter".into(),
        k => format!("{k:?}"),
    }
}

fn enc_dec<R>(role: &str, ps: &[Value], remembered: bool, out: &mut util::Out)
where
    R: IntoRole + Default + qbase::role::RequiredParameters + PartialEq + std::fmt::Debug,
    Parameters<R>: PartialEq,
{
    let built = match guarded(|| build::<R>(ps)) {
        Ok(p) => p,
        Err(msg) => return out.emit(&panic_ev("params", "build", json!({"role": role, "ps": ps}), msg)),
    };
    let proj = project(&built);
    let bytes = match guarded(|| {
        let mut buf: Vec<u8> = vec![];
        buf.put_parameters(&built);
        buf
    }) {
        Ok(b) => b,
        Err(msg) => return out.emit(&panic_ev("params", "put_parameters", json!({"role": role, "ps": proj}), msg)),
    };
    out.emit(&json!({"ev": "penc", "c": "params", "role": role, "ps": proj, "bytes": bytes}));
    let _ = remembered;
    match guarded(|| Parameters::<R>::parse_from_bytes(&bytes)) {
        Ok(Ok(p)) => out.emit(&json!({"ev": "pdec", "c": "params", "role": role, "ok": true, "ps": project(&p), "class": "", "eq": p == built})),
        Ok(Err(e)) => out.emit(&json!({"ev": "pdec", "c": "params", "role": role, "ok": false, "ps": [], "class": class_of(&e), "eq": false,
            "err": e.to_string().chars().take(120).collect::<String>()})),
        Err(msg) => out.emit(&panic_ev("params", "parse_from_bytes", json!({"role": role, "b": bytes}), msg)),
    }
}

pub fn c05(v: &Value, out: &mut util::Out) {
    let role = v["role"].as_str().unwrap();
    let ps = v["ps"].as_array().unwrap().clone();
    match role {
        "client" => enc_dec::<qbase::role::Client>(role, &ps, false, out),
        "server" => enc_dec::<qbase::role::Server>(role, &ps, false, out),
        "remembered" => {
            // a server's parameters as a client stores them for 0-RTT: no required ids
            let built = match guarded(|| build::<qbase::role::Server>(&ps)) {
                Ok(p) => p,
                Err(msg) => return out.emit(&panic_ev("params", "build", json!({"role": role, "ps": ps}), msg)),
            };
            let proj = project(&built);
            let bytes = match guarded(|| {
                let mut buf: Vec<u8> = vec![];
                buf.put_parameters(&built);
                buf
            }) {
                Ok(b) => b,
                Err(msg) => return out.emit(&panic_ev("params", "put_parameters", json!({"role": role, "ps": proj}), msg)),
            };
            out.emit(&json!({"ev": "penc", "c": "params", "role": role, "ps": proj, "bytes": bytes}));
            match guarded(|| ServerParameters::try_from_remembered_bytes(&bytes)) {
                Ok(Ok(p)) => out.emit(&json!({"ev": "pdec", "c": "params", "role": role, "ok": true, "ps": project(&p), "class": "", "eq": p == built})),
                Ok(Err(e)) => out.emit(&json!({"ev": "pdec", "c": "params", "role": role, "ok": false, "ps": [], "class": class_of(&e), "eq": false})),
                Err(msg) => out.emit(&panic_ev("params", "try_from_remembered_bytes", json!({"role": role, "b": bytes}), msg)),
            }
        }
        _ => panic!("role {role}"),
    }
}

fn emit_parse<R>(role: &str, b: &[u8], r: Result<Result<Parameters<R>, QuicError>, String>, op: &str, out: &mut util::Out) {
    match r {
        Ok(Ok(p)) => out.emit(&json!({"ev": "params", "c": "params", "role": role, "in": b, "ok": true, "ps": project(&p), "class": ""})),
        Ok(Err(e)) => out.emit(&json!({"ev": "params", "c": "params", "role": role, "in": b, "ok": false, "ps": [], "class": class_of(&e),
            "err": e.to_string().chars().take(120).collect::<String>()})),
        Err(msg) => out.emit(&panic_ev("params", op, json!({"role": role, "b": b}), msg)),
    }
}

/// C03: the blob is parsed as a client's, as a server's and as remembered server parameters.
pub fn c03(b: &[u8], out: &mut util::Out) {
    emit_parse("client", b, guarded(|| ClientParameters::parse_from_bytes(b)), "parse_from_bytes", out);
    emit_parse("server", b, guarded(|| ServerParameters::parse_from_bytes(b)), "parse_from_bytes", out);
    emit_parse("remembered", b, guarded(|| ServerParameters::try_from_remembered_bytes(b)), "try_from_remembered_bytes", out);
}
