//! vh — conformance harness binding the TLA+ specifications in /verif/spec to the real
//! gm-quic code.  Sub-commands replay TLC-generated behaviours into real objects and record
//! NDJSON traces that the Trace_*.tla specifications validate.
mod localcids;
mod pncodec;
mod rcvdjournal;
mod recvbuf;
mod remotecids;
mod sendbuf;
mod sentjournal;
mod streams;
mod util;

fn main() {
    let args: Vec<String> = std::env::args().collect();
    if args.len() < 2 {
        eprintln!("usage: vh <command> [args]");
        std::process::exit(2);
    }
    let rest = &args[2..];
    let code = match args[1].as_str() {
        "sendbuf-replay" => sendbuf::replay(rest),
        "sendbuf-random" => sendbuf::random(rest),
        "sentjournal-replay" => sentjournal::replay(rest),
        "rcvdjournal-replay" => rcvdjournal::replay(rest),
        "rcvdjournal-random" => rcvdjournal::random(rest),
        "localcids-replay" => localcids::replay(rest),
        "remotecids-replay" => remotecids::replay(rest),
        "streams-replay" => streams::replay(rest),
        "streams-random" => streams::random(rest),
        "pncodec" => pncodec::run(rest),
        "recvbuf-replay" => recvbuf::replay(rest),
        "recvbuf-random" => recvbuf::random(rest),
        other => {
            eprintln!("unknown command {other}");
            2
        }
    };
    std::process::exit(code);
}
