//! C14 (remote side): replay of Gen_RemoteCids behaviours into the real `ArcRemoteCids` /
//! `ArcCidCell` / `BorrowedCid`, recording the RETIRE_CONNECTION_ID frames each call emits.
use std::sync::{Arc, Mutex};

use qbase::{
    cid::{ArcCidCell, ArcRemoteCids, BorrowedCid, ConnectionId},
    frame::{NewConnectionIdFrame, RetireConnectionIdFrame, io::{ReceiveFrame, SendFrame}},
    net::tx::ArcSendWaker,
    varint::VarInt,
};
use serde_json::{Value, json};

use crate::util::{Out, guarded, quiet_panics, read_lines};

#[derive(Clone, Default)]
struct Retired(Arc<Mutex<Vec<u64>>>);
impl SendFrame<RetireConnectionIdFrame> for Retired {
    fn send_frame<I: IntoIterator<Item = RetireConnectionIdFrame>>(&self, iter: I) {
        self.0.lock().unwrap().extend(iter.into_iter().map(|f| f.sequence()));
    }
}

fn cid_of(seq: u64) -> ConnectionId {
    let b = seq as u8 + 1;
    ConnectionId::from_slice(&[b, b, b, b, b ^ 0x55, 0x01, 0x02, 0x03])
}
fn seq_of(cid: &ConnectionId) -> u64 {
    (cid[0] - 1) as u64
}

struct World {
    remote: ArcRemoteCids<Retired>,
    retired: Retired,
    cells: Vec<&'static ArcCidCell<Retired>>,
    borrowed: Vec<Option<BorrowedCid<'static, Retired>>>,
}

impl World {
    fn take(&self) -> Vec<u64> {
        std::mem::take(&mut *self.retired.0.lock().unwrap())
    }
    fn step(&mut self, op: &Value) -> Value {
        let a = op.as_array().unwrap();
        let name = a[0].as_str().unwrap();
        let arg = |i: usize| a[i].as_u64().unwrap();
        match name {
            "apply" => {
                let cell: &'static ArcCidCell<Retired> = Box::leak(Box::new(self.remote.apply_dcid()));
                self.cells.push(cell);
                self.borrowed.push(None);
                json!({"ev": "apply", "ok": true, "retired": self.take()})
            }
            "initial" => {
                let c = arg(1) as usize;
                self.remote.apply_initial_dcid(cid_of(0), self.cells[c - 1]);
                json!({"ev": "initial", "c": c, "ok": true, "retired": self.take()})
            }
            "newcid" => {
                let (seq, rpt) = (arg(1), arg(2));
                let f = NewConnectionIdFrame::new(cid_of(seq), VarInt::from_u64(seq).unwrap(), VarInt::from_u64(rpt).unwrap());
                let r = self.remote.recv_frame(f);
                let kind = match &r { Err(qbase::error::Error::Quic(e)) => format!("{:?}", e.kind()), Err(e) => format!("{e:?}"), Ok(_) => String::new() };
                json!({"ev": "newcid", "seq": seq, "rpt": rpt, "ok": r.is_ok(), "kind": kind, "retired": self.take()})
            }
            "borrow" => {
                let c = arg(1) as usize;
                let cell = self.cells[c - 1];
                let (ok, outv) = match cell.borrow_cid(ArcSendWaker::new()) {
                    Ok(Some(b)) => {
                        let s = seq_of(&b);
                        self.borrowed[c - 1] = Some(b);
                        (true, json!(s))
                    }
                    Ok(None) => (true, json!("gone")),
                    Err(_) => (false, json!("wait")),
                };
                json!({"ev": "borrow", "c": c, "ok": ok, "out": outv, "retired": self.take()})
            }
            "release" => {
                let c = arg(1) as usize;
                self.borrowed[c - 1] = None;
                json!({"ev": "release", "c": c, "ok": true, "retired": self.take()})
            }
            "retirecell" => {
                let c = arg(1) as usize;
                self.cells[c - 1].retire();
                json!({"ev": "retirecell", "c": c, "ok": true, "retired": self.take()})
            }
            o => panic!("unknown op {o}"),
        }
    }
}

/// vh remotecids-replay <limit> <behaviours.ndjson> <trace-out.ndjson>
pub fn replay(args: &[String]) -> i32 {
    quiet_panics();
    let limit: u64 = args[0].parse().unwrap();
    let mut out = Out::create(&args[2]);
    let mut n = 0u64;
    for line in read_lines(&args[1]) {
        let ops: Vec<Value> = serde_json::from_str(&line).expect("behaviour json");
        out.emit(&json!({"ev": "reset"}));
        let retired = Retired::default();
        let mut w = World { remote: ArcRemoteCids::new(limit, retired.clone()), retired, cells: vec![], borrowed: vec![] };
        for op in &ops {
            match guarded(|| w.step(op)) {
                Ok(ev) => out.emit(&ev),
                Err(msg) => {
                    out.emit(&json!({"ev": "panic", "op": op, "msg": msg}));
                    break;
                }
            }
        }
        w.borrowed.clear();
        n += 1;
    }
    out.finish();
    println!("{{\"behaviours\": {n}}}");
    0
}
