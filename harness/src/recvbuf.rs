//! C08: replay of Gen_RecvBuf behaviours (and seeded random long streams) into the real
//! `qrecovery::recv::RecvBuf`, recording one NDJSON event per call for Trace_RecvBuf.
use bytes::Bytes;
use qrecovery::recv::RecvBuf;
use serde_json::{Value, json};

use crate::util::{Out, Rng, content, guarded, quiet_panics, read_lines};

fn st(mut ev: Value, b: &RecvBuf) -> Value {
    ev["nread"] = json!(b.nread());
    ev["largest"] = json!(b.largest_offset());
    ev["available"] = json!(b.available());
    ev["readable"] = json!(b.is_readable());
    ev
}

fn step(b: &mut RecvBuf, op: &Value) -> Value {
    let a = op.as_array().unwrap();
    let arg = |i: usize| a[i].as_u64().unwrap();
    match a[0].as_str().unwrap() {
        "v" => {
            let (off, len) = (arg(1), arg(2));
            let ret = b.recv(off, Bytes::from(content(off..off + len)));
            st(json!({"ev": "recv", "off": off, "len": len, "ret": ret}), b)
        }
        "r" => {
            let k = arg(1) as usize;
            let before = b.nread();
            let mut dst = vec![0u8; k];
            let mut slice = &mut dst[..];
            let n = b.try_read(&mut slice);
            let ok = dst[..n] == content(before..before + n as u64)[..];
            st(json!({"ev": "read", "k": k, "n": n, "data_ok": ok}), b)
        }
        "n" => {
            let before = b.nread();
            match b.try_next() {
                Some(d) => {
                    let ok = d[..] == content(before..before + d.len() as u64)[..];
                    st(json!({"ev": "next", "some": true, "n": d.len(), "data_ok": ok}), b)
                }
                None => st(json!({"ev": "next", "some": false, "n": 0, "data_ok": true}), b),
            }
        }
        o => panic!("unknown op {o}"),
    }
}

fn run_one(ops: &[Value], out: &mut Out) {
    out.emit(&json!({"ev": "reset"}));
    let mut b = RecvBuf::default();
    for op in ops {
        match guarded(|| step(&mut b, op)) {
            Ok(ev) => out.emit(&ev),
            Err(msg) => {
                out.emit(&json!({"ev": "panic", "op": op, "msg": msg}));
                break;
            }
        }
    }
}

/// the same behaviours through the crypto stream's receive side (CryptoStreamIncoming::recv_frame + CryptoStreamReader):
/// only what that API shows is recorded (bytes read, Pending = 0 bytes)
fn run_one_crypto(ops: &[Value], out: &mut Out) {
    use qbase::frame::{CryptoFrame, io::ReceiveFrame};
    use qbase::varint::VarInt;
    use std::task::{Context, Poll};
    out.emit(&json!({"ev": "reset"}));
    let cs = qrecovery::crypto::CryptoStream::new(Default::default());
    let incoming = cs.incoming();
    let mut reader = cs.reader();
    let mut nread = 0u64;
    let mut cx = Context::from_waker(futures::task::noop_waker_ref());
    for op in ops {
        let a = op.as_array().unwrap();
        let arg = |i: usize| a[i].as_u64().unwrap();
        let r = guarded(|| match a[0].as_str().unwrap() {
            "v" => {
                let (off, len) = (arg(1), arg(2));
                if len == 0 {
                    return None; // the frame codec has no empty CRYPTO frame in practice; RecvBuf itself is covered directly
                }
                let frame = CryptoFrame::new(VarInt::from_u64(off).unwrap(), VarInt::from_u64(len).unwrap());
                let res = incoming.recv_frame((frame, Bytes::from(content(off..off + len))));
                Some(json!({"ev": "crecv", "off": off, "len": len, "ok": res.is_ok()}))
            }
            "r" => {
                let k = arg(1) as usize;
                let mut dst = vec![0u8; k];
                let mut rb = tokio::io::ReadBuf::new(&mut dst);
                let n = match tokio::io::AsyncRead::poll_read(std::pin::Pin::new(&mut reader), &mut cx, &mut rb) {
                    Poll::Ready(Ok(())) => rb.filled().len(),
                    Poll::Ready(Err(_)) => 0,
                    Poll::Pending => 0,
                };
                let ok = dst[..n] == content(nread..nread + n as u64)[..];
                nread += n as u64;
                Some(json!({"ev": "cread", "k": k, "n": n, "data_ok": ok}))
            }
            _ => None,
        });
        match r {
            Ok(Some(ev)) => out.emit(&ev),
            Ok(None) => {}
            Err(msg) => {
                out.emit(&json!({"ev": "panic", "op": op, "msg": msg}));
                break;
            }
        }
    }
}

/// vh recvbuf-replay <behaviours.ndjson> <trace-out.ndjson> [crypto]
pub fn replay(args: &[String]) -> i32 {
    quiet_panics();
    let mut out = Out::create(&args[1]);
    let crypto = args.get(2).map(|s| s == "crypto").unwrap_or(false);
    let mut n = 0u64;
    for line in read_lines(&args[0]) {
        let ops: Vec<Value> = serde_json::from_str(&line).expect("behaviour json");
        if crypto {
            run_one_crypto(&ops, &mut out);
        } else {
            run_one(&ops, &mut out);
        }
        n += 1;
    }
    out.finish();
    println!("{{\"behaviours\": {n}}}");
    0
}

/// vh recvbuf-random <seed> <runs> <depth> <stream-len> <behaviours-out.ndjson>
pub fn random(args: &[String]) -> i32 {
    let seed: u64 = args[0].parse().unwrap();
    let runs: u64 = args[1].parse().unwrap();
    let depth: u64 = args[2].parse().unwrap();
    let n: u64 = args[3].parse().unwrap();
    let mut out = Out::create(&args[4]);
    let mut rng = Rng(seed);
    for _ in 0..runs {
        let mut ops = vec![];
        for _ in 0..depth {
            let c = rng.below(100);
            if c < 65 {
                let off = rng.below(n + 1);
                let cap = 1 + rng.below(12);
                let len = if rng.chance(1, 12) { 0 } else { rng.range(0, (n - off).min(cap)) };
                ops.push(json!(["v", off, len]));
            } else if c < 85 {
                ops.push(json!(["r", rng.range(1, 9)]));
            } else {
                ops.push(json!(["n"]));
            }
        }
        out.emit(&Value::Array(ops));
    }
    out.finish();
    0
}
