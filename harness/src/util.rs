use std::{
    fs::File,
    io::{BufRead, BufReader, BufWriter, Write},
    panic::{AssertUnwindSafe, catch_unwind},
};

use serde_json::Value;

pub fn read_lines(path: &str) -> impl Iterator<Item = String> {
    let f = File::open(path).unwrap_or_else(|e| panic!("open {path}: {e}"));
    BufReader::new(f).lines().map(|l| l.unwrap()).filter(|l| !l.trim().is_empty())
}

pub struct Out(BufWriter<File>);
impl Out {
    pub fn create(path: &str) -> Self {
        Out(BufWriter::new(File::create(path).unwrap_or_else(|e| panic!("create {path}: {e}"))))
    }
    pub fn emit(&mut self, v: &Value) {
        serde_json::to_writer(&mut self.0, v).unwrap();
        self.0.write_all(b"\n").unwrap();
    }
    pub fn finish(mut self) {
        self.0.flush().unwrap();
    }
}

/// Position-determined stream content.
pub fn content_byte(i: u64) -> u8 {
    (i.wrapping_mul(131).wrapping_add(i >> 8).wrapping_add(7) & 0xff) as u8
}
pub fn content(range: std::ops::Range<u64>) -> Vec<u8> {
    range.map(content_byte).collect()
}

/// Run code under test; a panic is data (returned as the panic message).
pub fn guarded<T>(f: impl FnOnce() -> T) -> Result<T, String> {
    catch_unwind(AssertUnwindSafe(f)).map_err(|p| {
        if let Some(s) = p.downcast_ref::<&str>() {
            s.to_string()
        } else if let Some(s) = p.downcast_ref::<String>() {
            s.clone()
        } else {
            "panic".to_string()
        }
    })
}

pub fn quiet_panics() {
    if std::env::var("VH_LOUD").is_err() {
        std::panic::set_hook(Box::new(|_| {}));
    }
}

/// Tiny deterministic PRNG (splitmix64) so drivers do not depend on rand's API.
pub struct Rng(pub u64);
impl Rng {
    pub fn next(&mut self) -> u64 {
        self.0 = self.0.wrapping_add(0x9E3779B97F4A7C15);
        let mut z = self.0;
        z = (z ^ (z >> 30)).wrapping_mul(0xBF58476D1CE4E5B9);
        z = (z ^ (z >> 27)).wrapping_mul(0x94D049BB133111EB);
        z ^ (z >> 31)
    }
    pub fn below(&mut self, n: u64) -> u64 {
        if n == 0 { 0 } else { self.next() % n }
    }
    pub fn range(&mut self, lo: u64, hi: u64) -> u64 {
        lo + self.below(hi - lo + 1)
    }
    pub fn chance(&mut self, num: u64, den: u64) -> bool {
        self.below(den) < num
    }
}

/// current-thread tokio runtime with paused (virtual) time
pub fn paused_rt() -> tokio::runtime::Runtime {
    tokio::runtime::Builder::new_current_thread()
        .enable_time()
        .start_paused(true)
        .build()
        .unwrap()
}
