//! C07/C10: replay of Gen_SentJournal behaviours into the real `ArcSentJournal<u64>`
//! (NewPacketGuard / SentRotateGuard), recording one NDJSON event per call for Trace_SentJournal.
use std::time::Duration;

use qbase::{frame::AckFrame, varint::VarInt};
use qrecovery::journal::{ArcSentJournal, SentRotateGuard};
use serde_json::{Value, json};

use crate::util::{Out, guarded, paused_rt, quiet_panics, read_lines};

pub const TICK_MS: u64 = 10;

fn next_pn(j: &ArcSentJournal<u64>) -> u64 {
    j.new_packet().pn().0
}

fn run_one(ops: &[Value], out: &mut Out) {
    out.emit(&json!({"ev": "reset"}));
    let rt = paused_rt();
    rt.block_on(async {
        let journal = ArcSentJournal::<u64>::with_capacity(4);
        let mut next_frame = 0u64;
        let mut rot: Option<SentRotateGuard<'_, u64>> = None;
        for op in ops {
            let a = op.as_array().unwrap();
            let name = a[0].as_str().unwrap().to_string();
            let arg = |i: usize| a[i].as_u64().unwrap();
            if name == "t" {
                tokio::time::advance(Duration::from_millis(arg(1) * TICK_MS)).await;
                out.emit(&json!({"ev": "tick", "d": arg(1)}));
                continue;
            }
            let in_rot = rot.is_some();
            let needs_rot = matches!(name.as_str(), "u" | "a" | "l" | "f" | "re");
            if in_rot != needs_rot {
                out.emit(&json!({"ev": "skip", "op": op}));
                break;
            }
            let r = guarded(|| -> Value {
                match name.as_str() {
                    "s" => {
                        let (n, triv, rtt, ett) = (arg(1), arg(2), arg(3), arg(4));
                        let mut g = journal.new_packet();
                        let pn = g.pn().0;
                        if triv == 1 {
                            g.record_trivial();
                        }
                        let mut frames = vec![];
                        for _ in 0..n {
                            g.record_frame(next_frame);
                            frames.push(next_frame);
                            next_frame += 1;
                        }
                        g.build_with_time(
                            Duration::from_millis(rtt * TICK_MS),
                            Duration::from_millis(ett * TICK_MS),
                        );
                        json!({"ev": "send", "n": n, "triv": triv, "rt": rtt, "et": ett, "pn": pn,
                               "frames": frames, "next": next_pn(&journal)})
                    }
                    "b" => {
                        let mut g = journal.new_packet();
                        let pn = g.pn().0;
                        if arg(1) == 1 {
                            g.record_trivial();
                        }
                        drop(g);
                        json!({"ev": "abandon", "pn": pn, "next": next_pn(&journal)})
                    }
                    "rb" => {
                        rot = Some(journal.rotate());
                        json!({"ev": "rotbegin"})
                    }
                    "u" => {
                        let l = arg(1);
                        let f = AckFrame::new(VarInt::from_u64(l).unwrap(), VarInt::from_u32(0), VarInt::from_u32(0), vec![], None);
                        let r = rot.as_mut().unwrap().update_largest(&f);
                        let kind = r.as_ref().err().map(|e| format!("{:?}", e.kind())).unwrap_or_default();
                        json!({"ev": "largest", "L": l, "ok": r.is_ok(), "kind": kind})
                    }
                    "a" => {
                        let fr: Vec<u64> = rot.as_mut().unwrap().on_packet_acked(arg(1)).collect();
                        json!({"ev": "ack", "pn": arg(1), "frames": fr})
                    }
                    "l" => {
                        let fr: Vec<u64> = rot.as_mut().unwrap().may_loss_packet(arg(1)).collect();
                        json!({"ev": "loss", "pn": arg(1), "frames": fr})
                    }
                    "f" => {
                        let fr: Vec<u64> = rot.as_mut().unwrap().fast_retransmit().collect();
                        json!({"ev": "fastretx", "frames": fr})
                    }
                    "re" => {
                        rot = None;
                        json!({"ev": "rotend", "next": next_pn(&journal)})
                    }
                    o => panic!("unknown op {o}"),
                }
            });
            match r {
                Ok(ev) => out.emit(&ev),
                Err(msg) => {
                    out.emit(&json!({"ev": "panic", "op": op, "msg": msg}));
                    break;
                }
            }
        }
        drop(rot);
    });
}

/// vh sentjournal-replay <behaviours.ndjson> <trace-out.ndjson>
pub fn replay(args: &[String]) -> i32 {
    quiet_panics();
    let mut out = Out::create(&args[1]);
    let mut n = 0u64;
    for line in read_lines(&args[0]) {
        let ops: Vec<Value> = serde_json::from_str(&line).expect("behaviour json");
        run_one(&ops, &mut out);
        n += 1;
    }
    out.finish();
    println!("{{\"behaviours\": {n}}}");
    0
}
