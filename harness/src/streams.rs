//! C01 / C11 / C12 (and the Recver part of C08): two real `DataStreams` endpoints (client, server), each
//! with a real connection-level `FlowController` and real `Parameters`, joined by a frame-level
//! "network" the schedule controls: which in-flight frame is delivered, duplicated, declared lost or
//! acknowledged next, when the application writes / reads / shuts down / resets / stops, and how much room
//! each packet has.  Everything the code does is recorded as NDJSON for Trace_Stream.
use std::{
    collections::BTreeMap,
    sync::{Arc, Mutex},
    task::{Context, Poll},
};

use bytes::{BufMut, Bytes, buf::UninitSlice};
use futures::task::noop_waker_ref;
use qbase::{
    cid::ConnectionId,
    flow::FlowController,
    frame::{
        DataBlockedFrame, Frame, GetFrameType, MaxDataFrame, MaxStreamDataFrame, MaxStreamsFrame, ResetStreamFrame,
        StopSendingFrame, StreamCtlFrame, StreamFrame,
        io::{ReceiveFrame, SendFrame},
    },
    net::tx::ArcSendWakers,
    packet::RecordFrame,
    param::{ArcParameters, ClientParameters, ParameterId, Parameters, ServerParameters, handy},
    role::Role,
    sid::{Dir, StreamId, handy::ConsistentConcurrency},
    util::ContinuousData,
    varint::VarInt,
};
use qrecovery::{
    recv::{Reader, StopSending},
    send::{CancelStream, Writer},
    streams::{DataStreams, Ext},
};
use serde_json::{Value, json};

use crate::util::{Out, Rng, content_byte, guarded, quiet_panics, read_lines};

#[derive(Clone, Default, Debug)]
pub struct Broker {
    ctl: Arc<Mutex<Vec<StreamCtlFrame>>>,
    max_data: Arc<Mutex<Vec<MaxDataFrame>>>,
    blocked: Arc<Mutex<Vec<DataBlockedFrame>>>,
}
impl SendFrame<StreamCtlFrame> for Broker {
    fn send_frame<I: IntoIterator<Item = StreamCtlFrame>>(&self, iter: I) {
        self.ctl.lock().unwrap().extend(iter);
    }
}
impl SendFrame<DataBlockedFrame> for Broker {
    fn send_frame<I: IntoIterator<Item = DataBlockedFrame>>(&self, iter: I) {
        self.blocked.lock().unwrap().extend(iter);
    }
}
impl SendFrame<MaxDataFrame> for Broker {
    fn send_frame<I: IntoIterator<Item = MaxDataFrame>>(&self, iter: I) {
        self.max_data.lock().unwrap().extend(iter);
    }
}

/// A packet under assembly: bounded buffer recording the STREAM frames written into it.
struct Pkt {
    buf: bytes::buf::Limit<Vec<u8>>,
    frames: Vec<(StreamFrame, Vec<u8>)>,
}
impl Pkt {
    fn new(capacity: usize) -> Self {
        Self { buf: Vec::with_capacity(capacity).limit(capacity), frames: Vec::new() }
    }
}
unsafe impl BufMut for Pkt {
    fn remaining_mut(&self) -> usize {
        self.buf.remaining_mut()
    }
    unsafe fn advance_mut(&mut self, cnt: usize) {
        unsafe { self.buf.advance_mut(cnt) }
    }
    fn chunk_mut(&mut self) -> &mut UninitSlice {
        self.buf.chunk_mut()
    }
}
impl<D: ContinuousData> RecordFrame<Frame<D>, D> for Pkt {
    fn record_frame(&mut self, frame: &Frame<D>) {
        if let Frame::Stream(frame, data) = frame {
            self.frames.push((*frame, data.to_bytes().to_vec()));
        }
    }
}

/// content of stream `sid` written by `side` at position i
fn sbyte(sid: u64, i: u64) -> u8 {
    content_byte(i.wrapping_add(sid.wrapping_mul(1000003)))
}

#[derive(Clone)]
enum Wire {
    Stream(StreamFrame, Bytes),
    Ctl(StreamCtlFrame),
    MaxData(MaxDataFrame),
}

struct InFlight {
    id: u64,
    wire: Wire,
    delivered: bool,
    /// sent in 0-RTT that was then rejected: never delivered, but loss detection will still report it
    stale: bool,
}

struct End {
    name: &'static str,
    role: Role,
    streams: DataStreams<Broker>,
    flow: FlowController<Broker>,
    params: ArcParameters,
    broker: Broker,
    writers: BTreeMap<u64, Writer<Ext<Broker>>>,
    readers: BTreeMap<u64, Reader<Ext<Broker>>>,
    written: BTreeMap<u64, u64>,
    nread: BTreeMap<u64, u64>,
    outbox: Vec<InFlight>,
    /// frames declared lost: the network may still deliver them late, the peer may still acknowledge them late
    limbo: Vec<InFlight>,
    /// writes that returned Pending: (bytes still to write, woken flag).  A fair application re-polls only when woken.
    parked: BTreeMap<u64, (u64, Arc<Flag>)>,
    dead: Option<String>,
}

/// a waker that remembers it was invoked
pub struct Flag(std::sync::atomic::AtomicBool);
impl std::task::Wake for Flag {
    fn wake(self: Arc<Self>) {
        self.0.store(true, std::sync::atomic::Ordering::SeqCst);
    }
}

fn sid_json(s: StreamId) -> u64 {
    // the wire value of the stream id: index*4 + type bits
    let ty = match (s.role(), s.dir()) {
        (Role::Client, Dir::Bi) => 0,
        (Role::Server, Dir::Bi) => 1,
        (Role::Client, Dir::Uni) => 2,
        (Role::Server, Dir::Uni) => 3,
    };
    s.id() * 4 + ty
}
fn sid_from(v: u64) -> StreamId {
    let (role, dir) = match v % 4 {
        0 => (Role::Client, Dir::Bi),
        1 => (Role::Server, Dir::Bi),
        2 => (Role::Client, Dir::Uni),
        _ => (Role::Server, Dir::Uni),
    };
    StreamId::new(role, dir, v / 4)
}

fn kind_of(e: &qbase::error::Error) -> String {
    match e {
        qbase::error::Error::Quic(q) => format!("{:?}", q.kind()),
        other => format!("{other:?}").chars().take(40).collect(),
    }
}

const PARAM_IDS: [(&str, ParameterId); 9] = [
    ("max_data", ParameterId::InitialMaxData),
    ("bidi_local", ParameterId::InitialMaxStreamDataBidiLocal),
    ("bidi_remote", ParameterId::InitialMaxStreamDataBidiRemote),
    ("uni", ParameterId::InitialMaxStreamDataUni),
    ("streams_bidi", ParameterId::InitialMaxStreamsBidi),
    ("streams_uni", ParameterId::InitialMaxStreamsUni),
    ("x", ParameterId::ActiveConnectionIdLimit),
    ("y", ParameterId::ActiveConnectionIdLimit),
    ("z", ParameterId::ActiveConnectionIdLimit),
];

fn apply_params<P>(set: &mut dyn FnMut(ParameterId, u64), cfg: &Value, _p: std::marker::PhantomData<P>) {
    for (k, id) in PARAM_IDS.iter().take(6) {
        set(*id, cfg[*k].as_u64().unwrap());
    }
}

struct World {
    cli: End,
    srv: End,
    next_id: u64,
    setup: Setup,
    hs_done: bool,
    rejected_cfg: bool,
    pending_ctl: Vec<Value>,
    reverse_finish: bool,
}

struct Setup {
    cp: ClientParameters,
    sp: ServerParameters,
    cscid: ConnectionId,
    sscid: ConnectionId,
}

fn make_world(cfg: &Value) -> World {
    let mut cp: ClientParameters = handy::client_parameters();
    let mut sp: ServerParameters = handy::server_parameters();
    apply_params(&mut |id, v| cp.set(id, VarInt::from_u64(v).unwrap()).unwrap(), &cfg["cli"], std::marker::PhantomData::<()>);
    apply_params(&mut |id, v| sp.set(id, VarInt::from_u64(v).unwrap()).unwrap(), &cfg["srv"], std::marker::PhantomData::<()>);
    let odcid = ConnectionId::from_slice(&[1, 2, 3, 4, 5, 6, 7, 8]);
    let cscid = ConnectionId::from_slice(&[9, 9, 9, 9, 1, 1, 1, 1]);
    let sscid = ConnectionId::from_slice(&[7, 7, 7, 7, 2, 2, 2, 2]);
    cp.set(ParameterId::InitialSourceConnectionId, cscid).unwrap();
    sp.set(ParameterId::InitialSourceConnectionId, sscid).unwrap();
    sp.set(ParameterId::OriginalDestinationConnectionId, odcid).unwrap();

    // what the client remembers from an earlier connection (0-RTT), if anything
    let rem: Option<ServerParameters> = cfg.get("rem").filter(|r| r.get("max_data").is_some()).map(|r| {
        let mut p = handy::server_parameters();
        apply_params(&mut |id, v| p.set(id, VarInt::from_u64(v).unwrap()).unwrap(), r, std::marker::PhantomData::<()>);
        p
    });
    let cparams = Parameters::new_client(cp.clone(), rem.clone(), odcid);
    let sparams = Parameters::new_server(sp.clone());

    let g = |p: &Value, k: &str| p[k].as_u64().unwrap();
    let conc = |local: &Value| Box::new(ConsistentConcurrency::new(g(local, "streams_bidi"), g(local, "streams_uni")));
    let mk_end = |name: &'static str, role: Role, streams: DataStreams<Broker>, broker: Broker, flow: FlowController<Broker>, params: Parameters| End {
        name, role, streams, flow, params: params.into(), broker, writers: BTreeMap::new(), readers: BTreeMap::new(),
        written: BTreeMap::new(), nread: BTreeMap::new(), outbox: vec![], limbo: vec![], parked: BTreeMap::new(), dead: None,
    };
    // like qconnection::builder: built from the local parameters and the remembered / default remote ones,
    // revised when the handshake delivers the peer's real parameters ("hs" op)
    let cb = Broker::default();
    let cw = ArcSendWakers::default();
    let rem_or_default = rem.clone().unwrap_or_default();
    let cstreams = DataStreams::new(Role::Client, &cp, &rem_or_default, conc(&cfg["cli"]), cb.clone(), cw.clone(), None);
    let rem_max_data = rem.as_ref().map(|_| g(&cfg["rem"], "max_data")).unwrap_or(0);
    let cflow = FlowController::new(rem_max_data, g(&cfg["cli"], "max_data"), cb.clone(), cw);
    let sb = Broker::default();
    let sw = ArcSendWakers::default();
    let sstreams = DataStreams::new(Role::Server, &sp, &ClientParameters::default(), conc(&cfg["srv"]), sb.clone(), sw.clone(), None);
    let sflow = FlowController::new(0, g(&cfg["srv"], "max_data"), sb.clone(), sw);
    World {
        cli: mk_end("cli", Role::Client, cstreams, cb, cflow, cparams),
        srv: mk_end("srv", Role::Server, sstreams, sb, sflow, sparams),
        next_id: 0,
        setup: Setup { cp, sp, cscid, sscid },
        hs_done: false,
        rejected_cfg: cfg["rejected"].as_bool().unwrap_or(false),
        pending_ctl: vec![],
        reverse_finish: false,
    }
}

fn frame_json(w: &Wire) -> Value {
    match w {
        Wire::Stream(f, _) => json!({"t": "stream", "sid": sid_json(f.stream_id()), "off": f.offset(), "len": f.len(), "fin": f.is_fin()}),
        Wire::MaxData(f) => json!({"t": "max_data", "v": f.max_data()}),
        Wire::Ctl(c) => match c {
            StreamCtlFrame::ResetStream(f) => json!({"t": "reset", "sid": sid_json(f.stream_id()), "final": f.final_size(), "code": f.app_error_code()}),
            StreamCtlFrame::StopSending(f) => json!({"t": "stop", "sid": sid_json(f.stream_id()), "code": f.app_err_code()}),
            StreamCtlFrame::MaxStreamData(f) => json!({"t": "max_stream_data", "sid": sid_json(f.stream_id()), "v": f.max_stream_data()}),
            StreamCtlFrame::MaxStreams(f) => match f {
                MaxStreamsFrame::Bi(v) => json!({"t": "max_streams", "dir": "bi", "v": v.into_u64()}),
                MaxStreamsFrame::Uni(v) => json!({"t": "max_streams", "dir": "uni", "v": v.into_u64()}),
            },
            StreamCtlFrame::StreamDataBlocked(f) => json!({"t": "stream_data_blocked", "sid": sid_json(f.stream_id())}),
            StreamCtlFrame::StreamsBlocked(_) => json!({"t": "streams_blocked"}),
        },
    }
}

impl World {
    fn ends(&mut self, side: &str) -> (&mut End, &mut End) {
        if side == "cli" { (&mut self.cli, &mut self.srv) } else { (&mut self.srv, &mut self.cli) }
    }

    /// move the control frames an endpoint produced into its outbox; returns their description
    fn collect(&mut self, side: &str) -> Vec<Value> {
        let mut ids = self.next_id;
        let (e, _) = self.ends(side);
        let mut out = vec![];
        let ctl: Vec<StreamCtlFrame> = std::mem::take(&mut *e.broker.ctl.lock().unwrap());
        let md: Vec<MaxDataFrame> = std::mem::take(&mut *e.broker.max_data.lock().unwrap());
        e.broker.blocked.lock().unwrap().clear();
        for c in ctl {
            let w = Wire::Ctl(c);
            let mut j = frame_json(&w);
            j["id"] = json!(ids);
            out.push(j);
            e.outbox.push(InFlight { id: ids, wire: w, delivered: false, stale: false });
            ids += 1;
        }
        for m in md {
            let w = Wire::MaxData(m);
            let mut j = frame_json(&w);
            j["id"] = json!(ids);
            out.push(j);
            e.outbox.push(InFlight { id: ids, wire: w, delivered: false, stale: false });
            ids += 1;
        }
        self.next_id = ids;
        out
    }

    fn conn_avail(e: &End) -> u64 {
        e.flow.sender.credit(usize::MAX >> 4).map(|c| c.available() as u64).unwrap_or(0)
    }

    fn step(&mut self, op: &Value) -> Option<Value> {
        let a = op.as_array().unwrap();
        let name = a[0].as_str().unwrap();
        let side = a[1].as_str().unwrap().to_string();
        let mut cx = Context::from_waker(noop_waker_ref());
        let ev = match name {
            "hs" => {
                if self.hs_done {
                    return None;
                }
                self.hs_done = true;
                let rejected = a[2].as_bool().unwrap_or(false);
                {
                    let mut g = self.cli.params.lock_guard().unwrap();
                    g.recv_remote_params(self.setup.sp.clone()).unwrap();
                    g.initial_scid_from_peer_need_equal(self.setup.sscid).unwrap();
                }
                {
                    let mut g = self.srv.params.lock_guard().unwrap();
                    g.recv_remote_params(self.setup.cp.clone()).unwrap();
                    g.initial_scid_from_peer_need_equal(self.setup.cscid).unwrap();
                }
                if rejected {
                    // nothing the client sent in 0-RTT was processed by the server; the packets stay in the
                    // client's sent journal, so their frames will be reported lost later on
                    self.cli.outbox.retain(|f| matches!(f.wire, Wire::Stream(..)));
                    for f in self.cli.outbox.iter_mut() {
                        f.stale = true;
                    }
                    self.cli.limbo.clear();
                }
                self.cli.streams.revise_params(rejected, &self.setup.sp);
                self.cli.flow.sender.revise_max_data(rejected, self.setup.sp.get(ParameterId::InitialMaxData).unwrap());
                self.srv.streams.revise_params(false, &self.setup.cp);
                self.srv.flow.sender.revise_max_data(false, self.setup.cp.get(ParameterId::InitialMaxData).unwrap());
                json!({"ev": "hs", "rejected": rejected})
            }
            "open" => {
                let dir = a[2].as_str().unwrap();
                let (e, _) = self.ends(&side);
                if dir == "bi" {
                    let mut fut = Box::pin(e.streams.open_bi(&e.params));
                    match fut.as_mut().poll(&mut cx) {
                        Poll::Ready(Ok(Some((sid, (r, w))))) => {
                            let s = sid_json(sid);
                            e.readers.insert(s, r);
                            e.writers.insert(s, w);
                            json!({"ev": "open", "side": side, "dir": dir, "res": "ok", "sid": s})
                        }
                        Poll::Ready(Ok(None)) => json!({"ev": "open", "side": side, "dir": dir, "res": "exhausted", "sid": 0}),
                        Poll::Ready(Err(er)) => json!({"ev": "open", "side": side, "dir": dir, "res": format!("err:{}", kind_of(&er)), "sid": 0}),
                        Poll::Pending => json!({"ev": "open", "side": side, "dir": dir, "res": "pending", "sid": 0}),
                    }
                } else {
                    let mut fut = Box::pin(e.streams.open_uni(&e.params));
                    match fut.as_mut().poll(&mut cx) {
                        Poll::Ready(Ok(Some((sid, w)))) => {
                            let s = sid_json(sid);
                            e.writers.insert(s, w);
                            json!({"ev": "open", "side": side, "dir": dir, "res": "ok", "sid": s})
                        }
                        Poll::Ready(Ok(None)) => json!({"ev": "open", "side": side, "dir": dir, "res": "exhausted", "sid": 0}),
                        Poll::Ready(Err(er)) => json!({"ev": "open", "side": side, "dir": dir, "res": format!("err:{}", kind_of(&er)), "sid": 0}),
                        Poll::Pending => json!({"ev": "open", "side": side, "dir": dir, "res": "pending", "sid": 0}),
                    }
                }
            }
            "accept" => {
                let dir = a[2].as_str().unwrap();
                let (e, _) = self.ends(&side);
                if dir == "bi" {
                    let mut fut = Box::pin(e.streams.accept_bi(&e.params));
                    match fut.as_mut().poll(&mut cx) {
                        Poll::Ready(Ok((sid, (r, w)))) => {
                            let s = sid_json(sid);
                            e.readers.insert(s, r);
                            e.writers.insert(s, w);
                            json!({"ev": "accept", "side": side, "dir": dir, "res": "ok", "sid": s})
                        }
                        Poll::Ready(Err(er)) => json!({"ev": "accept", "side": side, "dir": dir, "res": format!("err:{}", kind_of(&er)), "sid": 0}),
                        Poll::Pending => json!({"ev": "accept", "side": side, "dir": dir, "res": "pending", "sid": 0}),
                    }
                } else {
                    let mut fut = Box::pin(e.streams.accept_uni());
                    match fut.as_mut().poll(&mut cx) {
                        Poll::Ready(Ok((sid, r))) => {
                            let s = sid_json(sid);
                            e.readers.insert(s, r);
                            json!({"ev": "accept", "side": side, "dir": dir, "res": "ok", "sid": s})
                        }
                        Poll::Ready(Err(er)) => json!({"ev": "accept", "side": side, "dir": dir, "res": format!("err:{}", kind_of(&er)), "sid": 0}),
                        Poll::Pending => json!({"ev": "accept", "side": side, "dir": dir, "res": "pending", "sid": 0}),
                    }
                }
            }
            "write" => {
                let (sid, n) = (a[2].as_u64().unwrap(), a[3].as_u64().unwrap());
                let (e, _) = self.ends(&side);
                let w = e.writers.get_mut(&sid)?;
                let from = *e.written.get(&sid).unwrap_or(&0);
                let data: Vec<u8> = (from..from + n).map(|i| sbyte(sid, i)).collect();
                let flag = Arc::new(Flag(std::sync::atomic::AtomicBool::new(false)));
                let waker = std::task::Waker::from(flag.clone());
                let mut wcx = Context::from_waker(&waker);
                let (res, acc) = match w.poll_write(&mut wcx, Bytes::from(data)) {
                    Poll::Ready(Ok(())) => ("ok".to_string(), n),
                    Poll::Ready(Err(er)) => (format!("err:{:?}", er).chars().take(30).collect(), 0),
                    Poll::Pending => ("pending".to_string(), 0),
                };
                *e.written.entry(sid).or_insert(0) += acc;
                if res == "pending" {
                    // the application task is now parked on this write: only a wake-up makes it try again
                    e.parked.insert(sid, (n, flag));
                } else {
                    e.parked.remove(&sid);
                }
                json!({"ev": "write", "side": side, "sid": sid, "n": n, "acc": acc, "res": res})
            }
            "shutdown" | "flush" => {
                let sid = a[2].as_u64().unwrap();
                let (e, _) = self.ends(&side);
                let w = e.writers.get_mut(&sid)?;
                let r = if name == "shutdown" { w.poll_shutdown(&mut cx) } else { w.poll_flush(&mut cx) };
                let res = match r {
                    Poll::Ready(Ok(())) => "ok".to_string(),
                    Poll::Ready(Err(er)) => format!("err:{:?}", er).chars().take(30).collect(),
                    Poll::Pending => "pending".to_string(),
                };
                json!({"ev": name, "side": side, "sid": sid, "res": res})
            }
            "cancel" => {
                let sid = a[2].as_u64().unwrap();
                let (e, _) = self.ends(&side);
                let w = e.writers.get_mut(&sid)?;
                w.cancel(a[3].as_u64().unwrap());
                json!({"ev": "cancel", "side": side, "sid": sid})
            }
            "stop" => {
                let sid = a[2].as_u64().unwrap();
                let (e, _) = self.ends(&side);
                let r = e.readers.get_mut(&sid)?;
                r.stop(a[3].as_u64().unwrap());
                json!({"ev": "stop", "side": side, "sid": sid})
            }
            "read" => {
                let (sid, k) = (a[2].as_u64().unwrap(), a[3].as_u64().unwrap() as usize);
                let (e, _) = self.ends(&side);
                let r = e.readers.get_mut(&sid)?;
                let mut buf = vec![0u8; k];
                let mut rb = tokio::io::ReadBuf::new(&mut buf);
                let res = tokio::io::AsyncRead::poll_read(std::pin::Pin::new(r), &mut cx, &mut rb);
                let from = *e.nread.get(&sid).unwrap_or(&0);
                match res {
                    Poll::Ready(Ok(())) => {
                        let got = rb.filled().to_vec();
                        let ok = got.iter().enumerate().all(|(i, b)| *b == sbyte(sid, from + i as u64));
                        *e.nread.entry(sid).or_insert(0) += got.len() as u64;
                        json!({"ev": "read", "side": side, "sid": sid, "k": k, "n": got.len(), "eos": got.is_empty() && k > 0, "res": "ok", "data_ok": ok})
                    }
                    Poll::Ready(Err(er)) => json!({"ev": "read", "side": side, "sid": sid, "k": k, "n": 0, "eos": false,
                                                    "res": format!("err:{:?}", er.kind()), "data_ok": true}),
                    Poll::Pending => json!({"ev": "read", "side": side, "sid": sid, "k": k, "n": 0, "eos": false, "res": "pending", "data_ok": true}),
                }
            }
            "pack" => {
                let cap = a[2].as_u64().unwrap() as usize;
                let mut ids = self.next_id;
                let (e, _) = self.ends(&side);
                let mut pkt = Pkt::new(cap);
                let r = e.streams.try_load_data_into(&mut pkt, &e.flow.sender, false);
                let mut frames = vec![];
                for (f, data) in pkt.frames {
                    let sid = sid_json(f.stream_id());
                    let ok = data.len() == f.len() && data.iter().enumerate().all(|(i, b)| *b == sbyte(sid, f.offset() + i as u64));
                    let w = Wire::Stream(f, Bytes::from(data));
                    let mut j = frame_json(&w);
                    j["id"] = json!(ids);
                    j["data_ok"] = json!(ok);
                    frames.push(j);
                    e.outbox.push(InFlight { id: ids, wire: w, delivered: false, stale: false });
                    ids += 1;
                }
                let avail = Self::conn_avail(e);
                self.next_id = ids;
                json!({"ev": "pack", "side": side, "cap": cap, "ok": r.is_ok(), "frames": frames, "conn_avail": avail})
            }
            "ctl" => {
                let frames = self.collect(&side);
                json!({"ev": "ctl", "side": side, "frames": frames})
            }
            "deliver" | "dup" => {
                if !self.hs_done {
                    return None;
                }
                // deliver (a copy of) the k-th in-flight frame of `side` to the peer
                let k = a[2].as_u64().unwrap() as usize;
                let (e, peer) = self.ends(&side);
                let live: Vec<usize> = e.outbox.iter().enumerate().filter(|(_, f)| !f.stale).map(|(i, _)| i).collect();
                if peer.dead.is_some() || live.is_empty() {
                    return None;
                }
                let k = live[k % live.len()];
                let (id, wire) = (e.outbox[k].id, e.outbox[k].wire.clone());
                e.outbox[k].delivered = true;
                let is_stream = matches!(wire, Wire::Stream(..));
                if name == "deliver" && !is_stream {
                    e.outbox.remove(k); // control frames are delivered once (their reliability is not under test)
                }
                let (res, fresh) = match &wire {
                    Wire::Stream(f, data) => {
                        let fty = f.frame_type();
                        match peer.streams.recv_frame((*f, data.clone())) {
                            Ok(fresh) => match peer.flow.on_new_rcvd(fty, fresh) {
                                Ok(_) => ("ok".to_string(), fresh as u64),
                                Err(er) => (format!("err:{}", kind_of(&er)), fresh as u64),
                            },
                            Err(er) => (format!("err:{}", kind_of(&er)), 0),
                        }
                    }
                    Wire::Ctl(c) => {
                        let fty = c.frame_type();
                        match peer.streams.recv_frame(c.clone()) {
                            Ok(fresh) => match peer.flow.on_new_rcvd(fty, fresh) {
                                Ok(_) => ("ok".to_string(), fresh as u64),
                                Err(er) => (format!("err:{}", kind_of(&er)), fresh as u64),
                            },
                            Err(er) => (format!("err:{}", kind_of(&er)), 0),
                        }
                    }
                    Wire::MaxData(m) => match peer.flow.sender.recv_frame(*m) {
                        Ok(()) => ("ok".to_string(), 0),
                        Err(er) => (format!("err:{}", kind_of(&er)), 0),
                    },
                };
                if res.starts_with("err") {
                    peer.dead = Some(res.clone());
                }
                let mut fj = frame_json(&wire);
                fj["id"] = json!(id);
                json!({"ev": "deliver", "from": side, "frame": fj, "res": res, "fresh": fresh})
            }
            "inject" => {
                // a frame the peer's code never produced: crafted by a hostile / buggy `side`
                if !self.hs_done {
                    return None;
                }
                let spec = &a[2];
                let sid = sid_from(spec["sid"].as_u64().unwrap());
                let vi = |k: &str| VarInt::from_u64(spec[k].as_u64().unwrap()).unwrap();
                let wire = match spec["t"].as_str().unwrap() {
                    "stream" => {
                        let (off, len) = (spec["off"].as_u64().unwrap(), spec["len"].as_u64().unwrap());
                        let mut f = StreamFrame::new(sid, off, len as usize);
                        f.set_eos_flag(spec["fin"].as_bool().unwrap());
                        let s = sid_json(sid);
                        Wire::Stream(f, Bytes::from((off..off + len).map(|i| sbyte(s, i)).collect::<Vec<u8>>()))
                    }
                    "reset" => Wire::Ctl(StreamCtlFrame::ResetStream(ResetStreamFrame::new(sid, VarInt::from_u32(5), vi("final")))),
                    "stop" => Wire::Ctl(StreamCtlFrame::StopSending(StopSendingFrame::new(sid, VarInt::from_u32(6)))),
                    "max_stream_data" => Wire::Ctl(StreamCtlFrame::MaxStreamData(MaxStreamDataFrame::new(sid, vi("v")))),
                    o => panic!("unknown inject {o}"),
                };
                let id = self.next_id;
                self.next_id += 1;
                let (e, _) = self.ends(&side);
                e.outbox.insert(0, InFlight { id, wire, delivered: false, stale: false });
                let ev = self.step(&json!(["deliver", side, 0]));
                self.ends(&side).0.outbox.retain(|f| f.id != id);
                let mut ev = ev?;
                ev["inj"] = json!(true);
                return Some(ev);
            }
            "lose" | "ack" => {
                if !self.hs_done {
                    return None;
                }
                let k = a[2].as_u64().unwrap() as usize;
                let (e, _) = self.ends(&side);
                let idx: Vec<usize> = e.outbox.iter().enumerate()
                    .filter(|(_, f)| matches!(f.wire, Wire::Stream(..)) && (name == "lose" || f.delivered)).map(|(i, _)| i).collect();
                if idx.is_empty() {
                    return None;
                }
                let i = idx[k % idx.len()];
                let inf = e.outbox.remove(i);
                let Wire::Stream(f, _) = &inf.wire else { unreachable!() };
                if name == "lose" {
                    e.streams.may_loss_data(f);
                } else {
                    e.streams.on_data_acked(*f);
                }
                let mut fj = frame_json(&inf.wire);
                fj["id"] = json!(inf.id);
                if name == "lose" {
                    e.limbo.push(inf);
                }
                json!({"ev": name, "side": side, "frame": fj})
            }
            "latedeliver" | "lateack" => {
                // a frame that was declared lost arrives after all / is acknowledged after all (spurious loss)
                if !self.hs_done {
                    return None;
                }
                let k = a[2].as_u64().unwrap() as usize;
                let (e, peer) = self.ends(&side);
                let idx: Vec<usize> = e.limbo.iter().enumerate()
                    .filter(|(_, f)| !f.stale && (name == "latedeliver" || f.delivered)).map(|(i, _)| i).collect();
                if idx.is_empty() || (name == "latedeliver" && peer.dead.is_some()) {
                    return None;
                }
                let i = idx[k % idx.len()];
                if name == "lateack" {
                    let inf = e.limbo.remove(i);
                    let Wire::Stream(f, _) = &inf.wire else { unreachable!() };
                    e.streams.on_data_acked(*f);
                    let mut fj = frame_json(&inf.wire);
                    fj["id"] = json!(inf.id);
                    json!({"ev": "ack", "side": side, "frame": fj, "late": true})
                } else {
                    e.limbo[i].delivered = true;
                    let (id, wire) = (e.limbo[i].id, e.limbo[i].wire.clone());
                    let Wire::Stream(f, data) = &wire else { unreachable!() };
                    let fty = f.frame_type();
                    let (res, fresh) = match peer.streams.recv_frame((*f, data.clone())) {
                        Ok(fresh) => match peer.flow.on_new_rcvd(fty, fresh) {
                            Ok(_) => ("ok".to_string(), fresh as u64),
                            Err(er) => (format!("err:{}", kind_of(&er)), fresh as u64),
                        },
                        Err(er) => (format!("err:{}", kind_of(&er)), 0),
                    };
                    if res.starts_with("err") {
                        peer.dead = Some(res.clone());
                    }
                    let mut fj = frame_json(&wire);
                    fj["id"] = json!(id);
                    json!({"ev": "deliver", "from": side, "frame": fj, "res": res, "fresh": fresh, "late": true})
                }
            }
            o => panic!("unknown op {o}"),
        };
        Some(ev)
    }

    /// every parked write whose waker fired is polled again (what the application task would do); returns the events
    fn retry_parked(&mut self) -> Vec<Value> {
        let mut evs = vec![];
        for side in ["cli", "srv"] {
            let woken: Vec<(u64, u64)> = self.ends(side).0.parked.iter()
                .filter(|(_, (_, f))| f.0.load(std::sync::atomic::Ordering::SeqCst)).map(|(sid, (n, _))| (*sid, *n)).collect();
            for (sid, n) in woken {
                self.ends(side).0.parked.remove(&sid);
                if let Some(mut ev) = self.step(&json!(["write", side, sid, n])) {
                    ev["retry"] = json!(true);
                    evs.push(ev);
                }
            }
        }
        evs
    }

    /// fair finish: no more loss; deliver, acknowledge, read and re-pack until nothing moves
    fn step_c(&mut self, op: &Value, out: &mut Out) -> Option<Value> {
        let ev = self.step(op);
        for side in ["cli", "srv"] {
            let frames = self.collect(side);
            if !frames.is_empty() {
                // emitted after the event that caused them (the caller emits `ev` first when it wants it)
                self.pending_ctl.push(json!({"ev": "ctl", "side": side, "frames": frames}));
            }
        }
        let _ = out;
        ev
    }
    fn flush_ctl(&mut self, out: &mut Out) {
        for c in std::mem::take(&mut self.pending_ctl) {
            out.emit(&c);
        }
    }

    fn settle(&mut self, out: &mut Out) -> bool {
        let rejected = self.rejected_cfg;
        if let Some(ev) = self.step_c(&json!(["hs", "both", rejected]), out) {
            out.emit(&ev);
        }
        self.flush_ctl(out);
        // loss detection eventually reports every frame of the rejected 0-RTT packets
        while let Some(pos) = self.cli.outbox.iter().position(|f| f.stale) {
            let inf = self.cli.outbox.remove(pos);
            if let Wire::Stream(f, _) = &inf.wire {
                self.cli.streams.may_loss_data(f);
                let mut fj = frame_json(&inf.wire);
                fj["id"] = json!(inf.id);
                out.emit(&json!({"ev": "lose", "side": "cli", "frame": fj, "stale": true}));
            }
        }
        for _round in 0..400 {
            let mut progress = false;
            for rev in self.retry_parked() {
                if rev["res"] == "ok" {
                    progress = true;
                }
                out.emit(&rev);
                for side in ["cli", "srv"] {
                    let frames = self.collect(side);
                    if !frames.is_empty() {
                        out.emit(&json!({"ev": "ctl", "side": side, "frames": frames}));
                    }
                }
            }
            for side in ["cli", "srv"] {
                if let Some(ev) = self.step_c(&json!(["pack", side, 1200]), out) {
                    let moved = ev["frames"].as_array().map(|f| !f.is_empty()).unwrap_or(false);
                    if moved {
                        progress = true;
                        out.emit(&ev);
                    }
                }
                if !self.pending_ctl.is_empty() {
                    progress = true;
                }
                self.flush_ctl(out);
                loop {
                    let reverse = self.reverse_finish;
                    let (e, peer) = self.ends(side);
                    if e.outbox.iter().all(|f| f.stale) || peer.dead.is_some() {
                        break;
                    }
                    // the finish is fair, not orderly: in half of the runs the NEWEST frame in flight is delivered first
                    // (a FIN overtaking a hole, data behind a gap) and the reader is polled after every delivery
                    let live: Vec<usize> = e.outbox.iter().enumerate().filter(|(_, f)| !f.stale).map(|(i, _)| i).collect();
                    let pick = if reverse { live.len() - 1 } else { 0 };
                    let is_stream = matches!(e.outbox[live[pick]].wire, Wire::Stream(..));
                    let id = e.outbox[live[pick]].id;
                    if let Some(ev) = self.step_c(&json!(["deliver", side, pick]), out) {
                        out.emit(&ev);
                        progress = true;
                    }
                    self.flush_ctl(out);
                    if is_stream {
                        // acknowledge exactly the frame that was just delivered
                        let (e, _) = self.ends(side);
                        let k = e.outbox.iter().filter(|f| matches!(f.wire, Wire::Stream(..)) && f.delivered).position(|f| f.id == id);
                        if let Some(k) = k {
                            if let Some(ev) = self.step_c(&json!(["ack", side, k]), out) {
                                out.emit(&ev);
                            }
                        }
                        self.flush_ctl(out);
                    }
                    if self.reverse_finish {
                        let peer = if side == "cli" { "srv" } else { "cli" };
                        for dir in ["bi", "uni"] {
                            loop {
                                let ev = self.step_c(&json!(["accept", peer, dir]), out).unwrap();
                                self.flush_ctl(out);
                                if ev["res"] != "ok" {
                                    break;
                                }
                                out.emit(&ev);
                            }
                        }
                        let sids: Vec<u64> = self.ends(peer).0.readers.keys().copied().collect();
                        for sid in sids {
                            if let Some(ev) = self.step_c(&json!(["read", peer, sid, 64]), out) {
                                out.emit(&ev);
                            }
                            self.flush_ctl(out);
                        }
                    }
                }
                // accept and read everything
                for dir in ["bi", "uni"] {
                    loop {
                        let ev = self.step_c(&json!(["accept", side, dir]), out).unwrap();
                        self.flush_ctl(out);
                        if ev["res"] != "ok" {
                            break;
                        }
                        out.emit(&ev);
                        progress = true;
                    }
                }
                let sids: Vec<u64> = self.ends(side).0.readers.keys().copied().collect();
                for sid in sids {
                    loop {
                        let Some(ev) = self.step_c(&json!(["read", side, sid, 64]), out) else { break };
                        let n = ev["n"].as_u64().unwrap();
                        if ev["res"] == "ok" {
                            out.emit(&ev);
                        }
                        self.flush_ctl(out);
                        if n == 0 {
                            break;
                        }
                        progress = true;
                    }
                }
            }
            if !progress {
                return true;
            }
        }
        false
    }

    fn finals(&mut self, out: &mut Out, quiescent: bool) {
        let mut cx = Context::from_waker(noop_waker_ref());
        for side in ["cli", "srv"] {
            let (e, peer) = self.ends(side);
            for (sid, w) in e.writers.iter_mut() {
                let flush = matches!(w.poll_flush(&mut cx), Poll::Ready(Ok(())));
                let written = *e.written.get(sid).unwrap_or(&0);
                let peer_read = *peer.nread.get(sid).unwrap_or(&0);
                let parked = e.parked.get(sid).map(|(n, _)| *n).unwrap_or(0);
                out.emit(&json!({"ev": "final", "side": side, "sid": sid, "written": written, "peer_read": peer_read,
                                 "flushed": flush, "parked": parked, "peer_has_reader": peer.readers.contains_key(sid),
                                 "quiescent": quiescent, "dead": e.dead.is_some() || peer.dead.is_some()}));
            }
        }
    }
}

/// A loss report for a frame of the rejected 0-RTT flight hits a send buffer that forgot its state
/// (debug assertion in BufMap::may_loss): classified so that the trace spec can name the deviation.
fn panic_class(msg: &str, after_rejection: bool) -> &'static str {
    if after_rejection && msg.starts_with("Lost Range") { "stale_loss" } else { "other" }
}

fn run_one(hdr: &Value, ops: &[Value], out: &mut Out) {
    let mut hdr = hdr.clone();
    if hdr.get("rem").is_none() {
        hdr["rem"] = json!({});
    }
    let hdr = &hdr;
    // the schedule travels with the run (as text: the trace spec ignores it) so that a rejected run can be re-executed
    out.emit(&json!({"ev": "reset", "cfg": hdr, "ops": serde_json::to_string(ops).unwrap()}));
    let mut w = match guarded(|| make_world(hdr)) {
        Ok(w) => w,
        Err(msg) => {
            out.emit(&json!({"ev": "panic", "op": "setup", "msg": msg, "class": "other"}));
            return;
        }
    };
    w.reverse_finish = ops.len() % 2 == 1;
    for op in ops {
        // frames an endpoint queues (MAX_DATA, MAX_STREAM_DATA, MAX_STREAMS, RESET_STREAM ...) take effect for its own
        // enforcement at once: observe them right after the call that produced them
        match guarded(|| {
            let ev = w.step(op);
            let mut ctl = vec![];
            for side in ["cli", "srv"] {
                let frames = w.collect(side);
                if !frames.is_empty() {
                    ctl.push(json!({"ev": "ctl", "side": side, "frames": frames}));
                }
            }
            // woken writers try again right away
            for rev in w.retry_parked() {
                ctl.push(rev);
                for side in ["cli", "srv"] {
                    let frames = w.collect(side);
                    if !frames.is_empty() {
                        ctl.push(json!({"ev": "ctl", "side": side, "frames": frames}));
                    }
                }
            }
            (ev, ctl)
        }) {
            Ok((ev, ctl)) => {
                if let Some(ev) = ev {
                    out.emit(&ev);
                }
                for c in ctl {
                    out.emit(&c);
                }
            }
            Err(msg) if msg == "\u{0}" => {}
            Err(msg) => {
                out.emit(&json!({"ev": "panic", "op": op, "msg": msg, "class": panic_class(&msg, w.hs_done && w.rejected_cfg)}));
                // locks inside the world are poisoned now; dropping it would panic again inside destructors
                std::mem::forget(w);
                return;
            }
        }
    }
    if hdr["settle"].as_bool().unwrap_or(true) {
        let r = guarded(|| {
            let q = w.settle(out);
            w.finals(out, q);
        });
        if let Err(msg) = r {
            out.emit(&json!({"ev": "panic", "op": "settle", "msg": msg, "class": panic_class(&msg, w.rejected_cfg)}));
            std::mem::forget(w);
        }
    }
}

/// vh streams-replay <behaviours.ndjson> <trace-out.ndjson>
/// each behaviour: [cfg, op, op, ...]
pub fn replay(args: &[String]) -> i32 {
    quiet_panics();
    let mut out = Out::create(&args[1]);
    let mut n = 0u64;
    for line in read_lines(&args[0]) {
        let v: Vec<Value> = serde_json::from_str(&line).expect("behaviour json");
        run_one(&v[0], &v[1..], &mut out);
        n += 1;
    }
    out.finish();
    println!("{{\"behaviours\": {n}}}");
    0
}

/// vh streams-random <seed> <runs> <depth> <behaviours-out.ndjson>
pub fn random(args: &[String]) -> i32 {
    let seed: u64 = args[0].parse().unwrap();
    let runs: u64 = args[1].parse().unwrap();
    let depth: u64 = args[2].parse().unwrap();
    let mut out = Out::create(&args[3]);
    let mut rng = Rng(seed);
    let sides_all = ["cli", "srv"];
    for run in 0..runs {
        let small = |rng: &mut Rng| match rng.below(6) { 0 => 0, 1 => rng.range(1, 8), 2 => rng.range(8, 40), 3 => rng.range(40, 200), _ => rng.range(200, 3000) };
        let side_cfg = |rng: &mut Rng| json!({
            "max_data": small(rng) + small(rng), "bidi_local": small(rng), "bidi_remote": small(rng), "uni": small(rng),
            "streams_bidi": rng.below(4), "streams_uni": rng.below(4)});
        let zero_rtt = run % 5 == 4;
        let srv_cfg = side_cfg(&mut rng);
        let rejected = zero_rtt && rng.chance(1, 2);
        // remembered parameters: anything when 0-RTT will be rejected, no larger than the new ones when accepted
        let rem = if !zero_rtt { json!({}) } else if rejected { side_cfg(&mut rng) } else {
            let mut r = srv_cfg.clone();
            for k in ["max_data", "bidi_local", "bidi_remote", "uni", "streams_bidi", "streams_uni"] {
                let v = r[k].as_u64().unwrap();
                r[k] = json!(rng.range(0, v));
            }
            r
        };
        let cfg = json!({"cli": side_cfg(&mut rng), "srv": srv_cfg, "rem": rem, "settle": true, "rejected": rejected});
        let mut ops = vec![cfg];
        let hs_at = if zero_rtt { rng.range(3, depth / 2) } else { 0 };
        let hostile = run % 3 == 2;
        if !zero_rtt {
            ops.push(json!(["hs", "both", false]));
            for side in sides_all {
                for _ in 0..rng.range(1, 3) {
                    ops.push(json!(["open", side, "bi"]));
                    ops.push(json!(["open", side, "uni"]));
                }
            }
        }
        // stream ids that may exist: index 0..3 of each kind
        let sides = ["cli", "srv"];
        for step in 0..depth {
            if zero_rtt && step == hs_at {
                ops.push(json!(["hs", "both", rejected]));
            }
            if hostile && step >= 6 && rng.chance(1, 3) || rng.chance(1, 25) {
                let side = sides[rng.below(2) as usize];
                let sid = rng.below(6) * 4 + rng.below(4);
                let n = |rng: &mut Rng| match rng.below(5) { 0 => 0, 1 => rng.range(1, 12), 2 => rng.range(12, 220), 3 => rng.range(150, 3100), _ => rng.range(1, 40) };
                let spec = match rng.below(10) {
                    0..=5 => json!({"t": "stream", "sid": sid, "off": n(&mut rng), "len": n(&mut rng), "fin": rng.chance(1, 3)}),
                    6 | 7 => json!({"t": "reset", "sid": sid, "final": n(&mut rng)}),
                    8 => json!({"t": "stop", "sid": sid}),
                    _ => json!({"t": "max_stream_data", "sid": sid, "v": n(&mut rng)}),
                };
                ops.push(json!(["inject", side, spec]));
                continue;
            }
            let side = if step < hs_at { "cli" } else { sides[rng.below(2) as usize] };
            let mine = if side == "cli" { [0u64, 2] } else { [1u64, 3] };
            let theirs = if side == "cli" { [1u64, 3] } else { [0u64, 2] };
            let idx = rng.below(3);
            let c = rng.below(100);
            let op = if c < 8 {
                json!(["open", side, if rng.chance(1, 2) { "bi" } else { "uni" }])
            } else if c < 14 {
                json!(["accept", side, if rng.chance(1, 2) { "bi" } else { "uni" }])
            } else if c < 30 {
                // write on a stream this side can send on: own (bi/uni) or peer's bidi
                let ty = match rng.below(3) { 0 => mine[0], 1 => mine[1], _ => theirs[0] };
                let n = match rng.below(3) { 0 => rng.range(1, 6), 1 => rng.range(6, 60), _ => rng.range(60, 700) };
                json!(["write", side, idx * 4 + ty, n])
            } else if c < 36 {
                let ty = match rng.below(3) { 0 => mine[0], 1 => mine[1], _ => theirs[0] };
                json!(["shutdown", side, idx * 4 + ty])
            } else if c < 38 {
                let ty = match rng.below(3) { 0 => mine[0], 1 => mine[1], _ => theirs[0] };
                json!(["cancel", side, idx * 4 + ty, 7])
            } else if c < 40 {
                let ty = match rng.below(3) { 0 => theirs[0], 1 => theirs[1], _ => mine[0] };
                json!(["stop", side, idx * 4 + ty, 9])
            } else if c < 52 {
                let ty = match rng.below(3) { 0 => theirs[0], 1 => theirs[1], _ => mine[0] };
                json!(["read", side, idx * 4 + ty, rng.range(1, 300)])
            } else if c < 68 {
                let cap = match rng.below(4) { 0 => rng.range(1, 30), 1 => rng.range(30, 120), _ => rng.range(120, 1300) };
                json!(["pack", side, cap])
            } else if c < 74 {
                json!(["ctl", side])
            } else if c < 86 {
                json!(["deliver", side, rng.below(8)])
            } else if c < 89 {
                json!(["dup", side, rng.below(8)])
            } else if c < 95 {
                json!(["lose", side, rng.below(8)])
            } else {
                json!(["ack", side, rng.below(8)])
            };
            ops.push(op);
        }
        out.emit(&Value::Array(ops));
    }
    out.finish();
    0
}

#[allow(dead_code)]
fn unused(_: ResetStreamFrame, _: StopSendingFrame, _: MaxStreamDataFrame) {}
