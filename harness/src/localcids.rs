//! C14 (local side): replay of Gen_LocalCids behaviours into real `ArcLocalCids` instances that share
//! one real `QuicRouter` (through `QuicRouterRegistry` / `QuicRouterEntry`), recording one NDJSON
//! event per call, with a complete routing snapshot, for Trace_LocalCids.
use std::{
    collections::BTreeMap,
    sync::{Arc, Mutex},
};

use qbase::{
    cid::{ArcLocalCids, ConnectionId},
    frame::{NewConnectionIdFrame, RetireConnectionIdFrame, io::{ReceiveFrame, SendFrame}},
    varint::VarInt,
};
use qinterface::component::route::{QuicRouter, QuicRouterEntry, QuicRouterRegistry, RcvdPacketQueue, Signpost};
use serde_json::{Value, json};

use crate::util::{Out, guarded, quiet_panics, read_lines};

#[derive(Clone, Default)]
struct Issued(Arc<Mutex<Vec<NewConnectionIdFrame>>>);
impl SendFrame<NewConnectionIdFrame> for Issued {
    fn send_frame<I: IntoIterator<Item = NewConnectionIdFrame>>(&self, iter: I) {
        self.0.lock().unwrap().extend(iter);
    }
}

struct Conn {
    queue: Arc<RcvdPacketQueue>,
    issued: Issued,
    local: Option<ArcLocalCids<QuicRouterRegistry<Issued>>>,
    entries: Vec<(String, QuicRouterEntry)>,
    /// every id this connection ever had: number -> id
    cids: BTreeMap<u64, ConnectionId>,
}

struct World {
    router: Arc<QuicRouter>,
    conns: BTreeMap<String, Conn>,
    shared: BTreeMap<String, ConnectionId>,
}

impl World {
    fn new() -> Self {
        let mut shared = BTreeMap::new();
        shared.insert("x".to_string(), ConnectionId::from_slice(&[0x11, 0x22, 0x33, 0x44, 0x55, 0x66, 0x77, 0x08]));
        World { router: Arc::new(QuicRouter::new()), conns: BTreeMap::new(), shared }
    }

    fn who(&self, cid: &ConnectionId) -> String {
        match self.router.verif_route(&Signpost::from(*cid)) {
            None => "none".into(),
            Some(p) => self
                .conns
                .iter()
                .find(|(_, c)| Arc::as_ptr(&c.queue) as usize == p)
                .map(|(n, _)| n.clone())
                .unwrap_or_else(|| "unknown".into()),
        }
    }

    fn routes(&self) -> Value {
        let mut v = vec![];
        for (name, c) in &self.conns {
            for (seq, cid) in &c.cids {
                v.push(json!([name, seq, self.who(cid)]));
            }
        }
        for (s, cid) in &self.shared {
            v.push(json!([s, 0, self.who(cid)]));
        }
        Value::Array(v)
    }

    /// frames emitted since the last call, as [seq, retire_prior_to]; remembers the ids
    fn take_frames(&mut self, c: &str) -> Value {
        let conn = self.conns.get_mut(c).unwrap();
        let frames: Vec<NewConnectionIdFrame> = std::mem::take(&mut *conn.issued.0.lock().unwrap());
        let mut out = vec![];
        for f in frames {
            conn.cids.insert(f.sequence(), *f.connection_id());
            out.push(json!([f.sequence(), f.retire_prior_to()]));
        }
        Value::Array(out)
    }

    fn step(&mut self, op: &Value) -> Value {
        let a = op.as_array().unwrap();
        let name = a[0].as_str().unwrap();
        let c = a[1].as_str().unwrap().to_string();
        match name {
            "create" => {
                let queue = Arc::new(RcvdPacketQueue::new());
                let issued = Issued::default();
                let scid = loop {
                    let cid = ConnectionId::random_gen_with_mark(8, 0x80, 0x7F);
                    if self.router.verif_route(&Signpost::from(cid)).is_none() {
                        break cid;
                    }
                };
                let entry = self.router.insert(Signpost::from(scid), queue.clone());
                let registry = self.router.registry_on_issuing_scid(queue.clone(), issued.clone());
                let local = ArcLocalCids::new(scid, registry);
                let mut cids = BTreeMap::new();
                cids.insert(0, scid);
                self.conns.insert(c.clone(), Conn { queue, issued, local: Some(local), entries: vec![("scid".into(), entry)], cids });
                let frames = self.take_frames(&c);
                json!({"ev": "create", "c": c, "ok": true, "frames": frames, "routes": self.routes()})
            }
            "setlimit" => {
                let l = a[2].as_u64().unwrap();
                let r = self.conns[&c].local.as_ref().unwrap().set_limit(l);
                let frames = self.take_frames(&c);
                json!({"ev": "setlimit", "c": c, "L": l, "ok": r.is_ok(), "kind": err_kind(&r), "frames": frames, "routes": self.routes()})
            }
            "retire" => {
                let seq = a[2].as_u64().unwrap();
                let r = self.conns[&c].local.as_ref().unwrap().recv_frame(RetireConnectionIdFrame::new(VarInt::from_u64(seq).unwrap()));
                let frames = self.take_frames(&c);
                json!({"ev": "retire", "c": c, "seq": seq, "ok": r.is_ok(), "kind": err_kind(&r), "frames": frames, "routes": self.routes()})
            }
            "drop" => {
                let conn = self.conns.get_mut(&c).unwrap();
                conn.local = None; // last reference: LocalCids::drop -> clear
                conn.entries.clear();
                let frames = self.take_frames(&c);
                json!({"ev": "drop", "c": c, "ok": true, "frames": frames, "routes": self.routes()})
            }
            "claim" => {
                let s = a[2].as_str().unwrap().to_string();
                let cid = self.shared[&s];
                let q = self.conns[&c].queue.clone();
                let entry = self.router.insert(Signpost::from(cid), q);
                self.conns.get_mut(&c).unwrap().entries.push((s.clone(), entry));
                json!({"ev": "claim", "c": c, "s": s, "ok": true, "frames": [], "routes": self.routes()})
            }
            "unclaim" => {
                let s = a[2].as_str().unwrap().to_string();
                self.conns.get_mut(&c).unwrap().entries.retain(|(n, _)| *n != s);
                json!({"ev": "unclaim", "c": c, "s": s, "ok": true, "frames": [], "routes": self.routes()})
            }
            o => panic!("unknown op {o}"),
        }
    }
}

fn err_kind<T>(r: &Result<T, qbase::error::Error>) -> String {
    match r {
        Ok(_) => String::new(),
        Err(qbase::error::Error::Quic(e)) => format!("{:?}", e.kind()),
        Err(e) => format!("{e:?}"),
    }
}

/// vh localcids-replay <behaviours.ndjson> <trace-out.ndjson>
pub fn replay(args: &[String]) -> i32 {
    quiet_panics();
    let mut out = Out::create(&args[1]);
    let mut n = 0u64;
    for line in read_lines(&args[0]) {
        let ops: Vec<Value> = serde_json::from_str(&line).expect("behaviour json");
        out.emit(&json!({"ev": "reset"}));
        let mut w = World::new();
        for op in &ops {
            match guarded(|| w.step(op)) {
                Ok(ev) => out.emit(&ev),
                Err(msg) => {
                    out.emit(&json!({"ev": "panic", "op": op, "msg": msg}));
                    break;
                }
            }
        }
        n += 1;
    }
    out.finish();
    println!("{{\"behaviours\": {n}}}");
    0
}
