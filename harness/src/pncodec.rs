//! C07 (decoding clause): the real `PacketNumber::encode` / `decode` on boundary and random triples.
//! "pn" events (all values < 2^30, widths 16/24) are judged by TLC against PnCodec.tla at the real
//! widths; "pnbig" events (bases up to 2^62, widths up to 32 bits) carry decoded == pn.
use qbase::packet::{PacketNumber, number::{WritePacketNumber, take_pn_len}};
use serde_json::json;

use crate::util::{Out, Rng, guarded, quiet_panics};

/// the number as it travels: written to the wire and parsed back (the receive path never sees the
/// sender's in-memory value)
fn over_the_wire(p: PacketNumber) -> PacketNumber {
    let mut buf = Vec::new();
    buf.put_packet_number(p);
    let (rest, parsed) = take_pn_len(buf.len() as u8)(&buf).expect("packet number parses");
    assert!(rest.is_empty());
    parsed
}

fn parts(p: PacketNumber) -> (u64, u64) {
    match p {
        PacketNumber::U8(x) => (1, x as u64),
        PacketNumber::U16(x) => (2, x as u64),
        PacketNumber::U24(x) => (3, x as u64),
        PacketNumber::U32(x) => (4, x as u64),
    }
}

fn small(out: &mut Out, pn: u64, acked: u64, expected: u64) {
    let r = guarded(|| {
        let enc = over_the_wire(PacketNumber::encode(pn, acked));
        let (bytes, tr) = parts(enc);
        (bytes, tr, enc.decode(expected))
    });
    match r {
        Ok((bytes, tr, dec)) => out.emit(&json!({"ev": "pn", "pn": pn, "acked": acked, "expected": expected,
                                                  "bytes": bytes, "tr": tr, "dec": dec})),
        Err(msg) => out.emit(&json!({"ev": "panic", "op": ["pn", pn, acked, expected], "msg": msg})),
    }
}

fn big(out: &mut Out, pn: u64, acked: u64, expected: u64) {
    let r = guarded(|| over_the_wire(PacketNumber::encode(pn, acked)).decode(expected));
    match r {
        Ok(dec) => out.emit(&json!({"ev": "pnbig", "pn": pn.to_string(), "acked": acked.to_string(),
                                     "expected": expected.to_string(), "dec": dec.to_string(), "ok": dec == pn})),
        Err(msg) => out.emit(&json!({"ev": "panic", "op": ["pnbig", pn.to_string(), acked.to_string(), expected.to_string()], "msg": msg})),
    }
}

/// vh pncodec <seed> <random-count> <trace-out.ndjson>
pub fn run(args: &[String]) -> i32 {
    quiet_panics();
    let seed: u64 = args[0].parse().unwrap();
    let nrand: u64 = args[1].parse().unwrap();
    let mut out = Out::create(&args[2]);
    let mut rng = Rng(seed);
    out.emit(&json!({"ev": "reset"}));
    // --- small numbers, judged step by step by TLC
    let diffs: [u64; 14] = [0, 1, 2, 127, 128, 255, 256, 32766, 32767, 32768, 32769, 65535, 8388606, 8388607];
    let bases: [u64; 9] = [0, 1, 255, 256, 65535, 65536, 16777215, 16777216, 500_000_000];
    for &acked in &bases {
        for &d in &diffs {
            let pn = acked + d;
            let mut exps = vec![acked, acked + 1, acked + 2, acked + d / 2, pn.saturating_sub(1), pn, pn + 1, pn + 70000];
            exps.dedup();
            for ex in exps {
                small(&mut out, pn, acked, ex);
            }
        }
    }
    for _ in 0..nrand {
        let acked = rng.below(1 << 29);
        let d = match rng.below(3) { 0 => rng.below(70000), 1 => rng.below(1 << 23), _ => rng.below(600) };
        let pn = acked + d;
        let ex = if rng.chance(4, 5) { acked + 1 + rng.below(d.max(1)) } else { rng.below(pn + 100000) };
        small(&mut out, pn, acked, ex.min(pn + 100000));
    }
    // --- the full 62-bit range: legal triples must reconstruct pn
    let big_diffs: [u64; 16] = [0, 1, 32767, 32768, 32769, 8388607, 8388608, 8388609, (1 << 30) - 1, 1 << 30,
                                (1 << 31) - 2, (1 << 31) - 1, 65535, 65536, 100, 1 << 24];
    for k in [0u64, 1, 2, 3, 255, 65535, 1 << 20, (1 << 29) - 1, (1 << 30) - 1] {
        for lowbits in [0u64, 1, 0x7fff_ffff, 0x8000_0000, 0xffff_fffe, 0xffff_ffff] {
            let base = (k << 32) | lowbits;
            for &d in &big_diffs {
                let acked = base;
                let Some(pn) = acked.checked_add(d) else { continue };
                if pn >= (1 << 62) { continue; }
                for ex in [acked + 1, acked + d / 2 + 1, pn] {
                    if ex > acked && ex <= pn || (acked == 0 && ex <= pn) {
                        big(&mut out, pn, acked, ex);
                    }
                }
                if acked == 0 { big(&mut out, pn, 0, 0); }
            }
        }
    }
    for _ in 0..nrand {
        let acked = rng.next() >> 2 >> rng.below(40);
        let d = rng.below(1 << 31);
        let Some(pn) = acked.checked_add(d) else { continue };
        if pn >= (1 << 62) || d == 0 { continue; }
        big(&mut out, pn, acked, acked + 1 + rng.below(d));
    }
    out.finish();
    0
}
