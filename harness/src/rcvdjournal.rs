//! C10 (receive side): replay of Gen_RcvdJournal behaviours into the real `ArcRcvdJournal`,
//! recording one NDJSON event per call for Trace_RcvdJournal.
use std::time::Duration;

use qbase::{
    frame::{AckFrame, EncodeSize, io::WriteFrame},
    packet::PacketNumber,
    varint::VarInt,
};
use qrecovery::journal::ArcRcvdJournal;
use serde_json::{Value, json};

use crate::util::{Out, Rng, guarded, paused_rt, quiet_panics, read_lines};

pub const TICK_MS: u64 = 10;

/// Build an ACK frame acknowledging exactly the given packet numbers.
pub fn ack_frame_of(pns: &[u64]) -> AckFrame {
    let mut v: Vec<u64> = pns.to_vec();
    v.sort_unstable();
    v.dedup();
    v.reverse();
    // descending; split into ranges (hi, lo)
    let mut ranges: Vec<(u64, u64)> = vec![];
    for p in v {
        match ranges.last_mut() {
            Some((_, lo)) if *lo == p + 1 => *lo = p,
            _ => ranges.push((p, p)),
        }
    }
    let (hi0, lo0) = ranges[0];
    let mut rest = vec![];
    let mut prev_lo = lo0;
    for &(hi, lo) in &ranges[1..] {
        rest.push((VarInt::from_u64(prev_lo - hi - 2).unwrap(), VarInt::from_u64(hi - lo).unwrap()));
        prev_lo = lo;
    }
    AckFrame::new(VarInt::from_u64(hi0).unwrap(), VarInt::from_u32(0), VarInt::from_u64(hi0 - lo0).unwrap(), rest, None)
}

fn run_one(ops: &[Value], out: &mut Out) {
    out.emit(&json!({"ev": "reset"}));
    let rt = paused_rt();
    rt.block_on(async {
        let journal = ArcRcvdJournal::with_capacity(4, None);
        for op in ops {
            let a = op.as_array().unwrap();
            let name = a[0].as_str().unwrap().to_string();
            let arg = |i: usize| a[i].as_u64().unwrap();
            if name == "t" {
                tokio::time::advance(Duration::from_millis(arg(1) * TICK_MS)).await;
                out.emit(&json!({"ev": "tick", "d": arg(1)}));
                continue;
            }
            let r = guarded(|| -> Value {
                match name.as_str() {
                    "d" => {
                        let pn = arg(1);
                        let res = journal.decode_pn(PacketNumber::encode(pn, pn.saturating_sub(1)));
                        let o = match res {
                            Ok(v) if v == pn => "Ok".to_string(),
                            Ok(v) => format!("Ok-but-decoded-{v}"),
                            Err(e) => format!("{e:?}"),
                        };
                        json!({"ev": "decode", "pn": pn, "out": o})
                    }
                    "r" => {
                        journal.on_rcvd_pn(arg(1), arg(2) == 1, Duration::from_millis(TICK_MS));
                        json!({"ev": "rcvd", "pn": arg(1), "el": arg(2)})
                    }
                    "g" => {
                        let (k, l, cap) = (arg(1), arg(2), arg(3) as usize);
                        // precondition of the callers: `largest` is a received, still tracked number
                        if journal.decode_pn(PacketNumber::encode(l, l.saturating_sub(1)))
                            != Err(qbase::packet::InvalidPacketNumber::Duplicate)
                        {
                            return json!({"ev": "noop"});
                        }
                        match journal.gen_ack_frame_util(k, l, tokio::time::Instant::now(), cap) {
                            Ok(f) => {
                                let ranges: Vec<[u64; 2]> = f.iter().map(|r| [*r.end(), *r.start()]).collect();
                                let mut buf = Vec::new();
                                (&mut buf).put_frame(&f);
                                json!({"ev": "genack", "k": k, "L": l, "cap": cap, "delay": f.delay(), "ok": true,
                                       "ranges": ranges, "flargest": f.largest(), "size": f.encoding_size(),
                                       "written": buf.len()})
                            }
                            Err(_) => json!({"ev": "genack", "k": k, "L": l, "cap": cap, "delay": 0, "ok": false,
                                             "ranges": [], "flargest": 0, "size": 0, "written": 0}),
                        }
                    }
                    "a" => {
                        let pns: Vec<u64> = a[1].as_array().unwrap().iter().map(|x| x.as_u64().unwrap()).collect();
                        journal.on_rcvd_ack(&ack_frame_of(&pns));
                        json!({"ev": "onack", "acked": pns})
                    }
                    o => panic!("unknown op {o}"),
                }
            });
            match r {
                Ok(ev) if ev["ev"] == "noop" => {}
                Ok(ev) => out.emit(&ev),
                Err(msg) => {
                    out.emit(&json!({"ev": "panic", "op": op, "msg": msg}));
                    break;
                }
            }
        }
    });
}

/// vh rcvdjournal-replay <behaviours.ndjson> <trace-out.ndjson>
pub fn replay(args: &[String]) -> i32 {
    quiet_panics();
    let mut out = Out::create(&args[1]);
    let mut n = 0u64;
    for line in read_lines(&args[0]) {
        let ops: Vec<Value> = serde_json::from_str(&line).expect("behaviour json");
        run_one(&ops, &mut out);
        n += 1;
    }
    out.finish();
    println!("{{\"behaviours\": {n}}}");
    0
}

/// vh rcvdjournal-random <seed> <runs> <behaviours-out.ndjson>
/// Seeded random histories: arrival orders with gaps and duplicates, many ranges, capacity sweeps
/// around the exact sizes, peer acks of our ack-carrying packets, clock advances.
pub fn random(args: &[String]) -> i32 {
    let seed: u64 = args[0].parse().unwrap();
    let runs: u64 = args[1].parse().unwrap();
    let mut out = Out::create(&args[2]);
    let mut rng = Rng(seed);
    for run in 0..runs {
        let mut ops = vec![];
        let mut rcvd: Vec<u64> = vec![];
        let mut lowest_ok = 0u64; // conservative: never register below what may have been rotated
        let mut next_k = 0u64;
        if run % 8 == 1 {
            // range-count boundary: >= 64 additional ranges, capacities swept over the exact sizes
            let n = rng.range(66, 90);
            let stride = rng.range(2, 3);
            for i in 0..n {
                ops.push(json!(["d", i * stride]));
                ops.push(json!(["r", i * stride, rng.below(2)]));
            }
            let largest = (n - 1) * stride;
            let lo = rng.range(110, 128);
            for (k, cap) in (lo..lo + 34).enumerate() {
                ops.push(json!(["g", k, largest, cap]));
            }
            out.emit(&Value::Array(ops));
            continue;
        }
        let many = run % 4 == 0;
        let span = if many { rng.range(130, 260) } else { rng.range(6, 40) };
        let steps = if many { rng.range(100, 180) } else { rng.range(10, 50) };
        for _ in 0..steps {
            let c = rng.below(100);
            if c < 60 || rcvd.is_empty() {
                let pn = if many { 2 * rng.below(span / 2) + (rng.below(8) == 0) as u64 } else { rng.below(span) };
                ops.push(json!(["d", pn]));
                if !rcvd.contains(&pn) && pn >= lowest_ok {
                    ops.push(json!(["r", pn, rng.below(2)]));
                    rcvd.push(pn);
                }
            } else if c < 85 {
                let largest = if rng.chance(3, 4) { *rcvd.iter().max().unwrap() } else { rcvd[rng.below(rcvd.len() as u64) as usize] };
                let nr = rcvd.len() as u64;
                let cap = match rng.below(4) { 0 => rng.range(3, 12), 1 => rng.range(8, 2 * nr + 12), 2 => rng.range(2 * nr.min(70), 2 * nr + 16), _ => 1200 };
                ops.push(json!(["g", next_k, largest, cap]));
                next_k += 1;
            } else if c < 93 && next_k > 0 {
                let mut acked = vec![];
                for k in 0..next_k { if rng.chance(1, 2) { acked.push(k); } }
                if acked.is_empty() { acked.push(rng.below(next_k)); }
                ops.push(json!(["a", acked]));
                // records may now rotate away: stop registering anything at or below the highest received number
                lowest_ok = rcvd.iter().max().map(|m| m + 1).unwrap_or(0);
            } else {
                ops.push(json!(["t", rng.range(1, 4)]));
            }
        }
        out.emit(&Value::Array(ops));
    }
    out.finish();
    0
}
