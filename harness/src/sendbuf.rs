//! C09: replay of Gen_SendBuf behaviours into the real `qrecovery::send::SendBuf`,
//! recording one NDJSON event per call for Trace_SendBuf.
use bytes::Bytes;
use qrecovery::send::SendBuf;
use serde_json::{Value, json};

use crate::util::{Out, Rng, content, guarded, quiet_panics, read_lines};

struct Model {
    buf: SendBuf,
    picks: Vec<(u64, u64)>,
}

fn state(buf: &SendBuf) -> (Value, bool) {
    let (bounds, size, base) = buf.verif_colours();
    let mut cols: Vec<&'static str> = Vec::with_capacity(size as usize);
    let mut structural_ok = true;
    for (i, (off, c)) in bounds.iter().enumerate() {
        let end = bounds.get(i + 1).map(|b| b.0).unwrap_or(size);
        if end <= *off {
            // boundaries must strictly increase (the implementation's binary search relies on it)
            structural_ok = false;
        }
        if i == 0 && *off > 0 {
            // bytes before the first boundary are acknowledged and dropped
            for _ in 0..*off {
                cols.push("R");
            }
        }
        let name = match c {
            0 => "P",
            1 => "F",
            2 => "L",
            _ => "R",
        };
        for _ in *off..end.max(*off) {
            cols.push(name);
        }
    }
    if bounds.is_empty() {
        for _ in 0..size {
            cols.push("R");
        }
    }
    (
        json!({
            "written": buf.written(), "max": buf.max_data(), "sent": buf.sent(),
            "all": buf.is_all_rcvd(), "base": base, "cols": cols, "struct_ok": structural_ok,
        }),
        structural_ok,
    )
}

fn with_state(mut ev: Value, buf: &SendBuf) -> Value {
    let (st, _) = state(buf);
    for (k, v) in st.as_object().unwrap() {
        ev[k] = v.clone();
    }
    ev
}

impl Model {
    fn new(win: u64) -> Self {
        Model { buf: SendBuf::with_capacity(win), picks: vec![] }
    }

    /// Executes one abstract input, returns the event to log.
    fn step(&mut self, op: &Value) -> Value {
        let a = op.as_array().unwrap();
        let name = a[0].as_str().unwrap();
        let arg = |i: usize| a[i].as_u64().unwrap();
        match name {
            "w" => {
                let n = arg(1);
                let w = self.buf.written();
                self.buf.write(Bytes::from(content(w..w + n)));
                with_state(json!({"ev": "write", "n": n}), &self.buf)
            }
            "x" => {
                let m = arg(1);
                self.buf.extend(m);
                with_state(json!({"ev": "extend", "m": m}), &self.buf)
            }
            "p" => {
                let (limit, flow) = (arg(1) as usize, arg(2) as usize);
                let r = self
                    .buf
                    .pick_up(|_| if limit == 0 { None } else { Some(limit) }, flow);
                let ev = match r {
                    Ok((range, fresh, data)) => {
                        let got: Vec<u8> = data.iter().flat_map(|b| b.iter().copied()).collect();
                        let data_ok = got == content(range.clone());
                        self.picks.push((range.start, range.end));
                        json!({"ev": "pick", "limit": limit, "flow": flow, "ok": true,
                               "start": range.start, "end": range.end, "fresh": fresh, "data_ok": data_ok})
                    }
                    Err(sig) => {
                        json!({"ev": "pick", "limit": limit, "flow": flow, "ok": false,
                               "signals": format!("{sig:?}")})
                    }
                };
                with_state(ev, &self.buf)
            }
            "a" | "l" => {
                let k = arg(1) as usize;
                // k-th range the implementation itself returned (1-based); if the implementation
                // returned fewer ranges than the generator's model, the call is skipped and logged.
                let Some(&(s, e)) = self.picks.get(k - 1) else {
                    return with_state(json!({"ev": "skip", "k": k}), &self.buf);
                };
                if name == "a" {
                    self.buf.on_data_acked(&(s..e));
                    with_state(json!({"ev": "ack", "a": s, "b": e}), &self.buf)
                } else {
                    self.buf.may_loss_data(&(s..e));
                    with_state(json!({"ev": "loss", "a": s, "b": e}), &self.buf)
                }
            }
            "r" => {
                self.buf.resend_flighting();
                with_state(json!({"ev": "resend"}), &self.buf)
            }
            "f" => {
                self.buf.forget_sent_state();
                self.picks.clear();
                with_state(json!({"ev": "forget"}), &self.buf)
            }
            other => panic!("unknown op {other}"),
        }
    }
}

fn run_one(ops: &[Value], out: &mut Out) {
    let win = ops[0].as_array().unwrap()[1].as_u64().unwrap();
    out.emit(&json!({"ev": "reset", "max": win}));
    let mut m = Model::new(win);
    for op in &ops[1..] {
        match guarded(|| m.step(op)) {
            Ok(ev) => {
                let skip = ev["ev"] == "skip";
                out.emit(&ev);
                if skip {
                    break;
                }
            }
            Err(msg) => {
                out.emit(&json!({"ev": "panic", "op": op, "msg": msg}));
                break;
            }
        }
    }
}

/// vh sendbuf-replay <behaviours.ndjson> <trace-out.ndjson>
pub fn replay(args: &[String]) -> i32 {
    quiet_panics();
    let mut out = Out::create(&args[1]);
    let lenient = args.get(2).map(|s| s == "lenient").unwrap_or(false);
    let mut n = 0u64;
    for line in read_lines(&args[0]) {
        let ops: Vec<Value> = serde_json::from_str(&line).expect("behaviour json");
        if lenient {
            run_one_lenient(&ops, &mut out);
        } else {
            run_one(&ops, &mut out);
        }
        n += 1;
    }
    out.finish();
    println!("{{\"behaviours\": {n}}}");
    0
}

/// vh sendbuf-random <seed> <runs> <depth> <max-bytes> <behaviours-out.ndjson>
/// Seeded random long walks over larger buffers (inputs drawn by the driver, judged by TLC).
pub fn random(args: &[String]) -> i32 {
    quiet_panics();
    let seed: u64 = args[0].parse().unwrap();
    let runs: u64 = args[1].parse().unwrap();
    let depth: u64 = args[2].parse().unwrap();
    let max_bytes: u64 = args[3].parse().unwrap();
    let mut out = Out::create(&args[4]);
    let mut rng = Rng(seed);
    for _ in 0..runs {
        let win = rng.range(0, max_bytes);
        let mut ops = vec![json!(["i", win])];
        let mut written = 0u64;
        let mut cur_win = win;
        let mut npicks = 0u64; // upper bound on picks; invalid indices are skipped by guards below
        for _ in 0..depth {
            let c = rng.below(100);
            if c < 15 && written < max_bytes {
                let n = rng.range(1, (max_bytes - written).min(5));
                written += n;
                ops.push(json!(["w", n]));
            } else if c < 22 && cur_win < max_bytes + 2 {
                cur_win = rng.range(cur_win + 1, max_bytes + 2);
                ops.push(json!(["x", cur_win]));
            } else if c < 55 {
                let limit = rng.range(1, 6);
                let flow = match rng.below(4) { 0 => 0, 1 => rng.range(1, 3), _ => 1000 };
                ops.push(json!(["p", limit, flow]));
                npicks += 1;
            } else if c < 57 {
                ops.push(json!(["p", 0, 1]));
            } else if c < 75 && npicks > 0 {
                ops.push(json!(["a", rng.range(1, npicks)]));
            } else if c < 95 && npicks > 0 {
                ops.push(json!(["l", rng.range(1, npicks)]));
            } else if c < 97 {
                ops.push(json!(["r"]));
            } else {
                ops.push(json!(["p", 3, 1000]));
                npicks += 1;
            }
        }
        out.emit(&Value::Array(ops));
    }
    out.finish();
    println!("{{\"behaviours\": {runs}}}");
    0
}

/// Like run_one, but an ack/loss index beyond what the implementation picked is silently dropped
/// (the random driver only knows an upper bound on the number of successful picks).
fn run_one_lenient(ops: &[Value], out: &mut Out) {
    let win = ops[0].as_array().unwrap()[1].as_u64().unwrap();
    out.emit(&json!({"ev": "reset", "max": win}));
    let mut m = Model::new(win);
    for op in &ops[1..] {
        let a = op.as_array().unwrap();
        let name = a[0].as_str().unwrap();
        if (name == "a" || name == "l") && (a[1].as_u64().unwrap() as usize) > m.picks.len() {
            continue;
        }
        match guarded(|| m.step(op)) {
            Ok(ev) => out.emit(&ev),
            Err(msg) => {
                out.emit(&json!({"ev": "panic", "op": op, "msg": msg}));
                break;
            }
        }
    }
}
