#!/bin/bash
# tools/try_seed.sh <seeded/ID-n> <check id> [tier]: apply the seeded change to /repo, run the check, undo.
S=$1; ID=$2; TIER=${3:-quick}
cd /verif
git -C /repo status --short | grep -q . && { echo "/repo not clean"; exit 2; }
git -C /repo apply /verif/$S/patch.diff || exit 2
./check $ID --tier $TIER > work/try_$(basename $S)_$ID.log 2>&1; rc=$?
git -C /repo checkout -- .
echo "seed $(basename $S) check $ID -> rc=$rc"; grep -m3 "VIOLATION\|TOOL-ERROR" work/try_$(basename $S)_$ID.log
