#!/bin/bash
# tools/confirm_seed.sh <seed-dir (patch.diff, demo.diff, meta.json)> <scratch worktree> 
# Confirms: demo passes without the patch, fails with it; existing suite still passes with the patch.
set -u
SD=$1; WT=$2
cd "$WT" || exit 2
git checkout -q -- . && git clean -qfd -e target
DEMO=$(python3 -c "import json,sys;print(json.load(open('$SD/meta.json'))['demo_cmd'])")
echo "demo_cmd: $DEMO"
git apply "$SD/demo.diff" || { echo "CONFIRM-FAIL demo.diff does not apply"; exit 1; }
( eval "$DEMO" ) > /tmp/confirm_$$.log 2>&1; rc0=$?
echo "demo without patch: rc=$rc0"
git apply "$SD/patch.diff" || { echo "CONFIRM-FAIL patch.diff does not apply"; exit 1; }
( eval "$DEMO" ) > /tmp/confirm_$$.log2 2>&1; rc1=$?
echo "demo with patch: rc=$rc1"
# existing suite with the patch but without the demo
git checkout -q -- . && git clean -qfd -e target
git apply "$SD/patch.diff"
cargo test --workspace --no-fail-fast --offline > /tmp/confirm_$$.log3 2>&1; rc2=$?
fails=$(grep -c "^test .* FAILED" /tmp/confirm_$$.log3)
echo "suite with patch: rc=$rc2 failed_tests=$fails"
git checkout -q -- . && git clean -qfd -e target
rm -f /tmp/confirm_$$.log*
if [ $rc0 -eq 0 ] && [ $rc1 -ne 0 ] && [ $rc2 -eq 0 ]; then echo "CONFIRMED $SD"; exit 0; else echo "CONFIRM-FAIL $SD"; exit 1; fi
