#!/usr/bin/env python3
"""Prints the prompt given to an independent seeding sub-agent for one property (only the property text and a scratch worktree)."""
import json, sys
pid = sys.argv[1].upper()
wt = sys.argv[2]
out = sys.argv[3]
for l in open('/verif/properties.jsonl'):
    p = json.loads(l)
    if p['id'] == pid:
        break
print(f"""You are testing how robust a Rust QUIC library (genmeta/gm-quic, crates qbase, qrecovery, qcongestion, qconnection, qdatagram, qevent, qinterface, dquic ...) is against subtle regressions. You work ONLY inside the scratch git worktree {wt} (a checkout of the repository; never touch /repo or /verif, never read /verif). The sandbox is offline: use `cargo ... --offline` only.

Property under study:
  Title: {p['title']}
  Statement: {p['statement']}
  It must hold: {p['quantifier']['text']}

Task: produce up to THREE independent source changes (each a small, realistic regression a developer could plausibly introduce: an off-by-one, a dropped update, a wrong branch, a missing wake/merge/split, a reordered pair of statements, two cooperating sites that each look fine alone ...) to the library's non-test source code such that, for EACH change on its own:
  1. the workspace still compiles (`cargo build --workspace --offline`) and the existing test suite still passes unedited (`cargo test --workspace --no-fail-fast --offline` run in {wt}; all tests that pass without your change must still pass with it);
  2. the property above is broken, but only under something specific: a particular interleaving, a multi-step sequence of operations, an unusual input, a fault at a particular point — NOT something ordinary use or the existing tests would expose at once;
  3. you have a demonstration: a new Rust test (put it in a NEW file, e.g. a new integration test under the relevant crate's tests/ directory, or a `#[cfg(test)]` module appended in the patch's demo only) that FAILS with the change applied and PASSES on the unchanged code. The demonstration must exercise the real library code, not a re-implementation.
Do not change tests that already exist. Do not modify anything guarded by `cfg(gmquic_verif)`. Prefer different mechanisms / code sites for the three changes. Changes to private functions are fine as long as the effect is observable through the crate's public API (possibly via the demonstration test placed inside the crate if the API is crate-private).

Deliverables — for change number N (1..3) create the directory {out}/N/ containing:
  - patch.diff : `git diff` of ONLY the library change (no demo), applicable with `git apply` at the worktree's HEAD;
  - demo.diff  : a patch adding ONLY the demonstration test file(s) (applicable at HEAD with or without patch.diff);
  - meta.json  : {{"property": "{pid}", "summary": "...what was changed...", "needs": "...what specific sequence/interleaving/input is needed to manifest...", "demo_cmd": "the cargo test command that runs the demo", "ran": ["commands you ran and their outcome"]}}
Verify each claim by actually running the commands (existing suite with the change; demo with and without the change). When finished, restore the worktree to a clean state (`git checkout -- . && git clean -fd` inside {wt}, keeping the target/ directory is fine). Finally reply with a short summary of the changes you kept and what you verified. If you cannot find a change meeting all conditions for this property, say so and explain why rather than delivering a weak one.""")
