#!/bin/bash
# tools/mutant_run.sh <patch file> <check id> [tier] [extra check ids...]
# Applies a regression patch to a SCRATCH copy of /repo (never /repo itself), runs the check from a scratch copy of /verif
# against it, prints "mutant <name> check <ID> -> rc=<n>" and removes the scratch copies.
set -u
PATCH=$(readlink -f "$1"); ID=$2; TIER=${3:-quick}
NAME=$(basename "$(dirname "$PATCH")")-$(basename "$PATCH" .patch)
S=/tmp/mut/$$-$NAME
mkdir -p "$S"
trap 'rm -rf "$S"' EXIT
git -C /repo worktree prune >/dev/null 2>&1
# scratch repo: tracked files of the working tree (incl. uncommitted hook edits), no target/
mkdir -p "$S/repo" && (cd /repo && git ls-files -z | rsync -a --from0 --files-from=- ./ "$S/repo/") || exit 2
cp /repo/Cargo.lock "$S/repo/" 2>/dev/null
(cd "$S/repo" && git init -q . && git apply --whitespace=nowarn "$PATCH") || { echo "mutant $NAME: patch does not apply"; exit 2; }
# scratch verif: everything except work/; the build output is copied so only the /repo crates rebuild
mkdir -p "$S/verif"
rsync -a --exclude work --exclude harness/target --exclude .git --exclude evidence /verif/ "$S/verif/"
mkdir -p "$S/verif/evidence"
cp -al /verif/harness/target "$S/verif/harness/target" 2>/dev/null
find "$S/verif/harness" -name Cargo.toml -exec sed -i "s#\"/repo/#\"$S/repo/#g" {} +

cd "$S/verif"
LOG=/verif/work/mutant_${NAME}_${ID}.log
mkdir -p /verif/work
VERIF_REPO="$S/repo" VERIF_WORKERS=${VERIF_WORKERS:-6} ./check "$ID" --tier "$TIER" > "$LOG" 2>&1; rc=$?
echo "mutant $NAME check $ID -> rc=$rc"; grep -m4 "VIOLATION\|TOOL-ERROR\|KNOWN-FINDING" "$LOG"
exit 0
