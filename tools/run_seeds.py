#!/usr/bin/env python3
"""tools/run_seeds.py [names...]  — run every seeded change (seeded/<Cxx-n>/patch.diff) against the check of its property (quick tier) on a
scratch copy (tools/mutant_run.sh) and record the outcome in seeded/RESULTS.json: caught (rc=1 + VIOLATION) / missed (rc=0) / error."""
import json, os, re, subprocess, sys
R = os.path.dirname(os.path.dirname(os.path.abspath(__file__)))
RES = os.path.join(R, "seeded", "RESULTS.json")
res = json.load(open(RES)) if os.path.exists(RES) else {}
names = [a for a in sys.argv[1:] if not a.startswith("--")] or sorted(os.listdir(os.path.join(R, "seeded")))
ONLY = [a.split("=", 1)[1] for a in sys.argv[1:] if a.startswith("--check=")]
EXTRA = {"C01": ["C02"], "C11": ["C01"], "C12": ["C01"]}
for n in names:
    d = os.path.join(R, "seeded", n)
    if not os.path.isdir(d) or not os.path.exists(os.path.join(d, "patch.diff")):
        continue
    prop = json.load(open(os.path.join(d, "meta.json")))["property"]
    for chk in (ONLY or [prop]):
        if res.get(n, {}).get(chk) in ("caught",) and "--force" not in sys.argv:
            continue
        p = subprocess.run([os.path.join(R, "tools", "mutant_run.sh"), os.path.join(d, "patch.diff"), chk, "quick"],
                           stdout=subprocess.PIPE, stderr=subprocess.STDOUT, text=True)
        m = re.search(r"rc=(\d+)", p.stdout)
        rc = int(m.group(1)) if m else -1
        out = "caught" if rc == 1 and "VIOLATION" in p.stdout else "missed" if rc == 0 else "error(rc=%d)" % rc
        if "does not apply" in p.stdout:
            out = "patch does not apply to the current tree"
        print(n, chk, out, flush=True)
        # several lanes may run at once: merge into the file's current content
        cur = json.load(open(RES)) if os.path.exists(RES) else {}
        cur.setdefault(n, {})[chk] = out
        res = cur
        json.dump(cur, open(RES, "w"), indent=1, sort_keys=True)
