#!/usr/bin/env python3
"""Assembles /verif/DESIGN.md = DESIGN.head.md (approach, machinery, conventions, plan) + design_parts/C*.md (what was built, per property)
+ DESIGN.tail.md (seeded-change matrix, findings, not-applicable statement)."""
import glob, os
R = os.path.dirname(os.path.dirname(os.path.abspath(__file__)))
out = [open(os.path.join(R, "DESIGN.head.md")).read().rstrip(), "",
       "# Part II — what was built, per property (written by the builders of each check)", ""]
for p in sorted(glob.glob(os.path.join(R, "design_parts", "C*.md"))) + sorted(glob.glob(os.path.join(R, "design_parts", "X*.md"))):
    out.append(open(p).read().rstrip())
    out.append("")
t = os.path.join(R, "DESIGN.tail.md")
if os.path.exists(t):
    out.append(open(t).read().rstrip())
open(os.path.join(R, "DESIGN.md"), "w").write("\n".join(out) + "\n")
print("DESIGN.md assembled:", sum(len(x) for x in out), "chars")
