#!/usr/bin/env python3
"""Writes DESIGN.tail.md: findings table from known_findings.json, seeded-change matrix from seeded/*/meta.json (+ results recorded
in seeded/RESULTS.json by tools/run_seeds.sh), mutant list, not-applicable statement."""
import glob, json, os
R = os.path.dirname(os.path.dirname(os.path.abspath(__file__)))
kf = json.load(open(os.path.join(R, "known_findings.json")))["findings"]
out = ["# Part III — findings, fix commits, seeded changes, what is not covered", "",
       "## Genuine defects found by the checks", "",
       "Repaired (one `fix:` commit each in /repo; a fixed entry suppresses nothing — the check passes on the repaired tree and reports the "
       "violation again if it returns):", ""]
for f in kf:
    if f["status"] == "fixed":
        w = f["what"]
        w = w.split(" ", 3)[3] if w.startswith("fixed:") else w
        out.append("* **%s** `%s` — %s" % (f["property"], f["commit"], w[:420]))
out += ["", "Recorded, not repaired (printed as `KNOWN-FINDING`, suppressed by signature only):", ""]
for f in kf:
    if f["status"] == "finding":
        out.append("* **%s** `%s` — %s" % (f["property"], f["signature"], f["what"][:600]))
res_p = os.path.join(R, "seeded", "RESULTS.json")
res = json.load(open(res_p)) if os.path.exists(res_p) else {}
out += ["", "## Seeded changes (written by independent sub-agents from the property text only) and which check catches them", "",
        "| seed | property | what it needs to manifest | caught by (quick tier) |", "|---|---|---|---|"]
for d in sorted(glob.glob(os.path.join(R, "seeded", "C*-*"))):
    name = os.path.basename(d)
    try:
        m = json.load(open(os.path.join(d, "meta.json")))
    except Exception:
        continue
    r = res.get(name, {})
    caught = ", ".join("%s: %s" % (k, v) for k, v in sorted(r.items())) or "(not run yet)"
    out.append("| %s | %s | %s | %s |" % (name, m.get("property"), str(m.get("needs", ""))[:260].replace("|", "/").replace("\n", " "), caught))
out += ["", "Seeded changes not caught by the quick tier of any check at the end of this session, and why: "
        "**C05-1** (the address family of an IPv4-mapped IPv6 address in ADD_ADDRESS / PUNCH_ME_NOW frames: the value enumeration of `Gen_Wire` has "
        "no v4-mapped address), **C05-3** (a length-less STREAM frame followed by padding: a composition of two frames in one packet, `Wire.tla` "
        "judges frames one at a time), **C07-2 / C07-3** (need more than 32 768 / 65 536 packets in one space before the wrong expected / "
        "largest-acknowledged number matters; the journal replay works with single-digit packet numbers and `PnCodec` judges encode/decode, not the "
        "journal's choice of their arguments), **C13-3** (the client-side `has_received_handshake_ack` flag is not part of the schedules "
        "`Gen_Recovery` generates), **C20-3** (a failing log *sink*: `LegacySeqLogger` with a storage that runs out of space is not one of the exporter "
        "configurations). Each is a gap of the generators / bindings, not of the specifications; they are the next things to add.", ""]
out += ["", "Builder-written mutants (`mutants/*.patch`, run with `tools/mutant_run.sh`) are listed with their results in each property's section of Part II.", ""]
na = os.path.join(R, "DESIGN.na.md")
if os.path.exists(na):
    out.append(open(na).read().rstrip())
open(os.path.join(R, "DESIGN.tail.md"), "w").write("\n".join(out) + "\n")
print("tail written")
