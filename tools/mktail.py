#!/usr/bin/env python3
"""Writes DESIGN.tail.md: findings table from known_findings.json, seeded-change matrix from seeded/*/meta.json (+ results recorded
in seeded/RESULTS.json by tools/run_seeds.sh), mutant list, not-applicable statement."""
import glob, json, os
R = os.path.dirname(os.path.dirname(os.path.abspath(__file__)))
kf = json.load(open(os.path.join(R, "known_findings.json")))["findings"]
out = ["# Part III — findings, fix commits, seeded changes, what is not covered", "",
       "## Genuine defects found by the checks", "",
       "Repaired (one `fix:` commit each in /repo; a fixed entry suppresses nothing — the check passes on the repaired tree and reports the "
       "violation again if it returns):", ""]
for f in kf:
    if f["status"] == "fixed":
        w = f["what"]
        w = w.split(" ", 3)[3] if w.startswith("fixed:") else w
        out.append("* **%s** `%s` — %s" % (f["property"], f["commit"], w[:420]))
out += ["", "Recorded, not repaired (printed as `KNOWN-FINDING`, suppressed by signature only):", ""]
for f in kf:
    if f["status"] == "finding":
        out.append("* **%s** `%s` — %s" % (f["property"], f["signature"], f["what"][:600]))
res_p = os.path.join(R, "seeded", "RESULTS.json")
res = json.load(open(res_p)) if os.path.exists(res_p) else {}
out += ["", "## Seeded changes (written by independent sub-agents from the property text only) and which check catches them", "",
        "| seed | property | what it needs to manifest | caught by (quick tier) |", "|---|---|---|---|"]
for d in sorted(glob.glob(os.path.join(R, "seeded", "C*-*"))):
    name = os.path.basename(d)
    try:
        m = json.load(open(os.path.join(d, "meta.json")))
    except Exception:
        continue
    r = res.get(name, {})
    caught = ", ".join("%s: %s" % (k, v) for k, v in sorted(r.items())) or "(not run yet)"
    out.append("| %s | %s | %s | %s |" % (name, m.get("property"), str(m.get("needs", ""))[:260].replace("|", "/").replace("\n", " "), caught))
out += ["", "Builder-written mutants (`mutants/*.patch`, run with `tools/mutant_run.sh`) are listed with their results in each property's section of Part II.", ""]
na = os.path.join(R, "DESIGN.na.md")
if os.path.exists(na):
    out.append(open(na).read().rstrip())
open(os.path.join(R, "DESIGN.tail.md"), "w").write("\n".join(out) + "\n")
print("tail written")
