#!/bin/bash
# tools/final_refresh.sh — run every registered quick check in /verif against /repo (evidence files are rewritten), sequentially.
cd /verif
for c in $(python3 -c "import json;ids=[x['property_id'] for x in json.load(open('MANIFEST.json'))['checks']];ids=[i for i in ids if i!='C06']+['C06'];print(' '.join(ids))"); do
  /usr/bin/time -f "$c %es" ./check $c --tier quick > work/final_$c.log 2>&1; rc=$?
  echo "$c rc=$rc $(grep -c KNOWN-FINDING work/final_$c.log) known $(tail -n 3 work/final_$c.log | grep -o '[0-9.]*s$' | tail -1)"
done
