#!/usr/bin/env python3
"""tools/confirm_seeds.py <PID> — confirm the seeded changes a sub-agent left in /tmp/seedout/<PID>/<n>/ inside its scratch worktree
/tmp/seed/<PID>: every demo passes on the unchanged code, fails with its own patch, and the unedited suite passes with all kept patches
applied together (bisected per patch only if that fails).  Confirmed seeds are copied to /verif/seeded/<PID>-<n>/."""
import json, os, shutil, subprocess, sys
pid = sys.argv[1]
WT, OUT = "/tmp/seed/" + pid, "/tmp/seedout/" + pid
R = os.path.dirname(os.path.dirname(os.path.abspath(__file__)))
log = open(os.path.join(OUT, "confirm.log"), "w")


def sh(cmd, check=False):
    p = subprocess.run(cmd, shell=True, cwd=WT, stdout=subprocess.PIPE, stderr=subprocess.STDOUT, text=True)
    log.write("$ %s\n%s\nrc=%d\n" % (cmd, p.stdout[-3000:], p.returncode)); log.flush()
    return p.returncode, p.stdout


def clean():
    sh("git checkout -q -- . && git clean -qfd -e target")


seeds = sorted(n for n in os.listdir(OUT) if n.isdigit() and os.path.exists(os.path.join(OUT, n, "meta.json")))
ok = {}
clean()
for n in seeds:
    d = os.path.join(OUT, n)
    m = json.load(open(os.path.join(d, "meta.json")))
    clean()
    rc, _ = sh("git apply %s/demo.diff" % d)
    if rc != 0:
        ok[n] = "demo.diff does not apply"; continue
    rc0, _ = sh(m["demo_cmd"])
    rc, _ = sh("git apply %s/patch.diff" % d)
    if rc != 0:
        ok[n] = "patch.diff does not apply"; continue
    rc1, _ = sh(m["demo_cmd"])
    ok[n] = "ok" if rc0 == 0 and rc1 != 0 else "demo: without patch rc=%d, with patch rc=%d" % (rc0, rc1)
    print(pid, n, ok[n], flush=True)
good = [n for n in seeds if ok[n] == "ok"]
clean()
for n in good:
    sh("git apply %s/%s/patch.diff" % (OUT, n))
rc, out = sh("cargo test --workspace --no-fail-fast --offline 2>&1 | grep -E '^test result|FAILED|^error' | tail -60")
suite_ok = "FAILED" not in out and "error" not in out and "test result" in out
print(pid, "suite with", good, "applied:", "ok" if suite_ok else "FAILED", flush=True)
if not suite_ok and len(good) > 1:
    for n in list(good):
        clean()
        sh("git apply %s/%s/patch.diff" % (OUT, n))
        rc, out = sh("cargo test --workspace --no-fail-fast --offline 2>&1 | grep -E '^test result|FAILED|^error' | tail -60")
        if "FAILED" in out or "error" in out or "test result" not in out:
            ok[n] = "suite fails with this patch"; good.remove(n)
            print(pid, n, ok[n], flush=True)
clean()
for n in good:
    dst = os.path.join(R, "seeded", "%s-%s" % (pid, n))
    os.makedirs(dst, exist_ok=True)
    for f in ("patch.diff", "demo.diff"):
        shutil.copy(os.path.join(OUT, n, f), dst)
    m = json.load(open(os.path.join(OUT, n, "meta.json")))
    m["confirmed"] = ["tools/confirm_seeds.py: demo passes at HEAD, fails with patch.diff; cargo test --workspace --no-fail-fast --offline passes with the kept patches of this property applied"]
    json.dump(m, open(os.path.join(dst, "meta.json"), "w"), indent=1)
print(pid, "kept", good, "rejected", {n: v for n, v in ok.items() if v != "ok"})
