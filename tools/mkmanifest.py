#!/usr/bin/env python3
"""Regenerates /verif/MANIFEST.json from the table below (single place to edit)."""
import json, os
ROOT = os.path.dirname(os.path.dirname(os.path.abspath(__file__)))
props = [json.loads(l) for l in open(os.path.join(ROOT, "properties.jsonl"))]

TECH = "explicit TLA+ specification checked with TLC; TLC-generated behaviours replayed into the real code; recorded traces validated by TLC against the same specification"

CLAIMED = {
 "C03": dict(
   text="Wire.tla / WireHdr.tla / WireParams.tla transcribe the QUIC wire grammar (varints, the frame layouts and their packet-type legality, long and short headers, transport parameters) as TLA+ decode operators over byte sequences with the prescribed error class; MC_Wire checks the reference codec on itself. Inputs enumerated by TLC (all short strings over a boundary alphabet, every truncation and single-byte substitution of the valid encodings) plus seeded random strings are decoded by the real FrameReader / packet reader / transport-parameter parser for every packet type, connection-id length and role under a panic guard and a watchdog; TLC judges every recorded result (accept vs reject, error class FRAME_ENCODING / PROTOCOL_VIOLATION / TRANSPORT_PARAMETER / drop, bytes consumed > 0).",
   note="the universal 'for any byte string' is sampled structurally (model-checked reference codec + differential replay judged by TLC), not proved; out-of-bounds reads surface only as panics (safe Rust).",
   ref="DESIGN.md Part II C03"),
 "C05": dict(
   text="Wire.tla (reference codec in TLA+) is checked by TLC for Decode(Encode(v)) = v, Len(Encode(v)) = Size(v) <= MaxSize(v) over the enumerated abstract values; Gen_Wire emits every value (all frame type codes with every flag combination, boundary varints 0..2^62-1 as byte tuples, empty / boundary-length byte fields, six header kinds, primitive codecs, role-legal transport-parameter sets) with the spec's bytes; the real encoder and decoder are run on each and TLC compares real bytes = spec bytes, announced size = bytes written <= announced maximum, decoded value and consumed length in every permitted packet type.",
   note="values beyond 32 bits are carried as byte tuples / decimal strings (TLC integers are 32-bit).",
   ref="DESIGN.md Part II C05"),
 "C04": dict(
   text="Hostile.tla states, for every hostile-capable frame kind (ACK, NEW_CONNECTION_ID, RETIRE_CONNECTION_ID, MAX_*, STREAM, CRYPTO, RESET_STREAM, STOP_SENDING, packet-number jumps) and every symbolic boundary class of its fields relative to the endpoint's state, the outcomes RFC 9000 allows and an abstract work bound; MC_Hostile checks the table is total and consistent. Gen_Hostile enumerates short legitimate histories x one hostile frame (classes instantiated up to 2^62-1) for the three packet-number spaces; each case is replayed in a forked child into the real handlers in the real dispatch order of qconnection's spaces with a counting allocator and a watchdog; TLC judges outcome, allocation bound, timeliness and absence of panics.",
   note="cost is measured with generous thresholds: detects asymptotic blow-ups (per-number loops, gap filling), not constant factors.",
   ref="DESIGN.md Part II C04"),
 "C06": dict(
   text="PacketProt.tla: symbolic packet protection (a protected packet is a term; Unprotect succeeds iff authentic, same key generation, reconstructable packet number, RFC 9000 A.3 written in TLA+) plus the 1-RTT key-phase machine as the code has it; MC_PacketProt checks that genuine packets of every generation are accepted under the RFC policy and no forged / stale-key term is ever delivered. Gen_PacketProt enumerates the case matrix (packet types incl. Initial tokens, cid lengths, pn lengths, payload classes, key phases after 0-2 updates, tamper regions) and key-update schedules; the harness assembles each with the real PacketWriter + encrypt_and_protect_packet and real rustls keys, flips every bit of each region (sampled above 2400 bits in the quick tier), runs the real receive path, and TLC judges every record: tampered => discarded silently, genuine => bit-identical header, number, key phase and payload.",
   note="the 'every bit' claim rests on AEAD: tested, not decided by TLC; one recorded finding (second key update cannot be followed).",
   ref="DESIGN.md Part II C06"),
 "C13": dict(
   text="Recovery.tla transcribes RFC 9002 (loss detection, PTO with back-off, NewReno window, bytes in flight) with the eight clauses of C13 as invariants / action properties; MC_Recovery model-checks the design. Gen_Recovery generates environment schedules (sends with size and flags in three spaces, ACK frames with ranges / delay / ECN, clock advances, ticks, phase flags); they are driven into the real ArcCC under a paused clock with a recording feedback; after every call the read-only snapshot hook (cwnd, ssthresh, bytes in flight, recovery start, pto count, timers, rtt, per-space sent packets) is logged and TLC validates each step: which packets are lost / acknowledged, bytes-in-flight exactness, window floor, at most one shrink per round trip, growth only on acks outside recovery, PTO doubling.",
   note="float-derived quantities (rtt arithmetic) are taken from the log and only their relation is checked with a tolerance.",
   ref="DESIGN.md Part II C13"),
 "C15": dict(
   text="AntiAmp.tla: credit counter (as an integer, so wrapping is visible), NORMAL / GRANTED / ABORTED state, per-path byte totals and the SendWaker bit, with the burst task's steps (balance read, segments, padding, debit after the burst) interleaved with arrivals at the granularity of the atomic operations; MC_AntiAmp checks sent <= 3 x rcvd while unvalidated, CreditNeverWraps, ResumeOnRcvdOrGrant, nothing after abort. Every call sequence TLC enumerates is executed on the real AntiAmplifier (+ Constraints) and validated step by step; per-path datagram byte counts of full-stack runs (vh-sim) are validated against the same invariants.",
   note="TLC, JSON trace I/O, read-only hooks AntiAmplifier::verif_state / Path::verif_anti_amplifier; the burst loop is bound through the full-stack per-path byte stream only (an overshoot within the slack left by under-crediting is not observable).",
   ref="DESIGN.md Part II C15"),
 "C16": dict(
   text="Wakers.tla: monitor of the property (conditions, owed notifications, sleepers, wake counters; NoLostWakeup, CloseWakesAll, ResultAgrees, liveness EventuallyObserves under fair re-polling) and the two protocol shapes of the code (waker slot next to the data; SendWaker bitmask with the condition checked outside the lock; the CidCell composite) as refinements; MC_Wakers checks safety and liveness for 1-2 waiters and 1-2 notifiers with a negative control. Gen_Wakers enumerates every call order (check, register, re-poll, drop, set, notify, close) to a fixed depth per class; each is executed on 37 real waiter/notifier objects with counting wakers and every step is validated by TLC.",
   note="call granularity (lock-protected operations); SendBuffer::write is split at a sync-point hook.",
   ref="DESIGN.md Part II C16"),
 "C18": dict(
   text="Params.tla: the legality table of RFC 9000 18.2 / RFC 9221 / RFC 9287 (id x sender role x type x range x mandatory), the two-event protocol (parameters / first-packet SCID in both orders, Retry) with connection-id authentication, negotiated idle timeout, 0-RTT acceptance; MC_Params checks Ready => validated and authenticated, failure sticky. Gen_Params enumerates parameter sets (each id present / absent, values at and beyond bounds as ordered boundary points, role-inappropriate and unknown ids), cid values, both roles and orders; each is fed to the real parser / typed setters, recv_remote_params and initial_scid_from_peer_need_equal, and TLC judges verdict, error kind, readiness, wake-up of the ready future, idle timeout and 0-RTT decision.",
   note="62-bit values are ordered boundary points carried as strings.",
   ref="DESIGN.md Part II C18"),
 "C19": dict(
   text="Datagram.tla: peer / local maximum (0 = disabled), FIFO of accepted datagrams, Pack with remaining-space rules (with / without length, padding first), network loss, receive-side size check, reader; RefusedIffTooBig, OneFramePerDatagram, PayloadUnchanged, OrderAmongArrivals, OversizedReceiveIsProtocolViolation and liveness AcceptedEventuallyOnWire. Every call sequence TLC enumerates (sizes around the limits, remaining-space values around the frame size) is executed on the real DatagramFlow / writer / reader and validated step by step; a connection-level run on the real stack decides that accepted datagrams are put on the wire and delivered whole.",
   note="TLC, JSON trace I/O, qevent telemetry for wire evidence; one recorded finding (head-of-line blocking by an accepted datagram that fits no packet).",
   ref="DESIGN.md Part II C19"),
 "C02": dict(
   text="Conn.tla states C02 over network events (every datagram with its coalesced packets and fate, every delivered copy), the packet logs of both endpoints (packet_sent / packet_received with type and number) and application events (writes, reads with content check, end of stream, completion); MC_Conn.tla, the design (numbered packets, retransmission as new numbers, a network that drops / duplicates / reorders / damages datagrams, a receiver that accepts a packet iff it arrived unmodified and is new), is model-checked: tampered and replayed packets are never accepted, only sent data is delivered, the monitor raises no alarm on the design, and with bounded faults everything is delivered. Fault schedules enumerated by TLC (Gen_Conn: every assignment of deliver/drop/duplicate/delay/bit-flip/truncate to the first K datagrams of each direction with at most 2 faults) plus seeded random bounded and unbounded profiles are run against the real client+server stack over an in-memory network under virtual time, and every recorded event is judged by TLC against Conn.tla: packets logged as received must have arrived intact and only once, bytes read must have been written by the peer, nothing panics, under bounded faults the transfer completes, under unbounded ones both applications are told within 3 idle periods.",
   note="TLC, JSON trace I/O, qevent telemetry feature; TLS is opaque and AEAD is trusted; packets are identified on the wire by FIFO order per type against the sender's packet_sent log, cross-checked by length.",
   ref="DESIGN.md Part II C02"),
 "C17": dict(
   text="ConnLife.tla states C17 over the connection-state log of both endpoints, the application's close calls, the completion time of every application task, write calls after closing, packets emitted after closing and idle expiry; MC_ConnLife.tla (two endpoints, abstract clock, parked operations, close / lost close / idle expiry) is model-checked: states only move forward, the error is fixed once, nothing stays pending after leaving the open states, the monitor accepts the design, and every pending operation of both sides eventually fails once one side closed. Scenarios enumerated by TLC (Gen_ConnLife: who closes incl. both racing, 7 close points from before the handshake to mid-transfer, parked opens / writes / reads / accepts, CONNECTION_CLOSE lost or not, 4 idle-timeout configurations) run on the real stack under virtual time and every recorded event is judged by TLC.",
   note="TLC, JSON trace I/O; 'promptly' = 1 virtual second on the closing endpoint, negotiated idle timeout + 3 s on its peer; protocol-error closes are not forged at packet level.",
   ref="DESIGN.md Part II C17"),
 "C20": dict(
   text="Qlog.tla treats the qlog stream as a trace language (mandatory fields, quic vocabulary, JSON round trip of every event, connection states forward, packet numbers of packet_sent increasing per space, acknowledged / lost packets were sent, stream states follow the RFC 9000 machines) plus the observational clause (the same seeded workload under exporters none / no-op / capturing / filtered / raw must be indistinguishable to the application); MC_Qlog checks that the monitor accepts every stream of a correct producer. Gen_Qlog enumerates exporter x workload x fault x close configurations; each runs on the real stack with a capturing exporter that serialises, parses and re-serialises every event; TLC judges every event and compares the application summaries within each group.",
   note="TLC, JSON trace I/O; round trip judged on JSON values (untagged enum variants that serialise identically are not held against the code).",
   ref="DESIGN.md Part II C20"),
 "C01": dict(
   text="Stream.tla states the contract of C01 over the events observable at two endpoints (application calls and results, STREAM frames emitted with offset/length/FIN, deliveries and their results, reads) and MC_Stream.tla, the design (per-byte colour map, FIN state, lossy/duplicating/reordering frame network, reassembly, reader), is model-checked against it: safety in every reachable state, the monitor accepts every behaviour of the design, and under fair scheduling with finitely many losses everything written and the end of stream are read. Environment schedules generated by TLC (Gen_Stream: all paths to a fixed depth for four flow kinds and blocking windows; Gen_StreamCover: one schedule per (design state, incoming step) pair incl. late delivery / late acknowledgement of frames declared lost; Gen_StreamInject: one hostile frame after every short schedule) plus seeded random long schedules (0-RTT, hostile injected frames, resets, stop-sending, all six flow-control parameters on both sides) are executed on two real DataStreams endpoints with real FlowController/Parameters; every recorded event is judged by TLC against Stream.tla and every run ends with a fair finish (in every second run the newest frame is delivered first) after which all written bytes must have been read, flushed, no write may still be parked while the window has room, and the end of stream must have been reported. The thorough tier adds StreamSched.tla (no starvation among streams in the output scheduler).",
   note="TLC, JSON trace I/O; payload bytes are compared by the harness against position-determined content (data_ok); frames, not packets, are the unit of loss here (the full stack is C02).",
   ref="DESIGN.md Part II C01/C11/C12"),
 "C11": dict(
   text="Stream.tla carries the flow-control contract (per-kind initial windows written once from RFC 9000 18.2, connection credit charged exactly once per fresh byte, credit returned, advertised limits monotone, data beyond a limit answered with FLOW_CONTROL_ERROR); MC_Stream checks the monitor against the design; TLC-enumerated and seeded random schedules (all combinations of the six parameters incl. zero and unequal uni/bidi values, both roles, 0-RTT with remembered parameters accepted/rejected, MAX_DATA / MAX_STREAM_DATA updates, hostile frames beyond limits) are executed on two real DataStreams + FlowController + Parameters and every recorded frame / credit value / delivery result is judged by TLC.",
   note="TLC, JSON trace I/O. Connection credit is observed through ArcSendControler::credit after every packet assembly.",
   ref="DESIGN.md Part II C01/C11/C12"),
 "C12": dict(
   text="Stream.tla carries the stream-count / direction / final-size contract (consecutive local ids never beyond the peer's limit, implicit opening offers each lower stream exactly once in order, STREAM_LIMIT / STREAM_STATE / FINAL_SIZE errors for peer misuse, advertised MAX_STREAMS monotone); schedules enumerated by TLC and seeded random schedules with hostile frames (arbitrary stream ids, offsets, lengths, FIN bits, RESET_STREAM, STOP_SENDING, MAX_STREAM_DATA) are executed on two real DataStreams endpoints for both roles and all stream-count parameters incl. 0, and every recorded result is judged by TLC. Two recorded findings (stream-limit off-by-one asserted by a unit test; data sent beyond a limit revised by a rejected 0-RTT) are reported as KNOWN-FINDING.",
   note="TLC, JSON trace I/O; concurrency strategy ConsistentConcurrency (the one the connection builder uses by default).",
   ref="DESIGN.md Part II C01/C11/C12"),
 "C14": dict(
   text="LocalCids.tla (issuing, peer limit, retirement and replacement, two connections on one shared router with a complete routing snapshot after every call) and RemoteCids.tla (peer ids in any order with duplicates and retire-prior-to, paths applying / borrowing / releasing / being abandoned, RETIRE frames per call) are model-checked; every call sequence TLC enumerates to a fixed depth is executed on the real ArcLocalCids + QuicRouter and ArcRemoteCids and each recorded step is validated by TLC. One recorded finding (active-id count off by one in recv_new_cid_frame).",
   note="TLC, JSON trace I/O, the read-only router lookup hook.",
   ref="DESIGN.md §4 C14"),
 "C07": dict(
   text="SentJournal.tla (a packet assembly is one critical section; complete, trivial and abandoned assemblies interleaved with ack processing) is model-checked for PnNeverReused and every call sequence to a fixed depth is executed on the real ArcSentJournal and validated by TLC; PnCodec.tla is checked exhaustively by TLC for scaled widths, and boundary/random triples through the real PacketNumber::encode/decode (via the wire format) are validated field by field by TLC at the real widths (values < 2^30) and by the round-trip identity up to 2^62.",
   note="TLC integers are 32-bit: 32-bit-wide truncation and numbers >= 2^31 are judged by decoded = pn only; receiver's expected number in (largest_acked, pn].",
   ref="DESIGN.md §4 C07"),
 "C08": dict(
   text="RecvBuf.tla (set of arrived positions, read cursor, largest offset) is model-checked (safety + 'all arrived data is eventually read'); every call sequence TLC enumerates to a fixed depth over all slices/reads/try_next plus seeded random long streams is executed on the real RecvBuf and each recorded step is validated by TLC against the specification.",
   note="TLC, JSON trace I/O; byte values compared by the harness against position-determined content.",
   ref="DESIGN.md §4 C08"),
 "C09": dict(
   text="SendBuf.tla (per-byte colour map) is model-checked exhaustively for small constants; every input sequence TLC enumerates to a fixed depth plus seeded random walks is executed on the real SendBuf and the recorded trace (call, result, full colour map via the verif hook) is validated step by step by TLC against the same specification.",
   note="TLC, JSON trace I/O, the read-only colour dump hook; byte values are compared by the harness; ack/loss ranges are previously picked ranges.",
   ref="DESIGN.md §4 C09"),
 "C10": dict(
   text="RcvdJournal.tla (records Empty/Received/AckSent/Confirmed, ACK frame geometry and sizes, rotation) and SentJournal.tla (assembly = one critical section, rotate sessions, ack/loss -> frames, expiry) are model-checked; every call sequence TLC enumerates to a fixed depth plus seeded random histories (up to ~130 ACK ranges, capacities swept around exact sizes) is executed on the real journals under paused time, every recorded step is validated by TLC: generated ACKs only cover received numbers, carry the requested largest, fit, are complete whenever the complete frame fits; numbers are accepted once; acks yield exactly the recorded frames once.",
   note="TLC, JSON trace I/O, tokio paused clock; gen_ack is asked for a tracked received `largest`; assemblies abandoned only before a frame was recorded.",
   ref="DESIGN.md §4 C10"),
}
NOT_YET = "check under construction in this round (see DESIGN.md plan); not claimed yet"
NA = {}

REGISTER = json.load(open(os.path.join(ROOT, "tools", "register.json")))
CLAIMED = {k: v for k, v in CLAIMED.items() if k in REGISTER}
checks = []
for pid in sorted(CLAIMED):
    c = CLAIMED[pid]
    checks.append({
        "property_id": pid,
        "quick_cmd": "./check %s --tier quick" % pid,
        "thorough_cmd": "./check %s --tier thorough" % pid,
        "evidence_file": "/verif/evidence/%s.json" % pid,
        "replay_cmd_template": "./check %s --replay {path}" % pid,
        "engine": "tlc-spec-tree",
        "level_claimed": {"category": c.get("category", "model_checking"), "text": c["text"], "design_ref": c["ref"]},
        "level_note": c["note"],
        "technique": c.get("technique", TECH),
    })
hooks = json.load(open(os.path.join(ROOT, "tools", "hooks.json")))
m = {
 "version": 1,
 "setup_cmd": "./check setup",
 "hooks": {"guard": "gmquic_verif",
           "enable": "/verif/harness/.cargo/config.toml passes rustflags --cfg gmquic_verif when it builds the /repo crates as path dependencies",
           "baseline_off_cmd": "cd /repo && cargo test --workspace --no-fail-fast --offline",
           "source_commits": hooks["source_commits"], "add_only": True},
 "engines": [{"name": "tlc-spec-tree", "path": "/verif/spec", "serves_properties": sorted(CLAIMED),
              "kind_free_text": "TLA+ specifications checked with TLC (model check, behaviour generation, trace validation); bound to the code by the Rust harness /verif/harness driven by /verif/check"}],
 "checks": checks,
 "not_applicable": [{"property_id": p["id"], "reason": NA.get(p["id"], NOT_YET)} for p in props if p["id"] not in CLAIMED],
 "notes": "Model-based verification with explicit TLA+ specifications; see DESIGN.md. Fix commits and recorded findings: known_findings.json.",
}
json.dump(m, open(os.path.join(ROOT, "MANIFEST.json"), "w"), indent=1)
print("claimed:", sorted(CLAIMED))
