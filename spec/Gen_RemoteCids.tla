--------------------------- MODULE Gen_RemoteCids ---------------------------
EXTENDS RemoteCids, TLC, Json
CONSTANTS MaxSeq, MaxCells, Depth
VARIABLE hist
GenInit == Init /\ hist = <<>>
H(x) == hist' = Append(hist, x)
GenNext ==
  /\ Len(hist) < Depth
  /\ \/ Len(cells) < MaxCells /\ ApplyDcid /\ H(<<"apply">>)
     \/ \E c \in DOMAIN cells : ApplyInitial(c) /\ H(<<"initial", c>>)
     \/ \E s \in 1..MaxSeq, r \in 0..MaxSeq : dq # <<>> /\ RecvNewCid(s, r) /\ H(<<"newcid", s, r>>)
     \/ \E c \in DOMAIN cells : Borrow(c) /\ H(<<"borrow", c>>)
     \/ \E c \in DOMAIN cells : Release(c) /\ H(<<"release", c>>)
     \/ \E c \in DOMAIN cells : RetireCell(c) /\ H(<<"retirecell", c>>)
Emit == (Len(hist) = Depth) => PrintT(<<"GEN", ToJson(hist)>>)
=============================================================================
