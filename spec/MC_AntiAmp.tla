---------------------------- MODULE MC_AntiAmp ----------------------------
(* interleaving model: receive path x validation path x burst task, one atomic operation per step *)
EXTENDS AntiAmp, TLC
CONSTANTS RcvSizes,       \* sizes of arriving packets
          MaxRcvdBytes,   \* bound on the bytes that arrive
          Quotas,         \* congestion send quota offered to a datagram
          PktSeqs,        \* what the packets coalesced into one datagram would like to carry: sequences of [want, inflight]
          MaxBursts       \* bound on completed send_packets calls
DoRxRcvd == \E n \in RcvSizes : rcvd + n <= MaxRcvdBytes /\ RxRcvd(n)
DoCtlGrant == state = NORMAL /\ CtlGrant
DoCtlAbort == state = NORMAL /\ CtlAbort
DoBurstBegin == BurstBegin(MaxBursts)
DoBurstSegment == \E q \in Quotas, ps \in PktSeqs, ini \in BOOLEAN : BurstSegment(q, ps, ini)
MCNext ==
    \/ DoRxRcvd \/ R_Load \/ R_Add \/ R_Wake
    \/ DoCtlGrant \/ DoCtlAbort \/ G_Cas \/ A_Cas \/ G_Wake
    \/ DoBurstBegin \/ B_Load \/ B_Credit \/ B_Reload \/ B_Wake \/ BalanceDone
    \/ DoBurstSegment \/ PadInitial \/ DebitBegin \/ S_Load \/ S_Sub \/ DebitDone \/ SendPackets
    \/ W_Poll \/ WaitDone \/ Woken
View == <<credit, state, wbit, wreg, asleep, badwake, rcvd, sent, task, sp>>
\* liveness form of "sending resumes": under fair scheduling a parked burst task does not stay parked while budget exists
Fair == WF_vars(R_Load \/ R_Add \/ R_Wake \/ G_Cas \/ A_Cas \/ G_Wake) /\ WF_vars(W_Poll \/ WaitDone \/ Woken)
MCSpec == Init /\ [][MCNext]_vars /\ Fair
MCPkts == { <<[want |-> 4, inflight |-> TRUE]>>, <<[want |-> 1, inflight |-> TRUE]>>,
            <<[want |-> 1, inflight |-> FALSE], [want |-> 4, inflight |-> TRUE]>> }
Resumes == (sp.pc = "asleep" /\ (state # NORMAL \/ credit # 0) /\ Quiet) ~> (sp.pc # "asleep")
=============================================================================
