--------------------------- MODULE Gen_RcvdJournal ---------------------------
(* all call sequences of length Depth on the received-packet journal (spec -> impl) *)
EXTENDS RcvdJournal, TLC, Json
CONSTANTS MaxPn, Caps, PktNos, Ticks, Depth
VARIABLE hist
GenInit == Init /\ hist = <<>>
H(x) == hist' = Append(hist, x)
B(b) == IF b THEN 1 ELSE 0
SetToSeq(S) == [i \in 1..Cardinality(S) |-> CHOOSE x \in S : Cardinality({y \in S : y < x}) = i - 1]
GenNext ==
  /\ Len(hist) < Depth
  /\ \/ \E p \in 0..MaxPn : Decode(p) /\ H(<<"d", p>>)
     \/ \E p \in 0..MaxPn, el \in BOOLEAN : OnRcvd(p, el, 3) /\ H(<<"r", p, B(el)>>)
     \/ \E k \in PktNos, L \in 0..MaxPn, c \in Caps :
          /\ IsRcvd(L)
          /\ LET fullrs == RangesOf(Ackable(L))
                 n == FitCount(L, 0, c)
             IN IF n = 0 THEN GenAck(k, L, 0, c, FALSE, <<>>)
                ELSE GenAck(k, L, 0, c, TRUE, SubSeq(fullrs, 1, n))
          /\ H(<<"g", k, L, c>>)
     \/ \E A \in SUBSET PktNos : A # {} /\ OnAck(A) /\ H(<<"a", SetToSeq(A)>>)
     \/ \E d \in Ticks : Tick(d) /\ H(<<"t", d>>)
Emit == (Len(hist) = Depth) => PrintT(<<"GEN", ToJson(hist)>>)
=============================================================================
