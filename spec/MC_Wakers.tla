----------------------------- MODULE MC_Wakers -----------------------------
(* Model check of the waiter/notifier designs of Wakers.tla against NoLostWakeup, CloseWakesAll (invariants) *)
(* and EventuallyObserves (liveness under fair re-polling of woken tasks and completion of started         *)
(* notifies).  One TLC run covers several configurations: the initial state picks one element of Configs,  *)
(*   [mode, multi, nw, consume, needs, maxtok, maxowed]                                                     *)
(*   mode "slot"  waker slot + condition under one lock (multi: Vec of wakers, else Option<Waker>)          *)
(*        "sw"    SendWaker bitmask; tasks check flags outside the lock; notifiers are SetFlag ; Notify,     *)
(*                up to maxowed notifiers between their two steps at once                                   *)
(*        "cell"  object storing the task's ArcSendWaker on a failed check (ArcCidCell), notifier under lock *)
(*   nw   number of tasks (1..2)                                                                            *)
(* Bounds are guards of the actions (no state constraint), so liveness is checked on the whole graph.      *)
EXTENDS Wakers
CONSTANTS Configs
VARIABLE m
mcvars == <<vars, m>>

Cfg(mode, multi, nw, c, needs, maxtok, maxowed) ==
    [mode |-> mode, multi |-> multi, nw |-> nw, consume |-> c, needs |-> needs, maxtok |-> maxtok, maxowed |-> maxowed]
A == {{"a"}}
AB == {{"a"}, {"a", "b"}}
\* invariants only (fast): larger bounds, two tasks on the SendWaker, two notifiers in flight
SafeConfigs == {Cfg("slot", FALSE, 1, TRUE, A, 3, 1), Cfg("slot", FALSE, 1, FALSE, A, 2, 1),
                Cfg("slot", TRUE, 2, TRUE, A, 3, 1), Cfg("slot", TRUE, 2, FALSE, A, 2, 1),
                Cfg("sw", FALSE, 1, TRUE, AB, 1, 2), Cfg("sw", FALSE, 2, TRUE, A, 1, 1),
                Cfg("cell", FALSE, 1, FALSE, A, 2, 1), Cfg("cell", FALSE, 1, TRUE, A, 2, 1)}
SafeConfigsBig == SafeConfigs \cup {Cfg("sw", FALSE, 1, TRUE, AB, 2, 2), Cfg("sw", FALSE, 2, TRUE, A, 1, 2),
                                    Cfg("sw", FALSE, 2, TRUE, AB, 2, 2), Cfg("sw", FALSE, 2, FALSE, AB, 1, 2)}
\* with liveness (slow in TLC): the smallest bounds that still exercise every action
LiveConfigs == {Cfg("slot", FALSE, 1, TRUE, A, 2, 1), Cfg("slot", FALSE, 1, FALSE, A, 1, 1),
                Cfg("slot", TRUE, 2, TRUE, A, 1, 1), Cfg("slot", TRUE, 2, FALSE, A, 1, 1),
                Cfg("sw", FALSE, 1, TRUE, AB, 1, 1),
                Cfg("cell", FALSE, 1, FALSE, A, 1, 1), Cfg("cell", FALSE, 1, TRUE, A, 1, 1)}
LiveConfigsBig == LiveConfigs \cup {Cfg("sw", FALSE, 2, TRUE, AB, 1, 1), Cfg("sw", FALSE, 1, TRUE, AB, 2, 2)}
\* negative control: two tasks on an Option<Waker> slot - the second registration replaces the first, which is then
\* never woken.  TLC must report NoLostWakeup violated here (the invariant is not vacuous).  Single-consumer objects
\* document this (AsyncDeque / KeysState panic on a second task, DatagramReader: "only the waker set by the last call").
NegConfigs == {Cfg("slot", FALSE, 2, TRUE, A, 1, 1)}

Init == /\ m \in Configs
        /\ MInit(m.consume, 0) /\ DInit

Act == 1..m.nw

\* ---- slot
DoPoll == m.mode = "slot" /\ UNCHANGED m /\ \E w \in Act : DSlotPoll(w, m.multi)
DoDrop == m.mode = "slot" /\ UNCHANGED m /\ \E w \in Act : ph[w] = "asleep" /\ DSlotDrop(w)
DoSet == m.mode = "slot" /\ UNCHANGED m /\ cond[Main] < m.maxtok /\ DSlotSet(1)
DoTouch == m.mode = "slot" /\ UNCHANGED m /\ DSlotTouch
DoClose == m.mode = "slot" /\ UNCHANGED m /\ DSlotClose

\* ---- SendWaker with flags checked outside its lock
DoCheck == m.mode = "sw" /\ UNCHANGED m /\ \E w \in Act : \E S \in m.needs : ph[w] = "idle" /\ DSwCheck(w, S)
DoWait == m.mode # "slot" /\ UNCHANGED m /\ \E w \in Act : ph[w] = "need" /\ DSwWait(w)
\* re-poll of the wait_for future: after a wake-up or spuriously
DoRepoll == m.mode # "slot" /\ UNCHANGED m /\ \E w \in Act : ph[w] = "asleep" /\ DSwWait(w)
DoSwDrop == m.mode # "slot" /\ UNCHANGED m /\ \E w \in Act : DSwDrop(w)
DoFlag == m.mode = "sw" /\ UNCHANGED m /\ \E s \in Sigs : cond[s] < m.maxtok /\ owed[s] < m.maxowed /\ DSwSetFlag(s)
DoNotify == m.mode = "sw" /\ UNCHANGED m /\ \E s \in Sigs : DSwNotify(s)

\* ---- cell composite
DoCellCheck == m.mode = "cell" /\ UNCHANGED m /\ \E w \in Act : ph[w] = "idle" /\ DCellCheck(w)
DoCellSet == m.mode = "cell" /\ UNCHANGED m /\ cond[Main] < m.maxtok /\ DCellSet
DoCellClose == m.mode = "cell" /\ UNCHANGED m /\ DCellClose

MCNext == \/ DoPoll \/ DoDrop \/ DoSet \/ DoTouch \/ DoClose
          \/ DoCheck \/ DoWait \/ DoRepoll \/ DoSwDrop \/ DoFlag \/ DoNotify
          \/ DoCellCheck \/ DoCellSet \/ DoCellClose

Repoll(w) == /\ w \in Act /\ ph[w] = "asleep" /\ woken[w]
             /\ IF m.mode = "slot" THEN DSlotPoll(w, m.multi) ELSE DSwWait(w)
             /\ UNCHANGED m
FinishNotify == (\E s \in Sigs : DSwNotify(s)) /\ UNCHANGED m

MCSafety == Init /\ [][MCNext]_mcvars
MCSpec == MCSafety /\ (\A w \in Waiters : WF_mcvars(Repoll(w))) /\ WF_mcvars(FinishNotify)
=============================================================================
