------------------------------ MODULE Gen_Conn ------------------------------
(* spec -> impl: every assignment of network actions (Conn's environment: deliver / drop / duplicate / delay / bit-flip /
   truncate) to the first K datagrams of each direction with at most F faults, as fault schedules for `vh-sim run`. *)
EXTENDS Naturals, Sequences, FiniteSets, TLC, Json
CONSTANTS K, F, Full, Off     \* Off: index of the first datagram of each direction the schedule may touch
VARIABLES sched, pos
Slots == [d \in 1..(2 * K) |-> <<IF d <= K THEN "c2s" ELSE "s2c", Off + (IF d <= K THEN d - 1 ELSE d - K - 1)>>]
Fates == IF Full THEN {<<"drop">>, <<"dup">>, <<"delay", 40>>, <<"flip", 7>>, <<"flip", 85>>, <<"flip", 2400>>, <<"trunc", 20>>, <<"trunc", 24>>, <<"trunc", 600>>}
         ELSE {<<"drop">>, <<"dup">>, <<"delay", 40>>, <<"flip", 7>>, <<"flip", 2400>>, <<"trunc", 20>>, <<"trunc", 24>>}
GenInit == sched = <<>> /\ pos = 1
NFaults == Len(sched)
GenNext ==
    /\ pos <= 2 * K
    /\ pos' = pos + 1
    /\ \/ sched' = sched
       \/ NFaults < F /\ \E f \in Fates : sched' = Append(sched, <<Slots[pos][1], Slots[pos][2], f>>)
EmitGen == (pos = 2 * K + 1) => PrintT(<<"GEN", ToJson(sched)>>)
=============================================================================
