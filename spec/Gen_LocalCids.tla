---------------------------- MODULE Gen_LocalCids ----------------------------
EXTENDS LocalCids, TLC, Json
CONSTANTS Limits, Depth, MaxSeq
MCShared == {<<"x", 0>>}
VARIABLE hist
GenInit == Init /\ hist = <<>>
H(x) == hist' = Append(hist, x)
GenNext ==
  /\ Len(hist) < Depth
  /\ \/ \E c \in Conns : Create(c) /\ H(<<"create", c>>)
     \/ \E c \in Conns, L \in Limits : SetLimit(c, L) /\ H(<<"setlimit", c, L>>)
     \/ \E c \in Conns : \E q \in 0..lc[c].next : lc[c].next < MaxSeq /\ RecvRetire(c, q) /\ H(<<"retire", c, q>>)
     \/ \E c \in Conns : Drop(c) /\ H(<<"drop", c>>)
     \/ \E c \in Conns, s \in Shared : Cardinality(entries) < 5 /\ Claim(c, s) /\ H(<<"claim", c, s[1]>>)
     \/ \E c \in Conns, s \in Shared : Unclaim(c, s) /\ H(<<"unclaim", c, s[1]>>)
Emit == (Len(hist) = Depth) => PrintT(<<"GEN", ToJson(hist)>>)
=============================================================================
