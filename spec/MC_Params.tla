----------------------------- MODULE MC_Params -----------------------------
(* Exhaustive check of the protocol of Params.tla on a small family of parameter sets: every verdict is restricted   *)
(* to what the specification expects (res'.dev = "none"); both arrival orders, both roles, with and without Retry.    *)
(* The disjuncts are split by outcome so that -coverage proves that every outcome was exercised (vacuity).            *)
EXTENDS Params
A == "a1a2a3a4a5a6a7a8"
B == "b1b2"
D == "d1d2d3d4d5d6d7d8"
R == "e1e2e3e4"
En(id, t, v) == [id |-> id, t |-> t, v |-> v]
\* sets a SERVER might send (local role client) / a CLIENT might send (local role server)
ServerSets == {
    << En(0, "x", D), En(15, "x", A) >>,                                   \* valid
    << En(0, "x", D), En(15, "x", A), En(1, "v", "25"), En(17, "x", "00") >>,   \* valid, idle, unknown id ignored
    << En(0, "x", D), En(15, "x", A), En(16, "x", R) >>,                   \* valid after a Retry
    << En(0, "x", A), En(15, "x", A) >>,                                   \* wrong odcid
    << En(0, "x", D), En(15, "x", A), En(11, "v", "16384") >>,             \* out of range
    << En(15, "x", A) >>,                                                  \* mandatory missing
    << En(0, "x", D), En(15, "x", A), En(65518, "x", "00") >>,             \* role-illegal
    << En(0, "x", D), En(15, "x", A), En(3, "v", "65528") >> }             \* gray: either verdict
ClientSets == {
    << En(15, "x", A) >>,
    << En(15, "x", A), En(1, "v", "1200"), En(8, "v", P60) >>,
    << En(15, "x", A), En(2, "x", "000102030405060708090a0b0c0d0e0f") >>,  \* role-illegal
    << En(15, "x", A), En(14, "v", "1") >>,                                \* below minimum
    << En(15, "x", A), En(9, "v", "1152921504606846977") >>,               \* above maximum
    << >> }                                                                \* mandatory missing
RemSet == << En(4, "v", "1200"), En(8, "v", "2") >>
Vs == [ok : BOOLEAN, kind : {"", TPE}, ready : BOOLEAN]
Good == res'.dev = "none"

DoNew == \E role \in {"client", "server"}, mode \in {"wire", "typed"}, lidle \in {"0", "25", "1200"}, rem \in {None, Some(RemSet)} :
            /\ res.op = "init"
            /\ rem # None => role = "client"
            /\ New(role, mode, IF role = "client" THEN D ELSE NoCid, lidle, rem, None)
DoRetrySeen == \E v \in Vs : RetrySeen(R, v, None) /\ Good
Sets == IF Peer = "server" THEN ServerSets ELSE ClientSets
Typable(w) == cfg.mode = "typed" => (\A m \in Mandatory(Peer) : Has(w, m)) /\ (\A i \in DOMAIN w : Known(w[i].id))
DoParseOk == \E w \in Sets, v \in Vs : v.ok /\ Typable(w) /\ Parse(w, v, None) /\ Good
DoParseErr == \E w \in Sets, v \in Vs : ~v.ok /\ Typable(w) /\ Parse(w, v, None) /\ Good
Zs == {"na", "yes", "no"}
DoRecvWaiting == \E v \in Vs, z \in Zs : RecvParams(v, z, None) /\ Good /\ status # "failed" /\ status' = "waiting"
DoRecvReady == \E v \in Vs, z \in Zs : RecvParams(v, z, None) /\ Good /\ status # "failed" /\ status' = "ready"
DoRecvFailed == \E v \in Vs, z \in Zs : RecvParams(v, z, None) /\ Good /\ status # "failed" /\ status' = "failed"
DoScidWaiting == \E c \in {A, B}, v \in Vs : RecvInitialScid(c, v, None) /\ Good /\ status # "failed" /\ status' = "waiting"
DoScidReady == \E c \in {A, B}, v \in Vs : RecvInitialScid(c, v, None) /\ Good /\ status # "failed" /\ status' = "ready"
DoScidFailed == \E c \in {A, B}, v \in Vs : RecvInitialScid(c, v, None) /\ Good /\ status # "failed" /\ status' = "failed"
\* calls attempted after the connection failed
DoAfterFailure == /\ status = "failed"
                  /\ \E v \in Vs : (RecvInitialScid(A, v, None) \/ RecvParams(v, "na", None)) /\ Good
MCNext == DoNew \/ DoRetrySeen \/ DoParseOk \/ DoParseErr \/ DoRecvWaiting \/ DoRecvReady \/ DoRecvFailed
          \/ DoScidWaiting \/ DoScidReady \/ DoScidFailed \/ DoAfterFailure
\* expected behaviours never deviate
NeverDeviates == ~deviated /\ res.dev = "none"
\* order independence: once both events happened the outcome is a function of what was received, not of the order
OrderIndependent == (got # None /\ scid # NoCid) => ((status = "ready") <=> CidsAuthenticated(got[1], scid))
View == <<cfg, retry, tried, parsed, got, scid, status, err, res.op>>
=============================================================================
