---------------------------- MODULE Trace_Params ----------------------------
(* impl -> spec: events recorded by vh-params from the real qbase::param code (parse_from_bytes / set,                *)
(* ArcParameters + Parameters::{recv_remote_params, initial_scid_from_peer_need_equal, retry_scid_from_server_need_equal},*)
(* remote_ready() future under a counting waker).  The verdict and the scalar state of every call are inputs of the     *)
(* actions of Params.tla; a deviation is named in res.dev and reported by SoftNoDeviation without stopping the           *)
(* validation of the remaining runs.                                                                                      *)
EXTENDS Params, Json, IOUtils
VARIABLE l
Rec == ndJsonDeserialize(IOEnv.TRACE)
NE == Len(Rec)
e == Rec[l]
Ev(name) == l <= NE /\ e.ev = name /\ l' = l + 1

V == [ok |-> e.ok, kind |-> e.kind, ready |-> e.ready]
Obs == Some([ready |-> e.ready, guard |-> e.guard, fut |-> e.fut, futkind |-> e.futkind, idle |-> e.idle,
             ridle |-> e.ridle, hasrem |-> e.hasrem])

TNew == Ev("reset") /\ New(e.role, e.mode, e.odcid, e.lidle, e.rem, Obs)
TRetry == Ev("retry") /\ RetrySeen(e.cid, V, Obs)
TParse == Ev("parse") /\ cfg.mode = "wire" /\ e.sender = Peer /\ Parse(e.params, V, Obs)
TTyped == Ev("typed") /\ cfg.mode = "typed" /\ e.sender = Peer /\ Parse(e.params, V, Obs)
TRecv == Ev("recv") /\ RecvParams(V, e.zrtt, Obs)
TScid == Ev("scid") /\ RecvInitialScid(e.cid, V, Obs)

TraceInit == l = 1 /\ Init
TraceNext == TNew \/ TRetry \/ TParse \/ TTyped \/ TRecv \/ TScid
\* every deviation is a violation of C18; reported per event, the run continues
SoftNoDeviation == res.dev = "none" \/ PrintT(<<"SOFT_VIOLATION", res.dev, l>>)
\* as long as the implementation did not deviate, the abstract state satisfies the property
Consistent == ~deviated => Inv
TraceAccepted ==
    LET d == TLCGet("stats").diameter IN
    IF d - 1 = NE THEN TRUE
    ELSE PrintT(<<"TRACE_REJECTED_AT", d, IF d <= NE THEN Rec[d] ELSE "eof">>) /\ FALSE
=============================================================================
