------------------------------ MODULE RecvBuf ------------------------------
(***************************************************************************)
(* The receive buffer of a stream / crypto stream                          *)
(* (qrecovery/src/recv/rcvbuf.rs: RecvBuf).                                *)
(*                                                                         *)
(* Abstract state: the set of byte positions that have arrived, how many   *)
(* bytes the reader consumed, the largest offset seen.  One action per     *)
(* public method: Recv = RecvBuf::recv(off, bytes), Read = try_read(k),     *)
(* Next = try_next().  Byte VALUES are position-determined and compared by  *)
(* the harness (data_ok); the spec tracks positions.                        *)
(***************************************************************************)
EXTENDS Naturals, FiniteSets

VARIABLES
    arrived,   \* set of positions that arrived at least once
    nread,     \* bytes handed to the reader (a prefix)
    largest,   \* highest offset (exclusive) seen
    charged,   \* history: sum of the values returned by Recv
    res        \* result of the last call

vars == <<arrived, nread, largest, charged, res>>

Max(a, b) == IF a > b THEN a ELSE b
Min(a, b) == IF a < b THEN a ELSE b

\* number of contiguous arrived-but-unread bytes starting at nread (state-parametrised)
AvailOf(arr, nr, lg) ==
    IF nr \notin arr THEN 0
    ELSE (CHOOSE e \in nr..lg : (\A i \in nr..(e-1) : i \in arr) /\ (e \notin arr)) - nr
Avail == AvailOf(arrived, nread, largest)

Init == arrived = {} /\ nread = 0 /\ largest = 0 /\ charged = 0 /\ res = [op |-> "init"]
Reset == arrived' = {} /\ nread' = 0 /\ largest' = 0 /\ charged' = 0 /\ res' = [op |-> "init"]

Recv(off, len) ==
    /\ arrived' = arrived \cup (off..(off+len-1))
    /\ largest' = IF len > 0 THEN Max(largest, off + len) ELSE largest
    /\ charged' = charged + (largest' - largest)
    /\ res' = [op |-> "recv", ret |-> largest' - largest]
    /\ UNCHANGED nread

\* try_read into a buffer of k bytes: as many contiguous bytes as fit
Read(k) ==
    /\ LET n == Min(k, Avail) IN
        /\ nread' = nread + n
        /\ res' = [op |-> "read", n |-> n, from |-> nread]
    /\ UNCHANGED <<arrived, largest, charged>>

\* try_next: one contiguous chunk; its length is the implementation's choice (segment boundaries)
Next(m) ==
    /\ IF Avail = 0
       THEN m = 0 /\ nread' = nread /\ res' = [op |-> "next", some |-> FALSE]
       ELSE m \in 1..Avail /\ nread' = nread + m /\ res' = [op |-> "next", some |-> TRUE, n |-> m, from |-> nread]
    /\ UNCHANGED <<arrived, largest, charged>>

-----------------------------------------------------------------------------
TypeOK == nread \in Nat /\ largest \in Nat /\ charged \in Nat

\* only bytes that have fully arrived are handed to the reader, as a contiguous prefix (each once)
ReadOnlyArrived == \A i \in 0..(nread-1) : i \in arrived
\* what flow control was charged adds up to the highest offset seen
ChargedIsLargest == charged = largest
LargestIsMax == \A i \in arrived : i < largest
ReadBelowLargest == nread <= largest

Inv == TypeOK /\ ReadOnlyArrived /\ ChargedIsLargest /\ LargestIsMax /\ ReadBelowLargest
=============================================================================
