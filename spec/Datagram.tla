------------------------------ MODULE Datagram ------------------------------
(***************************************************************************)
(* Unreliable datagrams (RFC 9221) of one connection direction, written to  *)
(* be bound to qdatagram (DatagramFlow = DatagramOutgoing + DatagramIncoming*)
(* + DatagramWriter + DatagramReader) and to the packet assembler.          *)
(*                                                                         *)
(* One action per critical section of the code:                            *)
(*   NewWriter  DatagramOutgoing::new_writer(peer max_datagram_frame_size)  *)
(*   NewReader  DatagramIncoming::new_reader                                *)
(*   Send       DatagramWriter::send_bytes / send                           *)
(*   Pack       DatagramOutgoing::try_load_data_into(packet) — one call     *)
(*   Lose/Deliver  the network (loss only; arrivals keep the sending order) *)
(*   RecvFrame  DatagramIncoming::recv_datagram (ReceiveFrame::recv_frame)  *)
(*   Read       DatagramReader::poll_recv                                   *)
(*   ConnError  DatagramFlow::on_conn_error                                 *)
(*                                                                         *)
(* A datagram is identified by the number the accepting Send gave it        *)
(* (1, 2, ...); id 0 marks frames injected by a (possibly hostile) peer.    *)
(* Payload bytes are id-determined; the harness compares them (data_ok).    *)
(*                                                                         *)
(* Intended = FALSE: the actions follow the code where it deviates from the *)
(* property (named deviations D1, D2 below).  Intended = TRUE: the design   *)
(* that satisfies every property, used to show the properties are           *)
(* satisfiable and non-vacuous.                                             *)
(***************************************************************************)
EXTENDS Naturals, Sequences, FiniteSets

CONSTANT Intended

VARIABLES
    peerMax,    \* max_datagram_frame_size advertised by the peer, as given to new_writer (0 = disabled)
    localMax,   \* our own max_datagram_frame_size (DatagramFlow::new)
    maxPkt,     \* environment: the largest frame space an (otherwise empty) packet of this path ever offers
    hasWriter, hasReader,
    err,        \* FALSE, or TRUE after on_conn_error
    nextId,     \* id the next accepted datagram gets
    acc,        \* history: sizes of the accepted datagrams, acc[id]
    queue,      \* outgoing FIFO of [id, size]
    wire,       \* history: every DATAGRAM frame put into a packet, in order
    net,        \* frames in flight (sequence, sending order)
    rq,         \* incoming FIFO of [id, size] waiting for the reader
    got,        \* history: what the application read, in order
    res         \* result of the last call

vars == <<peerMax, localMax, maxPkt, hasWriter, hasReader, err, nextId, acc, queue, wire, net, rq, got, res>>

\* size of the QUIC variable-length integer encoding of n
VL(n) == IF n < 64 THEN 1 ELSE IF n < 16384 THEN 2 ELSE IF n < 1073741824 THEN 4 ELSE 8
\* size of a whole DATAGRAM frame: type, optional length, payload
FSize(size, withLen) == 1 + (IF withLen THEN VL(size) ELSE 0) + size
Monus(a, b) == IF a > b THEN a - b ELSE 0
\* can this payload ever be put into a packet of this path?
Fits(size) == 1 + size <= maxPkt
SomeFits(q) == \E i \in DOMAIN q : Fits(q[i].size)
RemoveAt(s, i) == SubSeq(s, 1, i - 1) \o SubSeq(s, i + 1, Len(s))

Init ==
    /\ peerMax = 0 /\ localMax = 0 /\ maxPkt = 0 /\ hasWriter = FALSE /\ hasReader = FALSE /\ err = FALSE
    /\ nextId = 1 /\ acc = <<>> /\ queue = <<>> /\ wire = <<>> /\ net = <<>> /\ rq = <<>> /\ got = <<>>
    /\ res = [op |-> "init"]

\* DatagramFlow::new(local max) on a path whose packets offer at most mp bytes of frame space
Setup(lm, mp) ==
    /\ localMax' = lm /\ maxPkt' = mp /\ peerMax' = 0 /\ hasWriter' = FALSE /\ hasReader' = FALSE /\ err' = FALSE
    /\ nextId' = 1 /\ acc' = <<>> /\ queue' = <<>> /\ wire' = <<>> /\ net' = <<>> /\ rq' = <<>> /\ got' = <<>>
    /\ res' = [op |-> "setup"]

\* the peer's transport parameters are known: the application asks for a writer
NewWriter(pm) ==
    /\ IF err THEN res' = [op |-> "writer", ret |-> "closed"] /\ UNCHANGED <<peerMax, hasWriter>>
       ELSE IF pm = 0 THEN res' = [op |-> "writer", ret |-> "unsupported"] /\ UNCHANGED <<peerMax, hasWriter>>
       ELSE res' = [op |-> "writer", ret |-> "ok"] /\ peerMax' = pm /\ hasWriter' = TRUE
    /\ UNCHANGED <<localMax, maxPkt, hasReader, err, nextId, acc, queue, wire, net, rq, got>>

NewReader ==
    /\ IF err THEN res' = [op |-> "reader", ret |-> "closed"] /\ UNCHANGED hasReader
       ELSE IF localMax = 0 THEN res' = [op |-> "reader", ret |-> "unsupported"] /\ UNCHANGED hasReader
       ELSE res' = [op |-> "reader", ret |-> "ok"] /\ hasReader' = TRUE
    /\ UNCHANGED <<peerMax, localMax, maxPkt, hasWriter, err, nextId, acc, queue, wire, net, rq, got>>

\* the application hands a datagram of `size` bytes to the connection.
\* Refused iff even the smallest frame form (type byte + payload) exceeds the peer's limit.
Send(size) ==
    /\ hasWriter
    /\ IF err THEN res' = [op |-> "send", ret |-> "closed", size |-> size, pm |-> peerMax, open |-> FALSE]
                   /\ UNCHANGED <<nextId, acc, queue>>
       ELSE IF 1 + size > peerMax
       THEN res' = [op |-> "send", ret |-> "toobig", size |-> size, pm |-> peerMax, open |-> TRUE]
            /\ UNCHANGED <<nextId, acc, queue>>
       ELSE /\ res' = [op |-> "send", ret |-> "ok", size |-> size, pm |-> peerMax, open |-> TRUE]
            /\ queue' = Append(queue, [id |-> nextId, size |-> size])
            /\ acc' = Append(acc, size)
            /\ nextId' = nextId + 1
    /\ UNCHANGED <<peerMax, localMax, maxPkt, hasWriter, hasReader, err, wire, net, rq, got>>

\* Intended design only: datagrams that can never be carried by a packet of this path are discarded
\* (they are unreliable) instead of blocking the queue.
RECURSIVE DropUnfit(_)
DropUnfit(q) == IF q # <<>> /\ ~Fits(Head(q).size) THEN DropUnfit(Tail(q)) ELSE q

\* the packet assembler offers `space` remaining bytes: at most ONE whole datagram becomes ONE frame.
\* The form is the implementation's choice (wl, pad) as long as it is legal:
\*   with-length form (0x31): padding + type + length + payload fit the space;
\*   no-length form (0x30): the frame must end exactly at the end of the packet, so padding goes FIRST.
\* The head datagram stays queued only when not even type + payload fit the space.
\* D1 (code): the form is chosen from the remaining space only; the peer's limit is not consulted
\*            (the Intended design never picks a form whose frame exceeds the limit).
\* D2 (code): a head datagram that fits no packet stays queued forever and blocks the ones behind it
\*            (the Intended design discards it).
EffQueue == IF Intended THEN DropUnfit(queue) ELSE queue
Pack(space, wl, pad) ==
    /\ LET q == EffQueue
           fitq == SomeFits(queue)
       IN
       IF err THEN res' = [op |-> "pack", ret |-> "closed", space |-> space, fitq |-> FALSE] /\ UNCHANGED <<queue, wire, net>>
       ELSE IF q = <<>> THEN res' = [op |-> "pack", ret |-> "empty", space |-> space, fitq |-> fitq]
                             /\ queue' = q /\ UNCHANGED <<wire, net>>
       ELSE LET h == Head(q)
                f == [id |-> h.id, size |-> h.size, withLen |-> wl, pad |-> pad, pm |-> peerMax]
            IN IF space < 1 + h.size
               THEN res' = [op |-> "pack", ret |-> "congestion", space |-> space, fitq |-> fitq]
                    /\ queue' = q /\ UNCHANGED <<wire, net>>
               ELSE /\ wl => pad + FSize(h.size, TRUE) <= space
                    /\ ~wl => pad + FSize(h.size, FALSE) = space
                    /\ (Intended /\ wl) => FSize(h.size, TRUE) <= peerMax
                    /\ res' = [op |-> "pack", ret |-> "ok", space |-> space, fitq |-> fitq, f |-> f,
                               used |-> pad + FSize(h.size, wl)]
                    /\ queue' = Tail(q)
                    /\ wire' = Append(wire, f)
                    /\ net' = Append(net, f)
    /\ UNCHANGED <<peerMax, localMax, maxPkt, hasWriter, hasReader, err, nextId, acc, rq, got>>

\* what DatagramOutgoing::try_load_data_into chooses: the length is encoded whenever it fits
CodeWl(space) == queue # <<>> /\ space >= Head(queue).size + 1 + VL(Head(queue).size)
CodePad(space) == IF queue = <<>> \/ CodeWl(space) THEN 0 ELSE Monus(space, Head(queue).size + 1)
PackAsCode(space) == Pack(space, CodeWl(space), CodePad(space))

\* the packet carrying the i-th frame in flight is lost (datagrams are never retransmitted)
Lose(i) ==
    /\ i \in DOMAIN net
    /\ net' = RemoveAt(net, i)
    /\ res' = [op |-> "lose"]
    /\ UNCHANGED <<peerMax, localMax, maxPkt, hasWriter, hasReader, err, nextId, acc, queue, wire, rq, got>>

\* DatagramIncoming::recv_datagram: the WHOLE frame (type + optional length + payload) against our limit
RecvFrame(id, size, withLen) ==
    /\ IF err THEN res' = [op |-> "recv", ret |-> "closed", id |-> id, fsize |-> FSize(size, withLen), lm |-> localMax, open |-> FALSE]
                   /\ UNCHANGED rq
       ELSE IF FSize(size, withLen) > localMax
       THEN res' = [op |-> "recv", ret |-> "protocol_violation", id |-> id, fsize |-> FSize(size, withLen), lm |-> localMax, open |-> TRUE]
            /\ UNCHANGED rq
       ELSE res' = [op |-> "recv", ret |-> "ok", id |-> id, fsize |-> FSize(size, withLen), lm |-> localMax, open |-> TRUE]
            /\ rq' = Append(rq, [id |-> id, size |-> size])
    /\ UNCHANGED <<peerMax, localMax, maxPkt, hasWriter, hasReader, err, nextId, acc, queue, wire, got>>

\* the oldest frame in flight arrives (the network only loses; a peer running the same code receives it)
Deliver ==
    /\ net # <<>>
    /\ RecvFrame(Head(net).id, Head(net).size, Head(net).withLen)
    /\ net' = Tail(net)

\* a frame built by the peer itself (any size, either form)
Inject(size, withLen) == RecvFrame(0, size, withLen) /\ UNCHANGED net

Read ==
    /\ hasReader
    /\ IF err THEN res' = [op |-> "read", ret |-> "closed"] /\ UNCHANGED <<rq, got>>
       ELSE IF rq = <<>> THEN res' = [op |-> "read", ret |-> "pending"] /\ UNCHANGED <<rq, got>>
       ELSE /\ res' = [op |-> "read", ret |-> "ok", id |-> Head(rq).id, size |-> Head(rq).size]
            /\ rq' = Tail(rq)
            /\ got' = Append(got, Head(rq))
    /\ UNCHANGED <<peerMax, localMax, maxPkt, hasWriter, hasReader, err, nextId, acc, queue, wire, net>>

\* the connection fails or closes: both queues are dropped, every later call reports the error
ConnError ==
    /\ err' = TRUE /\ queue' = <<>> /\ rq' = <<>>
    /\ res' = [op |-> "connerr"]
    /\ UNCHANGED <<peerMax, localMax, maxPkt, hasWriter, hasReader, nextId, acc, wire, net, got>>

-----------------------------------------------------------------------------
(* C19 *)
Ids(s) == {s[i].id : i \in DOMAIN s}
Increasing(s) == \A i, j \in DOMAIN s : i < j => s[i] < s[j]

\* a datagram is refused exactly when it cannot fit the peer's advertised maximum (smallest frame form)
RefusedIffTooBig ==
    (res.op = "send" /\ res.open) => ((res.ret = "toobig") <=> (1 + res.size > res.pm)) /\ res.ret \in {"toobig", "ok"}

\* each accepted datagram becomes at most one frame, each frame carries exactly one accepted datagram, whole
OneFramePerDatagram ==
    /\ \A i, j \in DOMAIN wire : i # j => wire[i].id # wire[j].id
    /\ \A i \in DOMAIN wire : wire[i].id \in DOMAIN acc /\ wire[i].size = acc[wire[i].id]
\* frames leave in the order the datagrams were accepted
WireInOrder == Increasing([i \in DOMAIN wire |-> wire[i].id])
\* an accepted datagram is in exactly one place or gone (lost / dropped on error): never duplicated
NoDuplication ==
    /\ \A i, j \in DOMAIN queue : i # j => queue[i].id # queue[j].id
    /\ Ids(queue) \cap Ids(wire) = {}
    /\ Cardinality({i \in DOMAIN got : got[i].id # 0}) = Cardinality(Ids(got) \ {0})
\* the frame written fits the space offered; a no-length frame ends exactly at the end of the packet
FrameFitsSpace ==
    (res.op = "pack" /\ res.ret = "ok") =>
        /\ res.used <= res.space
        /\ (~res.f.withLen => res.used = res.space)
\* what the application reads is what was sent: same size (bytes compared by the harness), from the wire
PayloadUnchanged ==
    \A i \in DOMAIN got : got[i].id # 0 => got[i].id \in Ids(wire) /\ got[i].size = acc[got[i].id]
\* ... in the order sent among those that arrive
OrderAmongArrivals ==
    LET mine == SelectSeq(got, LAMBDA g : g.id # 0) IN Increasing([i \in DOMAIN mine |-> mine[i].id])
\* a received frame larger than our limit is a PROTOCOL_VIOLATION connection error (and only such a frame)
OversizedReceiveIsProtocolViolation ==
    (res.op = "recv" /\ res.open) => ((res.ret = "protocol_violation") <=> (res.fsize > res.lm)) /\ res.ret \in {"protocol_violation", "ok"}
\* every frame put on the wire respects the peer's limit (whole frame, RFC 9221 section 3) — violated by D1
FrameWithinPeerMax == \A i \in DOMAIN wire : FSize(wire[i].size, wire[i].withLen) <= wire[i].pm
\* offered an empty full-size packet while a datagram that fits a packet waits, the queue emits a frame — violated by D2
FullPacketProgress == (res.op = "pack" /\ res.space >= maxPkt /\ res.fitq) => res.ret = "ok"

TypeOK == /\ nextId = Len(acc) + 1 /\ err \in BOOLEAN
          /\ Ids(queue) \subseteq DOMAIN acc /\ (Ids(net) \ {0}) \subseteq Ids(wire)
          /\ (err => queue = <<>> /\ rq = <<>>)

\* what the code satisfies
Inv == TypeOK /\ RefusedIffTooBig /\ OneFramePerDatagram /\ WireInOrder /\ NoDuplication /\ FrameFitsSpace
       /\ PayloadUnchanged /\ OrderAmongArrivals /\ OversizedReceiveIsProtocolViolation
\* what the property states in full
InvFull == Inv /\ FrameWithinPeerMax /\ FullPacketProgress
\* end to end: a peer running this code with localMax = peerMax never answers an accepted datagram with an error
AcceptedNeverKillsPeer == (res.op = "recv" /\ res.open /\ res.id # 0 /\ res.lm = peerMax) => res.ret = "ok"
=============================================================================
