----------------------------- MODULE RemoteCids -----------------------------
(***************************************************************************)
(* Connection IDs issued by the peer and handed to paths                    *)
(* (qbase/src/cid/remote_cid.rs: ArcRemoteCids, ArcCidCell, BorrowedCid).   *)
(* The module follows the code method by method (each method body is one    *)
(* critical section of the RemoteCids mutex; cell operations lock the       *)
(* cell): the protocol-visible outputs are the RETIRE_CONNECTION_ID frames   *)
(* emitted by each call, in order, and the id a path gets when it borrows.   *)
(* An id is identified with its sequence number.                            *)
(***************************************************************************)
EXTENDS Naturals, Sequences, FiniteSets

CONSTANT Limit      \* our active_connection_id_limit

VARIABLES
    dqOff, dq,      \* cid_deque: offset and presence flags of numbers dqOff ..
    rdyOff, rdy,    \* ready_cells: offset and cell ids
    pend,           \* pending_cells: cell ids waiting for an id
    cursor,         \* next number to hand out
    cells,          \* sequence of cell records [alloc (newest first), using, retired]
    retiredEver,    \* history: every number a RETIRE_CONNECTION_ID was emitted for, in order
    res

vars == <<dqOff, dq, rdyOff, rdy, pend, cursor, cells, retiredEver, res>>

Max(a, b) == IF a > b THEN a ELSE b
Min(a, b) == IF a < b THEN a ELSE b
DqLargest == dqOff + Len(dq)
DqHas(o, d, s) == s >= o /\ s < o + Len(d) /\ d[s - o + 1]
NewCell == [alloc |-> <<>>, using |-> FALSE, retired |-> FALSE]
Range(a, b) == [i \in 1..(IF b > a THEN b - a ELSE 0) |-> a + i - 1]     \* <<a, .., b-1>>
Reverse(s) == [i \in 1..Len(s) |-> s[Len(s) - i + 1]]

Init == /\ dqOff = 0 /\ dq = <<>> /\ rdyOff = 0 /\ rdy = <<>> /\ pend = <<>> /\ cursor = 0
        /\ cells = <<>> /\ retiredEver = <<>> /\ res = [op |-> "init"]
Reset == /\ dqOff' = 0 /\ dq' = <<>> /\ rdyOff' = 0 /\ rdy' = <<>> /\ pend' = <<>> /\ cursor' = 0
         /\ cells' = <<>> /\ retiredEver' = <<>> /\ res' = [op |-> "init"]

\* CidCell::assign: the new id goes to the front; unless borrowed, older ones are retired (oldest first)
Assign(cell, s) ==
    LET a == <<s>> \o cell.alloc IN
    IF cell.using THEN [cell |-> [cell EXCEPT !.alloc = a], out |-> <<>>]
    ELSE [cell |-> [cell EXCEPT !.alloc = <<s>>], out |-> Reverse(Tail(a))]

\* arrange_idle_cid: hand unused ids to waiting cells, in order.  st = [pend, rdy, cursor, cells, out]
RECURSIVE Arrange(_, _, _)
Arrange(st, o, d) ==
    IF st.pend = <<>> THEN st
    ELSE LET h == Head(st.pend) IN
         IF st.cells[h].retired THEN Arrange([st EXCEPT !.pend = Tail(@)], o, d)
         ELSE IF DqHas(o, d, st.cursor)
         THEN LET r == Assign(st.cells[h], st.cursor) IN
              Arrange([pend |-> Tail(st.pend), rdy |-> Append(st.rdy, h), cursor |-> st.cursor + 1,
                       cells |-> [st.cells EXCEPT ![h] = r.cell], out |-> st.out \o r.out], o, d)
         ELSE st

Commit(st, op, extra) ==
    /\ pend' = st.pend /\ rdy' = st.rdy /\ cursor' = st.cursor /\ cells' = st.cells
    /\ retiredEver' = retiredEver \o st.out
    /\ res' = [op |-> op, retired |-> st.out, ok |-> TRUE, out |-> extra]

\* a path asks for an id (ArcRemoteCids::apply_dcid): a new cell
ApplyDcid ==
    /\ LET n == Len(cells) + 1
           st == Arrange([pend |-> Append(pend, n), rdy |-> rdy, cursor |-> cursor,
                          cells |-> Append(cells, NewCell), out |-> <<>>], dqOff, dq)
       IN Commit(st, "apply", n)
    /\ UNCHANGED <<dqOff, dq, rdyOff>>

\* the peer's first id (number 0) becomes known; the handshake path's cell is served first
ApplyInitial(c) ==
    /\ dq = <<>> /\ dqOff = 0 /\ cursor = 0
    /\ c \in {pend[i] : i \in DOMAIN pend}
    /\ dq' = <<TRUE>> /\ dqOff' = 0
    /\ LET others == SelectSeq(pend, LAMBDA x : x # c)
           st == Arrange([pend |-> <<c>> \o others, rdy |-> rdy, cursor |-> cursor, cells |-> cells, out |-> <<>>],
                         0, <<TRUE>>)
       IN Commit(st, "initial", 0)
    /\ UNCHANGED rdyOff

\* NEW_CONNECTION_ID(seq, retire_prior_to) with rpt <= seq (the parser guarantees it)
RecvNewCid(seq, rpt) ==
    /\ rpt <= seq
    /\ IF seq - rpt > Limit
       THEN /\ res' = [op |-> "newcid", retired |-> <<>>, ok |-> FALSE, out |-> 0]
            /\ UNCHANGED <<dqOff, dq, rdyOff, rdy, pend, cursor, cells, retiredEver>>
       ELSE IF seq < dqOff
       THEN /\ res' = [op |-> "newcid", retired |-> <<>>, ok |-> TRUE, out |-> 0]     \* stale: ignored
            /\ UNCHANGED <<dqOff, dq, rdyOff, rdy, pend, cursor, cells, retiredEver>>
       ELSE
        LET \* insert
            n1 == Max(Len(dq), seq - dqOff + 1)
            d1 == [i \in 1..n1 |-> IF i = seq - dqOff + 1 THEN TRUE ELSE IF i <= Len(dq) THEN dq[i] ELSE FALSE]
            \* retire_prior_to(rpt)
            skip == rpt <= rdyOff
            o2 == IF skip THEN dqOff ELSE Min(Max(rpt, dqOff), dqOff + n1)
            d2 == IF skip THEN d1 ELSE SubSeq(d1, o2 - dqOff + 1, n1)
            cur2 == IF skip THEN cursor ELSE Max(cursor, rpt)
            applied == rdyOff + Len(rdy)
            need == Min(applied, rpt)
            npop == IF skip \/ rdy = <<>> THEN 0 ELSE need - rdyOff
            popped == SubSeq(rdy, 1, npop)
            rdy2 == SubSeq(rdy, npop + 1, Len(rdy))
            pend2 == pend \o SelectSeq(popped, LAMBDA x : ~cells[x].retired)
            out2 == IF skip THEN <<>>
                    ELSE IF rdy = <<>> THEN Range(rdyOff, rpt)
                    ELSE IF applied < rpt THEN Range(applied, rpt) ELSE <<>>
            rdyOff2 == IF skip THEN rdyOff
                       ELSE IF rdy = <<>> THEN rpt
                       ELSE IF applied < rpt THEN rpt ELSE rdyOff + npop
            st == Arrange([pend |-> pend2, rdy |-> rdy2, cursor |-> cur2, cells |-> cells, out |-> out2], o2, d2)
        IN /\ dqOff' = o2 /\ dq' = d2 /\ rdyOff' = rdyOff2
           /\ Commit(st, "newcid", 1)

\* a path borrows its id for sending
Borrow(c) ==
    /\ c \in DOMAIN cells /\ ~cells[c].using
    /\ IF cells[c].retired THEN res' = [op |-> "borrow", retired |-> <<>>, ok |-> TRUE, out |-> "gone"] /\ cells' = cells
       ELSE IF cells[c].alloc = <<>> THEN res' = [op |-> "borrow", retired |-> <<>>, ok |-> FALSE, out |-> "wait"] /\ cells' = cells
       ELSE /\ res' = [op |-> "borrow", retired |-> <<>>, ok |-> TRUE, out |-> cells[c].alloc[1]]
            /\ cells' = [cells EXCEPT ![c].using = TRUE]
    /\ UNCHANGED <<dqOff, dq, rdyOff, rdy, pend, cursor, retiredEver>>

\* the borrow ends (BorrowedCid dropped -> renew): ids superseded meanwhile are retired, oldest first
Release(c) ==
    /\ c \in DOMAIN cells /\ cells[c].using
    /\ LET a == cells[c].alloc
           out == Reverse(Tail(a))
       IN /\ cells' = [cells EXCEPT ![c].using = FALSE, ![c].alloc = <<a[1]>>]
          /\ retiredEver' = retiredEver \o out
          /\ res' = [op |-> "release", retired |-> out, ok |-> TRUE, out |-> 0]
    /\ UNCHANGED <<dqOff, dq, rdyOff, rdy, pend, cursor>>

\* the path is abandoned (ArcCidCell::retire): everything it holds is retired, newest first
RetireCell(c) ==
    /\ c \in DOMAIN cells /\ ~cells[c].using
    /\ IF cells[c].retired
       THEN /\ res' = [op |-> "retirecell", retired |-> <<>>, ok |-> TRUE, out |-> 0]
            /\ UNCHANGED <<cells, retiredEver>>
       ELSE /\ cells' = [cells EXCEPT ![c].retired = TRUE, ![c].alloc = <<>>]
            /\ retiredEver' = retiredEver \o cells[c].alloc
            /\ res' = [op |-> "retirecell", retired |-> cells[c].alloc, ok |-> TRUE, out |-> 0]
    /\ UNCHANGED <<dqOff, dq, rdyOff, rdy, pend, cursor>>

-----------------------------------------------------------------------------
(* C14, remote side *)
SeqToSet(s) == {s[i] : i \in DOMAIN s}
\* one RETIRE_CONNECTION_ID per abandoned id
RetiredOnce == \A i, j \in DOMAIN retiredEver : i # j => retiredEver[i] # retiredEver[j]
\* a path that is not in the middle of sending holds at most one id; no id serves two paths
OneIdPerPath == \A c \in DOMAIN cells : ~cells[c].using => Len(cells[c].alloc) <= 1
NoSharedId == \A c1, c2 \in DOMAIN cells : c1 # c2 => SeqToSet(cells[c1].alloc) \cap SeqToSet(cells[c2].alloc) = {}
\* retire-prior-to is honoured: a served, idle path never keeps an id below it
ReadyAboveRpt == \A i \in DOMAIN rdy : LET c == rdy[i] IN
                    (~cells[c].using /\ ~cells[c].retired) => (\A k \in DOMAIN cells[c].alloc : cells[c].alloc[k] >= rdyOff)
\* ids in use are never ones we already retired
NeverUseRetired == \A c \in DOMAIN cells : ~cells[c].using =>
                       (\A k \in DOMAIN cells[c].alloc : cells[c].alloc[k] \notin SeqToSet(retiredEver))
\* structural reading of the code: ready cells are indexed by the number they hold
ReadyAligned == rdyOff + Len(rdy) = cursor \/ (rdy = <<>> /\ rdyOff <= cursor)
\* an issue that would leave more active ids than our limit must be rejected (NOT satisfied by the code,
\* whose test `seq - retire_prior_to > limit` is off by one: known finding)
Active == {s \in dqOff..(dqOff + Len(dq)) : DqHas(dqOff, dq, s) /\ s \notin SeqToSet(retiredEver)}
ActiveWithinLimit == Cardinality(Active) <= Limit

Inv == RetiredOnce /\ OneIdPerPath /\ NoSharedId /\ ReadyAboveRpt /\ NeverUseRetired
=============================================================================
