------------------------------ MODULE WireVals ------------------------------
(* The enumerated abstract values of C05 (every frame kind x flag combination x boundary varints x byte-field
   lengths, headers, primitive codecs, transport-parameter sets) and the untrusted inputs of C03 (short strings
   over a reduced alphabet, truncations and single-byte substitutions of valid encodings).
   Shared by MC_Wire (the spec checks itself on them) and Gen_Wire (they are replayed into the real codecs).

   Products.  Frames with up to three varint fields get the FULL product of the eight boundary values; ACK,
   STREAM+large data, ADD_ADDRESS and CONNECTION_CLOSE use one-factor-at-a-time around fixed bases plus a
   diagonal (stated per kind below). *)
EXTENDS WireHdr, WireParams

CONSTANTS Large,         \* the "large" byte-field length (1200 quick; 16384 crosses the 2->4 byte length varint)
          Dense          \* TRUE: full product of the boundary values for three varint fields; FALSE: all PAIRS of values
                         \* (every triple with at least two equal components: 176 of 512)

B8 == Boundary
U32MAX == <<0, 0, 0, 0, 255, 255, 255, 255>>
BU32 == (Boundary \ {VMAX}) \cup {U32MAX}                 \* constructors of the extension frames take u32
MAXSTREAMS == <<15, 255, 255, 255, 255, 255, 255, 255>>   \* 2^60-1
Data(n) == [i \in 1..n |-> (i * 7 + n) % 256]
Ascii(n) == [i \in 1..n |-> 32 + ((i + n) % 90)]
Lens == {0, 1, 63, 64, Large}
SmallLens == {0, 1, 63, 64}
F(t, fs) == [c |-> "frame", t |-> t, x |-> fs]
Tri(S) == { tr \in S \X S \X S : Dense \/ tr[1] = tr[2] \/ tr[2] = tr[3] \/ tr[1] = tr[3] }

Addr4 == { <<0, 0, 0, 0, 0, 0>>, <<255, 255, 255, 255, 255, 255>>, <<17, 81, 192, 168, 1, 20>> }      \* port(2) ip(4)
Addr6 == { Zeros(18), [i \in 1..18 |-> 255], <<1, 187>> \o [i \in 1..16 |-> (i * 17) % 256] }
Cid(n) == [i \in 1..n |-> (200 + i * 3) % 256]
CidLens == {0, 1, 8, 20}
Tok16 == [i \in 1..16 |-> 160 + i]

AckVals ==
    \* full product of largest / delay / first range, no further range
    { F(2, <<tr[1], tr[2], tr[3]>>) : tr \in Tri(B8) }
    \* one (gap, len) range at every boundary pair
    \cup { F(2, <<V8(100), V8(5), V8(3) \o g \o l>>) : g \in B8, l \in B8 }
    \* two ranges, diagonal; 64 ranges (the count needs a 2-byte varint)
    \cup { F(2, <<x, x, x \o x \o x \o x \o x>>) : x \in B8 }
    \cup { F(2, <<V8(1000), V8(0), V8(1) \o Cat([i \in 1..128 |-> V8(i % 3)])>>) }
    \* ECN counts: full product, plus everything at the same boundary
    \cup { F(3, <<V8(7), V8(1), V8(0), tr[1], tr[2], tr[3]>>) : tr \in Tri(B8) }
    \cup { F(3, <<x, x, x \o x \o x, x, x, x>>) : x \in B8 }

StreamVals ==
    UNION { IF HasOff(t)
            THEN { F(t, <<id, off, Data(n)>>) : id \in B8, off \in B8 \ {V8(0)}, n \in SmallLens }
                 \cup { F(t, <<x, x, Data(Large)>>) : x \in B8 \ {V8(0)} }
            ELSE { F(t, <<id, Data(n)>>) : id \in B8, n \in Lens }
          : t \in StreamTypes }

\* the code documents that a reason phrase is shorter than 16 KiB (its max_encoding_size counts a 2-byte length): precondition
ReasonLens == { IF n >= 16384 THEN 16383 ELSE n : n \in Lens }
CloseVals ==
    \* error kind x frame type (1-, 2- and 4-byte frame types) with a short reason; reason lengths on one base
    { F(28, <<V8(k), V8(ft), Ascii(5)>>) : k \in {0, 1, 10, 16, 256, 511}, ft \in {0, 6, 30, 49, EXT, EXT + 6} }
    \cup { F(28, <<V8(10), V8(6), Ascii(n)>>) : n \in ReasonLens }
    \cup { F(29, <<c, Ascii(n)>>) : c \in B8, n \in ReasonLens }

AddrVals ==
    \* seq x tire full product on one address; NAT type and address one at a time
    UNION { { F(EXT + fam, <<s, a, t, V8(3)>>) : s \in BU32, t \in BU32, a \in {CHOOSE x \in (IF fam = 0 THEN Addr4 ELSE Addr6) : x[1] = 17 \/ x[1] = 1} }
            \cup { F(EXT + fam, <<V8(1), a, V8(2), V8(nat)>>) : a \in (IF fam = 0 THEN Addr4 ELSE Addr6), nat \in 0..5 }
            \cup { F(EXT + 2 + fam, <<tr[1], tr[2], a, tr[3], V8(4)>>) : tr \in Tri(BU32), a \in {CHOOSE x \in (IF fam = 0 THEN Addr4 ELSE Addr6) : x[1] = 17 \/ x[1] = 1} }
            \cup { F(EXT + 2 + fam, <<V8(1), V8(2), a, V8(3), V8(nat)>>) : a \in (IF fam = 0 THEN Addr4 ELSE Addr6), nat \in 0..5 }
          : fam \in {0, 1} }

FrameVals ==
    { F(0, <<>>), F(1, <<>>), F(30, <<>>) }
    \cup { F(t, <<a>>) : t \in {16, 20, 22, 23, 25, EXT + 4}, a \in B8 }
    \cup { F(t, <<a>>) : t \in {18, 19}, a \in {x \in B8 : x[1] < 16} \cup {MAXSTREAMS} }
    \cup { F(t, <<a, b>>) : t \in {5, 17, 21}, a \in B8, b \in B8 }
    \cup { F(4, <<tr[1], tr[2], tr[3]>>) : tr \in Tri(B8) }
    \cup { F(t, <<tr[1], tr[2], tr[3]>>) : t \in {EXT + 5, EXT + 6}, tr \in Tri(BU32) }
    \cup AckVals
    \cup { fr \in { F(6, <<off, Data(n)>>) : off \in B8, n \in Lens } : FieldsValid(6, fr.x) }
    \cup { F(7, <<Data(n)>>) : n \in Lens }
    \cup { fr \in StreamVals : FieldsValid(fr.t, fr.x) }
    \cup { fr \in { F(24, <<s, r, Cid(n), Tok16>>) : s \in B8, r \in B8, n \in {1, 8, 20} } : FieldsValid(24, fr.x) }
    \cup { F(t, <<d>>) : t \in {26, 27}, d \in { Zeros(8), [i \in 1..8 |-> 255], [i \in 1..8 |-> i * 31] } }
    \cup CloseVals
    \cup { F(t, <<Data(n)>>) : t \in {48, 49}, n \in Lens }
    \cup AddrVals

\* values the API can build but a receiver must reject: part of C03 (expected FRAME_ENCODING_ERROR)
RejectedFrameVals ==
    { F(6, <<VMAX, Data(1)>>), F(6, <<<<32, 0, 0, 0, 0, 0, 0, 0>>, Data(0)>>), F(6, <<<<63, 255, 255, 255, 255, 255, 255, 0>>, Data(64)>>),
      F(12, <<V8(4), VMAX, Data(1)>>), F(14, <<V8(4), VMAX, Data(1)>>), F(18, <<VMAX>>), F(19, <<<<16, 0, 0, 0, 0, 0, 0, 0>>>>),
      F(24, <<V8(1), V8(2), Cid(8), Tok16>>), F(24, <<V8(1), V8(0), <<>>, Tok16>>),
      F(28, <<V8(17), V8(0), <<>>>>), F(28, <<V8(0), V8(31), <<>>>>), F(28, <<V8(512), V8(0), <<>>>>),
      F(EXT, <<V8(1), <<0, 80, 1, 2, 3, 4>>, V8(1), V8(6)>>), F(EXT + 2, <<V8(1), V8(1), <<0, 80, 1, 2, 3, 4>>, V8(1), V8(256)>>) }

\* ---- headers
H(h) == [c |-> "hdr", h |-> h]
HdrVals ==
    { H(Hdr("initial", Cid(d), Cid(s), Data(n), <<>>, 0)) : d \in CidLens, s \in CidLens, n \in Lens }
    \cup { H(Hdr("retry", Cid(d), Cid(s), Data(n), Tok16, 0)) : d \in CidLens, s \in CidLens, n \in Lens }
    \cup { H(Hdr(k, Cid(d), Cid(s), <<>>, <<>>, 0)) : k \in {"zero_rtt", "handshake"}, d \in CidLens, s \in CidLens }
    \cup { H(Hdr("vn", Cid(d), Cid(s), <<>>, vs, 0)) : d \in CidLens, s \in CidLens,
           vs \in { <<>>, <<0, 0, 0, 1>>, <<0, 0, 0, 1, 255, 0, 0, 29, 10, 10, 10, 10>> } }
    \cup { H(Hdr("one_rtt", Cid(d), <<>>, <<>>, <<>>, sp)) : d \in CidLens \cup {5, 19}, sp \in {0, 1} }

\* ---- primitive codecs: p = codec name, x = value; each is one field of the frame machinery
P(p, x) == [c |-> "prim", p |-> p, x |-> x]
PrimDesc(p) ==
    CASE p \in {"varint", "streamid"} -> FV [] p = "cid" -> FCID [] p = "reset_token" -> FIX(16)
      [] p = "addr4" -> FIX(6) [] p = "addr6" -> FIX(18)
      [] p = "ep4" -> FIX(6) [] p = "ep6" -> FIX(18) [] p = "ep4agent" -> FIX(12) [] p = "ep6agent" -> FIX(36)
Near == UNION { {V8(n - 1), V8(n), V8(n + 1)} : n \in {1, 63, 64, 16383, 16384, 1073741823, 1073741824} }
PrimVals ==
    { P("varint", x) : x \in B8 \cup Near \cup {<<63, 255, 255, 255, 255, 255, 255, 254>>, <<0, 0, 0, 1, 0, 0, 0, 0>>, U32MAX} }
    \cup { P("streamid", x) : x \in B8 }
    \cup { P("cid", Cid(n)) : n \in 0..20 }
    \cup { P("reset_token", Tok16), P("reset_token", Zeros(16)) }
    \cup { P("addr4", a) : a \in Addr4 } \cup { P("addr6", a) : a \in Addr6 }
    \cup { P("ep4", a) : a \in Addr4 } \cup { P("ep6", a) : a \in Addr6 }
    \cup { P("ep4agent", a \o b) : a \in Addr4, b \in Addr4 } \cup { P("ep6agent", a \o b) : a \in Addr6, b \in Addr6 }

\* ---- transport parameters
E(id, val) == [id |-> id, val |-> val]
Pa(n) == <<10, 0, 0, 1, 17, 81>> \o [i \in 1..16 |-> i] \o <<1, 187>> \o <<n>> \o Cid(n) \o Tok16
ValsOf(id) ==
    CASE PType(id) \in {"varint", "duration"} -> { x \in B8 \cup {V8(2), V8(20), V8(1200), V8(65527), <<16, 0, 0, 0, 0, 0, 0, 0>>} : InBounds(id, x) }
      [] PType(id) = "bool" -> { <<>> }
      [] PType(id) = "token" -> { Tok16 }
      [] PType(id) = "cid" -> { Cid(n) : n \in CidLens }
      [] PType(id) = "pa" -> { Pa(n) : n \in {0, 8, 20} }
      [] PType(id) = "bytes" -> { Ascii(n) : n \in Lens }
BaseOf(role) == IF role = "client" THEN <<E(15, Cid(8))>> ELSE IF role = "server" THEN <<E(0, Cid(8)), E(15, Cid(5))>> ELSE <<>>
IdsOf(role) == { id \in KnownIdSet : Belongs(id, role) }
\* replace-or-add one entry, keeping the sequence sorted by id
WithEntry(ps, e) ==
    LET rest == SelectSeq(ps, LAMBDA q : q.id # e.id)
        lo == SelectSeq(rest, LAMBDA q : q.id < e.id)
        hi == SelectSeq(rest, LAMBDA q : q.id > e.id) IN lo \o <<e>> \o hi
Smallest(id) == CHOOSE x \in ValsOf(id) : \A y \in ValsOf(id) : Len(Body(id, x)) <= Len(Body(id, y))
Largest(id) == CHOOSE x \in ValsOf(id) : \A y \in ValsOf(id) : Len(Body(id, x)) >= Len(Body(id, y))
RECURSIVE AllOf(_, _, _)
AllOf(ids, role, big) ==       \* every legal id present, each with its shortest / longest value
    IF ids = <<>> THEN <<>>
    ELSE (IF Belongs(Head(ids), role) THEN <<E(Head(ids), IF big THEN Largest(Head(ids)) ELSE Smallest(Head(ids)))>> ELSE <<>>)
         \o AllOf(Tail(ids), role, big)
PS(role, ps) == [c |-> "params", role |-> role, ps |-> ps]
ParamVals ==
    UNION { { PS(role, BaseOf(role)) }
            \cup UNION { { PS(role, WithEntry(BaseOf(role), E(id, x))) : x \in ValsOf(id) } : id \in IdsOf(role) }    \* each id alone, every boundary value
            \cup { PS(role, AllOf(KnownIds, role, FALSE)), PS(role, AllOf(KnownIds, role, TRUE)) }     \* every legal id present
            \cup { PS(role, SelectSeq(AllOf(KnownIds, role, TRUE), LAMBDA q : q.id # id)) : id \in IdsOf(role) \ Required(role) } \* all but one
          : role \in {"client", "server", "remembered"} }

C05Vals == FrameVals \cup HdrVals \cup PrimVals \cup ParamVals

\* --------------------------------------------------------------------------
\* C03 inputs
Alphabet == {0, 1, 63, 64, 127, 128, 191, 192, 255}
CidBytes == {20, 21}
\* first bytes worth trying in a payload: every 1-byte frame type, the bytes around them, and the prefix of the extension types
TypeBytes1 == (0..31) \cup {48, 49, 50}
Strs(A, n) == [1..n -> A]
RECURSIVE StrsUpTo(_, _)
StrsUpTo(A, n) == IF n = 0 THEN {<<>>} ELSE Strs(A, n) \cup StrsUpTo(A, n - 1)
ExtPrefix(k) == <<128, 61, 126, 144 + k>>                      \* 0x803d7e90 + k

\* payload strings: a head (<type byte>, an extension type, a non-minimally encoded type) followed by up to L alphabet bytes
PayloadHeads ==
    { <<t>> : t \in TypeBytes1 \cup Alphabet }
    \cup { ExtPrefix(k) : k \in 0..7 }
    \cup { <<64, t>> : t \in {1, 6, 30} }                                     \* D1
FirstBytes == { h[1] : h \in PayloadHeads }
PayloadStringsOf(first, L) == { h \o s : h \in { g \in PayloadHeads : g[1] = first }, s \in StrsUpTo(Alphabet, L) }
PayloadStrings(L) == UNION { PayloadStringsOf(fb, L) : fb \in FirstBytes } \cup { <<>> }

\* truncations and single-byte substitutions of a valid encoding.  Positions: every truncation point; substitutions
\* at the first `head` (24; 12 in the quick tier) and the last 2 positions (the structure of every layout lies in its head; the tail is data)
Posns(n, head) == { i \in 1..n : i <= head \/ i > n - 2 }
Mutations(b, A, head) ==
    { Take(b, n) : n \in 0..(Len(b) - 1) }
    \cup { [b EXCEPT ![i] = a] : i \in Posns(Len(b), head), a \in A }
    \cup { b \o <<0>>, b \o <<255>> }
=============================================================================
