--------------------------- MODULE Trace_RecvBuf ---------------------------
(* impl -> spec: events recorded from the real qrecovery::recv::RecvBuf *)
EXTENDS RecvBuf, TLC, Json, IOUtils, Sequences
VARIABLE l
Rec == ndJsonDeserialize(IOEnv.TRACE)
NE == Len(Rec)
e == Rec[l]
Ev(name) == l <= NE /\ e.ev = name /\ l' = l + 1

\* observable state logged after every call
StateMatches ==
    /\ nread' = e.nread
    /\ largest' = e.largest
    /\ e.available = AvailOf(arrived', nread', largest')
    /\ e.readable = (AvailOf(arrived', nread', largest') > 0)

TReset == Ev("reset") /\ Reset
TRecv == Ev("recv") /\ Recv(e.off, e.len) /\ res'.ret = e.ret /\ StateMatches
TRead == Ev("read") /\ Read(e.k) /\ res'.n = e.n /\ e.data_ok = TRUE /\ StateMatches
TNext == Ev("next") /\ Next(e.n) /\ res'.some = e.some /\ e.data_ok = TRUE /\ StateMatches

\* the same buffer behind the crypto stream's API (CryptoStreamIncoming::recv_frame, CryptoStreamReader): only bytes read are visible
TCRecv == Ev("crecv") /\ e.ok = TRUE /\ Recv(e.off, e.len)
TCRead == Ev("cread") /\ Read(e.k) /\ res'.n = e.n /\ e.data_ok = TRUE

TraceInit == l = 1 /\ Init
TraceNext == TReset \/ TRecv \/ TRead \/ TNext \/ TCRecv \/ TCRead
TraceAccepted ==
    LET d == TLCGet("stats").diameter IN
    IF d - 1 = NE THEN TRUE
    ELSE PrintT(<<"TRACE_REJECTED_AT", d, IF d <= NE THEN Rec[d] ELSE "eof">>) /\ FALSE
=============================================================================
