------------------------------ MODULE MC_Wire ------------------------------
(* Model check of the reference codec on itself.  One state per enumerated value / input; the invariants are the
   C05 statements on the specification (Decode(Encode(v)) = v in every permitted packet type, consumed = written,
   Len(Encode(v)) = Size(v) <= MaxSize(v)) and the C03 statements on the reference decoder (total, makes progress,
   never reads past the input, decoded values re-encode to themselves). *)
EXTENDS WireVals
CONSTANTS L, Part          \* Part: "c05" (values), "c03" (inputs) or "all"
VARIABLE v

\* The values are partitioned into buckets so that the workers evaluate them in parallel:
\* depth 1 = one state per bucket, depth 2 = one state per value / input.
Bk(kind, t, s) == [c |-> "bucket", kind |-> kind, t |-> t, s |-> s]
Buckets ==
    { Bk("frame", t, "") : t \in KnownTypes }
    \cup { Bk("hdr", 0, k) : k \in LongKinds \cup {"one_rtt"} }
    \cup { Bk("prim", 0, "") }
    \cup { Bk("params", 0, r) : r \in {"client", "server", "remembered"} }
    \cup { Bk("in", fb, pt) : fb \in FirstBytes, pt \in PTypes }
    \cup { Bk("in", 256, "S") }
In(b, pt) == [c |-> "in_frame", b |-> b, pt |-> pt]
Bucket(b) ==
    CASE b.kind = "frame" -> { fr \in FrameVals : fr.t = b.t }
      [] b.kind = "hdr" -> { h \in HdrVals : h.h.k = b.s }
      [] b.kind = "prim" -> PrimVals
      [] b.kind = "params" -> { p \in ParamVals : p.role = b.s }
      [] b.kind = "in" /\ b.t < 256 -> { In(s, b.s) : s \in PayloadStringsOf(b.t, L) }
      [] b.kind = "in" /\ b.t = 256 -> { In(EncodeFrame(fr), pt) : fr \in RejectedFrameVals, pt \in PTypes } \cup { In(<<>>, pt) : pt \in PTypes }

Init == v \in { b \in Buckets : Part = "all" \/ (Part = "c03") = (b.kind = "in") }
MCNext == v.c = "bucket" /\ v' \in Bucket(v)
View == v

FrameRoundTrip ==
    v.c = "frame" =>
        /\ FrameOk(v)
        /\ \A pt \in PTypes :
             LET r == DecodeFrame(EncodeFrame(v), pt) IN
             IF pt \in Permitted(v.t)
             THEN r.ok /\ r.t = v.t /\ r.x = v.x /\ r.consumed = Len(EncodeFrame(v))
             ELSE ~r.ok /\ r.class = PV
FrameSize ==
    v.c = "frame" => Len(EncodeFrame(v)) = Size(v) /\ Size(v) <= MaxSize(v) /\ DataLen(v) <= Size(v)

HdrRoundTrip ==
    v.c = "hdr" =>
        /\ HdrOk(v.h)
        /\ LET b == EncodeHeader(v.h)
               r == DecodeHeader(b, Len(v.h.dcid)) IN
           /\ r.ok /\ r.h = v.h /\ r.n = Len(b)
           /\ (HasSize(v.h.k) => HdrSize(v.h) = Len(b))
\* a data packet made of the header, a Length and 20..25 bytes is one item that consumes everything
HdrPacket ==
    v.c = "hdr" /\ HasSize(v.h.k) =>
        \A n \in {20, 25} :
            LET hb == EncodeHeader(v.h)
                b == hb \o (IF v.h.k = "one_rtt" THEN <<>> ELSE EncVarint(V8(n))) \o Zeros(n)
                d == DecodeDatagram(b \o (IF v.h.k = "one_rtt" THEN <<>> ELSE b), Len(v.h.dcid)) IN
            /\ Len(d) = (IF v.h.k = "one_rtt" THEN 1 ELSE 2)
            /\ \A i \in 1..Len(d) : d[i].ok /\ d[i].k = v.h.k /\ d[i].consumed = Len(b) /\ d[i].off = Len(b) - n

PrimRoundTrip ==
    v.c = "prim" =>
        LET d == PrimDesc(v.p)
            b == EncField(d, v.x)
            r == DecField(d, b \o <<7>>) IN            \* a trailing byte must be left alone
        FieldOk(d, v.x) /\ r.ok /\ r.x = v.x /\ r.n = Len(b) /\ Len(b) = FieldSize(d, v.x) /\ Len(b) <= FieldMax(d, v.x)

ParamsRoundTrip ==
    v.c = "params" =>
        /\ ParamsOk(v.ps, v.role)
        /\ LET r == DecodeParams(EncodeParams(v.ps), v.role) IN r.ok /\ r.ps = v.ps
        \* the order of the entries on the wire does not matter
        /\ LET rev == [i \in 1..Len(v.ps) |-> v.ps[Len(v.ps) + 1 - i]]
               r == DecodeParams(EncodeParams(rev), v.role) IN r.ok /\ r.ps = v.ps
        \* a parameter of the other role is an error
        /\ (v.role = "client" => ~DecodeParams(EncodeParams(v.ps) \o EncodeParam(E(2, Tok16)), "client").ok)
        /\ (v.role = "server" => ~DecodeParams(EncodeParams(v.ps) \o EncodeParam(E(65518, <<65>>)), "server").ok)

\* C03 on the reference decoder
RECURSIVE AllOkProgress(_, _)
AllOkProgress(items, n) ==
    IF items = <<>> THEN TRUE
    ELSE LET it == Head(items) IN
         IF ~it.ok THEN Tail(items) = <<>> /\ it.class \in {FE, PV}
         ELSE it.consumed \in 1..n /\ AllOkProgress(Tail(items), n - it.consumed)
DecoderTotal ==
    v.c = "in_frame" =>
        LET r == DecodeFrame(v.b, v.pt) IN
        /\ (r.ok => /\ r.consumed \in 1..Len(v.b)
                    /\ r.t \in KnownTypes /\ v.pt \in Permitted(r.t)
                    /\ Len(r.x) = Len(Layout(r.t))
                    /\ \A i \in 1..Len(r.x) : FieldOk(Layout(r.t)[i], r.x[i])
                    /\ FieldsValid(r.t, r.x)
                    \* what was decoded re-encodes (minimally) to something that decodes to the same value
                    /\ LET r2 == DecodeFrame(EncodeFrame([t |-> r.t, x |-> r.x]), v.pt) IN r2.ok /\ r2.t = r.t /\ r2.x = r.x)
        /\ (~r.ok => r.class \in {FE, PV})
        /\ AllOkProgress(DecodePayload(v.b, v.pt, 64), Len(v.b))

Inv == FrameRoundTrip /\ FrameSize /\ HdrRoundTrip /\ HdrPacket /\ PrimRoundTrip /\ ParamsRoundTrip /\ DecoderTotal
=============================================================================
