------------------------------- MODULE Wakers -------------------------------
(***************************************************************************)
(* C16 - no wake-up is ever lost.                                          *)
(*                                                                         *)
(* One module for every hand-written waiter / notifier protocol of the     *)
(* stack.  It has two layers.                                              *)
(*                                                                         *)
(* MONITOR (variables cond .. res): the abstract state the property talks  *)
(* about - the guarded condition(s), whether the object was closed, which  *)
(* task is asleep on what, and whether its waker was invoked since its     *)
(* last poll returned.  One action per critical section / public call:     *)
(*   Poll(w)      check + register under one lock (AsyncDeque::poll_pop,   *)
(*                KeysState::poll, Parameters::poll_ready, poll_alloc_sid, *)
(*                Recver::poll_read, DatagramReader::poll_recv ...)        *)
(*   Check(w)     evaluation of the condition OUTSIDE the waker's lock     *)
(*                (Burst's load attempt, ArcCidCell::borrow_cid,           *)
(*                AntiAmplifier::balance) returning the Signals it lacks   *)
(*   Wait(w)      SendWaker::poll_wait_for(signals) - registration; also   *)
(*                the re-poll of a wait_for future                         *)
(*   Drop(w)      the waiting future is dropped                            *)
(*   SetFlag(s) ; Notify(s)   a notifier that makes the condition true and *)
(*                then calls wake_by / wake_all_by as a second step        *)
(*   Set(s)       both under one lock (push_back, set_keys, recv frame...) *)
(*   Touch        a notifier call that does not make the condition true    *)
(*   Close        close / invalid / on_conn_error / retire / abort         *)
(* Every action takes the set W of tasks whose waker was invoked during    *)
(* the call.  W is NOT constrained by the actions: spurious wake-ups,      *)
(* waking on every notify and immediately-ready polls are all legal.  Only *)
(* the invariants NoLostWakeup / CloseWakesAll constrain it.               *)
(*                                                                         *)
(* DESIGNS (variables slot, bits, reg): the two protocol shapes the code   *)
(* uses, written as refinements of the monitor actions that compute W and  *)
(* the poll result from their own state: the Option<Waker>/Vec<Waker> slot *)
(* next to the guarded data, and the SendWaker bitmask of                  *)
(* qbase/src/net/tx.rs.  MC_Wakers model-checks the designs (safety and    *)
(* liveness); Gen_Wakers enumerates call orders; Trace_Wakers validates    *)
(* what the real objects did using the monitor actions only.               *)
(***************************************************************************)
EXTENDS Naturals, FiniteSets, Sequences, TLC

CONSTANTS Waiters,   \* task ids (1..2)
          Sigs       \* condition names; "a" is the one used by single-condition objects

Main == "a"
ASSUME Main \in Sigs
NoOne == 0
ASSUME NoOne \notin Waiters

VARIABLES
    cond,     \* [Sigs -> Nat]  tokens of each guarded condition; s holds iff cond[s] > 0
    owed,     \* [Sigs -> Nat]  SetFlag(s) calls whose Notify(s) has not been issued yet
    closed,   \* the object was closed / failed (permanent)
    ph,       \* [Waiters -> {"idle","need","asleep"}]  need: checked, lacking, not yet registered
    need,     \* [Waiters -> SUBSET Sigs]  what the task lacked at its last check
    woken,    \* [Waiters -> BOOLEAN]  waker invoked since the task's last poll returned
    consume,  \* configuration of the run: a Ready result takes one token
    res,      \* last call and its result
    \* ---- design state
    slot,     \* set of tasks whose waker is stored in the slot (Option<Waker>: at most one)
    bits,     \* [Waiters -> SUBSET AllBits]  SendWaker.state of the task's SendWaker
    reg       \* [Waiters -> BOOLEAN]  SendWaker.waker is Some

mvars == <<cond, owed, closed, ph, need, woken, consume, res>>
dvars == <<slot, bits, reg>>
vars == <<cond, owed, closed, ph, need, woken, consume, res, slot, bits, reg>>

AllBits == Sigs \cup {"rest"}     \* "rest": every Signals bit that is not modelled

-----------------------------------------------------------------------------
(* MONITOR *)

Sat(S) == \E s \in S : cond[s] > 0

MInit(c, c0) ==
    /\ cond = [s \in Sigs |-> IF s = Main THEN c0 ELSE 0]
    /\ owed = [s \in Sigs |-> 0]
    /\ closed = FALSE
    /\ ph = [w \in Waiters |-> "idle"]
    /\ need = [w \in Waiters |-> {}]
    /\ woken = [w \in Waiters |-> FALSE]
    /\ consume = c
    /\ res = [op |-> "init"]

DInit == slot = {} /\ bits = [w \in Waiters |-> {}] /\ reg = [w \in Waiters |-> FALSE]

Reset(c, c0) ==
    /\ cond' = [s \in Sigs |-> IF s = Main THEN c0 ELSE 0]
    /\ owed' = [s \in Sigs |-> 0]
    /\ closed' = FALSE
    /\ ph' = [w \in Waiters |-> "idle"]
    /\ need' = [w \in Waiters |-> {}]
    /\ woken' = [w \in Waiters |-> FALSE]
    /\ consume' = c
    /\ res' = [op |-> "init"]

\* the wakers in W were invoked during this call; p is the task whose poll returns now (or NoOne)
Wk(W, p) == woken' = [u \in Waiters |-> IF u = p THEN u \in W ELSE woken[u] \/ u \in W]

\* what an evaluation of "one of S holds" may answer.  After a close the implementation may still hand out
\* what is left (stream data before EOF) or report the close at once: the property does not say.
Outcomes(S, lacking) ==
    IF closed THEN {"closed"} \cup (IF Sat(S) THEN {"ready"} ELSE {})
    ELSE IF Sat(S) THEN {"ready"} ELSE {lacking}

\* (a "ready" the abstract condition does not justify takes nothing; it is reported by ResultAgrees)
Taken(S, r) ==
    cond' = IF r = "ready" /\ consume
            THEN [s \in Sigs |-> IF s \in S /\ cond[s] > 0 THEN cond[s] - 1 ELSE cond[s]]
            ELSE cond

Poll(w, S, r, W) ==
    /\ r \in {"ready", "pending", "closed"}
    /\ Taken(S, r)
    /\ ph' = [ph EXCEPT ![w] = IF r = "pending" THEN "asleep" ELSE "idle"]
    /\ need' = [need EXCEPT ![w] = S]
    /\ Wk(W, w)
    /\ res' = [op |-> "poll", w |-> w, r |-> r, ok |-> r \in Outcomes(S, "pending")]
    /\ UNCHANGED <<owed, closed, consume>>

Check(w, S, r, W) ==
    /\ r \in {"ready", "need", "closed"}
    /\ Taken(S, r)
    /\ ph' = [ph EXCEPT ![w] = IF r = "need" THEN "need" ELSE "idle"]
    /\ need' = [need EXCEPT ![w] = S]
    /\ Wk(W, NoOne)
    /\ res' = [op |-> "check", w |-> w, r |-> r, ok |-> r \in Outcomes(S, "need")]
    /\ UNCHANGED <<owed, closed, consume>>

\* registration with a SendWaker.  "ready" is always legal (a remembered or stale notification);
\* "pending" puts the task to sleep and is judged by the invariants.
Wait(w, r, W) ==
    /\ ph[w] \in {"need", "asleep"}
    /\ r \in {"pending", "ready"}
    /\ ph' = [ph EXCEPT ![w] = IF r = "pending" THEN "asleep" ELSE "idle"]
    /\ Wk(W, w)
    /\ res' = [op |-> "wait", w |-> w, r |-> r]
    /\ UNCHANGED <<cond, owed, closed, need, consume>>

Drop(w, W) ==
    /\ ph' = [ph EXCEPT ![w] = "idle"]
    /\ Wk(W, NoOne)
    /\ res' = [op |-> "drop", w |-> w]
    /\ UNCHANGED <<cond, owed, closed, need, consume>>

SetFlag(s, k, W) ==
    /\ cond' = IF closed THEN cond ELSE [cond EXCEPT ![s] = @ + k]
    /\ owed' = [owed EXCEPT ![s] = @ + 1]
    /\ Wk(W, NoOne)
    /\ res' = [op |-> "flag", s |-> s]
    /\ UNCHANGED <<closed, ph, need, consume>>

Notify(s, W) ==
    /\ owed[s] > 0
    /\ owed' = [owed EXCEPT ![s] = @ - 1]
    /\ Wk(W, NoOne)
    /\ res' = [op |-> "notify", s |-> s]
    /\ UNCHANGED <<cond, closed, ph, need, consume>>

\* a notifier call made of several critical sections has returned: nothing more is owed by it
NotifierDone(s, W) ==
    /\ owed' = [owed EXCEPT ![s] = 0]
    /\ Wk(W, NoOne)
    /\ res' = [op |-> "ndone", s |-> s]
    /\ UNCHANGED <<cond, closed, ph, need, consume>>

Set(s, k, W) ==
    /\ cond' = IF closed THEN cond ELSE [cond EXCEPT ![s] = @ + k]
    /\ Wk(W, NoOne)
    /\ res' = [op |-> "set", s |-> s]
    /\ UNCHANGED <<owed, closed, ph, need, consume>>

Touch(W) ==
    /\ Wk(W, NoOne)
    /\ res' = [op |-> "touch"]
    /\ UNCHANGED <<cond, owed, closed, ph, need, consume>>

Close(W) ==
    /\ closed' = TRUE
    /\ Wk(W, NoOne)
    /\ res' = [op |-> "close"]
    /\ UNCHANGED <<cond, owed, ph, need, consume>>

-----------------------------------------------------------------------------
(* THE PROPERTY *)

TypeOK ==
    /\ cond \in [Sigs -> Nat] /\ owed \in [Sigs -> Nat] /\ closed \in BOOLEAN
    /\ ph \in [Waiters -> {"idle", "need", "asleep"}]
    /\ need \in [Waiters -> SUBSET Sigs]
    /\ woken \in [Waiters -> BOOLEAN]

\* the task returned Pending and its waker has not been invoked since
Lost(w) == ph[w] = "asleep" /\ ~woken[w]
\* a condition the task sleeps on holds and every notifier that made it hold has finished its notify
Due(w) == \E s \in need[w] : cond[s] > 0 /\ owed[s] = 0
\* another sleeper has been woken and has not polled again yet: it will consume the condition or hand over
\* (wake-one designs are legal; every design of the stack wakes all)
Baton(w) == \E u \in Waiters \ {w} : ph[u] = "asleep" /\ woken[u]

\* safety form of "never sleeps forever on a satisfied condition"
NoLostWakeup == \A w \in Waiters : (Lost(w) /\ ~closed /\ Due(w)) => Baton(w)
\* "closing or failing the underlying object wakes every sleeper"
CloseWakesAll == \A w \in Waiters : closed => ~Lost(w)

\* the answer of a poll / check agrees with the abstract condition: Ready only if it holds, Pending / need only if it
\* does not, the close reported once the object is closed
ResultAgrees == res.op \in {"poll", "check"} => res.ok

Inv == TypeOK /\ ResultAgrees /\ NoLostWakeup /\ CloseWakesAll

\* liveness form, under fair re-polling of woken tasks and completion of started notifies
Holds(w) == closed \/ Sat(need[w])
EventuallyObserves == \A w \in Waiters : (ph[w] = "asleep" /\ Holds(w)) ~> (ph[w] # "asleep" \/ ~Holds(w))

-----------------------------------------------------------------------------
(* DESIGN 1: waker slot next to the guarded data, one lock.                *)
(* multi = FALSE: Option<Waker> (a second task replaces the first - single *)
(* consumer objects); multi = TRUE: Vec<Waker> / VecDeque<Waker>.          *)

SlotResult == IF closed THEN "closed" ELSE IF cond[Main] > 0 THEN "ready" ELSE "pending"

DSlotPoll(w, multi) ==
    LET r == SlotResult IN
    /\ Poll(w, {Main}, r, {})
    /\ slot' = IF r = "pending" THEN (IF multi THEN slot \cup {w} ELSE {w}) ELSE slot
    /\ UNCHANGED <<bits, reg>>

\* push_back / set_keys / recv_datagram / increase_limit: take the waker(s) and wake
DSlotSet(k) ==
    /\ Set(Main, k, IF closed THEN {} ELSE slot)
    /\ slot' = IF closed THEN slot ELSE {}
    /\ UNCHANGED <<bits, reg>>

\* e.g. Recv::recv of out-of-order data: wakes only `if rcvbuf.is_readable()`
DSlotTouch == Touch({}) /\ UNCHANGED dvars

DSlotClose == Close(slot) /\ slot' = {} /\ UNCHANGED <<bits, reg>>

\* dropping the future does not clear the slot: a stale waker stays registered (later wake is spurious)
DSlotDrop(w) == Drop(w, {}) /\ UNCHANGED dvars

-----------------------------------------------------------------------------
(* DESIGN 2: SendWaker (qbase/src/net/tx.rs).  state bit = 1: signalled    *)
(* since the last wait; poll_wait_for(S): if no bit of S is set, state :=  *)
(* ~S, store the waker, Pending; else state := 0, Ready.  wake_by(T): if T *)
(* adds a bit, wake the stored waker (it stays stored); state |= T.        *)
(* The condition itself is checked by the task before, outside this lock.  *)

DSwCheck(w, S) ==
    /\ Check(w, S, IF closed THEN "closed" ELSE IF Sat(S) THEN "ready" ELSE "need", {})
    /\ UNCHANGED dvars

DSwWait(w) ==
    LET S == need[w]
        r == IF bits[w] \cap S = {} THEN "pending" ELSE "ready" IN
    /\ Wait(w, r, {})
    /\ bits' = [bits EXCEPT ![w] = IF r = "pending" THEN AllBits \ S ELSE {}]
    /\ reg' = [reg EXCEPT ![w] = @ \/ r = "pending"]
    /\ UNCHANGED slot

\* tasks whose stored waker wake_by({s}) invokes, among the SendWakers in M
SwWoken(s, M) == {u \in M : reg[u] /\ s \notin bits[u]}
SwMark(s, M) == bits' = [u \in Waiters |-> IF u \in M THEN bits[u] \cup {s} ELSE bits[u]]

DSwSetFlag(s) == SetFlag(s, 1, {}) /\ UNCHANGED dvars

\* ArcSendWakers::wake_all_by(s): every path's SendWaker
DSwNotify(s) == Notify(s, SwWoken(s, Waiters)) /\ SwMark(s, Waiters) /\ UNCHANGED <<slot, reg>>

DSwDrop(w) == ph[w] \in {"need", "asleep"} /\ Drop(w, {}) /\ UNCHANGED dvars

(* Composite: the object stores the task's ArcSendWaker when its check fails (ArcCidCell::borrow_cid:    *)
(* `self.waker = Some(tx_waker)`), and its notifier calls wake_by on the stored ones under the object's  *)
(* lock (assign / retire).                                                                               *)
DCellCheck(w) ==
    LET r == IF closed THEN "closed" ELSE IF cond[Main] > 0 THEN "ready" ELSE "need" IN
    /\ Check(w, {Main}, r, {})
    /\ slot' = IF r = "need" THEN {w} ELSE slot
    /\ UNCHANGED <<bits, reg>>

DCellSet ==
    /\ Set(Main, 1, IF closed THEN {} ELSE SwWoken(Main, slot))
    /\ IF closed THEN UNCHANGED <<bits, slot>> ELSE SwMark(Main, slot) /\ slot' = {}
    /\ UNCHANGED reg

DCellClose ==
    /\ Close(SwWoken(Main, slot))
    /\ SwMark(Main, slot) /\ slot' = {}
    /\ UNCHANGED reg
=============================================================================
