---------------------------- MODULE MC_PacketProt ----------------------------
(* Exhaustive check of the 1-RTT key-phase machine of OneRttPacketKeys against the judge of PacketProt:
   a sender that follows RFC 9001 6.1/6.5, a network that reorders / loses, and an attacker that injects
   tampered copies with ANY key-phase bit and any packet number, or packets under foreign keys.
   Policy = "rfc":      the receiver calls phase_out() once a packet under its current keys authenticated, and the
                        sender waits with its next update until the receiver dropped the previous read key
                        (RFC 9001 6.5 "SHOULD wait three times the PTO").  GenuineAccepted must hold for every generation.
   Policy = "deployed": nothing ever calls phase_out() (as in the repository): GenuineAccepted is only claimed for
                        generations 0 and 1; the recorded traces show what happens beyond. *)
EXTENDS PacketProt, TLC
CONSTANTS MaxGen, MaxPn, Policy
VARIABLES net, spn
mcvars == <<vars, net, spn>>

Pkt(g, n, t, k) == [sp |-> "onertt", gen |-> g, pn |-> n, plen |-> 2, tamper |-> t, keys |-> k]
LongPkt(s, n, t, k) == [sp |-> s, gen |-> 0, pn |-> n, plen |-> 2, tamper |-> t, keys |-> k]
Retains(g) == g >= 0 /\ \E b \in {0, 1} : slot[b] = g

MCInit == Init /\ net = {} /\ spn = 0
DoSend == /\ spn < MaxPn /\ Cardinality(net) < 2
          /\ net' = net \cup {[gen |-> sgen, pn |-> spn]} /\ spn' = spn + 1 /\ UNCHANGED vars
DoDeliver == \E q \in net : Recv(Pkt(q.gen, q.pn, "none", "same"), Phase(q.gen)) /\ net' = net \ {q} /\ UNCHANGED spn
DoLose == \E q \in net : net' = net \ {q} /\ UNCHANGED <<vars, spn>>
\* a tampered copy: the attacker controls the wire, so the unmasked key-phase bit may be anything
DoForge == \E g \in 0..sgen : \E n \in {0, spn} : \E kp \in {0, 1} :
              Recv(Pkt(g, n, "payload", "same"), kp) /\ UNCHANGED <<net, spn>>
DoForeign == \E q \in net : \E kp \in {0, 1} : Recv(Pkt(q.gen, q.pn, "none", "other"), kp) /\ UNCHANGED <<net, spn>>
\* long-header packets have fixed keys; they do not touch the key-phase machine
DoLong == spn = 0 /\ \E s \in {"initial", "handshake", "zerortt"} : \E t \in {"none", "payload", "extend1"} : \E k \in {"same", "other"} :
              Recv(LongPkt(s, 0, t, k), 0) /\ UNCHANGED <<net, spn>>
DoUpdate == /\ sgen < MaxGen /\ sconf
            /\ Policy = "rfc" => ~Retains(sgen - 1)
            /\ SenderUpdate /\ UNCHANGED <<net, spn>>
DoPhaseOut == /\ Policy = "rfc" /\ auth = cur /\ slot[1 - Phase(cur)] # NoKey
              /\ PhaseOut /\ UNCHANGED <<net, spn>>
MCNext == DoSend \/ DoDeliver \/ DoLose \/ DoForge \/ DoForeign \/ DoLong \/ DoUpdate \/ DoPhaseOut

GenuineAcceptedMC ==
    IF Policy = "rfc" THEN GenuineAccepted ELSE (res.gen <= 1 => GenuineAccepted)
MCInv == Inv /\ Shape /\ GenuineAcceptedMC
\* non-vacuity witnesses (checked to be REACHABLE by the check script through separate runs with these as invariants negated)
View == mcvars
=============================================================================
