------------------------------ MODULE SendBuf ------------------------------
(***************************************************************************)
(* The send buffer of a stream / crypto stream                             *)
(* (qrecovery/src/send/sndbuf.rs: SendBuf + BufMap).                        *)
(*                                                                         *)
(* Abstract state: how many bytes the application wrote, the peer's window *)
(* and ONE COLOUR PER BYTE inside min(written, window):                    *)
(*   "P" pending (never offered)   "F" in flight                           *)
(*   "L" declared lost             "R" acknowledged                        *)
(* One action per public method (each is one critical section of the       *)
(* enclosing Mutex<Sender>):                                               *)
(*   Write      SendBuf::write            Extend  SendBuf::extend           *)
(*   Pick       SendBuf::pick_up          Ack     SendBuf::on_data_acked    *)
(*   Loss       SendBuf::may_loss_data    Resend  SendBuf::resend_flighting *)
(*   Forget     SendBuf::forget_sent_state                                  *)
(* The length of a picked range is deliberately left open (any non-empty   *)
(* prefix of the same-colour run that respects the limits): C09 does not   *)
(* prescribe it.  Its START is prescribed by the code's documented policy   *)
(* (lowest sendable offset first) and is part of the property "lost bytes   *)
(* are offered again" (nothing sendable may be skipped for ever).           *)
(***************************************************************************)
EXTENDS Naturals, Sequences, FiniteSets

VARIABLES
    written,   \* total number of bytes handed to write()
    max,       \* peer's window (max_data)
    col,       \* [0..Size-1 -> {"P","F","L","R"}]
    base,      \* first byte whose value is still retained (SendBuf::offset)
    picks,     \* sequence of <<start, end, fin>>-less ranges <<a,b>> ever returned by Pick
    offered,   \* set of byte positions ever offered since the last Forget
    res        \* result of the last call (observable), a record

vars == <<written, max, col, base, picks, offered, res>>

Min(a, b) == IF a < b THEN a ELSE b
Colours == {"P", "F", "L", "R"}

Size == Min(written, max)                   \* BufMap::size()
SizeOf(w, m) == Min(w, m)

\* extend the colour map with pending bytes up to n
Grow(c, n) == [i \in 0..(n-1) |-> IF i \in DOMAIN c THEN c[i] ELSE "P"]

Sent == IF \E i \in DOMAIN col : col[i] = "P"
        THEN CHOOSE i \in DOMAIN col : col[i] = "P" /\ \A j \in DOMAIN col : col[j] = "P" => i <= j
        ELSE Size

FirstNotR(c, n) ==
    IF \E i \in DOMAIN c : c[i] # "R"
    THEN CHOOSE i \in DOMAIN c : c[i] # "R" /\ \A j \in DOMAIN c : c[j] # "R" => i <= j
    ELSE n

AllRcvd == \A i \in 0..(written-1) : i \in DOMAIN col /\ col[i] = "R"

Init ==
    /\ written = 0 /\ max \in Nat /\ col = [i \in {} |-> "P"] /\ base = 0
    /\ picks = <<>> /\ offered = {} /\ res = [op |-> "init"]

InitWith(m) ==
    /\ written = 0 /\ max = m /\ col = [i \in {} |-> "P"] /\ base = 0
    /\ picks = <<>> /\ offered = {} /\ res = [op |-> "init"]

\* a fresh buffer (SendBuf::with_capacity(m)); used by trace validation to chain runs
Reset(m) ==
    /\ written' = 0 /\ max' = m /\ col' = [i \in {} |-> "P"] /\ base' = 0
    /\ picks' = <<>> /\ offered' = {} /\ res' = [op |-> "init"]

-----------------------------------------------------------------------------
Write(n) ==
    /\ n > 0
    /\ written' = written + n
    /\ col' = Grow(col, SizeOf(written + n, max))
    /\ res' = [op |-> "write"]
    /\ UNCHANGED <<max, base, picks, offered>>

Extend(m) ==
    /\ m >= max
    /\ max' = m
    /\ col' = Grow(col, SizeOf(written, m))
    /\ res' = [op |-> "extend"]
    /\ UNCHANGED <<written, base, picks, offered>>

\* bytes the buffer may offer now
Sendable(flow) == {i \in DOMAIN col : col[i] = "L" \/ (col[i] = "P" /\ flow > 0)}

PickStart(flow) == CHOOSE i \in Sendable(flow) : \A j \in Sendable(flow) : i <= j

RunEnd(s) ==   \* end (exclusive) of the maximal same-colour run starting at s
    CHOOSE e \in (s+1)..Size :
        /\ \A j \in s..(e-1) : col[j] = col[s]
        /\ (e = Size \/ col[e] # col[s])

PickMaxLen(limit, flow) ==
    LET s == PickStart(flow)
        lim == IF col[s] = "L" THEN limit ELSE Min(limit, flow)
    IN Min(lim, RunEnd(s) - s)

\* limit >= 1 : predicate returned Some(limit)
Pick(limit, flow, len) ==
    /\ limit >= 1
    /\ Sendable(flow) # {}
    /\ LET s == PickStart(flow) IN
        /\ len \in 1..PickMaxLen(limit, flow)
        /\ col' = [i \in DOMAIN col |-> IF i >= s /\ i < s + len THEN "F" ELSE col[i]]
        /\ picks' = Append(picks, <<s, s + len>>)
        /\ offered' = offered \cup (s..(s+len-1))
        /\ res' = [op |-> "pick", ok |-> TRUE, start |-> s, end |-> s + len,
                   fresh |-> (col[s] = "P")]
    /\ UNCHANGED <<written, max, base>>

PickNothing(limit, flow) ==     \* Err(signals): nothing sendable
    /\ limit >= 1
    /\ Sendable(flow) = {}
    /\ res' = [op |-> "pick", ok |-> FALSE]
    /\ UNCHANGED <<written, max, col, base, picks, offered>>

PickCongested(flow) ==          \* predicate returned None
    /\ res' = [op |-> "pick", ok |-> FALSE]
    /\ UNCHANGED <<written, max, col, base, picks, offered>>

\* acknowledge a range that was previously picked (a frame is acked as a whole)
Ack(k) ==
    /\ k \in 1..Len(picks)
    /\ LET a == picks[k][1]
           b == picks[k][2]
           c2 == [i \in DOMAIN col |-> IF i >= a /\ i < b THEN "R" ELSE col[i]]
       IN /\ col' = c2
          /\ base' = IF FirstNotR(c2, Size) > base THEN FirstNotR(c2, Size) ELSE base
    /\ res' = [op |-> "ack"]
    /\ UNCHANGED <<written, max, picks, offered>>

Loss(k) ==
    /\ k \in 1..Len(picks)
    /\ LET a == picks[k][1]
           b == picks[k][2]
       IN col' = [i \in DOMAIN col |->
                    IF i >= a /\ i < b /\ col[i] = "F" THEN "L" ELSE col[i]]
    /\ res' = [op |-> "loss"]
    /\ UNCHANGED <<written, max, base, picks, offered>>

Resend ==
    /\ col' = [i \in DOMAIN col |-> IF col[i] = "F" THEN "L" ELSE col[i]]
    /\ res' = [op |-> "resend"]
    /\ UNCHANGED <<written, max, base, picks, offered>>

\* 0-RTT rejected: forget everything that was sent.  Environment assumption:
\* nothing sent in 0-RTT can have been acknowledged.
Forget ==
    /\ \A i \in DOMAIN col : col[i] # "R"
    /\ col' = [i \in {} |-> "P"]
    /\ max' = 0
    /\ picks' = <<>>
    /\ offered' = {}
    /\ res' = [op |-> "forget"]
    /\ UNCHANGED <<written, base>>

-----------------------------------------------------------------------------
(* Properties of C09 *)

TypeOK ==
    /\ written \in Nat /\ max \in Nat /\ base \in Nat
    /\ DOMAIN col = 0..(Size-1)
    /\ \A i \in DOMAIN col : col[i] \in Colours

\* Every byte not yet acknowledged keeps its value (is at or after the retention base)
KeepUnacked == \A i \in 0..(written-1) : (i \notin DOMAIN col \/ col[i] # "R") => base <= i

\* "counted as new exactly the first time": pending <=> never offered
FreshExactlyOnce == \A i \in DOMAIN col : (col[i] = "P") <=> (i \notin offered)

\* pending bytes form a suffix, offered bytes a prefix
PendingIsSuffix == \A i, j \in DOMAIN col : (i < j /\ col[i] = "P") => col[j] = "P"

\* nothing outside the window is ever offered
OfferedInsideWindow == \A i \in offered : i < Size

\* ranges returned by Pick were entirely pending or entirely lost at that moment, and are now in flight:
\* expressed as an action property on Pick steps
PickOnlyPendingOrLost ==
    [][ (res'.op = "pick" /\ res'.ok /\ picks' # picks) =>
          /\ \A i \in res'.start..(res'.end-1) : col[i] \in {"P","L"} /\ col'[i] = "F"
          /\ res'.fresh = (col[res'.start] = "P")
          /\ res'.end <= Size ]_vars

Inv == TypeOK /\ KeepUnacked /\ FreshExactlyOnce /\ PendingIsSuffix /\ OfferedInsideWindow
=============================================================================
