--------------------------- MODULE MC_SentJournal ---------------------------
EXTENDS SentJournal, TLC
CONSTANTS MaxPn, MaxNow, NFrames, RTs, ETs, Ticks
DoSend == \E n \in NFrames, tr \in BOOLEAN, rt \in RTs, et \in ETs : NextPn < MaxPn /\ Send(n, tr, rt, et)
DoAbandon == Abandon
DoRotBegin == RotBegin
DoLargest == \E L \in 0..(MaxPn + 1), ok \in BOOLEAN : UpdateLargest(L, ok)
DoAck == \E p \in 0..MaxPn : Ack(p)
DoLoss == \E p \in 0..MaxPn : Loss(p)
DoFastRetx == FastRetx
DoRotEnd == RotEnd
DoTick == \E d \in Ticks : now + d <= MaxNow /\ Tick(d)
MCNext == DoSend \/ DoAbandon \/ DoRotBegin \/ DoLargest \/ DoAck \/ DoLoss \/ DoFastRetx \/ DoRotEnd \/ DoTick
View == <<now, off, pk, lack, mode>>
=============================================================================
