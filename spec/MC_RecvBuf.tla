---------------------------- MODULE MC_RecvBuf ----------------------------
EXTENDS RecvBuf, TLC
CONSTANTS N, Reads
DoRecv == \E off \in 0..N : \E len \in 0..(N - off) : Recv(off, len)
DoRead == \E k \in Reads : Read(k)
DoNext == \E m \in 0..N : Next(m)
MCNext == DoRecv \/ DoRead \/ DoNext
MCSpec == Init /\ [][MCNext]_vars /\ WF_vars(DoRead /\ nread' # nread)
\* once every byte of the stream has arrived, a reader that keeps reading gets all of it
AllEventuallyRead == ((0..(N-1)) \subseteq arrived) ~> (nread = N)
=============================================================================
