----------------------------- MODULE LocalCids -----------------------------
(***************************************************************************)
(* Connection IDs this endpoint issues, on a router shared by several      *)
(* connections (qbase/src/cid/local_cid.rs: ArcLocalCids over               *)
(* qinterface/src/component/route.rs: QuicRouter, QuicRouterRegistry,       *)
(* QuicRouterEntry).  One action per lock-protected method.                  *)
(* A signpost is <<c, seq>> for the id number seq of connection c, or a      *)
(* shared one (an original destination id several connections may claim).    *)
(***************************************************************************)
EXTENDS Naturals, Sequences, FiniteSets

CONSTANTS Conns, Shared      \* connections; shared signposts
NoConn == "none"

VARIABLES
    lc,       \* per connection: st, off (lowest unretired number), next, act (unretired numbers), limit (0 = not set)
    table,    \* routing table: signpost -> connection | NoConn
    entries,  \* live QuicRouterEntry objects: records [c, sp, n] (n = insertion stamp)
    stamp,    \* insertion counter
    owner,    \* per shared signpost: stamp of the entry that currently owns the route (0 = none)
    res

vars == <<lc, table, entries, stamp, owner, res>>

Signposts == (Conns \X (0..20)) \cup Shared
Max(a, b) == IF a > b THEN a ELSE b
MinOf(S) == CHOOSE m \in S : \A x \in S : m <= x

Fresh == [st |-> "none", off |-> 0, next |-> 0, act |-> {}, limit |-> 0]
Init == /\ lc = [c \in Conns |-> Fresh]
        /\ table = [s \in {} |-> NoConn]
        /\ entries = {} /\ stamp = 0 /\ owner = [s \in Shared |-> 0]
        /\ res = [op |-> "init"]
Reset == /\ lc' = [c \in Conns |-> Fresh]
         /\ table' = [s \in {} |-> NoConn]
         /\ entries' = {} /\ stamp' = 0 /\ owner' = [s \in Shared |-> 0]
         /\ res' = [op |-> "init"]

Route(t, sp) == IF sp \in DOMAIN t THEN t[sp] ELSE NoConn
With(t, sp, c) == [s \in DOMAIN t \cup {sp} |-> IF s = sp THEN c ELSE t[s]]
Without(t, sps) == [s \in DOMAIN t \ sps |-> t[s]]

\* issue ids next .. upTo-1, each NEW_CONNECTION_ID frame carries retire_prior_to = off
IssueFrames(from, upTo, off) == [i \in 1..(IF upTo > from THEN upTo - from ELSE 0) |-> <<from + i - 1, off>>]

\* a connection is built: its initial source id (number 0) is registered by the builder through a
\* QuicRouterEntry, ArcLocalCids::new issues number 1 at once
Create(c) ==
    /\ lc[c].st = "none"
    /\ lc' = [lc EXCEPT ![c] = [st |-> "live", off |-> 0, next |-> 2, act |-> {0, 1}, limit |-> 0]]
    /\ table' = With(With(table, <<c, 0>>, c), <<c, 1>>, c)
    /\ stamp' = stamp + 1
    /\ entries' = entries \cup {[c |-> c, sp |-> <<c, 0>>, n |-> stamp + 1]}
    /\ res' = [op |-> "create", frames |-> << <<1, 0>> >>, ok |-> TRUE]
    /\ UNCHANGED owner

\* the peer's active_connection_id_limit becomes known
SetLimit(c, L) ==
    /\ lc[c].st = "live" /\ lc[c].limit = 0
    /\ IF L < 2
       THEN /\ res' = [op |-> "setlimit", frames |-> <<>>, ok |-> FALSE]
            /\ UNCHANGED <<lc, table>>
       ELSE LET fr == IssueFrames(lc[c].next, L, lc[c].off)
                newSeqs == {fr[i][1] : i \in DOMAIN fr}
            IN /\ lc' = [lc EXCEPT ![c].limit = L, ![c].next = Max(@, L), ![c].act = @ \cup newSeqs]
               /\ table' = [s \in DOMAIN table \cup {<<c, q>> : q \in newSeqs} |->
                               IF s \in {<<c, q>> : q \in newSeqs} THEN c ELSE table[s]]
               /\ res' = [op |-> "setlimit", frames |-> fr, ok |-> TRUE]
    /\ UNCHANGED <<entries, stamp, owner>>

\* RETIRE_CONNECTION_ID from the peer
RecvRetire(c, seq) ==
    /\ lc[c].st = "live"
    /\ IF seq >= lc[c].next
       THEN /\ res' = [op |-> "retire", frames |-> <<>>, ok |-> FALSE]     \* never issued: rejected
            /\ UNCHANGED <<lc, table>>
       ELSE IF seq \in lc[c].act
       THEN LET act1 == lc[c].act \ {seq}
                off1 == IF act1 = {} THEN lc[c].next ELSE MinOf(act1)
                new == lc[c].next
            IN /\ lc' = [lc EXCEPT ![c].act = act1 \cup {new}, ![c].off = off1, ![c].next = new + 1]
               /\ table' = With(Without(table, {<<c, seq>>}), <<c, new>>, c)
               /\ res' = [op |-> "retire", frames |-> << <<new, off1>> >>, ok |-> TRUE]   \* one replacement
       ELSE /\ res' = [op |-> "retire", frames |-> <<>>, ok |-> TRUE]      \* duplicate: ignored
            /\ UNCHANGED <<lc, table>>
    /\ UNCHANGED <<entries, stamp, owner>>

\* the connection goes away: every id stops being routed, its router entries are dropped
Drop(c) ==
    /\ lc[c].st = "live"
    /\ LET mine == {e \in entries : e.c = c}
           sharedGone == {s \in Shared : \E e \in mine : e.sp = s /\ owner[s] = e.n}
       IN /\ table' = Without(table, {<<c, q>> : q \in lc[c].act} \cup {<<c, 0>>} \cup sharedGone)
          /\ entries' = entries \ mine
          /\ owner' = [s \in Shared |-> IF s \in sharedGone THEN 0 ELSE owner[s]]
    /\ lc' = [lc EXCEPT ![c].st = "dead", ![c].act = {}, ![c].off = lc[c].next]
    /\ res' = [op |-> "drop", frames |-> <<>>, ok |-> TRUE]
    /\ UNCHANGED stamp

\* QuicRouter::insert of a shared signpost (e.g. the original destination id): the newest claim owns the route
Claim(c, s) ==
    /\ lc[c].st = "live" /\ s \in Shared
    /\ table' = With(table, s, c)
    /\ stamp' = stamp + 1
    /\ entries' = entries \cup {[c |-> c, sp |-> s, n |-> stamp + 1]}
    /\ owner' = [owner EXCEPT ![s] = stamp + 1]
    /\ res' = [op |-> "claim", frames |-> <<>>, ok |-> TRUE]
    /\ UNCHANGED lc

\* dropping one QuicRouterEntry removes the route only if that entry still owns it
Unclaim(c, s) ==
    /\ \E e \in entries : e.c = c /\ e.sp = s
    /\ LET e == CHOOSE x \in entries : x.c = c /\ x.sp = s /\ \A y \in entries : (y.c = c /\ y.sp = s) => y.n <= x.n
       IN /\ entries' = {x \in entries : ~(x.c = c /\ x.sp = s)}
          /\ IF owner[s] \in {x.n : x \in {y \in entries : y.c = c /\ y.sp = s}}
             THEN table' = Without(table, {s}) /\ owner' = [owner EXCEPT ![s] = 0]
             ELSE UNCHANGED <<table, owner>>
    /\ res' = [op |-> "unclaim", frames |-> <<>>, ok |-> TRUE]
    /\ UNCHANGED <<lc, stamp>>

-----------------------------------------------------------------------------
(* C14, local side *)
Live(c) == lc[c].st = "live"
\* never more unretired ids than the peer allows (2 until the limit is known)
ActiveWithinLimit == \A c \in Conns : Live(c) => Cardinality(lc[c].act) <= Max(2, lc[c].limit)
\* every live id routes to exactly its own connection, nothing else of that connection is routed
RouteExactlyLive ==
    \A c \in Conns : \A q \in 0..20 :
        Route(table, <<c, q>>) = (IF Live(c) /\ q \in lc[c].act THEN c ELSE NoConn)
\* a shared signpost is routed to the connection of its newest live claim
SharedRoute ==
    \A s \in Shared : IF owner[s] = 0 THEN Route(table, s) = NoConn
                      ELSE \E e \in entries : e.n = owner[s] /\ e.sp = s /\ Route(table, s) = e.c
\* ids are numbered consecutively, one replacement per first retirement
Consecutive ==
    [][ res'.op = "init" \/ \A c \in Conns :
          (lc'[c].next # lc[c].next /\ lc[c].st = "live") =>
             /\ lc'[c].next = lc[c].next + Len(res'.frames)
             /\ \A i \in DOMAIN res'.frames : res'.frames[i][1] = lc[c].next + i - 1 ]_vars
TypeOK == \A c \in Conns : lc[c].st \in {"none", "live", "dead"}
Inv == TypeOK /\ ActiveWithinLimit /\ RouteExactlyLive /\ SharedRoute
=============================================================================
