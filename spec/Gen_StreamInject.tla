-------------------------- MODULE Gen_StreamInject --------------------------
(* spec -> impl, hostile frames: after every environment schedule of at most InjDepth steps that left something at the
   receiver (data or a known final size), the peer sends ONE frame its code would never produce — a STREAM frame at any small
   offset / length with or without FIN (final-size contradictions, data beyond the final size, FIN below what was read), or
   a RESET_STREAM with any small final size (below the highest offset received, different from the known final size).
   The verdict of the real endpoint (ok / FINAL_SIZE_ERROR / FLOW_CONTROL_ERROR ...) is judged by Stream.tla's Deliver. *)
EXTENDS Gen_Stream
CONSTANT InjDepth
VARIABLE inj
StreamInj == {[t |-> "stream", sid |-> SID, off |-> o, len |-> l, fin |-> f] : o \in 0..MaxLen, l \in {0, 1}, f \in BOOLEAN} \ 
             {[t |-> "stream", sid |-> SID, off |-> o, len |-> 0, fin |-> FALSE] : o \in 0..MaxLen}
ResetInj == {[t |-> "reset", sid |-> SID, final |-> n] : n \in 0..(MaxLen + 1)}
InjInit == GenInit /\ inj = FALSE
Worth == have # {} \/ finalSize >= 0
InjNext ==
    \/ ~inj /\ nsteps < InjDepth /\ GenNextBody /\ UNCHANGED inj
    \/ ~inj /\ Worth /\ inj' = TRUE
       /\ \E x \in StreamInj \cup ResetInj : hist' = Append(hist, <<"inject", S, x>>)
       /\ UNCHANGED <<m, written, shut, col, finst, net, nextId, have, finalSize, nread, eos, losses, limbo, nsteps>>
EmitInj == inj => PrintT(<<"GEN", ToJson(hist)>>)
=============================================================================
