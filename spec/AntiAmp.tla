------------------------------ MODULE AntiAmp ------------------------------
(***************************************************************************)
(* The anti-amplification budget of one unvalidated path                    *)
(* (qconnection/src/path/aa.rs AntiAmplifier, qbase/src/net/tx.rs SendWaker, *)
(* qconnection/src/path/util.rs Constraints, qconnection/src/path/burst.rs   *)
(* Burst::burst / load_spaces, qconnection/src/path.rs Path::send_packets /  *)
(* on_packet_rcvd / grant_anti_amplification).                              *)
(*                                                                          *)
(* AntiAmplifier is lock free: every public call is a short program of       *)
(* atomic loads / read-modify-writes plus one SendWaker critical section.    *)
(* `Step` below is ONE atomic operation of such a program; it is the single   *)
(* source of truth used                                                      *)
(*   - one step at a time by the tasks of the interleaving model (receive    *)
(*     path, validation/control path, the burst task), so that TLC explores   *)
(*     every race, and                                                       *)
(*   - run to completion (`DoCall`) for the call-granularity binding to the   *)
(*     real object.                                                          *)
(* The abstract credit is an integer: a value below zero is what the        *)
(* implementation's unsigned counter holds after wrapping around (read back  *)
(* as an enormous allowance).                                                *)
(*                                                                          *)
(* The three places where the code deviates from the budget discipline are   *)
(* NAMED constants, so the same module describes the discipline the          *)
(* property asks for (all FALSE) and the code as written (all TRUE).          *)
(***************************************************************************)
EXTENDS Integers, Sequences, FiniteSets

CONSTANTS
    N,                  \* amplification factor (DEFAULT_ANTI_FACTOR = 3)
    MTU,                \* size of a full datagram buffer handed to load_spaces
    MaxSeg,             \* interface.max_segments(): datagrams per burst
    RereadPerSegment,   \* TRUE (code): every segment of a burst is limited by a fresh balance(), nothing is debited in between
    PadBeyondCredit,    \* TRUE (code): an Initial-bearing datagram is padded to MTU regardless of the credit limit
    WrapOnOverdraft     \* TRUE (code): on_sent is a plain fetch_sub

VARIABLES
    credit,     \* AntiAmplifier.credit (abstract integer; < 0 = wrapped)
    state,      \* AntiAmplifier.state
    wbit,       \* SendWaker.state has the CREDIT bit set ("condition met")
    wreg,       \* SendWaker.waker is Some (set by the first Pending poll, never cleared)
    wakes,      \* ghost: number of Waker::wake_by_ref calls so far
    asleep,     \* ghost: the last poll of wait_for(CREDIT) returned Pending and no wake-up has been issued since
    badwake,    \* ghost: a notifier (on_rcvd of new bytes, grant, abort) woke a parked burst task at a moment at which
                \*        balance() would still have answered Err(CREDIT): the wake-up came before the state change
    rcvd,       \* ghost: bytes received from the peer address on this path
    sent,       \* ghost: bytes handed to the IO sender for this path
    disc,       \* ghost: every on_sent so far reported at most the balance read before it (disciplined caller)
    cons,       \* Constraints {cl: credit_limit, sq: send_quota} of the datagram being assembled
    task,       \* interleaving model: the call each task is executing (record, see Call)
    sp,         \* interleaving model: the burst task's program state
    res         \* result of the last completed call (call-granularity binding)

vars == <<credit, state, wbit, wreg, wakes, asleep, badwake, rcvd, sent, disc, cons, task, sp, res>>

NORMAL == 0
GRANTED == 1
ABORTED == 2
Big == 1073741824            \* stands for usize::MAX and every other "effectively unlimited" amount
Huge(x) == x > 536870912
Max(a, b) == IF a > b THEN a ELSE b
Min(a, b) == IF a < b THEN a ELSE b
RECURSIVE Sum(_)
Sum(s) == IF s = <<>> THEN 0 ELSE Head(s) + Sum(Tail(s))

-----------------------------------------------------------------------------
(* shared implementation state as a record, so that steps are functions *)
Shared == [credit |-> credit, state |-> state, wbit |-> wbit, wreg |-> wreg, wakes |-> wakes, asleep |-> asleep, badwake |-> badwake]
Install(sh) ==
    /\ credit' = sh.credit /\ state' = sh.state /\ wbit' = sh.wbit
    /\ wreg' = sh.wreg /\ wakes' = sh.wakes /\ asleep' = sh.asleep /\ badwake' = sh.badwake

NoRet == [r |-> "unit", v |-> 0]
RetMax == [r |-> "max", v |-> 0]          \* Ok(Some(usize::MAX))
RetNone == [r |-> "none", v |-> 0]        \* Ok(None): the path is dead
RetWait == [r |-> "wait", v |-> 0]        \* Err(Signals::CREDIT)
RetCredit(c) == [r |-> "credit", v |-> c] \* Ok(Some(credit))
Unread == [r |-> "unread", v |-> 0]       \* the caller holds no balance (none read since the last on_sent)
Idle == [pc |-> "done", a |-> 0, w |-> FALSE, x |-> 0, ret |-> NoRet]
Call(pc0, a, w) == [pc |-> pc0, a |-> a, w |-> w, x |-> 0, ret |-> NoRet]

\* SendWaker::wake_by(CREDIT) -- one critical section of the SendWaker mutex
\* `changed`: the caller is a notifier that has (or should have) just made budget available and the burst task cannot have
\* used it up in the meantime (it was parked when the change was made, or no change was made yet).  The woken task may run at once
\* (another worker thread): what it finds is the state at THIS moment, so the state change must precede the wake-up.
Blocked(sh) == sh.state = NORMAL /\ sh.credit = 0          \* balance() would answer Err(CREDIT)
WakeBy(sh, changed) ==
    LET fire == ~sh.wbit /\ sh.wreg IN
    [sh EXCEPT !.wbit = TRUE, !.wakes = IF fire THEN @ + 1 ELSE @, !.asleep = IF fire THEN FALSE ELSE @,
               !.badwake = @ \/ (fire /\ sh.asleep /\ changed /\ Blocked(sh))]

\* ONE atomic operation of the call c on the shared state sh; k = [c, sh]
Step(k) ==
    LET c == k.c  sh == k.sh  Done(r) == [Idle EXCEPT !.ret = r] IN
    CASE \* ---- on_rcvd(a): load state; fetch_add(a * N); wake_by(CREDIT)
         c.pc = "r_load"   -> [c |-> IF sh.state = NORMAL THEN [c EXCEPT !.pc = "r_add"] ELSE Done(NoRet), sh |-> sh]
      [] c.pc = "r_add"    -> [c |-> [c EXCEPT !.pc = "r_wake", !.x = IF sh.asleep THEN 1 ELSE 2],     \* x = 2: the burst task was running
                               sh |-> [sh EXCEPT !.credit = @ + N * c.a]]                            \* and may consume the credit itself
      [] c.pc = "r_wake"   -> [c |-> Done(NoRet), sh |-> WakeBy(sh, c.a > 0 /\ c.x # 2)]
         \* ---- balance(): load state; load credit; (credit = 0) load state again; (changed) wake_by
      [] c.pc = "b_load"   -> [c |-> IF sh.state = GRANTED THEN Done(RetMax)
                                      ELSE IF sh.state = ABORTED THEN Done(RetNone)
                                      ELSE [c EXCEPT !.pc = "b_credit"], sh |-> sh]
      [] c.pc = "b_credit" -> [c |-> IF sh.credit # 0 THEN Done(RetCredit(sh.credit)) ELSE [c EXCEPT !.pc = "b_reload"], sh |-> sh]
      [] c.pc = "b_reload" -> [c |-> IF sh.state = NORMAL THEN Done(RetWait) ELSE [c EXCEPT !.pc = "b_wake", !.x = sh.state], sh |-> sh]
      [] c.pc = "b_wake"   -> [c |-> Done(IF c.x = GRANTED THEN RetMax ELSE RetNone), sh |-> WakeBy(sh, FALSE)]
         \* ---- on_sent(a): load state; (NORMAL) fetch_sub(a)   [c.w: the subtraction wraps instead of saturating]
      [] c.pc = "s_load"   -> [c |-> IF sh.state = NORMAL THEN [c EXCEPT !.pc = "s_sub"] ELSE Done(NoRet), sh |-> sh]
      [] c.pc = "s_sub"    -> [c |-> Done(NoRet), sh |-> [sh EXCEPT !.credit = IF c.w THEN @ - c.a ELSE Max(@ - c.a, 0)]]
         \* ---- grant() / abort(): compare_exchange(NORMAL -> x); (success) wake_by
      [] c.pc = "g_cas"    -> IF sh.state = NORMAL THEN [c |-> [c EXCEPT !.pc = "g_wake"], sh |-> [sh EXCEPT !.state = GRANTED]]
                              ELSE [c |-> Done(NoRet), sh |-> sh]
      [] c.pc = "a_cas"    -> IF sh.state = NORMAL THEN [c |-> [c EXCEPT !.pc = "g_wake"], sh |-> [sh EXCEPT !.state = ABORTED]]
                              ELSE [c |-> Done(NoRet), sh |-> sh]
      [] c.pc = "g_wake"   -> [c |-> Done(NoRet), sh |-> WakeBy(sh, TRUE)]
         \* ---- SendWaker::poll_wait_for(CREDIT): one critical section
      [] c.pc = "w_poll"   -> IF sh.wbit THEN [c |-> Done([r |-> "ready", v |-> 0]), sh |-> [sh EXCEPT !.wbit = FALSE, !.asleep = FALSE]]
                              ELSE [c |-> Done([r |-> "pending", v |-> 0]), sh |-> [sh EXCEPT !.wreg = TRUE, !.asleep = TRUE]]
      [] OTHER -> k

\* a whole call without interleaving (no program is longer than 4 steps; Step is the identity on a finished call).
\* The intermediate configurations are bound by quantifiers so that TLC evaluates each of them once.
Final(pc0, a, w) == CHOOSE k4 \in {Step(k3) : k3 \in {Step(k2) : k2 \in {Step(k1) : k1 \in {Step(k0) : k0 \in {[c |-> Call(pc0, a, w), sh |-> Shared]}}}}} : TRUE

-----------------------------------------------------------------------------
(* Constraints (plain struct): constrain = min(buffer, credit_limit, send_quota); commit saturates *)
ConsNew(limit, quota) == [cl |-> limit, sq |-> quota]
Constrain(cn, buf) == Min(Min(buf, cn.cl), cn.sq)
Commit(cn, len, inflight) == [cl |-> Max(cn.cl - len, 0), sq |-> IF inflight THEN Max(cn.sq - len, 0) ELSE cn.sq]
\* what balance() hands to Constraints::new
LimitOf(ret) == IF ret.r = "max" \/ ret.v < 0 THEN Big ELSE ret.v
\* fill one datagram: packets <<[want, inflight], ...>> into a buffer of `buf` bytes under cn; result [takes, cn, used]
RECURSIVE Fill(_, _, _, _)
Fill(cn, buf, pkts, takes) ==
    IF pkts = <<>> THEN [takes |-> takes, cn |-> cn, used |-> Sum(takes)]
    ELSE LET p == Head(pkts)
             t == Min(p.want, Constrain(cn, buf))
         IN Fill(Commit(cn, t, p.inflight), buf - t, Tail(pkts), Append(takes, t))

-----------------------------------------------------------------------------
Init ==
    /\ credit = 0 /\ state = NORMAL /\ wbit = FALSE /\ wreg = FALSE /\ wakes = 0 /\ asleep = FALSE /\ badwake = FALSE
    /\ rcvd = 0 /\ sent = 0 /\ disc = TRUE /\ cons = ConsNew(0, 0)
    /\ task = [t \in {"rx", "ctl", "tx"} |-> Idle]
    /\ sp = [pc |-> "idle", bal |-> Unread, segs |-> <<>>, cont |-> "seg", used |-> 0, bursts |-> 0]
    /\ res = NoRet
Reset ==
    /\ credit' = 0 /\ state' = NORMAL /\ wbit' = FALSE /\ wreg' = FALSE /\ wakes' = 0 /\ asleep' = FALSE /\ badwake' = FALSE
    /\ rcvd' = 0 /\ sent' = 0 /\ disc' = TRUE /\ cons' = ConsNew(0, 0)
    /\ task' = [t \in {"rx", "ctl", "tx"} |-> Idle]
    /\ sp' = [pc |-> "idle", bal |-> Unread, segs |-> <<>>, cont |-> "seg", used |-> 0, bursts |-> 0]
    /\ res' = NoRet

-----------------------------------------------------------------------------
(* A. call granularity: the public API executed sequentially (binding (a)).  *)
(* sp.bal remembers the last balance read, as the caller does.                *)
DoCall(pc0, a, w) ==
    \E k \in {Final(pc0, a, w)} : Install(k.sh) /\ res' = k.c.ret

\* Path::on_packet_rcvd -> AntiAmplifier::on_rcvd(n)
OnRcvd(n) ==
    /\ DoCall("r_load", n, FALSE) /\ rcvd' = rcvd + n
    /\ UNCHANGED <<sent, disc, cons, task, sp>>
\* AntiAmplifier::balance()
Balance ==
    /\ DoCall("b_load", 0, FALSE)
    /\ sp' = [sp EXCEPT !.bal = res']
    /\ UNCHANGED <<rcvd, sent, disc, cons, task>>
\* AntiAmplifier::on_sent(n): the caller declares n bytes sent.  w: the counter wrapped (FALSE = saturated; same when n <= credit)
OnSent(n, w) ==
    /\ DoCall("s_load", n, w) /\ sent' = sent + n
    /\ disc' = (disc /\ n <= LimitOf(sp.bal) /\ sp.bal.r \in {"credit", "max"})
    /\ sp' = [sp EXCEPT !.bal = Unread]
    /\ UNCHANGED <<rcvd, cons, task>>
Grant == DoCall("g_cas", 0, FALSE) /\ UNCHANGED <<rcvd, sent, disc, cons, task, sp>>
Abort == DoCall("a_cas", 0, FALSE) /\ UNCHANGED <<rcvd, sent, disc, cons, task, sp>>
\* the burst task parks: tx_waker.wait_for(CREDIT) polled once (only after balance() said Err(CREDIT), or when re-polled)
\* sp.bal = "parked" records that the caller followed the protocol (poll only after Err(CREDIT), re-poll only after a wake-up)
WaitPoll ==
    LET legit == sp.bal.r = "wait" \/ (sp.bal.r = "parked" /\ ~asleep) IN
    /\ DoCall("w_poll", 0, FALSE)
    /\ sp' = [sp EXCEPT !.bal = [r |-> IF legit /\ res'.r = "pending" THEN "parked" ELSE "polled", v |-> 0]]
    /\ UNCHANGED <<rcvd, sent, disc, cons, task>>
\* PacketsAssembler::new + assemble*: Constraints::new(balance, quota), then per packet constrain / commit
\* (one datagram; nothing is debited).  The result lists what each packet got.
Segment(quota, buf, pkts) ==
    /\ sp.bal.r \in {"credit", "max"}
    /\ \E f \in {Fill(ConsNew(LimitOf(sp.bal), quota), buf, pkts, <<>>)} :
       /\ cons' = f.cn
       /\ res' = [r |-> "seg", v |-> f.used, takes |-> f.takes]
    /\ UNCHANGED <<credit, state, wbit, wreg, wakes, asleep, badwake, rcvd, sent, disc, task, sp>>

-----------------------------------------------------------------------------
(* B. interleaving model: three tasks, one atomic operation per step.        *)
Sh == <<credit, state, wbit, wreg, wakes, asleep, badwake>>
TaskStep(t) ==
    /\ task[t].pc # "done"
    /\ \E k0 \in {[c |-> task[t], sh |-> Shared]} : \E k \in {Step(k0)} :
       /\ task' = [task EXCEPT ![t] = k.c] /\ Install(k.sh)
TStep(t) == TaskStep(t) /\ UNCHANGED <<rcvd, sent, disc, cons, sp, res>>
Start(t, pc0, a, w) == task' = [task EXCEPT ![t] = Call(pc0, a, w)]

\* receive path (Path::on_packet_rcvd): the bytes have arrived when the call starts
RxRcvd(n) == task["rx"].pc = "done" /\ Start("rx", "r_load", n, FALSE) /\ rcvd' = rcvd + n
             /\ UNCHANGED <<Sh, sent, disc, cons, sp, res>>
R_Load == task["rx"].pc = "r_load" /\ TStep("rx")
R_Add == task["rx"].pc = "r_add" /\ TStep("rx")
R_Wake == task["rx"].pc = "r_wake" /\ TStep("rx")
\* validation path: token / Handshake packet / PATH_RESPONSE -> grant; abort
CtlGrant == task["ctl"].pc = "done" /\ Start("ctl", "g_cas", 0, FALSE) /\ UNCHANGED <<Sh, rcvd, sent, disc, cons, sp, res>>
CtlAbort == task["ctl"].pc = "done" /\ Start("ctl", "a_cas", 0, FALSE) /\ UNCHANGED <<Sh, rcvd, sent, disc, cons, sp, res>>
G_Cas == task["ctl"].pc = "g_cas" /\ TStep("ctl")
A_Cas == task["ctl"].pc = "a_cas" /\ TStep("ctl")
G_Wake == task["ctl"].pc = "g_wake" /\ TStep("ctl")
\* the burst task's own calls
B_Load == task["tx"].pc = "b_load" /\ TStep("tx")
B_Credit == task["tx"].pc = "b_credit" /\ TStep("tx")
B_Reload == task["tx"].pc = "b_reload" /\ TStep("tx")
B_Wake == task["tx"].pc = "b_wake" /\ TStep("tx")
S_Load == task["tx"].pc = "s_load" /\ TStep("tx")
S_Sub == task["tx"].pc = "s_sub" /\ TStep("tx")
W_Poll == task["tx"].pc = "w_poll" /\ TStep("tx")

TxDone == task["tx"].pc = "done"
TxRet == task["tx"].ret
Keep == UNCHANGED <<Sh, rcvd, disc, res>>
\* loop { burst() ... }: Burst::burst starts the first segment: PacketsAssembler::new reads the balance
BurstBegin(maxBursts) ==
    /\ sp.pc = "idle" /\ sp.bursts < maxBursts
    /\ sp' = [sp EXCEPT !.pc = "bal", !.segs = <<>>, !.cont = "seg"]
    /\ Start("tx", "b_load", 0, FALSE) /\ Keep /\ UNCHANGED <<sent, cons>>
\* balance() returned
BalanceDone ==
    /\ sp.pc = "bal" /\ TxDone
    /\ IF sp.cont = "post" THEN sp' = [sp EXCEPT !.pc = "send"] /\ UNCHANGED task          \* only feeds PathStatus
       ELSE IF TxRet.r \in {"credit", "max"} THEN sp' = [sp EXCEPT !.pc = "seg", !.bal = TxRet] /\ UNCHANGED task
       ELSE IF sp.segs # <<>> THEN sp' = [sp EXCEPT !.pc = "debit"] /\ UNCHANGED task          \* Break(Ok(segments))
       ELSE IF TxRet.r = "none" THEN sp' = [sp EXCEPT !.pc = "dead"] /\ UNCHANGED task         \* PathDeactived
       ELSE sp' = [sp EXCEPT !.pc = "waitpoll"] /\ Start("tx", "w_poll", 0, FALSE)             \* wait_for(CREDIT)
    /\ Keep /\ UNCHANGED <<sent, cons>>
\* the budget the datagram about to be assembled is held to
SegLimit ==
    IF RereadPerSegment \/ Huge(LimitOf(sp.bal)) THEN LimitOf(sp.bal) ELSE Max(LimitOf(sp.bal) - Sum(sp.segs), 0)
SegPushed(len) ==
    LET s2 == Append(sp.segs, len) IN
    IF len = 0 THEN [sp EXCEPT !.pc = IF sp.segs = <<>> THEN "idle" ELSE "debit", !.used = 0, !.bal = Unread]  \* nothing loaded: Err(signals)
    ELSE IF Len(s2) = MaxSeg \/ (sp.segs # <<>> /\ len < sp.segs[Len(sp.segs)])
    THEN [sp EXCEPT !.pc = "debit", !.segs = s2, !.used = 0, !.bal = Unread]
    ELSE [sp EXCEPT !.pc = "bal", !.segs = s2, !.cont = "seg", !.used = 0, !.bal = Unread]
\* load_spaces: coalesce packets into the datagram under Constraints (burst task local)
BurstSegment(quota, pkts, initial) ==
    /\ sp.pc = "seg"
    /\ \E f \in {Fill(ConsNew(SegLimit, quota), MTU, pkts, <<>>)} :
       /\ cons' = f.cn
       /\ IF initial /\ f.used > 0
          THEN sp' = [sp EXCEPT !.pc = "pad", !.used = f.used] /\ UNCHANGED task
          ELSE /\ sp' = SegPushed(f.used)
               /\ IF sp'.pc = "bal" THEN Start("tx", "b_load", 0, FALSE) ELSE UNCHANGED task
    /\ Keep /\ UNCHANGED sent
\* load_spaces, `if loaded_initial { buffer.put_bytes(0, remaining); return Ok((origin, ..)) }`
PadInitial ==
    /\ sp.pc = "pad"
    /\ \E len \in {IF PadBeyondCredit THEN MTU ELSE Max(sp.used, Min(MTU, SegLimit))} :
       /\ sp' = SegPushed(len)
       /\ IF sp'.pc = "bal" THEN Start("tx", "b_load", 0, FALSE) ELSE UNCHANGED task
    /\ Keep /\ UNCHANGED <<sent, cons>>
\* Path::send_packets: on_sent(total) ...
DebitBegin ==
    /\ sp.pc = "debit"
    /\ sp' = [sp EXCEPT !.pc = "debiting"] /\ Start("tx", "s_load", Sum(sp.segs), WrapOnOverdraft)
    /\ Keep /\ UNCHANGED <<sent, cons>>
\* ... then balance() for PathStatus ...
DebitDone ==
    /\ sp.pc = "debiting" /\ TxDone
    /\ sp' = [sp EXCEPT !.pc = "bal", !.cont = "post"] /\ Start("tx", "b_load", 0, FALSE)
    /\ Keep /\ UNCHANGED <<sent, cons>>
\* ... then interface.sendmmsg: the bytes leave
SendPackets ==
    /\ sp.pc = "send"
    /\ sent' = sent + Sum(sp.segs)
    /\ sp' = [sp EXCEPT !.pc = "idle", !.segs = <<>>, !.bursts = @ + 1]
    /\ Keep /\ UNCHANGED <<cons, task>>
\* wait_for(CREDIT) polled
WaitDone ==
    /\ sp.pc = "waitpoll" /\ TxDone
    /\ sp' = [sp EXCEPT !.pc = IF TxRet.r = "ready" THEN "idle" ELSE "asleep"]
    /\ Keep /\ UNCHANGED <<sent, cons, task>>
\* the executor re-polls a task only after its waker fired
Woken ==
    /\ sp.pc = "asleep" /\ ~asleep
    /\ sp' = [sp EXCEPT !.pc = "waitpoll"] /\ Start("tx", "w_poll", 0, FALSE)
    /\ Keep /\ UNCHANGED <<sent, cons>>

-----------------------------------------------------------------------------
(* C15 *)
\* until the address is validated, total sent <= N * total received
Amp3x == state = NORMAL => sent <= N * rcvd
\* the same for a caller that never reports more than the balance it read (call-granularity binding)
Amp3xDisciplined == (state = NORMAL /\ disc) => sent <= N * rcvd
\* the budget arithmetic never underflows into an effectively unlimited allowance
CreditNeverWraps == credit >= 0
\* sending resumes as soon as more is received or the address is validated (safety form): a burst task parked on
\* CREDIT while every other call has completed really has nothing it may send
Quiet == task["rx"].pc = "done" /\ task["ctl"].pc = "done"
ResumeOnRcvdOrGrant == (sp.pc = "asleep" /\ asleep /\ Quiet) => (state = NORMAL /\ credit = 0)
\* ... and the wake-up is issued AFTER the state change (notifier linearization: change, then wake): a burst task that runs
\* the moment it is woken finds budget; otherwise it parks again and nobody wakes it until the next datagram
WakeAfterChange == ~badwake
\* call-granularity form: after a completed call, a parked sender that has not been woken has no budget
ResumeOnRcvdOrGrantCall == (asleep /\ sp.bal.r = "parked") => (state = NORMAL /\ credit = 0)
\* once balance() reported the path dead nothing more leaves
DeadIsFinal == [][sp.pc = "dead" => (sent' = sent /\ sp'.pc = "dead")]_vars
\* an aborted path has no budget
AbortedNoBalance == state = ABORTED => res.r \notin {"credit", "max", "wait"}

TypeOK ==
    /\ state \in {NORMAL, GRANTED, ABORTED} /\ wbit \in BOOLEAN /\ wreg \in BOOLEAN /\ asleep \in BOOLEAN
    /\ wakes >= 0 /\ rcvd >= 0 /\ sent >= 0 /\ cons.cl >= 0 /\ cons.sq >= 0
    /\ (asleep => wreg)
=============================================================================
