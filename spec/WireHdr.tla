------------------------------ MODULE WireHdr ------------------------------
(* Packet headers and datagram framing (RFC 9000 §17; qbase/src/packet/{type,header,io}.rs):
   EncodeHeader / DecodeHeader (put_header / be_packet_type + be_header) and DecodeDatagram
   (PacketReader / be_packet: header, Length, payload of every coalesced packet).
   A datagram that cannot be parsed is DROPPED (C03); there is no connection error at this layer. *)
EXTENDS Wire

\* a header value; every kind carries every field so that values are comparable
\*   k: "vn" | "retry" | "initial" | "zero_rtt" | "handshake" | "one_rtt"
\*   tok: Initial / Retry token;  extra: Retry integrity tag (16) or the VN version list (4 bytes each)
Hdr(k, dcid, scid, tok, extra, spin) == [k |-> k, dcid |-> dcid, scid |-> scid, tok |-> tok, extra |-> extra, spin |-> spin]
LongKinds == {"vn", "retry", "initial", "zero_rtt", "handshake"}
HdrOk(h) ==
    /\ h.k \in LongKinds \cup {"one_rtt"}
    /\ Len(h.dcid) <= 20 /\ Len(h.scid) <= 20
    /\ h.spin \in {0, 1}
    /\ (h.k # "one_rtt" => h.spin = 0)
    /\ (h.k = "one_rtt" => h.scid = <<>>)
    /\ (h.k \notin {"initial", "retry"} => h.tok = <<>>)
    /\ (h.k = "retry" => Len(h.extra) = 16)
    /\ (h.k = "vn" => Len(h.extra) % 4 = 0)
    /\ (h.k \notin {"retry", "vn"} => h.extra = <<>>)

TypeBits(k) == CASE k = "initial" -> 0 [] k = "zero_rtt" -> 16 [] k = "handshake" -> 32 [] k = "retry" -> 48
KindOfBits(x) == CASE x = 0 -> "initial" [] x = 1 -> "zero_rtt" [] x = 2 -> "handshake" [] x = 3 -> "retry"

EncodeHeader(h) ==
    IF h.k = "one_rtt" THEN <<64 + 32 * h.spin>> \o h.dcid
    ELSE (IF h.k = "vn" THEN <<128, 0, 0, 0, 0>> ELSE <<128 + 64 + TypeBits(h.k), 0, 0, 0, 1>>)
         \o <<Len(h.dcid)>> \o h.dcid \o <<Len(h.scid)>> \o h.scid
         \o (CASE h.k = "initial" -> EncVarint(V8(Len(h.tok))) \o h.tok
               [] h.k = "retry" -> h.tok \o h.extra
               [] h.k = "vn" -> h.extra
               [] OTHER -> <<>>)
\* EncodeHeader::size() is announced for the headers that start a data packet
HdrSize(h) ==
    IF h.k = "one_rtt" THEN 1 + Len(h.dcid)
    ELSE 1 + 4 + 1 + Len(h.dcid) + 1 + Len(h.scid)
         + (IF h.k = "initial" THEN VarintWidth(V8(Len(h.tok))) + Len(h.tok) ELSE 0)
HasSize(k) == k \in {"initial", "zero_rtt", "handshake", "one_rtt"}

NoHdr == [ok |-> FALSE]
\* be_packet_type + be_header: [ok, h, n]
DecodeHeader(b, dcidLen) ==
    IF Len(b) = 0 THEN NoHdr
    ELSE IF b[1] < 128 THEN                                                   \* short header (the fixed bit is not examined: D7)
        IF Len(b) < 1 + dcidLen THEN NoHdr
        ELSE [ok |-> TRUE, h |-> Hdr("one_rtt", SubSeq(b, 2, 1 + dcidLen), <<>>, <<>>, <<>>, (b[1] \div 32) % 2), n |-> 1 + dcidLen]
    ELSE IF Len(b) < 5 THEN NoHdr
    ELSE LET ver == SubSeq(b, 2, 5)
             isVN == ver = <<0, 0, 0, 0>> IN
         IF ~isVN /\ ver # <<0, 0, 0, 1>> THEN NoHdr                          \* UnsupportedVersion
         ELSE IF ~isVN /\ (b[1] \div 64) % 2 = 0 THEN NoHdr                   \* InvalidFixedBit
         ELSE LET d == DecField(FCID, Drop(b, 5)) IN                          \* > 20 bytes: drop (RFC 9000 §17.2)
              IF ~d.ok THEN NoHdr
              ELSE LET s == DecField(FCID, Drop(b, 5 + d.n)) IN
                   IF ~s.ok THEN NoHdr
                   ELSE LET at == 5 + d.n + s.n
                            r == Drop(b, at)
                            k == IF isVN THEN "vn" ELSE KindOfBits((b[1] \div 16) % 4) IN
                        CASE k = "vn" -> IF Len(r) % 4 # 0 THEN NoHdr
                                         ELSE [ok |-> TRUE, h |-> Hdr("vn", d.x, s.x, <<>>, r, 0), n |-> Len(b)]
                          [] k = "retry" -> IF Len(r) < 16 THEN NoHdr
                                            ELSE [ok |-> TRUE, h |-> Hdr("retry", d.x, s.x, Take(r, Len(r) - 16), Drop(r, Len(r) - 16), 0), n |-> Len(b)]
                          [] k = "initial" -> LET t == DecField(FLPB, r) IN
                                              IF ~t.ok THEN NoHdr
                                              ELSE [ok |-> TRUE, h |-> Hdr("initial", d.x, s.x, t.x, <<>>, 0), n |-> at + t.n]
                          [] OTHER -> [ok |-> TRUE, h |-> Hdr(k, d.x, s.x, <<>>, <<>>, 0), n |-> at]

\* be_packet: one item of a datagram.  consumed = bytes removed from the datagram, off = offset of the
\* (still protected) packet number = header + Length field
Drop1 == [ok |-> FALSE, k |-> "drop", dcid |-> <<>>, scid |-> <<>>, tok |-> <<>>, extra |-> <<>>, spin |-> 0, consumed |-> 0, off |-> 0]
Item(h, consumed, off) == [ok |-> TRUE, k |-> h.k, dcid |-> h.dcid, scid |-> h.scid, tok |-> h.tok, extra |-> h.extra,
                           spin |-> h.spin, consumed |-> consumed, off |-> off]
DecodePacket(b, dcidLen) ==
    LET r == DecodeHeader(b, dcidLen) IN
    IF ~r.ok THEN Drop1
    ELSE IF r.h.k \in {"vn", "retry"} THEN Item(r.h, Len(b), 0)
    ELSE IF r.h.k = "one_rtt" THEN
        IF Len(b) - r.n < 20 THEN Drop1 ELSE Item(r.h, Len(b), r.n)           \* UnderSampling
    ELSE LET p == DecField(FLPB, Drop(b, r.n)) IN                             \* Length + payload
         IF ~p.ok THEN Drop1
         ELSE IF Len(p.x) < 20 THEN Drop1
         ELSE Item(r.h, r.n + p.n, r.n + p.n - Len(p.x))

\* PacketReader: items until the datagram is exhausted; the first failure drops the rest
RECURSIVE DecodeDatagram(_, _)
DecodeDatagram(b, dcidLen) ==
    IF b = <<>> THEN <<>>
    ELSE LET it == DecodePacket(b, dcidLen) IN
         IF ~it.ok THEN <<it>> ELSE <<it>> \o DecodeDatagram(Drop(b, it.consumed), dcidLen)

(* D7  the fixed bit of a short header and of a Version Negotiation packet is not examined; reserved bits and the
       packet-number length are protected and belong to C06. *)
=============================================================================
