----------------------------- MODULE Gen_Params -----------------------------
(* Behaviour generator for C18.  A behaviour is the list of calls                                                      *)
(*   <<"new", role, mode, odcid, lidle, rem>>, [<<"retry", cid>>], <<"params", wire>> and <<"scid", cid>> in one of the *)
(* two arrival orders.  TLC enumerates the scenario (families below): the parameter set is built from a base set by     *)
(* modifications (put any id at any boundary point, role-inappropriate / unknown ids, delete a mandatory one, duplicate),*)
(* the connection ids (declared x observed x Retry), the two idle timeouts, and remembered x new limits for 0-RTT.        *)
(* All-paths mode: every scenario with at most MaxMods modifications exactly once.  Simulation mode (the rand.. families):  *)
(* random walks with up to 12 modifications.                                                                             *)
EXTENDS Params, Json
CONSTANTS Families, MaxMods
VARIABLES hist, sc, stage, nmods, target, pick

A8 == "a1a2a3a4a5a6a7a8"
A4 == "a1a2a3a4"                                  \* a proper prefix of A8
B20 == "b0b1b2b3b4b5b6b7b8b9babbbcbdbebfc0c1c2c3"
E0 == ""                                          \* the zero-length connection id
D8 == "d1d2d3d4d5d6d7d8"
R8 == "e1e2e3e4e5e6e7e8"
Q8 == "f1f2f3f4f5f6f7f8"
TOK == "000102030405060708090a0b0c0d0e0f"
CNAME == "636c69656e74"
En(id, t, v) == [id |-> id, t |-> t, v |-> v]

Roles == {"client", "server"}
Orders == {"ps", "sp"}
Modes == {"wire", "typed"}

MinSet(snd, iscid, odp) == IF snd = "client" THEN << En(15, "x", iscid) >> ELSE << En(0, "x", odp), En(15, "x", iscid) >>
Optional(snd) ==
    << En(1, "v", "25"), En(3, "v", "1200"), En(4, "v", "1048576"), En(5, "v", "1048576"), En(6, "v", "65527"),
       En(7, "v", "16383"), En(8, "v", "64"), En(9, "v", "63"), En(10, "v", "3"), En(11, "v", "25"), En(12, "f", ""),
       En(14, "v", "2"), En(32, "v", "65527"), En(10930, "f", "") >>
    \o (IF snd = "server" THEN << En(2, "x", TOK), En(13, "x", PA) >> ELSE << En(65518, "x", CNAME) >>)
BaseSet(b, snd) == IF b = "min" THEN MinSet(snd, A8, D8) ELSE MinSet(snd, A8, D8) \o Optional(snd)

\* modifications of a wire set
Put(w, en) == IF Has(w, en.id) THEN [i \in DOMAIN w |-> IF w[i].id = en.id THEN en ELSE w[i]] ELSE Append(w, en)
Del(w, id) == SelectSeq(w, LAMBDA x : x.id # id)
DupOf(w, id) == Append(w, w[Last(w, id)])
Extras == { En(0, "x", D8), En(2, "x", TOK), En(12, "f", ""), En(13, "x", PA), En(13, "x", PA0), En(16, "x", R8),
            En(10930, "f", ""), En(65518, "x", CNAME), En(65518, "x", ""),
            En(17, "x", "00010203"), En(58, "x", ""), En(4660, "x", "ff") }    \* the last three ids are not defined
NumPuts(vals) == {En(id, "v", v) : id \in NumericIds, v \in vals}
AllPts == {Pts[i] : i \in DOMAIN Pts}
LegalEntry(en, snd) == ~Known(en.id) \/ (~BadEntry(en, snd) /\ ~Gray(en) /\ ~(en.id = 13 /\ en.v = PA0))
Mods(w, snd, legalOnly) ==
    LET puts == {en \in NumPuts(AllPts) \cup Extras : legalOnly => LegalEntry(en, snd)}
    IN {Put(w, en) : en \in puts}
       \cup (IF legalOnly THEN {} ELSE {Del(w, m) : m \in Mandatory(snd)})
       \cup {Del(w, w[i].id) : i \in {j \in DOMAIN w : w[j].id \notin Mandatory(snd)}}
       \cup (IF legalOnly THEN {} ELSE {DupOf(w, w[i].id) : i \in DOMAIN w})

BVals(id) == LET t == Table[id]
                 ix == {Ix(t.lo) - 1, Ix(t.lo), Ix(t.hi), Ix(t.hi) + 1, Ix(t.acc) + 1, Len(Pts)} \cap DOMAIN Pts
             IN {Pts[i] : i \in ix}
BoundaryPuts == UNION {{En(id, "v", v) : v \in BVals(id)} : id \in NumericIds}
PairMods(w, snd) ==
    {Put(w, en) : en \in BoundaryPuts \cup Extras} \cup {Del(w, m) : m \in Mandatory(snd)} \cup {DupOf(w, w[i].id) : i \in DOMAIN w}

\* limits a client may remember
RemVals(id) == IF id = 14 THEN {"2", "3", "1048576", VMAX}
               ELSE IF id \in {8, 9} THEN {"0", "1", "1048576", P60} ELSE {"0", "1", "1048576", VMAX}
RemFull == << En(4, "v", "1048576"), En(5, "v", "65527"), En(6, "v", "65527"), En(7, "v", "16383"), En(8, "v", "64"),
              En(9, "v", "63"), En(14, "v", "3"), En(32, "v", "1200") >>
IdlePts == {"0", "1", "25", "65527", "1048576", VMAX}

Scen(fam, role, mode, order, odcid, rt, lidle, rem, wire, sid) ==
    [fam |-> fam, role |-> role, mode |-> mode, order |-> order, odcid |-> odcid, retry |-> rt, lidle |-> lidle,
     rem |-> rem, wire |-> wire, scid |-> sid]

InitSweep ==
    \E role \in Roles, mode \in Modes, order \in Orders, b \in {"min", "full"} :
        /\ (b = "full" => mode = "wire")          \* the setters see each entry in isolation: one base is enough for them
        /\ sc = Scen("sweep", role, mode, order, IF role = "client" THEN D8 ELSE NoCid, NoCid, "65527", None,
                     BaseSet(b, PeerOf(role)), A8)
        /\ target = MaxMods
\* two modifications, numeric values at the bounds only (thorough tier)
InitPairs ==
    \E role \in Roles :
        /\ sc = Scen("pairs", role, "wire", "ps", IF role = "client" THEN D8 ELSE NoCid, NoCid, "65527", None,
                     BaseSet("min", PeerOf(role)), A8)
        /\ target = 2
\* declared x observed connection ids, with and without Retry
InitCids ==
    \/ \E order \in Orders, iscid \in {A8, A4, B20, E0}, sid \in {A8, A4, B20, E0} :
          /\ sc = Scen("cids", "server", "wire", order, NoCid, NoCid, "65527", None, MinSet("client", iscid, D8), sid)
          /\ target = 0
    \/ \E order \in Orders, iscid \in {A8, B20, E0}, sid \in {A8, E0}, odp \in {D8, A8, E0}, odl \in {D8, E0},
          rt \in {NoCid, R8, Q8}, rsp \in {NoCid, R8, Q8, E0} :
          /\ sc = Scen("cids", "client", "wire", order, odl, rt, "65527", None,
                       MinSet("server", iscid, odp) \o (IF rsp = NoCid THEN <<>> ELSE << En(16, "x", rsp) >>), sid)
          /\ target = 0
InitIdle ==
    \E role \in Roles, order \in Orders, mode \in Modes, l \in IdlePts, r \in IdlePts \cup {"absent"} :
        /\ sc = Scen("idle", role, mode, order, IF role = "client" THEN D8 ELSE NoCid, NoCid, l, None,
                     MinSet(PeerOf(role), A8, D8) \o (IF r = "absent" THEN <<>> ELSE << En(1, "v", r) >>), A8)
        /\ target = 0
\* remembered limit x new limit for every limit a client may have used in 0-RTT (absent = default)
InitZrtt ==
    \E order \in Orders, id \in ZrttIds, full \in BOOLEAN : \E old \in RemVals(id) \cup {"absent"}, new \in RemVals(id) \cup {"absent"} :
        LET rem0 == IF full THEN RemFull ELSE <<>>
            new0 == MinSet("server", A8, D8) \o (IF full THEN RemFull ELSE <<>>)
        IN /\ sc = Scen("zrtt", "client", "wire", order, D8, NoCid, "65527",
                        Some(IF old = "absent" THEN Del(rem0, id) ELSE Put(rem0, En(id, "v", old))),
                        IF new = "absent" THEN Del(new0, id) ELSE Put(new0, En(id, "v", new)), A8)
           /\ target = 0
InitRand(fam) ==
    \E role \in Roles, mode \in Modes, order \in Orders, l \in IdlePts, t \in 0..12, withrem \in BOOLEAN, rt \in {NoCid, R8} :
        /\ withrem => role = "client"
        /\ rt # NoCid => role = "client"
        /\ sc = Scen(fam, role, mode, order, IF role = "client" THEN D8 ELSE NoCid, rt, l,
                     IF withrem THEN Some(RemFull) ELSE None,
                     MinSet(PeerOf(role), A8, D8) \o (IF rt = NoCid THEN <<>> ELSE << En(16, "x", rt) >>)
                         \o (IF withrem THEN RemFull ELSE <<>>), A8)
        /\ target = t

GenInit ==
    /\ Init /\ hist = <<>> /\ stage = "mods" /\ nmods = 0 /\ pick = 100000
    /\ \/ "sweep" \in Families /\ InitSweep
       \/ "pairs" \in Families /\ InitPairs
       \/ "cids" \in Families /\ InitCids
       \/ "idle" \in Families /\ InitIdle
       \/ "zrtt" \in Families /\ InitZrtt
       \/ "randlegal" \in Families /\ InitRand("randlegal")
       \/ "randany" \in Families /\ InitRand("randany")

\* what the typed (setter) construction can express: defined ids only, and recv_remote_params needs the mandatory ones
Expressible(s) == s.mode = "typed" =>
    /\ \A i \in DOMAIN s.wire : Known(s.wire[i].id)
    /\ \A m \in Mandatory(PeerOf(s.role)) : Has(s.wire, m)
    /\ \A i, j \in DOMAIN s.wire : i < j => s.wire[i].id # s.wire[j].id

Ops(s) ==
    LET new == << <<"new", s.role, s.mode, s.odcid, s.lidle, s.rem>> >>
        rt == IF s.retry = NoCid THEN <<>> ELSE << <<"retry", s.retry>> >>
        p == << <<"params", s.wire>> >>
        c == << <<"scid", s.scid>> >>
    IN new \o rt \o (IF s.order = "ps" THEN p \o c ELSE c \o p)

IsRand == sc.fam \in {"randlegal", "randany"}
Modify ==
    /\ stage = "mods" /\ nmods < target /\ ~IsRand
    /\ \E w \in (IF sc.fam = "pairs" THEN PairMods(sc.wire, PeerOf(sc.role)) ELSE Mods(sc.wire, PeerOf(sc.role), FALSE)) :
          /\ w # sc.wire
          /\ sc' = [sc EXCEPT !.wire = w]
    /\ nmods' = nmods + 1
    /\ UNCHANGED <<hist, stage, target, pick>>
\* random families: first choose the id (uniformly), then what happens to it; now and then the observed cid is perturbed
RandIds == KnownIds \cup {17, 58, 4660}
AllPuts == NumPuts(AllPts) \cup Extras
PutsById == [id \in RandIds |-> {x \in AllPuts : x.id = id}]
\* typed runs must stay expressible through the setters (defined ids, mandatory present, no duplicates)
ModsOfId(w, snd, id, legalOnly, typed) ==
    IF typed /\ ~Known(id) THEN {} ELSE
    {Put(w, en) : en \in {x \in PutsById[id] : legalOnly => LegalEntry(x, snd)}}
    \cup (IF Has(w, id) /\ ~((legalOnly \/ typed) /\ id \in Mandatory(snd)) THEN {Del(w, id)} ELSE {})
    \cup (IF Has(w, id) /\ ~legalOnly /\ ~typed THEN {DupOf(w, id)} ELSE {})
RMods(id) == ModsOfId(sc.wire, PeerOf(sc.role), id, sc.fam = "randlegal", sc.mode = "typed") \ {sc.wire}
RandPick ==
    /\ stage = "mods" /\ nmods < target /\ IsRand /\ pick = 100000
    /\ \E id \in RandIds \cup {99999} :
          /\ (IF id = 99999 THEN TRUE ELSE RMods(id) # {})
          /\ pick' = id
    /\ UNCHANGED <<hist, sc, stage, nmods, target>>
RandApply ==
    /\ stage = "mods" /\ IsRand /\ pick # 100000
    /\ IF pick = 99999 THEN \E c \in {A4, B20, E0, A8} : sc' = [sc EXCEPT !.scid = c]
       ELSE \E w \in RMods(pick) : sc' = [sc EXCEPT !.wire = w]
    /\ pick' = 100000 /\ nmods' = nmods + 1
    /\ UNCHANGED <<hist, stage, target>>
Done ==
    /\ stage = "mods"
    /\ IsRand => (nmods = target /\ pick = 100000)
    /\ Expressible(sc)
    /\ hist' = Ops(sc) /\ stage' = "done"
    /\ UNCHANGED <<sc, nmods, target, pick>>
GenNext == (Modify \/ RandPick \/ RandApply \/ Done) /\ UNCHANGED vars
Emit == (stage = "done") => PrintT(<<"GEN", ToJson(hist)>>)
=============================================================================
