----------------------------- MODULE Trace_Qlog -----------------------------
(* impl -> spec: the qlog stream (and application summary) of vh-sim runs under every exporter configuration *)
EXTENDS Qlog, TLC, Json, IOUtils
VARIABLES l, sums, flag
Rec_ == ndJsonDeserialize(IOEnv.TRACE)
NE == Len(Rec_)
e == Rec_[l]
Ev(name) == l <= NE /\ e.ev = name /\ l' = l + 1

TReset == Ev("reset") /\ q' = QInit(e.sc.group, e.sc.qlog, e.sc.qlog = "filtered") /\ sums' = sums
TQ == Ev("q") /\ q' = Event(q, e) /\ sums' = sums
TSum == Ev("appsum") /\ q' = AppSummary(q, sums, e.sum) /\ sums' = (IF q.group \in DOMAIN sums THEN sums ELSE Put(sums, q.group, e.sum))
TPanic == Ev("panic") /\ q' = Fail(q, "panic while logging / inside the stack (C20)") /\ sums' = sums
TFinal == Ev("final") /\ q' = EndOfRun(q) /\ sums' = sums
TOther == l <= NE /\ e.ev \in {"dgram", "dlv", "undeliverable", "app"} /\ l' = l + 1 /\ q' = q /\ sums' = sums

TraceInit == l = 1 /\ q = QInit("", "none", FALSE) /\ sums = <<>> /\ flag = FALSE
TraceNext == (TReset \/ TQ \/ TSum \/ TPanic \/ TFinal \/ TOther)
             /\ flag' = (q.ok /\ ~q'.ok)
ContractHolds == q.ok \/ PrintT(<<"CONTRACT", q.why>>) = FALSE
\* reported once, at the step that broke the contract; validation of the following runs continues
SoftContract == ~flag \/ PrintT(<<"SOFT_VIOLATION", "Contract", l, q.why>>)
TraceAccepted ==
    LET d == TLCGet("stats").diameter IN
    IF d - 1 = NE THEN TRUE
    ELSE PrintT(<<"TRACE_REJECTED_AT", d, IF d <= NE THEN Rec_[d] ELSE "eof">>) /\ FALSE
=============================================================================
