------------------------------ MODULE MC_Conn ------------------------------
(***************************************************************************)
(* The design behind C02's safety clauses for one direction of traffic:     *)
(* a sender that puts data items into numbered packets (a retransmission is  *)
(* a NEW packet number), coalesces up to two packets per datagram, a network  *)
(* that drops / duplicates / reorders / bit-flips / truncates datagrams, and  *)
(* a receiver that accepts a packet iff it authenticates (arrived unmodified) *)
(* and its number is new.  Each step feeds the monitor of Conn.tla with the   *)
(* events the real harness records, so TLC checks                             *)
(*  (1) TamperedNeverAccepted, ReplayNeverAccepted, OnlySentDataDelivered on   *)
(*      the design,                                                           *)
(*  (2) the monitor raises no alarm on any behaviour of a correct design       *)
(*      (packet/wire binding by FIFO order per type, coalescing, duplicates,   *)
(*      reordering), and                                                      *)
(*  (3) with a bounded number of faults every data item is delivered.         *)
(***************************************************************************)
EXTENDS Conn, TLC, Integers
CONSTANTS NItems,     \* data items the sender must get across
          MaxFaults,  \* network faults (bounded-fault profile)
          MaxPn       \* packet numbers available (bounds retransmission)
VARIABLES nextPn, unacked, queue, net, nd, delivered, accepted, faults

vars == <<c, nextPn, unacked, queue, net, nd, delivered, accepted, faults>>
Len1 == 10   \* every packet is 10 bytes on the wire in the model

MCInit ==
    /\ c = CInit(TRUE)
    /\ nextPn = 0
    /\ unacked = 1..NItems          \* items not yet known to be delivered
    /\ queue = <<>>                 \* packets assembled, not yet handed to the network: [pn, item]
    /\ net = {}                     \* datagram copies in flight: [i, pkts, damage]  damage \in {"none", "first", "second", "cut"}
    /\ nd = 0                       \* datagrams sent
    /\ delivered = {}               \* items the receiver handed to its application
    /\ accepted = {}                \* packet numbers the receiver accepted
    /\ faults = 0

\* the sender assembles a packet carrying an item that is not yet acknowledged (first transmission or retransmission)
Assemble(item) ==
    /\ item \in unacked /\ nextPn < MaxPn /\ queue = <<>>
    /\ ~\E d \in net : d.pkts[1].item = item      \* retransmit only what is no longer in flight (declared lost)
    /\ queue' = Append(queue, [pn |-> nextPn, item |-> item])
    /\ nextPn' = nextPn + 1
    /\ c' = PacketSent(c, "cli", "1rtt", nextPn, Len1)
    /\ UNCHANGED <<unacked, net, nd, delivered, accepted, faults>>

\* the queued packets leave in one datagram (the last one is a short-header packet, earlier ones long-header: here all
\* are typed "handshake" except the last, to exercise the per-type FIFO binding)
Wire(k) == [j \in 1..Len(queue) |-> [ty |-> "1rtt", off |-> (j - 1) * Len1, len |-> Len1]]
SendDatagram ==
    /\ queue # <<>> /\ Len(queue) = 1    \* one short-header packet per datagram (a second one could not be delimited)
    /\ net' = net \cup {[i |-> nd, pkts |-> queue, damage |-> "none", copy |-> 0]}
    /\ c' = Datagram(c, "c2s", nd, Wire(nd), "deliver", 0)
    /\ nd' = nd + 1
    /\ queue' = <<>>
    /\ UNCHANGED <<nextPn, unacked, delivered, accepted, faults>>

Drop(d) == /\ d \in net /\ faults < MaxFaults /\ net' = net \ {d} /\ faults' = faults + 1
           /\ UNCHANGED <<c, nextPn, unacked, queue, nd, delivered, accepted>>
Dup(d) == /\ d \in net /\ d.copy = 0 /\ faults < MaxFaults
          /\ net' = net \cup {[d EXCEPT !.copy = 1]} /\ faults' = faults + 1
          /\ UNCHANGED <<c, nextPn, unacked, queue, nd, delivered, accepted>>
\* damage is decided when the datagram enters the network in the real harness; here any time before delivery.  The monitor
\* learns the fate with the datagram event, so a damaged datagram is re-announced with its fate before it is delivered.
Damage(d, how) ==
    /\ d \in net /\ d.damage = "none" /\ d.copy = 0 /\ faults < MaxFaults
    /\ ~\E x \in net : x.i = d.i /\ x # d
    /\ net' = (net \ {d}) \cup {[d EXCEPT !.damage = how]}
    /\ c' = [c EXCEPT !.fate = Put(@, <<"c2s", d.i>>, [kind |-> IF how = "cut" THEN "trunc" ELSE "flip",
                                                         arg |-> IF how = "cut" THEN 5 ELSE 16])]
    /\ faults' = faults + 1
    /\ UNCHANGED <<nextPn, unacked, queue, nd, delivered, accepted>>

\* delivery: the receiver authenticates each packet of the copy and accepts the new ones
Deliver(d) ==
    /\ d \in net
    /\ net' = net \ {d}
    /\ LET p == d.pkts[1]
           authentic == d.damage = "none"
           fresh == p.pn \notin accepted
           c1 == Delivered(c, "c2s", d.i)
       IN IF authentic /\ fresh
          THEN /\ accepted' = accepted \cup {p.pn}
               /\ delivered' = delivered \cup {p.item}
               /\ unacked' = unacked \ {p.item}          \* the acknowledgement path is not modelled: instantaneous
               /\ c' = PacketReceived(c1, "srv", "1RTT", p.pn, TRUE)
          ELSE /\ c' = c1
               /\ UNCHANGED <<accepted, delivered, unacked>>
    /\ UNCHANGED <<nextPn, queue, nd, faults>>

DoAssemble == \E it \in 1..NItems : Assemble(it)
DoDrop == \E d \in net : Drop(d)
DoDup == \E d \in net : Dup(d)
DoDamage == \E d \in net, how \in {"first", "cut"} : Damage(d, how)
DoDeliver == \E d \in net : Deliver(d)
MCNext == DoAssemble \/ SendDatagram \/ DoDrop \/ DoDup \/ DoDamage \/ DoDeliver

TamperedNeverAccepted == \A pn \in accepted : <<"1rtt", pn>> \in c.intact["srv"]
ReplayNeverAccepted == Cardinality(accepted) = Cardinality(c.rcvd["srv"])
OnlySentDataDelivered == delivered \subseteq 1..NItems
MonitorAccepts == c.ok \/ PrintT(<<"CONTRACT", c.why>>) = FALSE
MCInv == TamperedNeverAccepted /\ ReplayNeverAccepted /\ OnlySentDataDelivered /\ MonitorAccepts

MCSpec == MCInit /\ [][MCNext]_vars /\ WF_vars(DoAssemble) /\ WF_vars(SendDatagram) /\ WF_vars(DoDeliver)
AllDelivered == <>(delivered = 1..NItems)
=============================================================================
