---------------------------- MODULE Gen_AckPolicy ----------------------------
(* spec -> impl: ENVIRONMENT schedules for the real ArcCC + ArcRcvdJournal.  TLC walks the design (so that fresh       *)
(* packet numbers, the phase of the packet being assembled and the design's deadlines are known) and emits only the   *)
(* environment's choices:                                                                                             *)
(*   ["r", space, pn, el]  a packet arrives: next in order / after a gap / filling the lowest hole, eliciting or not  *)
(*   ["a", dt]             the clock advances: fixed steps, exactly to and just past the earliest deadline            *)
(*   ["p", s] ["g", s] ["s", s]   ack_package samples cc / AckPackege::dump generates / commit notifies cc            *)
(*   ["n", s, ae]          a packet without an ACK frame is sent        ["t"]  nothing (a bare do_tick + observation)  *)
(*   ["d", s]              the Initial / Handshake space is discarded                                                 *)
(* Atomic = TRUE keeps p, g, s of one packet together (nothing else happens in between); FALSE lets arrivals and      *)
(* clock advances fall in between.  Every schedule ends with the same epilogue: finish the packet under assembly,     *)
(* let max_ack_delay pass, send one ACK per space that received something, let max_ack_delay pass again -- so that    *)
(* every run is judged at and after its deadlines.                                                                    *)
EXTENDS AckPolicy, Json
CONSTANTS Depth, GSpaces, MaxPn, MaxRcvd, GDts, Ops, Atomic, Script, Els
VARIABLE hist

ScriptNone == <<>>
\* arrivals, a pause, one packet with an ACK frame, then arrivals / pauses again
ScriptSeq == <<{"r"}, {"r", "a"}, {"r", "a", "p"}, {"r", "a", "p", "g"}, {"a", "p", "g", "s", "r"}, {"r", "a", "p", "g", "s"},
               {"r", "a", "p", "g", "s"}, {"r", "a", "p", "g", "s"}, {"r", "a", "p", "g", "s"}>>
\* the race window: an arrival at every point of assembling one packet
\* the three spaces: arrivals, a discard, one packet with an ACK frame per space
ScriptSpaces == <<{"r"}, {"r", "a", "d"}, {"p", "r", "a"}, {"g", "a"}, {"s", "p"}, {"g", "s", "t", "p"}, {"s", "g"}>>
ScriptRace == <<{"r"}, {"r", "a"}, {"p", "r"}, {"r", "g", "p"}, {"r", "g", "s"}, {"r", "s", "g"}, {"s", "r", "a"}, {"s", "a"}>>
B(x) == IF x THEN 1 ELSE 0
H(x) == hist' = Append(hist, x)
Steps == Len(hist)
Allowed(op) == op \in Ops /\ (Script = <<>> \/ (Steps + 1 <= Len(Script) /\ op \in Script[Steps + 1]))
Busy == \E s \in Spaces : phase[s] # "idle"
Free == ~Atomic \/ ~Busy
NRcvd == Cardinality(rcvd[1]) + Cardinality(rcvd[2]) + Cardinality(rcvd[3])

Cand(s) == LET top == IF rcvd[s] = {} THEN -1 ELSE MaxOf(rcvd[s])
               holes == {g \in 0..top : g \notin rcvd[s]}
           IN ({top + 1, top + 2} \cup (IF holes = {} THEN {} ELSE {CHOOSE g \in holes : \A h \in holes : g <= h})) \cap 0..MaxPn
DlSet == UNION {{arr[s][p].t + Mad(s) : p \in pend[s]} : s \in Live}
AdvSet == GDts \cup (IF DlSet = {} THEN {}
                     ELSE LET dl == CHOOSE x \in DlSet : \A y \in DlSet : x <= y IN {dl - now, dl - now + 1})

GenInit == Init /\ hist = <<>>
GenNext ==
  /\ Steps < Depth
  /\ \/ /\ Allowed("r") /\ Free /\ NRcvd < MaxRcvd
        /\ \E s \in GSpaces \cap Live : \E p \in Cand(s) : \E el \in Els :
             Rcvd(s, p, el, D_Obs') /\ H(<<"r", s, p, B(el)>>)
     \/ /\ Allowed("a") /\ Free
        /\ \E dt \in {x \in AdvSet : x > 0} : Advance(dt, D_Obs') /\ H(<<"a", dt>>)
     \/ /\ Allowed("p")
        /\ \E s \in GSpaces \cap Live : /\ phase[s] = "idle" /\ Free
                                        /\ rcvd[s] # {}
                                        /\ Poll(s, D_C(s), D_Ct(s), D_Obs') /\ H(<<"p", s>>)
     \/ /\ Allowed("g")
        /\ \E s \in GSpaces \cap Live :
             /\ phase[s] = "polled"
             /\ LET w == Want(s)
                    ok == w[1] # NONE
                IN Gen(s, ok, w[1], w[2], IF ok THEN {p \in rcvd[s] : p <= w[1]} ELSE {}, D_Obs')
             /\ H(<<"g", s>>)
     \/ /\ Allowed("s")
        /\ \E s \in GSpaces \cap Live : phase[s] = "built" /\ Sent(s, D_Obs') /\ H(<<"s", s>>)
     \/ /\ Allowed("n") /\ Free
        /\ \E s \in GSpaces \cap Live : \E ae \in BOOLEAN : Other("send", D_Obs') /\ H(<<"n", s, B(ae)>>)
     \/ /\ Allowed("t") /\ Free /\ Other("tick", D_Obs') /\ H(<<"t">>)
     \/ /\ Allowed("d") /\ Free
        /\ \E s \in GSpaces \cap {1, 2} \cap Live : Discard(s, D_Obs') /\ H(<<"d", s>>)

\* the epilogue (executed by the harness, judged by Trace_AckPolicy like everything else)
RECURSIVE Ks(_)
Ks(S) == IF S = {} THEN <<>> ELSE LET s == CHOOSE x \in S : \A y \in S : x <= y IN << <<"k", s>> >> \o Ks(S \ {s})
Touched == {s \in Live : rcvd[s] # {}}
Epilogue == Ks({s \in Live : phase[s] # "idle"}) \o << <<"a", MaxAckDelay + 1>> >> \o Ks(Touched)
            \o << <<"a", MaxAckDelay + 1>>, <<"t">> >>
Emit == (Steps = Depth) => PrintT(<<"GEN", ToJson(hist \o Epilogue)>>)
=============================================================================
