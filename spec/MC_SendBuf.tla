---------------------------- MODULE MC_SendBuf ----------------------------
(* Exhaustive check of the SendBuf design for small constants. *)
EXTENDS SendBuf, TLC
CONSTANTS MaxBytes, MaxWin, Limits, Flows

MCInit == \E m \in 0..MaxWin : InitWith(m)

DoWrite == \E n \in 1..2 : written + n <= MaxBytes /\ Write(n)
DoExtend == \E m \in (max+1)..MaxWin : Extend(m)
DoPick == \E l \in Limits, f \in Flows, len \in 1..MaxBytes : Pick(l, f, len)
DoPickNothing == \E l \in Limits, f \in Flows : PickNothing(l, f)
DoAck == \E k \in 1..Len(picks) : Ack(k)
DoLoss == \E k \in 1..Len(picks) : Loss(k)
DoResend == Resend
DoForget == Forget

MCNext == DoWrite \/ DoExtend \/ DoPick \/ DoPickNothing \/ DoAck \/ DoLoss \/ DoResend \/ DoForget

\* picks only matters as a set; res is an observation
View == <<written, max, col, base, offered, {picks[k] : k \in DOMAIN picks}>>
=============================================================================
