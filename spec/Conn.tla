-------------------------------- MODULE Conn --------------------------------
(***************************************************************************)
(* C02 — two endpoints ("cli", "srv") of one connection over a datagram     *)
(* network that may drop, delay, reorder, duplicate, truncate or bit-flip   *)
(* datagrams.  The module states what must hold over the events observable  *)
(* from outside the stack:                                                  *)
(*   - the network: every datagram handed to it (its coalesced packets as    *)
(*     they can be split from the unprotected header fields), its fate, and   *)
(*     every copy it delivers;                                               *)
(*   - the packet log of each endpoint (qlog packet_sent / packet_received:   *)
(*     packet type and packet number);                                       *)
(*   - the application: writes, reads (with content check), end of stream,    *)
(*     completion / failure of every operation, with virtual time.           *)
(* The monitor state is one record; each event is a state transformer.       *)
(* Which packets an endpoint sends, when it retransmits and how it paces are  *)
(* not prescribed.                                                           *)
(***************************************************************************)
EXTENDS Naturals, Sequences, FiniteSets

VARIABLE c

Sides == {"cli", "srv"}
Peer(s) == IF s = "cli" THEN "srv" ELSE "cli"
SenderOf(dir) == IF dir = "c2s" THEN "cli" ELSE "srv"
ReceiverOf(dir) == IF dir = "c2s" THEN "srv" ELSE "cli"
Get(f, k, d) == IF k \in DOMAIN f THEN f[k] ELSE d
Put(f, k, v) == [x \in DOMAIN f \cup {k} |-> IF x = k THEN v ELSE f[x]]

\* qlog spells packet types differently from the wire split
TyOf(s) == IF s \in {"1RTT", "1rtt"} THEN "1rtt" ELSE IF s \in {"0RTT", "0rtt"} THEN "0rtt" ELSE s

CInit(bounded) ==
    [ bounded   |-> bounded,       \* the fault profile stops after a while: the liveness clause applies
      assembled |-> [s \in Sides |-> <<>>],   \* packets logged as sent, not yet seen on the wire: <<ty, pn, len>>
      carried   |-> <<>>,          \* <<dir, i>> -> sequence of [ty, pn, off, len] the datagram carries
      fate      |-> <<>>,          \* <<dir, i>> -> [kind, arg]
      intact    |-> [s \in Sides |-> {}],     \* <<ty, pn>> of packets that reached s unmodified
      rcvd      |-> [s \in Sides |-> {}],     \* <<ty, pn>> s processed
      wr        |-> <<>>,          \* <<side, sid>> -> bytes the application started to write
      rd        |-> <<>>,          \* <<side, sid>> -> bytes the application read
      eos       |-> {},            \* <<side, sid>> whose reader saw the end of the stream
      fin       |-> {},            \* <<side, sid>> whose writer asked for shutdown
      dsent     |-> <<>>,          \* datagram id -> size, accepted by the sender
      drecv     |-> {},            \* datagram ids received
      panics    |-> 0,
      ok |-> TRUE, why |-> "", at |-> 0 ]

Fail(st, why) == IF st.ok THEN [st EXCEPT !.ok = FALSE, !.why = why] ELSE st

\* an endpoint logged that it assembled a packet
PacketSent(st, side, ty, pn, len) ==
    [st EXCEPT !.assembled[side] = Append(@, <<TyOf(ty), pn, len>>)]

\* the network saw a datagram: bind each coalesced packet to the oldest assembled packet of that type
RECURSIVE Bind(_, _, _)
Bind(queue, pkts, acc) ==
    IF pkts = <<>> THEN [queue |-> queue, acc |-> acc, ok |-> TRUE]
    ELSE LET p == Head(pkts) IN
         IF p.ty \in {"pad", "garbage", "vn", "retry"} THEN Bind(queue, Tail(pkts), acc)
         ELSE LET idx == {i \in 1..Len(queue) : queue[i][1] = p.ty} IN
              IF idx = {} THEN [queue |-> queue, acc |-> acc, ok |-> FALSE]
              ELSE LET i == CHOOSE x \in idx : \A y \in idx : x <= y
                       q == queue[i]
                       rest == [j \in 1..(Len(queue) - 1) |-> IF j < i THEN queue[j] ELSE queue[j + 1]]
                   \* a short-header packet has no Length field: on the wire it extends to the end of the datagram (zero padding included)
                   IN IF (p.ty # "1rtt" /\ q[3] # p.len) \/ (p.ty = "1rtt" /\ q[3] > p.len) THEN [queue |-> queue, acc |-> acc, ok |-> FALSE]
                      ELSE Bind(rest, Tail(pkts), Append(acc, [ty |-> p.ty, pn |-> q[2], off |-> p.off, len |-> p.len]))

Datagram(st, dir, i, pkts, kind, arg) ==
    LET s == SenderOf(dir)
        b == Bind(st.assembled[s], pkts, <<>>)
    IN IF ~b.ok THEN [st EXCEPT !.ok = FALSE, !.why = "BOOKKEEPING: a packet on the wire has no matching packet_sent record"]
       ELSE [st EXCEPT !.assembled[s] = b.queue,
                       !.carried = Put(@, <<dir, i>>, b.acc),
                       !.fate = Put(@, <<dir, i>>, [kind |-> kind, arg |-> arg])]

\* which of the carried packets are unmodified in the copy the network delivers
Unmodified(p, f) ==
    CASE f.kind \in {"deliver", "dup", "delay"} -> TRUE
      [] f.kind = "trunc" -> p.off + p.len <= f.arg
      [] f.kind = "flip" -> ~((f.arg \div 8) >= p.off /\ (f.arg \div 8) < p.off + p.len)
      [] OTHER -> FALSE
\* a flipped bit in an earlier coalesced packet's header may move the boundary of the later ones: only packets that start
\* before the damage are certainly unmodified AND certainly found; later ones may or may not be recognised (not required)
Delivered(st, dir, i) ==
    LET k == <<dir, i>>
        r == ReceiverOf(dir)
        good == {<<p.ty, p.pn>> : p \in {x \in {st.carried[k][j] : j \in 1..Len(st.carried[k])} : Unmodified(x, st.fate[k])}}
    IN IF k \notin DOMAIN st.carried THEN Fail(st, "BOOKKEEPING: delivery of an unknown datagram")
       ELSE [st EXCEPT !.intact[r] = @ \cup good]

\* an endpoint logged that it decrypted and processed a packet
PacketReceived(st, side, ty, pn, carriesData) ==
    LET k == <<TyOf(ty), pn>> IN
    IF k \notin st.intact[side] THEN Fail(st, "a packet was accepted that never reached this endpoint unmodified: tampered or forged (C02)")
    ELSE IF k \in st.rcvd[side] /\ carriesData THEN Fail(st, "a packet number was accepted twice: replay (C02)")
    \* observed on the unchanged tree: a duplicate of a 1-RTT packet that carries no application data (padding / ping probe) is
    \* logged as received a second time; recorded finding, kept apart from the replay of application data
    ELSE IF k \in st.rcvd[side] THEN Fail(st, "a packet without application data was processed twice (C02)")
    ELSE [st EXCEPT !.rcvd[side] = @ \cup {k}]

\* application events
AppWrite(st, side, sid, n) == [st EXCEPT !.wr = Put(@, <<side, sid>>, Get(st.wr, <<side, sid>>, 0) + n)]
AppShutdown(st, side, sid) == [st EXCEPT !.fin = @ \cup {<<side, sid>>}]
AppRead(st, side, sid, n, dataOk) ==
    LET k == <<side, sid>>
        got == Get(st.rd, k, 0) + n
    IN IF ~dataOk THEN Fail(st, "bytes read from a stream differ from what the peer wrote (C02/C01)")
       ELSE IF got > Get(st.wr, <<Peer(side), sid>>, 0) THEN Fail(st, "more bytes read than the peer application has written (C02)")
       ELSE [st EXCEPT !.rd = Put(@, k, got)]
AppEos(st, side, sid, at) ==
    LET k == <<side, sid>> IN
    IF <<Peer(side), sid>> \notin st.fin THEN Fail(st, "end of stream reported although the peer never shut the stream down (C02/C01)")
    ELSE IF at # Get(st.wr, <<Peer(side), sid>>, 0) THEN Fail(st, "end of stream reported before the last byte (C02/C01)")
    ELSE [st EXCEPT !.eos = @ \cup {k}]
DgramSend(st, id, size, ok) == IF ok THEN [st EXCEPT !.dsent = Put(@, id, size)] ELSE st
DgramRecv(st, id, size, dataOk) ==
    IF id \notin DOMAIN st.dsent THEN Fail(st, "a datagram was received that the peer application never sent (C02/C19)")
    ELSE IF st.dsent[id] # size \/ ~dataOk THEN Fail(st, "a received datagram differs from the one sent (C02/C19)")
    ELSE [st EXCEPT !.drecv = @ \cup {id}]
Panic(st) == Fail([st EXCEPT !.panics = @ + 1], "panic inside the stack (C02)")

\* end of the run (at the virtual deadline at the latest)
Final(st, cliDone, cliOk, srvDone) ==
    IF ~cliDone \/ ~srvDone
    THEN Fail(st, "an application operation is still blocked at the deadline: the connection neither completed nor reported failure (C02)")
    ELSE IF st.bounded /\ ~cliOk
    THEN Fail(st, "faults were bounded but the handshake / data transfer did not complete (C02)")
    ELSE st

Contract == c.ok
=============================================================================
