----------------------------- MODULE MC_Hostile -----------------------------
(* exhaustive check of Hostile.tla itself: every legitimate history of at most MaxLegit steps, then every enabled
   class of every frame kind with every outcome the specification allows *)
EXTENDS Hostile
CONSTANTS SendK,     \* packet burst sizes
          MaxLegit   \* length of the legitimate history
VARIABLE n
MCInit == Init /\ n = 0
More == n < MaxLegit /\ n' = n + 1
DoSend == \E k \in SendK : More /\ Send(k)
DoSendAck == More /\ SendAck
DoRcv == \E s \in BOOLEAN : More /\ Rcv(s)
DoPeerAck == \E w \in {"all", "last"} : More /\ PeerAck(w)
DoCrx == More /\ Crx
DoNewCid == \E m \in {"keep", "rpt"} : More /\ NewCid(m)
DoRetire == More /\ Retire
DoOpen == \E d \in Dirs : More /\ Open(d)
DoRx == \E d \in Dirs : More /\ Rx(d)
DoHostile == \E k \in Kinds : \E cls \in Classes(k) : Enabled(k, cls) /\ \E out \in Allowed(k, cls) : Hostile(k, cls, out) /\ n' = n
MCNext == DoSend \/ DoSendAck \/ DoRcv \/ DoPeerAck \/ DoCrx \/ DoNewCid \/ DoRetire \/ DoOpen \/ DoRx \/ DoHostile
=============================================================================
