----------------------------- MODULE Trace_Wire -----------------------------
(* impl -> spec.  Events recorded by vh-wire from the real codecs of qbase are judged against the reference
   codec Wire / WireHdr / WireParams.  The codecs are stateless, so every event is judged on its own (the only
   state is `cur`, the index of the last encode event, which the round-trip decode events refer to).
   Every statement is a SOFT check: a violated one prints <<"SOFT_VIOLATION", name, l>> and the validation
   continues, so one defect does not hide another one later in the file.

   C05   enc / rdec (frames), henc / hdec (headers), prim (primitive codecs), penc / pdec (transport parameters)
   C03   payload (FrameReader), dgram (PacketReader), params (parse_from_bytes), panic *)
EXTENDS WireHdr, WireParams, Json, IOUtils
VARIABLES l, cur
Rec == ndJsonDeserialize(IOEnv.TRACE)
NE == Len(Rec)

TraceInit == l = 1 /\ cur = 0
TraceNext ==
    /\ l <= NE
    /\ l' = l + 1
    /\ cur' = IF Rec[l].ev \in {"enc", "henc", "penc"} THEN l ELSE IF Rec[l].ev = "reset" THEN 0 ELSE cur

Soft(name, cond) == cond \/ PrintT(<<"SOFT_VIOLATION", name, l>>)
Min(a, b) == IF a < b THEN a ELSE b

\* D5: the reason phrase of CONNECTION_CLOSE goes through from_utf8_lossy; it is compared only when it is ASCII
Ascii7(b) == \A i \in 1..Len(b) : b[i] < 128
FieldsEq(t, a, b) ==
    IF t \in {28, 29} /\ ~Ascii7(b[Len(b)])
    THEN Len(a) = Len(b) /\ SubSeq(a, 1, Len(a) - 1) = SubSeq(b, 1, Len(b) - 1)
    ELSE a = b

\* ---------------------------------------------------------------- C05: frames
FrameOf(o) == [t |-> o.t, x |-> o.x]
CheckEnc(p) ==
    LET v == FrameOf(p) IN
    /\ Soft("ValueOk", FrameOk(v))
    /\ Soft("EncBytes", p.bytes = EncodeFrame(v))                        \* real bytes = spec bytes
    /\ Soft("EncSize", p.enc_size + p.data_len = Len(p.bytes))           \* announced size = bytes written
    /\ Soft("EncMax", p.enc_size <= p.max_size)                          \* ... and never above the announced maximum
    /\ Soft("AdmitFits", p.fits)                                         \* admitted by size => fits (Package::dump rule)
CheckRdec(p) ==
    LET o == Rec[cur]
        v == FrameOf(o)
        s == DecodeFrame(o.bytes, p.pt) IN
    /\ Soft("RoundTrip", p.ok /\ p.t = v.t /\ p.x = v.x /\ p.consumed = Len(o.bytes) /\ p.eq)
    /\ Soft("DecOracle", IF s.ok THEN p.ok /\ p.t = s.t /\ p.consumed = s.consumed /\ FieldsEq(s.t, p.x, s.x)
                         ELSE ~p.ok /\ p.class = s.class)

\* ---------------------------------------------------------------- C05: headers
CheckHenc(p) ==
    /\ Soft("ValueOk", HdrOk(p.h))
    /\ Soft("EncBytes", p.bytes = EncodeHeader(p.h))
    /\ Soft("EncSize", IF HasSize(p.h.k) THEN p.has_size /\ p.size = Len(p.bytes) ELSE ~p.has_size)
CheckHdec(p) ==
    LET o == Rec[cur]
        s == DecodeHeader(o.bytes, p.dl) IN
    /\ Soft("RoundTrip", p.ok /\ p.h = o.h /\ p.consumed = Len(o.bytes) /\ p.eq)
    /\ Soft("DecOracle", IF s.ok THEN p.ok /\ p.h = s.h /\ p.consumed = s.n ELSE ~p.ok)

\* ---------------------------------------------------------------- C05: primitive codecs
PDesc(p) ==
    CASE p \in {"varint", "streamid"} -> FV [] p = "cid" -> FCID [] p = "reset_token" -> FIX(16)
      [] p \in {"addr4", "ep4"} -> FIX(6) [] p \in {"addr6", "ep6"} -> FIX(18) [] p = "ep4agent" -> FIX(12) [] p = "ep6agent" -> FIX(36)
CheckPrim(p) ==
    LET d == PDesc(p.p) IN
    /\ Soft("ValueOk", FieldOk(d, p.x))
    /\ Soft("EncBytes", p.bytes = EncField(d, p.x))
    /\ Soft("EncSize", p.enc_size = Len(p.bytes))
    /\ Soft("EncMax", p.enc_size <= p.max_size)
    /\ Soft("RoundTrip", p.ok /\ p.dx = p.x /\ p.consumed = Len(p.bytes))   \* decoded from bytes ++ <<7>>: the extra byte stays

\* ---------------------------------------------------------------- C05: transport parameters
\* the wire order is unspecified: the bytes must be SOME concatenation of the spec's encodings of the entries
CheckPenc(p) ==
    LET raw == RawEntries(p.bytes, <<>>) IN
    /\ Soft("ValueOk", ParamsOk(p.ps, p.role))
    /\ Soft("EncBytes", /\ raw.ok /\ Len(raw.es) = Len(p.ps) /\ Len(p.bytes) = Len(EncodeParams(p.ps))
                        /\ \A i \in 1..Len(p.ps) : \E j \in 1..Len(raw.es) :
                               /\ raw.es[j].id = V8(p.ps[i].id) /\ raw.es[j].body = Body(p.ps[i].id, p.ps[i].val)
                               /\ VarintWidth(V8(p.ps[i].id)) + VarintWidth(V8(Len(raw.es[j].body))) + Len(raw.es[j].body) = Len(EncodeParam(p.ps[i])))
CheckPdec(p) ==
    LET o == Rec[cur]
        s == DecodeParams(o.bytes, p.role) IN
    /\ Soft("RoundTrip", p.ok /\ p.ps = o.ps /\ p.eq)
    /\ Soft("DecOracle", IF s.ok THEN p.ok /\ p.ps = s.ps ELSE ~p.ok /\ p.class = s.class)

\* ---------------------------------------------------------------- C03: payloads
CheckPayload(p) ==
    LET s == DecodePayload(p.in, p.pt, Len(p.in) + 2)
        n == Min(Len(s), Len(p.items)) IN
    /\ Soft("Progress", ~p.noprogress /\ \A i \in 1..Len(p.items) : p.items[i].ok => p.items[i].consumed > 0)
    /\ Soft("Accept", Len(p.items) = Len(s) /\ \A i \in 1..n : p.items[i].ok = s[i].ok)
    /\ Soft("ErrClass", \A i \in 1..n : (~p.items[i].ok /\ ~s[i].ok) => p.items[i].class = s[i].class)
    /\ Soft("Frame", \A i \in 1..n : (p.items[i].ok /\ s[i].ok) =>
                        /\ p.items[i].t = s[i].t /\ p.items[i].consumed = s[i].consumed
                        /\ FieldsEq(s[i].t, p.items[i].x, s[i].x))

\* ---------------------------------------------------------------- C03: datagrams
ItemEq(a, b) ==
    /\ a.k = b.k /\ a.dcid = b.dcid /\ a.scid = b.scid /\ a.tok = b.tok /\ a.extra = b.extra /\ a.spin = b.spin
    /\ a.consumed = b.consumed /\ a.off = b.off
CheckDgram(p) ==
    LET s == DecodeDatagram(p.in, p.dl)
        n == Min(Len(s), Len(p.items)) IN
    /\ Soft("Progress", ~p.noprogress)
    /\ Soft("Accept", Len(p.items) = Len(s) /\ \A i \in 1..n : p.items[i].ok = s[i].ok)   \* parsed vs dropped
    /\ Soft("Packet", \A i \in 1..n : (p.items[i].ok /\ s[i].ok) => ItemEq(p.items[i], s[i]))

\* ---------------------------------------------------------------- C03: transport parameters
CheckParams(p) ==
    LET s1 == DecodeParamsS(p.in, p.role, TRUE)
        s == IF s1.ok = p.ok /\ (s1.ok => s1.ps = p.ps) THEN s1 ELSE DecodeParamsS(p.in, p.role, FALSE) IN
    /\ Soft("Accept", p.ok = s.ok)
    /\ Soft("ErrClass", (~p.ok /\ ~s.ok) => p.class = s.class)
    /\ Soft("Params", (p.ok /\ s.ok) => p.ps = s.ps)

Check(p) ==
    CASE p.ev = "reset" -> TRUE
      [] p.ev = "panic" -> Soft("Panic", FALSE)                            \* a panic in code under test is a violation
      [] p.ev = "enc" -> CheckEnc(p)
      [] p.ev = "rdec" -> CheckRdec(p)
      [] p.ev = "henc" -> CheckHenc(p)
      [] p.ev = "hdec" -> CheckHdec(p)
      [] p.ev = "prim" -> CheckPrim(p)
      [] p.ev = "penc" -> CheckPenc(p)
      [] p.ev = "pdec" -> CheckPdec(p)
      [] p.ev = "payload" -> CheckPayload(p)
      [] p.ev = "dgram" -> CheckDgram(p)
      [] p.ev = "params" -> CheckParams(p)

Inv == l > 1 => Check(Rec[l - 1])

TraceAccepted ==
    LET d == TLCGet("stats").diameter IN
    IF d - 1 = NE THEN TRUE
    ELSE PrintT(<<"TRACE_REJECTED_AT", d, IF d <= NE THEN Rec[d] ELSE "eof">>) /\ FALSE
=============================================================================
