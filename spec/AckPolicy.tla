---------------------------- MODULE AckPolicy ----------------------------
(***************************************************************************)
(* Acknowledgement POLICY of one path: WHEN must an ACK frame be sent and  *)
(* for WHICH largest number (RFC 9000 section 13.2).  C10 (the generated   *)
(* frame is truthful, RcvdJournal.tla) and C13 (every ack-eliciting packet *)
(* in flight is eventually acknowledged, lost or probed, Recovery.tla)     *)
(* both presuppose it: RcvdJournal!GenAck has the precondition "asked for  *)
(* a received, tracked largest", and the peer's loss detection only works  *)
(* if what it sent is acknowledged within max_ack_delay.                   *)
(*                                                                         *)
(* Code: the policy is split over two objects that back each other up.     *)
(*   cc   qcongestion/src/packets.rs RcvdRecords behind ArcCC              *)
(*        {on_pkt_rcvd, need_ack, on_pkt_sent(.., ack) -> on_ack_sent}     *)
(*        and ArcCC::do_tick (raises Signals::TRANSPORT on the send waker  *)
(*        while some space's need_ack is Some -- this is what makes the    *)
(*        path poll at all);                                               *)
(*   j    qrecovery/src/journal/rcvd.rs RcvdJournal {on_rcvd_pn (earliest_ *)
(*        not_ack_time), need_ack (fallback), gen_ack_frame_util}.         *)
(* Composition (qconnection): space/*.rs  journal.on_rcvd_pn; cc.on_pkt_   *)
(* rcvd.  path/burst.rs ack_package: c = cc.need_ack(epoch) sampled; Ack-  *)
(* Packege::dump: c.or_else(|| journal.need_ack()) -> gen_ack_frame_util;  *)
(* PacketsAssembler::commit -> cc.on_pkt_sent(.., Some(largest_ack)).      *)
(* Every one of these calls holds one lock for its body: one action each.  *)
(*                                                                         *)
(* The module is a MONITOR: the environment's events (arrivals, clock,     *)
(* the three steps of assembling a packet with an ACK frame, discards)     *)
(* rebuild the ground truth -- which ack-eliciting packets are not yet      *)
(* covered by an ACK frame that was SENT, and since when; the policy's      *)
(* answers come in as the observation `o` taken after each step:           *)
(*   o.c[s], o.ct[s]  cc.need_ack(s):       largest / its receive time     *)
(*   o.j[s], o.jt[s]  journal.need_ack():   likewise (NONE = no)           *)
(*   o.w              do_tick raised the TRANSPORT signal                   *)
(* The properties relate the answers to the ground truth.  `d` is the      *)
(* DESIGN: the policy as the code has it (Fixed = FALSE) or with the       *)
(* proposed repairs (Fixed = TRUE), written as functions D_*; the model    *)
(* checker and the generators take the answers from it, trace validation   *)
(* takes them from the implementation (and reports disagreement with the   *)
(* design as a diagnostic only).                                           *)
(***************************************************************************)
EXTENDS Integers, FiniteSets, Sequences, TLC

CONSTANTS MaxAckDelay,   \* max_ack_delay we advertise (clock units); governs the application space
          Fixed          \* design switch, see above

NONE == -1
Spaces == 1..3           \* Initial, Handshake, Application data
Mad(s) == IF s = 3 THEN MaxAckDelay ELSE 0      \* Initial / Handshake: acknowledge immediately
MaxOf(S) == CHOOSE m \in S : \A x \in S : x <= m
NoBuild == [L |-> NONE, cov |-> {}]

VARIABLES
    now,     \* clock
    rcvd,    \* [space -> set of packet numbers registered as received]
    arr,     \* [space -> [number -> [t: receive time, el: ack-eliciting, n: arrival index]]]
    pend,    \* [space -> ack-eliciting numbers not covered by an ACK frame that has been SENT]
    since,   \* [space -> ack-eliciting numbers that arrived after the last packet with an ACK frame was sent]
    phase,   \* [space -> "idle" | "polled" (ack_package sampled cc) | "built" (frame generated, packet not committed)]
    held,    \* [space -> <<largest, time>> sampled from cc by ack_package]
    build,   \* [space -> [L, cov] of the generated frame | NoBuild]
    gone,    \* discarded spaces
    raced,   \* [space -> an arrival fell between ack_package and commit (history; qualifies the report only)]
    d,       \* design state
    res      \* last step: [op, s, o]

vars == <<now, rcvd, arr, pend, since, phase, held, build, gone, raced, d, res>>

Elic(s) == {p \in rcvd[s] : arr[s][p].el}
\* owed and late: not covered by a sent ACK frame, nor by the frame already generated into the packet being assembled
Overdue(s) == \E p \in pend[s] \ build[s].cov : now > arr[s][p].t + Mad(s)
Live == Spaces \ gone

-----------------------------------------------------------------------------
(* The design: what the code does (Fixed = FALSE).                         *)
D0 == [imm   |-> [s \in Spaces |-> FALSE],   \* RcvdRecords.ack_immedietly
       first |-> [s \in Spaces |-> NONE],    \* RcvdRecords.latest_rcvd_time (time of the FIRST arrival since the reset)
       L     |-> [s \in Spaces |-> NONE],    \* RcvdRecords.largest_rcvd_packet
       Lt    |-> [s \in Spaces |-> NONE],
       je    |-> [s \in Spaces |-> NONE],    \* RcvdJournal.earliest_not_ack_time (number, time)
       jet   |-> [s \in Spaces |-> NONE],
       mk    |-> [s \in Spaces |-> {}]]      \* records a generated frame has marked AckSent

\* ArcCC::on_pkt_rcvd returns early for a packet that is not ack-eliciting
D_Rcvd(s, p, el) ==
    LET newL == d.L[s] = NONE \/ p > d.L[s]
        cc == IF el
              THEN [d EXCEPT !.imm[s] = @ \/ s \in {1, 2} \/ (d.L[s] # NONE /\ p < d.L[s]),
                             !.first[s] = IF @ = NONE THEN now ELSE @,
                             !.L[s] = IF newL THEN p ELSE @,
                             !.Lt[s] = IF newL THEN now ELSE @]
              ELSE d
    IN IF el /\ d.je[s] = NONE THEN [cc EXCEPT !.je[s] = p, !.jet[s] = now] ELSE cc

D_C(s) == IF d.imm[s] \/ (d.first[s] # NONE /\ d.first[s] + Mad(s) < now) THEN d.L[s] ELSE NONE
D_Ct(s) == IF D_C(s) = NONE THEN NONE ELSE d.Lt[s]
D_J(s) == IF d.je[s] = NONE \/ d.jet[s] + Mad(s) >= now \/ rcvd[s] = {} THEN NONE ELSE MaxOf(rcvd[s])
D_Jt(s) == IF D_J(s) = NONE THEN NONE ELSE arr[s][D_J(s)].t
D_W == \E s \in Spaces : D_C(s) # NONE         \* do_tick asks every space of cc, discarded or not
D_Obs == [w |-> D_W, c |-> [s \in Spaces |-> D_C(s)], ct |-> [s \in Spaces |-> D_Ct(s)],
          j |-> [s \in Spaces |-> D_J(s)], jt |-> [s \in Spaces |-> D_Jt(s)]]

\* earliest (by arrival, then by number) of a non-empty set of received numbers
Earliest(s, U) == CHOOSE p \in U : \A q \in U : arr[s][p].t < arr[s][q].t \/ (arr[s][p].t = arr[s][q].t /\ p <= q)
\* gen_ack_frame_util(.., largest, ..) producing a frame that covers cov
D_Gen(s, L, cov) ==
    LET mk2 == d.mk[s] \cup cov
        left == Elic(s) \ mk2
    IN IF Fixed
       THEN \* repair: re-derive the earliest unacknowledged arrival from the records that are still PacketReceived
            [d EXCEPT !.mk[s] = mk2,
                      !.je[s] = IF left = {} THEN NONE ELSE Earliest(s, left),
                      !.jet[s] = IF left = {} THEN NONE ELSE arr[s][Earliest(s, left)].t]
       ELSE [d EXCEPT !.mk[s] = mk2,
                      !.je[s] = IF @ # NONE /\ L >= @ THEN NONE ELSE @,
                      !.jet[s] = IF d.je[s] # NONE /\ L >= d.je[s] THEN NONE ELSE @]
\* on_ack_sent(pn, largest_acked)
D_Sent(s, L) ==
    IF Fixed /\ d.L[s] # NONE /\ d.L[s] > L
    THEN d   \* repair: something newer than the acknowledged largest arrived meanwhile -- keep demanding
    ELSE [d EXCEPT !.imm[s] = FALSE, !.first[s] = NONE, !.L[s] = NONE, !.Lt[s] = NONE]

-----------------------------------------------------------------------------
Init ==
    /\ now = 0
    /\ rcvd = [s \in Spaces |-> {}] /\ arr = [s \in Spaces |-> <<>>]
    /\ pend = [s \in Spaces |-> {}] /\ since = [s \in Spaces |-> {}]
    /\ phase = [s \in Spaces |-> "idle"] /\ held = [s \in Spaces |-> <<NONE, NONE>>]
    /\ build = [s \in Spaces |-> NoBuild] /\ gone = {} /\ raced = [s \in Spaces |-> FALSE]
    /\ d = D0
    /\ res = [op |-> "init", s |-> 0, o |-> [w |-> FALSE, c |-> [s \in Spaces |-> NONE], ct |-> [s \in Spaces |-> NONE],
                                              j |-> [s \in Spaces |-> NONE], jt |-> [s \in Spaces |-> NONE]]]

Reset(o) ==
    /\ now' = 0
    /\ rcvd' = [s \in Spaces |-> {}] /\ arr' = [s \in Spaces |-> <<>>]
    /\ pend' = [s \in Spaces |-> {}] /\ since' = [s \in Spaces |-> {}]
    /\ phase' = [s \in Spaces |-> "idle"] /\ held' = [s \in Spaces |-> <<NONE, NONE>>]
    /\ build' = [s \in Spaces |-> NoBuild] /\ gone' = {} /\ raced' = [s \in Spaces |-> FALSE]
    /\ d' = D0
    /\ res' = [op |-> "reset", s |-> 0, o |-> o]

\* a packet with a new number was decrypted and parsed: journal.on_rcvd_pn; cc.on_pkt_rcvd
Rcvd(s, p, el, o) ==
    /\ s \in Live /\ p \notin rcvd[s]
    /\ rcvd' = [rcvd EXCEPT ![s] = @ \cup {p}]
    /\ arr' = [arr EXCEPT ![s] = (p :> [t |-> now, el |-> el, n |-> Cardinality(rcvd[s])]) @@ @]
    /\ pend' = IF el THEN [pend EXCEPT ![s] = @ \cup {p}] ELSE pend
    /\ since' = IF el THEN [since EXCEPT ![s] = @ \cup {p}] ELSE since
    /\ raced' = [raced EXCEPT ![s] = @ \/ phase[s] # "idle"]
    /\ d' = D_Rcvd(s, p, el)
    /\ UNCHANGED <<now, phase, held, build, gone>>
    /\ res' = [op |-> "rcvd", s |-> s, o |-> o]

Advance(dt, o) ==
    /\ dt > 0 /\ now' = now + dt
    /\ UNCHANGED <<rcvd, arr, pend, since, phase, held, build, gone, raced, d>>
    /\ res' = [op |-> "adv", s |-> 0, o |-> o]

\* ack_package(): the cc answer (c, ct) is sampled for the packet about to be assembled
Poll(s, c, ct, o) ==
    /\ s \in Live /\ phase[s] \in {"idle", "polled"}
    /\ held' = [held EXCEPT ![s] = <<c, ct>>]
    /\ phase' = [phase EXCEPT ![s] = "polled"]
    /\ UNCHANGED <<now, rcvd, arr, pend, since, build, gone, raced, d>>
    /\ res' = [op |-> "poll", s |-> s, o |-> o]

\* AckPackege::dump: the sampled answer, else the journal's own (the previous observation: nothing happened since);
\* ok = an ACK frame with largest L covering cov was generated
Want(s) == IF held[s][1] # NONE THEN held[s] ELSE <<res.o.j[s], res.o.jt[s]>>
Gen(s, ok, L, Lt, cov, o) ==
    /\ s \in Live /\ phase[s] = "polled"
    /\ ok <=> (Want(s)[1] # NONE)
    /\ ok => (L = Want(s)[1] /\ Lt = Want(s)[2])
    /\ IF ok THEN /\ build' = [build EXCEPT ![s] = [L |-> L, cov |-> cov]]
                  /\ phase' = [phase EXCEPT ![s] = "built"]
                  /\ d' = D_Gen(s, L, cov)
             ELSE /\ phase' = [phase EXCEPT ![s] = "idle"]
                  /\ UNCHANGED <<build, d>>
    /\ held' = [held EXCEPT ![s] = <<NONE, NONE>>]
    /\ UNCHANGED <<now, rcvd, arr, pend, since, gone, raced>>
    /\ res' = [op |-> "gen", s |-> s, o |-> o, ok |-> ok, L |-> L, Lt |-> Lt, cov |-> cov]

\* commit: the packet with the frame is sent; cc.on_pkt_sent(.., Some(largest))
Sent(s, o) ==
    /\ s \in Live /\ phase[s] = "built"
    /\ pend' = [pend EXCEPT ![s] = @ \ build[s].cov]
    /\ since' = [since EXCEPT ![s] = {}]
    /\ d' = D_Sent(s, build[s].L)
    /\ build' = [build EXCEPT ![s] = NoBuild]
    /\ phase' = [phase EXCEPT ![s] = "idle"]
    /\ UNCHANGED <<now, rcvd, arr, held, gone, raced>>
    /\ res' = [op |-> "sent", s |-> s, o |-> o]

\* a packet without an ACK frame is sent (on_pkt_sent(.., None)), or a bare do_tick
Other(name, o) ==
    /\ UNCHANGED <<now, rcvd, arr, pend, since, phase, held, build, gone, raced, d>>
    /\ res' = [op |-> name, s |-> 0, o |-> o]

\* the Initial / Handshake space is discarded: nothing is owed there any more
Discard(s, o) ==
    /\ s \in {1, 2} \cap Live
    /\ gone' = gone \cup {s}
    /\ pend' = [pend EXCEPT ![s] = {}] /\ since' = [since EXCEPT ![s] = {}]
    /\ phase' = [phase EXCEPT ![s] = "idle"] /\ build' = [build EXCEPT ![s] = NoBuild]
    /\ held' = [held EXCEPT ![s] = <<NONE, NONE>>]
    /\ UNCHANGED <<now, rcvd, arr, raced, d>>
    /\ res' = [op |-> "discard", s |-> s, o |-> o]

-----------------------------------------------------------------------------
(* Properties.  They judge the observation taken after every step against  *)
(* the ground truth.  Ans(s) is what AckPackege::dump would act on.         *)
Ans(s) == IF res.o.c[s] # NONE THEN res.o.c[s] ELSE res.o.j[s]
AnsT(s) == IF res.o.c[s] # NONE THEN res.o.ct[s] ELSE res.o.jt[s]
Judged == res.op \notin {"init"}

\* (1) RFC 9000 13.2.1 MUST: an ack-eliciting packet is acknowledged within max_ack_delay (Initial / Handshake:
\*     immediately): once that time has passed and no sent ACK frame covers it, the policy demands an ACK -- and
\*     keeps demanding it until such a frame is sent.  (At the deadline itself either answer is accepted.)
EveryElicitingAckedIn(s) == Overdue(s) => Ans(s) # NONE
EveryElicitingAcked == Judged => \A s \in Live : EveryElicitingAckedIn(s)
\* ... and the path is made to poll: while something is overdue do_tick raises the TRANSPORT signal
\* (path/drive.rs; the send task sleeps on the signals otherwise)
OverdueWakes == Judged => ((\E s \in Live : Overdue(s)) => res.o.w)

\* (2) packets that are not ack-eliciting never make the policy demand an ACK (no ACK ping-pong, 13.2.1)
NoAckOfAckOnlyIn(s) == (Elic(s) = {}) => (res.o.c[s] = NONE /\ res.o.j[s] = NONE)
NoAckOfAckOnly == Judged => \A s \in Live : NoAckOfAckOnlyIn(s)

\* (4) once a sent ACK frame covers every ack-eliciting packet received, nothing demands an ACK until a new one arrives
AckSentSettlesIn(s) == (Elic(s) # {} /\ pend[s] = {}) => (res.o.c[s] = NONE /\ res.o.j[s] = NONE)
AckSentSettles == Judged => \A s \in Live : AckSentSettlesIn(s)

\* (3) the largest handed to the ACK generator: a number that was received (the precondition of RcvdJournal!GenAck),
\*     with the time it was received (the ACK Delay field is computed from it), and not below any ack-eliciting number
\*     that arrived since the last ACK frame was sent (so that the frame acknowledges what made it necessary)
GoodLargest(s, l, t) ==
    l # NONE => /\ l \in rcvd[s] /\ t = arr[s][l].t
                /\ \A p \in since[s] : p <= l
LargestReportedIn(s) == GoodLargest(s, res.o.c[s], res.o.ct[s]) /\ GoodLargest(s, res.o.j[s], res.o.jt[s])
LargestReported == Judged => \A s \in Live : LargestReportedIn(s)

\* the frame generated for a requested largest covers every received number up to it (capacity is ample here):
\* this is C10's clause, restated because the ground truth (pend) relies on it
CoverComplete == res.op = "gen" /\ res.ok => res.cov = {p \in rcvd[res.s] : p <= res.L}

Inv == EveryElicitingAcked /\ OverdueWakes /\ NoAckOfAckOnly /\ AckSentSettles /\ LargestReported /\ CoverComplete

\* ---- diagnostics (SHOULDs of 13.2.1 / 13.2.2 and agreement with the design; never a violation) ----
\* SHOULD acknowledge at least every second ack-eliciting packet
DiagEverySecond == Judged => \A s \in Live : Cardinality(since[s]) >= 2 => Ans(s) # NONE
\* SHOULD acknowledge immediately on reordering or a gap
Reordered(s) == \E p \in since[s] :
                    \/ \E q \in Elic(s) : q > p /\ arr[s][q].n < arr[s][p].n
                    \/ \E g \in 0..(p - 1) : g \notin rcvd[s] /\ \E q \in Elic(s) : q < g
DiagImmediateOnReorder == Judged => \A s \in Live : (pend[s] # {} /\ Reordered(s)) => Ans(s) # NONE
\* "usually the largest packet number received" (19.3)
DiagLargestIsMax == Judged => \A s \in Live : (Ans(s) # NONE /\ rcvd[s] # {}) => Ans(s) = MaxOf(rcvd[s])
\* the implementation answers what the design answers
DiagDesignAgrees == Judged => res.o = D_Obs
=============================================================================
