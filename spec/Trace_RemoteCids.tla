-------------------------- MODULE Trace_RemoteCids --------------------------
(* impl -> spec: events from the real ArcRemoteCids / ArcCidCell / BorrowedCid *)
EXTENDS RemoteCids, TLC, Json, IOUtils
VARIABLE l
Rec_ == ndJsonDeserialize(IOEnv.TRACE)
NE == Len(Rec_)
e == Rec_[l]
Ev(name) == l <= NE /\ e.ev = name /\ l' = l + 1
Matches == res'.ok = e.ok /\ res'.retired = e.retired
TReset == Ev("reset") /\ Reset
TApply == Ev("apply") /\ ApplyDcid /\ Matches
TInitial == Ev("initial") /\ ApplyInitial(e.c) /\ Matches
TNewCid == Ev("newcid") /\ RecvNewCid(e.seq, e.rpt) /\ Matches
TBorrow == Ev("borrow") /\ Borrow(e.c) /\ Matches /\ res'.out = e.out
TRelease == Ev("release") /\ Release(e.c) /\ Matches
TRetireCell == Ev("retirecell") /\ RetireCell(e.c) /\ Matches
\* reported without stopping the validation of the remaining runs (known finding, see DESIGN.md)
SoftActiveWithinLimit == ActiveWithinLimit \/ PrintT(<<"SOFT_VIOLATION", "ActiveWithinLimit", l>>)
TraceInit == l = 1 /\ Init
TraceNext == TReset \/ TApply \/ TInitial \/ TNewCid \/ TBorrow \/ TRelease \/ TRetireCell
TraceAccepted ==
    LET d == TLCGet("stats").diameter IN
    IF d - 1 = NE THEN TRUE
    ELSE PrintT(<<"TRACE_REJECTED_AT", d, IF d <= NE THEN Rec_[d] ELSE "eof">>) /\ FALSE
=============================================================================
