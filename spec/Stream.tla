------------------------------- MODULE Stream -------------------------------
(***************************************************************************)
(* Two endpoints ("cli", "srv") exchanging STREAM and stream-control frames *)
(* over a network that may lose, duplicate, reorder and delay them          *)
(* (qrecovery/src/streams/raw.rs DataStreams, send/*.rs, recv/*.rs,          *)
(* qbase/src/flow.rs, qbase/src/sid/*.rs).                                   *)
(*                                                                          *)
(* The module is the protocol-level contract of C01 / C11 / C12 as a state   *)
(* machine over what is observable at the two APIs (application calls and    *)
(* their results, frames put on the wire, frames handed to the peer and the   *)
(* result).  Which frame the sender emits next, how it splits data and when   *)
(* it announces more credit are NOT prescribed: they are parameters of the    *)
(* actions, constrained by the properties.  The per-kind initial windows are  *)
(* written once here, from RFC 9000 section 18.2.                             *)
(***************************************************************************)
EXTENDS Naturals, Sequences, FiniteSets

VARIABLE m     \* the whole monitor state, a record (see Init0)

Sides == {"cli", "srv"}
Peer(s) == IF s = "cli" THEN "srv" ELSE "cli"
Max(a, b) == IF a > b THEN a ELSE b
Min(a, b) == IF a < b THEN a ELSE b

\* stream id = 4 * index + type;  type 0 client-bidi, 1 server-bidi, 2 client-uni, 3 server-uni
Initiator(sid) == IF sid % 2 = 0 THEN "cli" ELSE "srv"
IsUni(sid) == (sid % 4) \in {2, 3}
Index(sid) == sid \div 4
DirOf(sid) == IF IsUni(sid) THEN "uni" ELSE "bi"
MaySend(side, sid) == ~IsUni(sid) \/ Initiator(sid) = side
MayRecv(side, sid) == ~IsUni(sid) \/ Initiator(sid) # side

\* RFC 9000 18.2: the window the RECEIVER `r` (with transport parameters p) grants to data on stream sid
InitWindow(p, r, sid) ==
    IF IsUni(sid) THEN p.uni
    ELSE IF Initiator(sid) = r THEN p.bidi_local ELSE p.bidi_remote

Get(f, k, d) == IF k \in DOMAIN f THEN f[k] ELSE d
Put(f, k, v) == [x \in DOMAIN f \cup {k} |-> IF x = k THEN v ELSE f[x]]

Init0(cfg) ==
    [ cfg      |-> cfg,            \* transport parameters: cfg.cli, cfg.srv, cfg.rem (remembered by the client, if cfg.hasRem)
      hs       |-> FALSE,          \* handshake done: real peer parameters known
      rej      |-> FALSE,          \* the handshake rejected the client's 0-RTT
      wr       |-> <<>>,           \* <<sid, sender>> -> bytes accepted from the application
      shut     |-> {},             \* flows whose writer asked for shutdown
      ended    |-> {},             \* flows reset / stopped (contract no longer applies)
      sent     |-> <<>>,           \* flow -> positions ever put on the wire (since the last 0-RTT rejection)
      sndLim   |-> <<>>,           \* flow -> per-stream limit the sender knows (overrides the initial one)
      rcvLim   |-> <<>>,           \* flow -> per-stream limit the receiver advertised (overrides the initial one)
      arrived  |-> <<>>,           \* flow -> positions delivered to the receiver
      hi       |-> <<>>,           \* flow -> highest offset delivered
      fin      |-> <<>>,           \* flow -> final size known to the receiver
      rdone    |-> {},             \* flows the receiver has completely received or that were reset (later frames ignored)
      nread    |-> <<>>,           \* flow -> bytes read by the application
      eos      |-> {},             \* flows whose reader saw end-of-stream
      cSndLim  |-> [s \in Sides |-> 0],   \* connection limit the sender s knows
      cCharged |-> [s \in Sides |-> 0],   \* fresh bytes s charged against it
      cRcvLim  |-> [s \in Sides |-> cfg[s].max_data],  \* connection limit s advertised
      cRcvd    |-> [s \in Sides |-> 0],   \* data s accounted as received
      opened   |-> [s \in Sides |-> [bi |-> 0, uni |-> 0]],   \* streams s opened itself
      sLim     |-> [s \in Sides |-> [bi |-> 0, uni |-> 0]],   \* stream-count limit s knows for opening
      sAdv     |-> [s \in Sides |-> [bi |-> cfg[s].streams_bidi, uni |-> cfg[s].streams_uni]],  \* what s advertised
      implicit |-> [s \in Sides |-> [bi |-> 0, uni |-> 0]],   \* peer streams implicitly opened at s (count)
      accepted |-> [s \in Sides |-> [bi |-> 0, uni |-> 0]],   \* of which handed to the application
      dead     |-> {},             \* endpoints that detected a connection error
      ok       |-> TRUE,           \* becomes FALSE when an event contradicts the contract ...
      why      |-> "",             \* ... and says which clause
      soft     |-> "" ]            \* name of a recorded (known) deviation the run exhibits; the model then follows the code

Key(sid, sender) == <<sid, sender>>

\* limits in force
SndLimOf(st, k) ==
    LET sid == k[1]  snd == k[2]  rcv == Peer(snd)
        base == IF st.hs THEN InitWindow(st.cfg[rcv], rcv, sid)
                ELSE IF snd = "cli" /\ st.cfg.hasRem THEN InitWindow(st.cfg.rem, rcv, sid) ELSE 0
    IN Max(base, Get(st.sndLim, k, 0))
RcvLimOf(st, k) ==
    LET sid == k[1]  rcv == Peer(k[2]) IN Max(InitWindow(st.cfg[rcv], rcv, sid), Get(st.rcvLim, k, 0))

Fail(st, why) == IF st.ok THEN [st EXCEPT !.ok = FALSE, !.why = why] ELSE st
Bad(st) == ~st.ok

-----------------------------------------------------------------------------
\* handshake completes: real parameters replace remembered ones; a rejected 0-RTT forgets what was sent
Handshake(st, rejected) ==
    LET st1 == [st EXCEPT !.hs = TRUE, !.rej = rejected,
                          !.cSndLim = [s \in Sides |-> IF rejected \/ s = "srv" THEN st.cfg[Peer(s)].max_data
                                                        ELSE Max(st.cSndLim[s], st.cfg[Peer(s)].max_data)],
                          !.sLim = [s \in Sides |->
                                      [bi  |-> IF rejected \/ s = "srv" THEN st.cfg[Peer(s)].streams_bidi ELSE Max(st.sLim[s].bi, st.cfg[Peer(s)].streams_bidi),
                                       uni |-> IF rejected \/ s = "srv" THEN st.cfg[Peer(s)].streams_uni ELSE Max(st.sLim[s].uni, st.cfg[Peer(s)].streams_uni)]]]
    IN IF rejected
       \* everything sent in 0-RTT is forgotten and will be sent, and charged, again as new data
       THEN [st1 EXCEPT !.sent = <<>>, !.sndLim = <<>>, !.cCharged = [s \in Sides |-> 0]]
       ELSE st1

ZeroRttInit(st) ==   \* what the client may use before the handshake: the remembered parameters
    IF ~st.cfg.hasRem THEN st
    ELSE [st EXCEPT !.cSndLim = [@ EXCEPT !["cli"] = st.cfg.rem.max_data],
                    !.sLim = [@ EXCEPT !["cli"] = [bi |-> st.cfg.rem.streams_bidi, uni |-> st.cfg.rem.streams_uni]]]

\* application opens a stream
Open(st, side, dir, res, sid) ==
    LET n == st.opened[side][dir]
        want == 4 * n + (IF side = "cli" THEN 0 ELSE 1) + (IF dir = "uni" THEN 2 ELSE 0)
    IN IF res = "ok"
       THEN IF sid # want THEN Fail(st, "stream ids are not allocated consecutively")
            ELSE IF n >= st.sLim[side][dir] THEN Fail(st, "opened more streams than the peer allows (C12)")
            ELSE [st EXCEPT !.opened[side][dir] = n + 1]
       ELSE IF res = "pending" /\ st.hs /\ n < st.sLim[side][dir] /\ side \notin st.dead
            THEN Fail(st, "open blocked although the peer's stream limit allows it")
       ELSE st

\* application accepts a peer-initiated stream: each implicitly opened stream is offered exactly once, in order
Accept(st, side, dir, res, sid) ==
    LET n == st.accepted[side][dir]
        want == 4 * n + (IF side = "cli" THEN 1 ELSE 0) + (IF dir = "uni" THEN 2 ELSE 0)
    IN IF res = "ok"
       THEN IF sid # want THEN Fail(st, "accepted stream out of order or twice (C12)")
            ELSE IF n >= st.implicit[side][dir] THEN Fail(st, "accepted a stream the peer never opened")
            ELSE [st EXCEPT !.accepted[side][dir] = n + 1]
       ELSE IF res = "pending" /\ n < st.implicit[side][dir] /\ side \notin st.dead
            THEN Fail(st, "accept blocks although an opened stream is waiting")
       ELSE st

Write(st, side, sid, n, acc, res) ==
    LET k == Key(sid, side) IN
    IF res = "ok" THEN
        IF acc # n THEN Fail(st, "partial write")
        ELSE IF k \in st.shut THEN Fail(st, "write accepted after shutdown")
        ELSE [st EXCEPT !.wr = Put(@, k, Get(st.wr, k, 0) + n)]
    ELSE IF res = "pending" /\ Get(st.wr, k, 0) < SndLimOf(st, k) /\ k \notin st.shut /\ k \notin st.ended /\ side \notin st.dead
         THEN Fail(st, "write blocks although the stream window has room")
    ELSE st

Shutdown(st, side, sid, res) ==
    LET k == Key(sid, side) IN
    IF res \in {"ok", "pending"} THEN [st EXCEPT !.shut = @ \cup {k}] ELSE st

End(st, sid, sender) == [st EXCEPT !.ended = @ \cup {Key(sid, sender)}]

\* one STREAM frame put on the wire by `side`
Emit(st, side, fr) ==
    LET k == Key(fr.sid, side)
        P == fr.off .. (fr.off + fr.len - 1)
        fresh == P \ Get(st.sent, k, {})
        charged == st.cCharged[side] + Cardinality(fresh)
    IN IF ~MaySend(side, fr.sid) THEN Fail(st, "STREAM frame on a receive-only stream")
       ELSE IF Initiator(fr.sid) = side /\ Index(fr.sid) >= st.sLim[side][DirOf(fr.sid)]
            THEN Fail(st, "data sent on a stream beyond the peer's current stream limit (C12)")
       ELSE IF ~fr.data_ok THEN Fail(st, "frame payload differs from what was written (C01)")
       ELSE IF fr.off + fr.len > Get(st.wr, k, 0) THEN Fail(st, "frame carries bytes that were never written (C01)")
       ELSE IF fr.len = 0 /\ ~fr.fin THEN Fail(st, "empty STREAM frame without FIN")
       ELSE IF fr.fin /\ ~(k \in st.shut /\ fr.off + fr.len = Get(st.wr, k, 0)) THEN Fail(st, "FIN before the end of the data / without shutdown (C01)")
       ELSE IF fr.off + fr.len > SndLimOf(st, k) THEN Fail(st, "stream data beyond the peer's per-stream limit (C11)")
       ELSE IF charged > st.cSndLim[side] THEN Fail(st, "fresh stream data beyond the peer's connection limit (C11)")
       ELSE [st EXCEPT !.sent = Put(@, k, Get(st.sent, k, {}) \cup P), !.cCharged[side] = charged]

\* After a rejected 0-RTT the stream limit may shrink below the number of streams the client already opened;
\* those streams must stay silent.  The code's filter compares the stream index with the number of OPENED
\* streams instead of the limit (DataStreams::try_load_data_into_once: stream_allowed), so it never filters:
\* named deviation SendsBeyondRevisedStreamLimit, reported as a soft violation of C12 (only in that situation).
EmitSoft(st, side, fr) ==
    IF st.rej /\ Initiator(fr.sid) = side /\ Index(fr.sid) >= st.sLim[side][DirOf(fr.sid)]
    THEN Emit([st EXCEPT !.soft = "SendsBeyondRevisedStreamLimit",
                         !.sLim[side][DirOf(fr.sid)] = Index(fr.sid) + 1], side, fr)
    ELSE Emit(st, side, fr)
RECURSIVE EmitAll(_, _, _)
EmitAll(st, side, frs) == IF frs = <<>> \/ Bad(st) THEN st ELSE EmitAll(EmitSoft(st, side, Head(frs)), side, Tail(frs))

Pack(st, side, frs, connAvail) ==
    LET st1 == EmitAll(st, side, frs) IN
    IF side \in st.dead THEN st
    ELSE IF Bad(st1) THEN st1
    ELSE IF side \notin st.dead /\ connAvail # st1.cSndLim[side] - st1.cCharged[side]
         THEN Fail(st1, "connection credit is not what was charged: bytes charged twice or credit not returned (C11)")
    ELSE st1

\* control frames the endpoint queued for sending
EmitCtl(st, side, fr) ==
    IF fr.t = "max_stream_data" THEN
        LET k == Key(fr.sid, Peer(side)) IN
        IF fr.v < RcvLimOf(st, k) THEN Fail(st, "advertised stream limit decreases (C11)")
        ELSE [st EXCEPT !.rcvLim = Put(@, k, fr.v)]
    ELSE IF fr.t = "max_data" THEN
        IF fr.v < st.cRcvLim[side] THEN Fail(st, "advertised connection limit decreases (C11)")
        ELSE [st EXCEPT !.cRcvLim[side] = fr.v]
    ELSE IF fr.t = "max_streams" THEN
        IF fr.v < st.sAdv[side][fr.dir] THEN Fail(st, "advertised stream count decreases (C12)")
        ELSE [st EXCEPT !.sAdv[side][fr.dir] = fr.v]
    ELSE IF fr.t = "reset" THEN End(st, fr.sid, side)
    ELSE IF fr.t = "stop" THEN End(st, fr.sid, Peer(side))
    ELSE st
RECURSIVE EmitCtlAll(_, _, _)
EmitCtlAll(st, side, frs) == IF frs = <<>> \/ Bad(st) THEN st ELSE EmitCtlAll(EmitCtl(st, side, Head(frs)), side, Tail(frs))

\* implicit opening: using stream sid opens every lower stream of its kind
Touch(st, side, sid) ==
    IF Initiator(sid) = side THEN st
    ELSE LET d == DirOf(sid) IN [st EXCEPT !.implicit[side][d] = Max(@, Index(sid) + 1)]

\* a frame for a stream the receiver itself is to initiate but has not created yet (RFC: STREAM_STATE_ERROR;
\* C12 does not list it, the code ignores such frames: not judged)
NotYetCreated(st, to, sid) == Initiator(sid) = to /\ Index(sid) >= st.opened[to][DirOf(sid)]

\* errors a frame must be answered with because of its stream id alone (C12)
IdErrors(st, from, sid, kind) ==
    LET to == Peer(from) IN
    (IF kind \in {"stream", "reset"} /\ ~MaySend(from, sid) THEN {"err:StreamState"} ELSE {})
    \cup (IF kind \in {"stop", "max_stream_data"} /\ ~MayRecv(from, sid) THEN {"err:StreamState"} ELSE {})
    \cup (IF Initiator(sid) = from /\ Index(sid) >= st.sAdv[to][DirOf(sid)] THEN {"err:StreamLimit"} ELSE {})

\* The code admits the stream whose index EQUALS the advertised count (RemoteStreamIds::try_accept_sid tests
\* `index > max`; a unit test of the repository asserts that behaviour): named deviation StreamLimitOffByOne.
\* The model follows the code for exactly that index and reports it as a soft violation of C12.
AtLimit(st, from, sid) == Initiator(sid) = from /\ Index(sid) = st.sAdv[Peer(from)][DirOf(sid)]
Soften(st, from, sid, res) ==
    IF AtLimit(st, from, sid) /\ res # "err:StreamLimit"
    THEN [st EXCEPT !.soft = "StreamLimitOffByOne", !.sAdv[Peer(from)][DirOf(sid)] = @ + 1]
    ELSE st

Judge(st, to, E, res, stOk) ==
    IF E # {} THEN (IF res \in E THEN [st EXCEPT !.dead = @ \cup {to}]
                    ELSE Fail(st, IF "err:FlowControl" \in E THEN "data beyond an advertised limit was not answered with FLOW_CONTROL_ERROR (C11)"
                                  ELSE IF "err:StreamLimit" \in E THEN "use of a stream beyond the advertised count was not answered with STREAM_LIMIT_ERROR (C12)"
                                  ELSE IF "err:StreamState" \in E THEN "frame on a stream of the wrong direction was not answered with STREAM_STATE_ERROR (C12)"
                                  ELSE "contradicted final size was not answered with FINAL_SIZE_ERROR (C12)"))
    ELSE IF res # "ok" THEN Fail(st, "legitimate frame rejected") ELSE stOk

\* a frame of `from` handed to the peer, with the result the peer's code returned
RECURSIVE Deliver(_, _, _, _, _)
Deliver(st, from, fr, res, fresh) ==
    LET to == Peer(from) IN
    IF "sid" \in DOMAIN fr /\ AtLimit(st, from, fr.sid) /\ res # "err:StreamLimit" /\ to \notin st.dead
    THEN Deliver(Soften(st, from, fr.sid, res), from, fr, res, fresh) ELSE
    IF to \in st.dead THEN st
    ELSE IF fr.t = "stream" THEN
        LET k == Key(fr.sid, from)
            end == fr.off + fr.len
            hi0 == Get(st.hi, k, 0)
            hi1 == IF fr.len > 0 THEN Max(hi0, end) ELSE hi0      \* an empty frame delivers no data
            finKnown == k \in DOMAIN st.fin
            idE == IdErrors(st, from, fr.sid, "stream")
            flowE == IF end > RcvLimOf(st, k) \/ st.cRcvd[to] + (hi1 - hi0) > st.cRcvLim[to] THEN {"err:FlowControl"} ELSE {}
            finE == IF (finKnown /\ (end > st.fin[k] \/ (fr.fin /\ end # st.fin[k]))) \/ (fr.fin /\ end < hi0)
                    THEN {"err:FinalSize"} ELSE {}
            st1 == Touch(st, to, fr.sid)
            arr == Get(st.arrived, k, {}) \cup (fr.off .. (end - 1))
            fin1 == IF fr.fin THEN Put(st.fin, k, end) ELSE st.fin
            complete == k \in DOMAIN fin1 /\ (0 .. (fin1[k] - 1)) \subseteq arr
            stOk == [st1 EXCEPT !.arrived = Put(@, k, arr), !.hi = Put(@, k, hi1), !.fin = fin1,
                                !.cRcvd[to] = @ + (hi1 - hi0),
                                !.rdone = IF complete THEN @ \cup {k} ELSE @]
        IN IF idE # {} THEN Judge(st, to, idE, res, st)
           ELSE IF k \in st.rdone \/ k \in st.ended \/ NotYetCreated(st, to, fr.sid)
           \* finished / voided / not yet created streams: not judged; what the code charged is taken as is
           THEN IF res = "ok" THEN [st1 EXCEPT !.cRcvd[to] = @ + fresh] ELSE [st1 EXCEPT !.dead = @ \cup {to}]
           ELSE IF flowE \cup finE # {} THEN Judge(st1, to, flowE \cup finE, res, st1)
           ELSE IF res # "ok" THEN Fail(st1, "legitimate STREAM frame rejected")
           ELSE IF fresh # hi1 - hi0 THEN Fail(st1, "newly covered data reported for the arrival is not the growth of the highest offset (C08/C11)")
           ELSE stOk
    ELSE IF fr.t = "max_stream_data" THEN
        LET k == Key(fr.sid, to)
            idE == IdErrors(st, from, fr.sid, "max_stream_data")
        IN IF idE # {} THEN Judge(st, to, idE, res, st)
           ELSE [Touch(st, to, fr.sid) EXCEPT !.sndLim = Put(@, k, Max(Get(st.sndLim, k, 0), fr.v))]
    ELSE IF fr.t = "max_data" THEN [st EXCEPT !.cSndLim[to] = Max(@, fr.v)]
    ELSE IF fr.t = "max_streams" THEN [st EXCEPT !.sLim[to][fr.dir] = Max(@, fr.v)]
    ELSE IF fr.t = "reset" THEN
        LET k == Key(fr.sid, from)
            hi0 == Get(st.hi, k, 0)
            finKnown == k \in DOMAIN st.fin
            idE == IdErrors(st, from, fr.sid, "reset")
            finE == IF fr.final < hi0 \/ (finKnown /\ fr.final # st.fin[k]) THEN {"err:FinalSize"} ELSE {}
            flowE == IF fr.final > RcvLimOf(st, k) \/ (fr.final > hi0 /\ st.cRcvd[to] + (fr.final - hi0) > st.cRcvLim[to])
                     THEN {"err:FlowControl"} ELSE {}
            st1 == Touch(st, to, fr.sid)
            stOk == [st1 EXCEPT !.rdone = @ \cup {k}, !.ended = @ \cup {k},
                                !.cRcvd[to] = @ + (IF fr.final > hi0 THEN fr.final - hi0 ELSE 0)]
        IN IF idE # {} THEN Judge(st, to, idE, res, st)
           ELSE IF k \in st.rdone \/ k \in st.ended \/ NotYetCreated(st, to, fr.sid)
           THEN (IF res = "ok" THEN [st1 EXCEPT !.cRcvd[to] = @ + fresh] ELSE [st1 EXCEPT !.dead = @ \cup {to}])
           ELSE Judge(st1, to, finE \cup flowE, res, stOk)
    ELSE IF fr.t = "stop" THEN
        LET idE == IdErrors(st, from, fr.sid, "stop") IN
        IF idE # {} THEN Judge(st, to, idE, res, st) ELSE Touch(st, to, fr.sid)
    ELSE st

\* the application reads up to k bytes of the flow towards `side`
Read(st, side, sid, n, eos, res, dataOk) ==
    LET k == Key(sid, Peer(side))
        nr == Get(st.nread, k, 0)
        arr == Get(st.arrived, k, {})
        finKnown == k \in DOMAIN st.fin
    IN IF side \in st.dead \/ k \in st.ended THEN st      \* the connection failed here / the stream was reset or stopped
       ELSE IF res = "ok" THEN
          IF ~dataOk THEN Fail(st, "bytes read differ from the bytes written (C01)")
          ELSE IF ~((nr .. (nr + n - 1)) \subseteq arr) THEN Fail(st, "read returned bytes that have not arrived (C01)")
          ELSE IF eos /\ ~(finKnown /\ nr = st.fin[k]) THEN Fail(st, "end of stream reported before the last byte (C01)")
          ELSE [st EXCEPT !.nread = Put(@, k, nr + n), !.eos = IF eos THEN @ \cup {k} ELSE @]
       ELSE IF res = "pending" /\ k \notin st.ended /\ side \notin st.dead
               /\ (nr \in arr \/ (finKnown /\ nr = st.fin[k]))
            THEN Fail(st, "read blocks although data / end of stream is available (C01)")
       ELSE st

\* after the fair finish: everything written on a healthy flow was read, in order, and flushed
Final(st, side, sid, written, peerRead, flushed, parked, peerHasReader, quiescent, dead) ==
    LET k == Key(sid, side)
        rcv == Peer(side)
        live == ~dead /\ st.dead = {} /\ quiescent /\ peerHasReader /\ k \notin st.ended
                /\ InitWindow(st.cfg[rcv], rcv, sid) >= 1 /\ st.cfg[rcv].max_data >= 2
                /\ (IsUni(sid) \/ InitWindow(st.cfg[side], side, sid) >= 0)
    IN IF ~live THEN st
       ELSE IF written # Get(st.wr, k, 0) THEN Fail(st, "harness bookkeeping")
       ELSE IF parked > 0 /\ written < SndLimOf(st, k) /\ k \notin st.shut
            THEN Fail(st, "a write parked on the stream window was never woken although the window has room again (C01)")
       ELSE IF peerRead # written THEN Fail(st, "written bytes never became readable although the network delivered everything (C01)")
       ELSE IF ~flushed THEN Fail(st, "flush does not complete although everything was acknowledged (C01)")
       ELSE IF k \in st.shut /\ k \notin st.eos THEN Fail(st, "end of stream never reported although FIN could be delivered (C01)")
       ELSE st

Contract == m.ok
=============================================================================
