---------------------------- MODULE MC_LocalCids ----------------------------
EXTENDS LocalCids, TLC
CONSTANTS MaxSeq, Limits
MCShared == {<<"x", 0>>}
DoCreate == \E c \in Conns : Create(c)
DoSetLimit == \E c \in Conns, L \in Limits : SetLimit(c, L)
DoRetire == \E c \in Conns, q \in 0..MaxSeq : lc[c].next < MaxSeq /\ RecvRetire(c, q)
DoDrop == \E c \in Conns : Drop(c)
DoClaim == \E c \in Conns, s \in Shared : Cardinality(entries) < 4 /\ Claim(c, s)
DoUnclaim == \E c \in Conns, s \in Shared : Unclaim(c, s)
MCNext == DoCreate \/ DoSetLimit \/ DoRetire \/ DoDrop \/ DoClaim \/ DoUnclaim
View == <<lc, table, {<<e.c, e.sp, e.n = owner[e.sp]>> : e \in {x \in entries : x.sp \in Shared}}, {<<e.c, e.sp>> : e \in entries}>>
=============================================================================
