------------------------- MODULE Trace_StreamSched -------------------------
(* impl -> spec: runs recorded by `vh-sched replay` from one real DataStreams + FlowController.
   Every call of DataStreams::package(..).dump(..) (= try_load_data_into_once) is one `once` event and is judged by
   StreamSched!Once: the served stream must be the one the design serves from the modelled cursor, the byte count must
   respect tokens / windows / credit / room, a refusal must be justified (WorkConserving), and the history accounting
   of StreamSched raises NoStarvation / RoundRepeats on the recorded run.  The cursor and the tokens are not read from
   the implementation: they are a deterministic function of the recorded calls. *)
EXTENDS StreamSched, Json, IOUtils, Sequences
VARIABLES l, m,
          off,     \* bytes sent per stream (absolute offsets; the model itself only keeps differences)
          csent    \* fresh bytes charged to the connection window
Rec_ == ndJsonDeserialize(IOEnv.TRACE)
NE == Len(Rec_)
e == Rec_[l]
Ev(name) == l <= NE /\ e.ev = name /\ l' = l + 1
AllIds == 0..255

Chk(x, cond, why) == IF x.ok /\ ~cond THEN Fail(x, why) ELSE x
Keep == UNCHANGED <<off, csent>>

TReset == Ev("reset") /\ m' = Init0(0) /\ off' = Empty /\ csent' = 0
TInit == Ev("init") /\ m' = MaxData(m, e.credit) /\ Keep
TOpen == Ev("open") /\ m' = Open(m, e.sid, e.room) /\ off' = Put(off, e.sid, 0) /\ UNCHANGED csent
TWrite == Ev("write") /\ m' = Write(m, e.sid, e.acc) /\ Keep
TFin == Ev("fin") /\ m' = (IF e.res = "err" THEN Clear(m) ELSE Shutdown(m, e.sid)) /\ Keep
TCancel == Ev("cancel") /\ m' = Cancel(m, e.sid) /\ Keep
TAck == Ev("ack") /\ m' = AckAll(m, e.sid) /\ Keep
TRstAck == Ev("rstack") /\ m' = ResetAcked(m, e.sid) /\ Keep
TWu == Ev("wu") /\ m' = WindowUpdate(m, e.sid, IF e.v > Get(off, e.sid, 0) THEN e.v - Get(off, e.sid, 0) ELSE 0) /\ Keep
TMd == Ev("md") /\ m' = Chk(MaxData(m, IF e.v > csent THEN e.v - csent ELSE 0), e.avail = Max(m.credit, IF e.v > csent THEN e.v - csent ELSE 0), "CreditMismatch")
              /\ Keep
TPack == Ev("pack") /\ m' = NewPack(m) /\ Keep
TOnce ==
    /\ Ev("once")
    /\ IF e.ok
       THEN LET x == Once(m, e.rem, TRUE, e.sid, e.len, e.fin)
                y == Chk(Chk(Chk(x, e.data_ok, "DataMismatch"), e.off = Get(off, e.sid, 0), "OffsetMismatch"),
                         e.avail = x.credit, "CreditMismatch")
            IN /\ m' = y
               /\ off' = Put(off, e.sid, Get(off, e.sid, 0) + e.len)
               /\ csent' = csent + e.len
       ELSE /\ m' = Chk(Once(m, e.rem, FALSE, -1, 0, FALSE), e.avail = m.credit, "CreditMismatch")
            /\ Keep
\* a call that reported success without consuming room: the Repeat loop around it would never end
TStuck == Ev("stuck") /\ m' = Fail(Clear(m), "Stuck") /\ Keep

TraceInit == l = 1 /\ m = Init0(0) /\ off = Empty /\ csent = 0
TraceNext == TReset \/ TInit \/ TOpen \/ TWrite \/ TFin \/ TCancel \/ TAck \/ TRstAck \/ TWu \/ TMd \/ TPack \/ TOnce \/ TStuck

ContractHolds == m.ok \/ PrintT(<<"CONTRACT", m.why>>) = FALSE
SoftHolds == m.soft = "" \/ PrintT(<<"SOFT_VIOLATION", m.soft, l>>)
StateOk == TokensInRange(m) /\ CursorValid(m)
TraceAccepted ==
    LET d == TLCGet("stats").diameter IN
    IF d - 1 = NE THEN TRUE
    ELSE PrintT(<<"TRACE_REJECTED_AT", d, IF d <= NE THEN Rec_[d] ELSE "eof">>) /\ FALSE
=============================================================================
