---------------------------- MODULE Gen_Datagram ----------------------------
(* spec -> implementation: every call sequence of length Depth (after the forced prologue        *)
(* DatagramFlow::new / new_writer / new_reader) over the operations in Ops, with argument values  *)
(* around the boundaries the property quantifies over: payload sizes 0, 1, limit-3..limit+1 and   *)
(* a big one, remaining-space values around the head datagram's frame size in both forms,         *)
(* injected frames around the local limit in both forms.  Also used with -simulate.               *)
EXTENDS Datagram, TLC, Json
CONSTANTS PeerMaxes,    \* peer's max_datagram_frame_size values (0 = disabled)
          LocalMaxes,   \* our max_datagram_frame_size values; {} = the same value as the peer's (loop-back pairing)
          MaxPktG,      \* frame space of an empty full-size packet
          Ops,          \* subset of {"send","pack","packfull","lose","deliver","inject","read","connerr"}
          SendBase,     \* payload sizes tried whatever the limit (0, 1, one beyond every limit)
          SendAround,   \* offsets d: payload sizes peerMax - 4 + d are tried (0..5 = limit-4 .. limit+1)
          Depth
VARIABLE hist
Configs == IF LocalMaxes = {} THEN {<<pm, pm, MaxPktG>> : pm \in PeerMaxes}
           ELSE {<<pm, lm, MaxPktG>> : pm \in PeerMaxes, lm \in LocalMaxes}
GenInit == Init /\ hist = <<>>
H(x) == hist' = Append(hist, x)
Clip(S) == {x \in S : x >= 0}
N0(a, b) == IF a > b THEN a - b ELSE 0
\* the configuration of this run, as chosen by the first step
Cfg == hist[1]
SendSizes == SendBase \cup {N0(peerMax, 4) + d : d \in SendAround}
PackSpaces == IF queue = <<>> THEN {0, maxPkt}
              ELSE {N0(Head(queue).size, 1)} \cup {Head(queue).size + d : d \in 0..(VL(Head(queue).size) + 2)}
InjSizes == {0} \cup {N0(localMax, 5) + d : d \in 0..6}
Prologue ==
    \/ /\ hist = <<>>
       /\ \E c \in Configs : Setup(c[2], c[3]) /\ H(<<"setup", c[1], c[2], c[3]>>)
    \/ /\ Len(hist) = 1 /\ NewWriter(Cfg[2]) /\ H(<<"writer", Cfg[2]>>)
    \/ /\ Len(hist) = 2 /\ NewReader /\ H(<<"reader">>)
Body ==
    /\ Len(hist) >= 3 /\ Len(hist) < Depth + 3
    /\ \/ "send" \in Ops /\ \E s \in SendSizes : Send(s) /\ H(<<"send", s>>)
       \/ "pack" \in Ops /\ \E sp \in PackSpaces : PackAsCode(sp) /\ H(<<"pack", sp>>)
       \/ "packfull" \in Ops /\ PackAsCode(maxPkt) /\ H(<<"pack", maxPkt>>)
       \/ "lose" \in Ops /\ \E i \in DOMAIN net : Lose(i) /\ H(<<"lose", i>>)
       \/ "deliver" \in Ops /\ Deliver /\ H(<<"deliver">>)
       \/ "inject" \in Ops /\ \E s \in InjSizes, w \in BOOLEAN : Inject(s, w) /\ H(<<"inject", s, w>>)
       \/ "read" \in Ops /\ Read /\ H(<<"read">>)
       \/ "connerr" \in Ops /\ ~err /\ ConnError /\ H(<<"connerr">>)
GenNext == Prologue \/ Body
Emit == (Len(hist) = Depth + 3) => PrintT(<<"GEN", ToJson(hist)>>)
=============================================================================
