--------------------------- MODULE Trace_SendBuf ---------------------------
(* Trace validation (impl -> spec): every event recorded from the real       *)
(* qrecovery::send::SendBuf must be a step of SendBuf.tla, and every         *)
(* invariant of SendBuf.tla must hold after it.  Events carry the call, its   *)
(* result and the full projected state (colours via the verif hook).          *)
EXTENDS SendBuf, TLC, Json, IOUtils
VARIABLE l

Rec == ndJsonDeserialize(IOEnv.TRACE)
N == Len(Rec)
e == Rec[l]

ColsOf(ev) == [i \in 0..(Len(ev.cols)-1) |-> ev.cols[i+1]]

\* the projected state logged with every event must equal the spec's next state
StateMatches ==
    /\ written' = e.written
    /\ max' = e.max
    /\ col' = ColsOf(e)
    /\ e.base <= FirstNotR(col', SizeOf(written', max'))  \* retention at least what the spec keeps
    /\ e.sent = (IF \E i \in DOMAIN col' : col'[i] = "P"
                 THEN CHOOSE i \in DOMAIN col' : col'[i] = "P" /\ \A j \in DOMAIN col' : col'[j] = "P" => i <= j
                 ELSE SizeOf(written', max'))
    /\ e.all = (\A i \in 0..(written'-1) : i \in DOMAIN col' /\ col'[i] = "R")
    \* the implementation's retention base must itself satisfy KeepUnacked
    /\ \A i \in 0..(written'-1) : (i \notin DOMAIN col' \/ col'[i] # "R") => e.base <= i

Ev(name) == l <= N /\ e.ev = name /\ l' = l + 1

TReset == Ev("reset") /\ Reset(e.max)
TWrite == Ev("write") /\ Write(e.n) /\ StateMatches
TExtend == Ev("extend") /\ Extend(e.m) /\ StateMatches
TPick ==
    /\ Ev("pick")
    /\ IF e.limit = 0 THEN PickCongested(e.flow) /\ e.ok = FALSE
       ELSE IF e.ok
            THEN /\ e.end > e.start
                 /\ Pick(e.limit, e.flow, e.end - e.start)
                 /\ res'.start = e.start /\ res'.fresh = e.fresh
                 /\ e.data_ok = TRUE
            ELSE PickNothing(e.limit, e.flow)
    /\ StateMatches
TAck == Ev("ack") /\ (\E k \in 1..Len(picks) : picks[k] = <<e.a, e.b>> /\ Ack(k)) /\ StateMatches
TLoss == Ev("loss") /\ (\E k \in 1..Len(picks) : picks[k] = <<e.a, e.b>> /\ Loss(k)) /\ StateMatches
TResend == Ev("resend") /\ Resend /\ StateMatches
TForget == Ev("forget") /\ Forget /\ StateMatches

TraceInit == l = 1 /\ InitWith(0)
TraceNext == TReset \/ TWrite \/ TExtend \/ TPick \/ TAck \/ TLoss \/ TResend \/ TForget
TraceSpec == TraceInit /\ [][TraceNext]_<<vars, l>>

TraceAccepted ==
    LET d == TLCGet("stats").diameter IN
    IF d - 1 = N THEN TRUE
    ELSE /\ PrintT(<<"TRACE_REJECTED_AT", d, IF d <= N THEN Rec[d] ELSE "eof">>)
         /\ FALSE
=============================================================================
