CONSTANTS
  MaxBytes = 4
  MaxWin = 4
  Limits = {1, 2}
  Flows = {0, 1, 9}
  Depth = 5
  Wins = {0, 3, 4}
INIT GenInit
NEXT GenNext
INVARIANT Emit
CHECK_DEADLOCK FALSE
