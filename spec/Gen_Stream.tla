----------------------------- MODULE Gen_Stream -----------------------------
(* spec -> impl: every ENVIRONMENT schedule of the one-flow design of MC_Stream up to Depth steps, in the op format of
   `vh streams-replay`.  The real endpoints decide what each packet carries; the design model is only used to enumerate
   schedules that make sense (something is in flight before it is delivered / lost / acknowledged); what the code
   actually did is judged afterwards by Trace_Stream. *)
EXTENDS MC_Stream, Json
CONSTANT Depth
VARIABLES hist, nsteps
Dir == DirOf(SID)
GenCfg == [cli |-> Side(Win, CWin), srv |-> Side(Win, CWin)]
GenInit == MCInit /\ nsteps = 0 /\ hist = <<GenCfg, <<"hs", "both", FALSE>>, <<"open", S, Dir>>>>
H(x) == hist' = Append(hist, x)
Steps == nsteps          \* environment steps taken (accept+read is one step)
\* what a packet with `cap` bytes of room is expected to carry: the lowest sendable range, cut to cap minus the frame header
LowestSendable == CHOOSE i \in 0..(written - 1) : Sendable(i) /\ \A j \in 0..(i - 1) : ~Sendable(j)
RunFrom(i) == CHOOSE n \in 1..(written - i) : (\A j \in i .. (i + n - 1) : Sendable(j)) /\ (i + n = written \/ ~Sendable(i + n))
Min2(a, b) == IF a < b THEN a ELSE b
GPack(cap) ==
    IF \E i \in 0..(written - 1) : Sendable(i)
    THEN LET off == LowestSendable
             len == Min2(RunFrom(off), cap - 3)
             fin == shut /\ off + len = written /\ finst \in {"none", "lost"}
         IN len >= 1 /\ PackRange(off, len, fin)
    ELSE PackRange(written, 0, TRUE)
\* harness indices are 0-based positions among the frames still in flight (lose), among the delivered ones (ack)
DeliveredBefore(i) == Cardinality({j \in 1..(i - 1) : net[j].delivered})
LimboDeliveredBefore(i) == Cardinality({j \in 1..(i - 1) : limbo[j].delivered})
GenNextBody ==
  /\ nsteps' = nsteps + 1
  /\ \/ \E n \in {1, 2} : AWrite(n) /\ H(<<"write", S, SID, n>>)
     \/ AShutdown /\ H(<<"shutdown", S, SID>>)
     \/ \E cap \in {1200} : GPack(cap) /\ H(<<"pack", S, cap>>)      \* the code packs nothing below 25 bytes of room and everything above: frames are split by interleaving writes and packs
     \/ \E i \in 1..MaxNet : ADeliver(i) /\ H(<<"deliver", S, i - 1>>)
     \/ \E i \in 1..MaxNet : ALose(i) /\ H(<<"lose", S, i - 1>>)
     \/ \E i \in 1..MaxNet : AAck(i) /\ H(<<"ack", S, DeliveredBefore(i)>>)
     \/ \E j \in 1..MaxLoss : ALateDeliver(j) /\ ~limbo[j].delivered /\ H(<<"latedeliver", S, j - 1>>)
     \/ \E j \in 1..MaxLoss : ALateAck(j) /\ H(<<"lateack", S, LimboDeliveredBefore(j)>>)
     \/ \E k \in {1, 3} : ARead(k) /\ hist' = hist \o << <<"accept", R, Dir>>, <<"read", R, SID, k>> >>
GenNext == Steps < Depth /\ GenNextBody
EmitGen == (Steps >= Depth) => PrintT(<<"GEN", ToJson(hist)>>)
=============================================================================
