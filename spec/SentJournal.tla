---------------------------- MODULE SentJournal ----------------------------
(***************************************************************************)
(* Sent-packet journal of one packet-number space                          *)
(* (qrecovery/src/journal/sent.rs: ArcSentJournal, NewPacketGuard,         *)
(* SentRotateGuard).                                                       *)
(*                                                                         *)
(* NewPacketGuard holds the journal's mutex for a whole packet assembly, so *)
(* an assembly is ONE action: Send (completed) or Abandon (dropped).        *)
(* SentRotateGuard holds the mutex for a whole ACK-processing session:      *)
(* RotBegin .. {UpdateLargest, Ack, Loss, FastRetx}* .. RotEnd (drop =      *)
(* resize).  Frames are unique ids.                                         *)
(***************************************************************************)
EXTENDS Naturals, Sequences, FiniteSets

VARIABLES
    now,        \* clock (ticks)
    off,        \* packet number of the first tracked record
    pk,         \* records of packets off .. off+Len(pk)-1
    lack,       \* largest acknowledged packet number
    nextFrame,  \* next fresh frame id
    mode,       \* "idle" | "rot"
    delivered,  \* history: frame ids ever reported as delivered
    res         \* observable result of the last call

vars == <<now, off, pk, lack, nextFrame, mode, delivered, res>>

NextPn == off + Len(pk)          \* the number the next packet will carry
Max(a, b) == IF a > b THEN a ELSE b

Init == /\ now = 0 /\ off = 0 /\ pk = <<>> /\ lack = 0 /\ nextFrame = 0
        /\ mode = "idle" /\ delivered = {} /\ res = [op |-> "init"]
Reset == /\ now' = 0 /\ off' = 0 /\ pk' = <<>> /\ lack' = 0 /\ nextFrame' = 0
         /\ mode' = "idle" /\ delivered' = {} /\ res' = [op |-> "init"]

Ids(a, n) == [i \in 1..n |-> a + i - 1]
SeqToSet(s) == {s[i] : i \in DOMAIN s}

\* a completed assembly: n recorded frames and/or a trivial (ack/padding/ping-only) mark
Send(n, trivial, rt, et) ==
    /\ mode = "idle"
    /\ n > 0 \/ trivial
    /\ pk' = Append(pk, IF n > 0
                        THEN [st |-> "F", fr |-> Ids(nextFrame, n), ret |-> now + rt, exp |-> now + et]
                        ELSE [st |-> "S", fr |-> <<>>, ret |-> 0, exp |-> 0])
    /\ nextFrame' = nextFrame + n
    /\ res' = [op |-> "send", pn |-> NextPn, frames |-> Ids(nextFrame, n)]
    /\ UNCHANGED <<now, off, lack, mode, delivered>>

\* an assembly that took a packet number and was dropped before anything was recorded
Abandon ==
    /\ mode = "idle"
    /\ res' = [op |-> "abandon", pn |-> NextPn]
    /\ UNCHANGED <<now, off, pk, lack, nextFrame, mode, delivered>>

RotBegin == mode = "idle" /\ mode' = "rot" /\ res' = [op |-> "rotbegin"]
            /\ UNCHANGED <<now, off, pk, lack, nextFrame, delivered>>

\* Largest Acknowledged of a peer's ACK frame.  An acknowledgement of a packet
\* number that was never sent is a PROTOCOL_VIOLATION (RFC 9000 13.1): that rule is
\* AckOfUnsentRejected below (property C04).  For C07/C10 the boundary case
\* L = NextPn is left to the implementation (ok is an input), everything else is fixed.
UpdateLargest(L, ok) ==
    /\ mode = "rot"
    /\ (L < NextPn) => ok
    /\ (L > NextPn) => ~ok
    /\ res' = [op |-> "largest", ok |-> ok, L |-> L]
    /\ lack' = IF ok THEN Max(lack, L) ELSE lack
    /\ UNCHANGED <<now, off, pk, nextFrame, mode, delivered>>

Tracked(pn) == pn >= off /\ pn < NextPn
Rec(pn) == pk[pn - off + 1]

Ack(pn) ==
    /\ mode = "rot"
    /\ IF Tracked(pn) /\ Rec(pn).st \in {"F", "T"}
       THEN /\ pk' = [pk EXCEPT ![pn - off + 1].st = "A"]
            /\ res' = [op |-> "ack", frames |-> Rec(pn).fr]
            /\ delivered' = delivered \cup SeqToSet(Rec(pn).fr)
       ELSE /\ res' = [op |-> "ack", frames |-> <<>>]
            /\ UNCHANGED <<pk, delivered>>
    /\ UNCHANGED <<now, off, lack, nextFrame, mode>>

Loss(pn) ==
    /\ mode = "rot"
    /\ IF Tracked(pn) /\ Rec(pn).st \in {"F", "T"}
       THEN /\ pk' = [pk EXCEPT ![pn - off + 1].st = "T"]
            /\ res' = [op |-> "loss", frames |-> Rec(pn).fr]
       ELSE /\ res' = [op |-> "loss", frames |-> <<>>] /\ pk' = pk
    /\ UNCHANGED <<now, off, lack, nextFrame, mode, delivered>>

\* records that need not be kept: skipped, acknowledged, or retransmitted and expired
Droppable(r) == r.st \in {"S", "A"} \/ (r.st = "T" /\ r.exp <= now)
DropCount(s) ==
    IF \E i \in DOMAIN s : ~Droppable(s[i])
    THEN (CHOOSE i \in DOMAIN s : ~Droppable(s[i]) /\ \A j \in 1..(i-1) : Droppable(s[j])) - 1
    ELSE Len(s)
Resized(s) == SubSeq(s, DropCount(s) + 1, Len(s))

RotEnd ==
    /\ mode = "rot" /\ mode' = "idle"
    /\ pk' = Resized(pk) /\ off' = off + DropCount(pk)
    /\ res' = [op |-> "rotend"]
    /\ UNCHANGED <<now, lack, nextFrame, delivered>>

\* concatenate the frames of the selected records, in packet order
RECURSIVE FlatFrames(_, _)
FlatFrames(s, sel) ==
    IF s = <<>> THEN <<>>
    ELSE (IF sel[1] THEN s[1].fr ELSE <<>>) \o FlatFrames(Tail(s), Tail(sel))

FastRetx ==
    /\ mode = "rot"
    /\ LET s0 == Resized(pk)
           o0 == off + DropCount(pk)
           sel == [i \in DOMAIN s0 |-> (o0 + i - 1 < lack) /\ s0[i].st = "F" /\ s0[i].ret < now]
       IN /\ off' = o0
          /\ pk' = [i \in DOMAIN s0 |-> IF sel[i] THEN [s0[i] EXCEPT !.st = "T"] ELSE s0[i]]
          /\ res' = [op |-> "fastretx", frames |-> FlatFrames(s0, sel)]
    /\ UNCHANGED <<now, lack, nextFrame, mode, delivered>>

Tick(d) == now' = now + d /\ res' = [op |-> "tick"]
           /\ UNCHANGED <<off, pk, lack, nextFrame, mode, delivered>>

-----------------------------------------------------------------------------
TypeOK == /\ now \in Nat /\ off \in Nat /\ lack \in Nat /\ mode \in {"idle", "rot"}
          /\ \A i \in DOMAIN pk : pk[i].st \in {"S", "F", "T", "A"}

\* C07: packet numbers that leave the endpoint strictly increase; an abandoned assembly consumes nothing
PnNeverReused ==
    [][ res'.op = "init" \/
        /\ NextPn' >= NextPn
        /\ (res'.op = "send" /\ nextFrame' >= nextFrame /\ NextPn' # NextPn) => (res'.pn = NextPn /\ NextPn' = NextPn + 1)
        /\ (res'.op = "abandon") => (NextPn' = NextPn) ]_vars

\* C10: frames are reported delivered at most once, and only frames recorded in that packet
DeliveredOnce ==
    [][ (res'.op = "ack" /\ delivered' # delivered) =>
            (\A i \in DOMAIN res'.frames : res'.frames[i] \notin delivered) ]_vars

\* an acknowledged packet is never reported lost
AckedNeverLost ==
    [][ \A i \in DOMAIN pk : (pk[i].st = "A" /\ res'.op \in {"loss", "fastretx"}) =>
            (\A k \in DOMAIN res'.frames : res'.frames[k] \notin SeqToSet(pk[i].fr)) ]_vars

\* C04: an ACK for a packet number that was never sent is rejected, never acted on
AckOfUnsentRejected == [][ (res'.op = "largest" /\ res'.L >= NextPn) => ~res'.ok ]_vars
LargestAckedWasSent == lack = 0 \/ lack < NextPn

Inv == TypeOK
=============================================================================
