------------------------------ MODULE PacketProt ------------------------------
(***************************************************************************)
(* C06 - packet protection round-trips and rejects any modified packet.     *)
(*                                                                         *)
(* AEAD and header protection are SYMBOLIC.  A protected packet is a term   *)
(*   [sp, gen, pn, plen, tamper, keys]                                     *)
(*   sp     packet type / key space: initial, zerortt, handshake, onertt    *)
(*   gen    key generation the sender protected it with (number of          *)
(*          OneRttPacketKeys::update() calls on the sending side; 0 for     *)
(*          long headers)                                                   *)
(*   pn     full packet number given to PacketWriter, plen its wire length  *)
(*   tamper "none" or the region of the datagram that was modified after    *)
(*          encrypt_and_protect_packet                                      *)
(*   keys   "same" when the receiver's keys for sp were derived from the    *)
(*          same handshake / DCID as the sender's, else "other"             *)
(* Header fields, payload bytes and the key-phase bit are compared by the   *)
(* harness (ident); the spec requires ident for everything accepted.        *)
(*                                                                         *)
(* Two layers:                                                             *)
(*  - the JUDGE (Must, Monitor): what the property states, independent of   *)
(*    how the receiver stores keys.  Variables auth, largest, rcvd, sconf.  *)
(*  - the code-shaped 1-RTT key-phase machine of                            *)
(*    qbase/src/packet/keys.rs OneRttPacketKeys (cur_phase, remote[2],      *)
(*    update, phase_out, get_remote) : variables cur, slot; actions Shadow, *)
(*    PhaseOut, and CodeAccepts = what decrypt_short_packet returns.        *)
(* MC_PacketProt checks that the machine satisfies the judge; recorded      *)
(* traces of the real receive path are checked against the judge.           *)
(***************************************************************************)
EXTENDS Integers, FiniteSets, Sequences

NoKey == -1
Max(a, b) == IF a > b THEN a ELSE b

Spaces == {"initial", "zerortt", "handshake", "onertt"}
IsLong(sp) == sp # "onertt"
\* packet-number space (one RcvdJournal each); 0-RTT and 1-RTT share the data space
PnSpace(sp) == IF sp \in {"zerortt", "onertt"} THEN "data" ELSE sp
PnSpaces == {"initial", "handshake", "data"}

VARIABLES
    sgen,     \* sender: 1-RTT key generation (= number of update() calls)
    sconf,    \* sender: a packet of generation sgen was accepted by the receiver (it would be acknowledged);
              \*         RFC 9001 6.1: precondition of the next key update
    cur,      \* receiver (code): generation of the current keys; cur_phase = cur % 2
    slot,     \* receiver (code): remote[0..1] = generation of the read key stored for each phase bit, NoKey if empty
    auth,     \* receiver (judge): highest 1-RTT generation of a packet that authenticated
    largest,  \* receiver: per pn space, the largest packet number registered in the RcvdJournal (-1: none)
    rcvd,     \* receiver: per pn space, the registered packet numbers
    floor,    \* receiver: per pn space, everything up to this number was received, acknowledged and rotated out of
              \*           the journal (-1: nothing); numbers <= floor are "too old" for decode_pn
    res       \* verdict of the last Recv

vars == <<sgen, sconf, cur, slot, auth, largest, rcvd, floor, res>>

-----------------------------------------------------------------------------
(* packet-number reconstruction: qbase/src/packet/number.rs PacketNumber::decode, RFC 9000 A.3 *)
Pow256(n) == IF n = 1 THEN 256 ELSE IF n = 2 THEN 65536 ELSE 16777216
Decode(tr, win, expected) ==
    LET hwin == win \div 2
        cand == (expected \div win) * win + tr
    IN IF expected >= hwin /\ cand <= expected - hwin THEN cand + win
       ELSE IF cand > expected + hwin /\ cand >= win THEN cand - win
       ELSE cand
\* 4-byte numbers: below 2^30 the 2^32 window never wraps (and 2^32 is not a TLC integer)
Reconstructs(pn, plen, expected) ==
    IF plen = 4 THEN TRUE
    ELSE LET win == Pow256(plen) IN Decode(pn % win, win, expected) = pn

Expected(sp) == largest[PnSpace(sp)] + 1

\* RcvdJournal::MAX_PN_GAP (qrecovery/src/journal/rcvd.rs, fix e72bd15 "refuse packet numbers that jump too far ahead"):
\* the journal keeps one record per number between the oldest tracked and the largest received one, so decode_pn answers
\* InvalidPacketNumber::TooLarge for a correctly reconstructed number more than 2^16 ahead of the next expected one and the
\* packet is dropped.  The property quantifies over packet numbers and the sender's largest-acked, not over receivers that
\* far behind: the judge leaves that case open.
MaxPnGap == 65536
TooFarAhead(p) == p.pn - Expected(p.sp) > MaxPnGap
\* not in the journal any more or already registered: duplicate suppression is C07/C10, not C06
OldOrDuplicate(p) == p.pn <= floor[PnSpace(p.sp)] \/ p.pn \in rcvd[PnSpace(p.sp)]

-----------------------------------------------------------------------------
(* symbolic protection *)
\* trailing bytes after the Length of a long-header packet are not part of that packet (coalescing)
Authentic(p) == p.tamper = "none" \/ (p.tamper = "extend1" /\ IsLong(p.sp))

\* AEAD open + header-protection removal with the key of generation usedGen
Unprotect(p, usedGen) ==
    /\ Authentic(p)
    /\ p.keys = "same"
    /\ usedGen = p.gen
    /\ Reconstructs(p.pn, p.plen, Expected(p.sp))

\* the judge: what the property requires of the receive path for packet p in the current state
Must(p) ==
    IF ~Authentic(p) \/ p.keys # "same" \/ ~Reconstructs(p.pn, p.plen, Expected(p.sp)) THEN "reject"
    ELSE IF OldOrDuplicate(p) THEN "either"
    ELSE IF TooFarAhead(p) THEN "either"                      \* ahead > 2^16 => may be dropped by the journal (e72bd15)
    ELSE IF IsLong(p.sp) THEN "accept"
    ELSE IF p.gen \in {auth, auth + 1} THEN "accept"          \* current keys, or the peer's key update
    ELSE IF p.gen = auth - 1 THEN "either"                    \* reordered packet of the previous generation: kept for a while
    ELSE "reject"                                             \* a key the receiver cannot legitimately hold

-----------------------------------------------------------------------------
(* the code: OneRttPacketKeys *)
Phase(g) == g % 2
NeedsUpdate(kp) == kp # Phase(cur) /\ slot[kp] = NoKey
\* get_remote(key_phase, pn): `if key_phase != cur_phase && remote[key_phase].is_none() { update() }`
SlotAfter(kp) == IF NeedsUpdate(kp) THEN [slot EXCEPT ![kp] = cur + 1] ELSE slot
CurAfter(kp) == IF NeedsUpdate(kp) THEN cur + 1 ELSE cur
\* decrypt_{long,short}_packet: decode_pn (drops duplicates) -> [get_remote] -> decrypt_packet
CodeAccepts(p, kp) ==
    /\ ~OldOrDuplicate(p) /\ ~TooFarAhead(p)
    /\ Unprotect(p, IF IsLong(p.sp) THEN 0 ELSE SlotAfter(kp)[kp])

\* the key update is performed BEFORE the packet authenticates
Shadow(p, kp) ==
    IF IsLong(p.sp) THEN UNCHANGED <<cur, slot>>
    ELSE cur' = CurAfter(kp) /\ slot' = SlotAfter(kp)

-----------------------------------------------------------------------------
InitRes == [op |-> "init", must |-> "either", got |-> FALSE, model |-> FALSE, ident |-> TRUE, extra |-> 0, conn |-> 0, gen |-> 0, sp |-> "none"]
Init ==
    /\ sgen = 0 /\ sconf = FALSE
    /\ cur = 0 /\ slot = [b \in {0, 1} |-> IF b = 0 THEN 0 ELSE NoKey]
    /\ auth = 0
    /\ largest = [s \in PnSpaces |-> -1]
    /\ rcvd = [s \in PnSpaces |-> {}]
    /\ floor = [s \in PnSpaces |-> -1]
    /\ res = InitRes

Reset ==
    /\ sgen' = 0 /\ sconf' = FALSE
    /\ cur' = 0 /\ slot' = [b \in {0, 1} |-> IF b = 0 THEN 0 ELSE NoKey]
    /\ auth' = 0
    /\ largest' = [s \in PnSpaces |-> -1]
    /\ rcvd' = [s \in PnSpaces |-> {}]
    /\ floor' = [s \in PnSpaces |-> -1]
    /\ res' = InitRes

\* the harness put the RcvdJournal of a space into the state "everything up to n received, acknowledged, confirmed and
\* rotated out" (on_rcvd_pn / gen_ack_frame_util / on_rcvd_ack in steps of 2^16): next expected number n + 1
Position(s, n) ==
    /\ largest' = [largest EXCEPT ![s] = Max(@, n)]
    /\ floor' = [floor EXCEPT ![s] = Max(@, n)]
    /\ res' = [res EXCEPT !.op = "position"]
    /\ UNCHANGED <<sgen, sconf, cur, slot, auth, rcvd>>

\* OneRttPacketKeys::update() on the SENDING endpoint
SenderUpdate ==
    /\ sgen' = sgen + 1 /\ sconf' = FALSE
    /\ res' = [res EXCEPT !.op = "supdate"]
    /\ UNCHANGED <<cur, slot, auth, largest, rcvd, floor>>

\* OneRttPacketKeys::phase_out() on the receiving endpoint
PhaseOut ==
    /\ slot' = [slot EXCEPT ![1 - Phase(cur)] = NoKey]
    /\ res' = [res EXCEPT !.op = "phaseout"]
    /\ UNCHANGED <<sgen, sconf, cur, auth, largest, rcvd, floor>>

\* The receive path was given packet p.  got: it returned a PlainPacket; ident: everything returned equals what was
\* assembled; extra: number of FURTHER packets delivered out of the same datagram; reg: the caller registered p.pn
\* (on_rcvd_pn), as the spaces do after the frames were read; model: what the code-shaped machine below predicts
\* (only used to tell apart "the machine as designed rejects this" from "the code deviates from the machine");
\* conn: number of presentations answered with a connection error (Some(Err(..))) instead of a silent drop.
Monitor(p, got, ident, extra, reg, model, conn) ==
    LET m == Must(p)
        good == got /\ m # "reject" IN
    /\ res' = [op |-> "rx", must |-> m, got |-> got, model |-> model, ident |-> ident, extra |-> extra, conn |-> conn, gen |-> p.gen, sp |-> p.sp]
    /\ auth' = IF good /\ ~IsLong(p.sp) THEN Max(auth, p.gen) ELSE auth
    /\ sconf' = (sconf \/ (good /\ p.sp = "onertt" /\ p.gen = sgen))
    /\ largest' = IF reg THEN [largest EXCEPT ![PnSpace(p.sp)] = Max(@, p.pn)] ELSE largest
    /\ rcvd' = IF reg THEN [rcvd EXCEPT ![PnSpace(p.sp)] = @ \cup {p.pn}] ELSE rcvd
    /\ UNCHANGED <<sgen, floor>>

\* design: the code-shaped machine decides
Recv(p, kp) ==
    LET a == CodeAccepts(p, kp) IN
    Monitor(p, a, TRUE, 0, a, a, 0) /\ Shadow(p, kp)

-----------------------------------------------------------------------------
(* the property *)
\* nothing modified / under another key / under another packet number is ever delivered
NoForgedDelivered == res.must = "reject" => ~res.got
\* what was assembled is recovered by the matching receive path
GenuineAccepted == res.must = "accept" => res.got
\* ... bit for bit (header, packet number, key phase, payload), and nothing else comes out of the datagram
BitIdentical == res.got => res.ident
NothingElseDelivered == res.extra = 0
\* "the receiver DISCARDS it": a packet that did not authenticate must not be answered with a connection error either
\* (RFC 9000 17.2 / 17.3.1: reserved bits are checked after removing packet protection)
DiscardedSilently == res.must = "reject" => res.conn = 0

TypeOK ==
    /\ sgen \in Nat /\ sconf \in BOOLEAN /\ cur \in Nat /\ auth \in Nat
    /\ slot \in [{0, 1} -> Nat \cup {NoKey}]
    /\ res.must \in {"accept", "reject", "either"}

\* the receiver's authenticated generation only advances on authenticated packets of the sender
AuthBounded == auth <= sgen
\* shape of the code's machine
Shape == cur \in {auth, auth + 1} /\ slot[Phase(cur)] = cur

Inv == TypeOK /\ NoForgedDelivered /\ BitIdentical /\ NothingElseDelivered /\ DiscardedSilently /\ AuthBounded
=============================================================================
