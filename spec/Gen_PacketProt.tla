---------------------------- MODULE Gen_PacketProt ----------------------------
(* Two generators for the harness (vh-packetprot):
   (1) the CASE MATRIX  packet type x token length x key generation x cid lengths x pn length x payload class, each
       with the list of tamper kinds that exist for that packet (INIT MatrixInit / NEXT MatrixNext / INVARIANT MatrixEmit);
   (2) every SCHEDULE of length Depth of the 1-RTT key-phase environment: genuine packets, an attacker's copy with the
       key-phase bit flipped, a tampered copy, sender key updates (only after a packet of the current generation was
       accepted, RFC 9001 6.1), late delivery of a packet of the previous generation, and the receiver's phase_out()
       at the point its documentation intends (INIT SeqInit / NEXT SeqNext / INVARIANT SeqEmit). *)
EXTENDS PacketProt, TLC, Json
CONSTANTS Toks, Dcids, Scids, Plens, Pays, Gens,    \* matrix
          Depth, MaxGen, Alphabet                   \* schedules
VARIABLES case, hist, held, spn

-----------------------------------------------------------------------------
KindOrder == <<"none", "first", "version", "dcil", "dcid", "scil", "scid", "toklen", "token", "length", "pn", "payload", "tag",
               "trunc1", "trunctag", "extend1", "wrongpn", "wrongkeys", "wronggen">>
\* which kinds exist for a packet
Kinds(ty, tok, dcid, scid, plen) ==
    {"none", "first", "pn", "payload", "tag", "trunc1", "trunctag", "extend1", "wrongkeys"}
    \cup (IF dcid > 0 THEN {"dcid"} ELSE {})
    \cup (IF plen < 4 THEN {"wrongpn"} ELSE {})          \* a 4-byte number only wraps beyond 2^31
    \cup (IF ty = "onertt" THEN {"wronggen"}
          ELSE {"version", "dcil", "scil", "length"}
               \cup (IF scid > 0 THEN {"scid"} ELSE {})
               \cup (IF ty = "initial" THEN {"toklen"} ELSE {})
               \cup (IF ty = "initial" /\ tok > 0 THEN {"token"} ELSE {}))
KindSeq(ty, tok, dcid, scid, plen) == SelectSeq(KindOrder, LAMBDA k : k \in Kinds(ty, tok, dcid, scid, plen))

Cases ==
    { [ty |-> "initial", tok |-> t, gen |-> 0, dcid |-> d, scid |-> s, plen |-> n, pay |-> y, kinds |-> KindSeq("initial", t, d, s, n)]
        : t \in Toks, d \in Dcids, s \in Scids, n \in Plens, y \in Pays }
    \cup { [ty |-> ty, tok |-> 0, gen |-> 0, dcid |-> d, scid |-> s, plen |-> n, pay |-> y, kinds |-> KindSeq(ty, 0, d, s, n)]
        : ty \in {"zerortt", "handshake"}, d \in Dcids, s \in Scids, n \in Plens, y \in Pays }
    \cup { [ty |-> "onertt", tok |-> 0, gen |-> g, dcid |-> d, scid |-> 0, plen |-> n, pay |-> y, kinds |-> KindSeq("onertt", 0, d, 0, n)]
        : g \in Gens, d \in Dcids, n \in Plens, y \in Pays }

MatrixInit == Init /\ hist = <<>> /\ held = <<>> /\ spn = 0 /\ case \in Cases
MatrixNext == UNCHANGED <<vars, case, hist, held, spn>>
MatrixEmit == PrintT(<<"GEN", ToJson(case)>>)

-----------------------------------------------------------------------------
Pkt(g, n, t) == [sp |-> "onertt", gen |-> g, pn |-> n, plen |-> 2, tamper |-> t, keys |-> "same"]
H(x) == hist' = Append(hist, <<x>>)
SeqInit == Init /\ hist = <<>> /\ held = <<>> /\ spn = 0 /\ case = 0
SeqNext ==
    /\ Len(hist) < Depth
    /\ UNCHANGED case
    /\ \/ "s" \in Alphabet /\ Recv(Pkt(sgen, spn, "none"), Phase(sgen)) /\ spn' = spn + 1 /\ H("s") /\ UNCHANGED held
       \/ "f" \in Alphabet /\ Recv(Pkt(sgen, spn, "phasebit"), 1 - Phase(sgen)) /\ spn' = spn + 1 /\ H("f") /\ UNCHANGED held
       \/ "t" \in Alphabet /\ Recv(Pkt(sgen, spn, "payload"), Phase(sgen)) /\ spn' = spn + 1 /\ H("t") /\ UNCHANGED held
       \/ "u" \in Alphabet /\ sconf /\ sgen < MaxGen /\ SenderUpdate /\ held' = <<[gen |-> sgen, pn |-> spn]>> /\ spn' = spn + 1 /\ H("u")
       \/ "o" \in Alphabet /\ held # <<>> /\ Recv(Pkt(held[1].gen, held[1].pn, "none"), Phase(held[1].gen)) /\ held' = <<>> /\ H("o") /\ UNCHANGED spn
       \/ "p" \in Alphabet /\ auth = cur /\ slot[1 - Phase(cur)] # NoKey /\ PhaseOut /\ H("p") /\ UNCHANGED <<held, spn>>
SeqEmit == (Len(hist) = Depth) => PrintT(<<"GEN", ToJson(hist)>>)
=============================================================================
