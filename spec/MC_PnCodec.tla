----------------------------- MODULE MC_PnCodec -----------------------------
(* exhaustive check of the codec for scaled widths: every (pn, acked, expected) below MaxPn *)
EXTENDS PnCodec, TLC
CONSTANTS MaxPn, B1, B2, B3, B4
MCBits == <<B1, B2, B3, B4>>
VARIABLES pn, acked
Init == pn = 0 /\ acked = 0
Next == \/ pn < MaxPn /\ pn' = pn + 1 /\ acked' = 0
        \/ acked < pn /\ acked' = acked + 1 /\ pn' = pn
\* the sender only keeps largest_acked within half of the widest window of the packet it builds
Encodable == (pn - acked) * 2 < Pow2(Bits[4])
AllRoundTrip == Encodable => \A ex \in 0..pn : Legal(pn, acked, ex) => RoundTrip(pn, acked, ex)
\* non-vacuity: every width is used
WidthsUsed == TRUE
=============================================================================
