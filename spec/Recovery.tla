------------------------------ MODULE Recovery ------------------------------
(***************************************************************************)
(* C13 -- loss detection, probe timeout and congestion control (RFC 9002)   *)
(* of one path: qcongestion::ArcCC (congestion.rs, packets.rs, rtt.rs,       *)
(* algorithm/new_reno.rs, pacing.rs) as driven by qconnection.              *)
(*                                                                          *)
(* Written to be bound.  One action per public call of the controller        *)
(* (`Transport` trait): Send = on_pkt_sent, AckRcvd = on_ack_rcvd,           *)
(* Tick = do_tick, Quota = send_quota, Discard = discard_epoch, Phase = the  *)
(* handshake / anti-amplification flags of PathStatus, Advance = the clock.  *)
(*                                                                          *)
(* The state is split in two:                                               *)
(*  - GROUND TRUTH kept by the specification from the calls alone: the       *)
(*    clock, every packet ever sent (size, send time, flags, status          *)
(*    out/acked/lost/disc), largest acknowledged per space, ECN-CE count     *)
(*    seen, handshake flags;                                                *)
(*  - the CONTROLLER-RESOLVED state `c` (congestion window, ssthresh, bytes   *)
(*    in flight, recovery start, pto count, timer, rtt estimate, per-space    *)
(*    loss time / last ack-eliciting send / probes requested) and the set of *)
(*    packets the controller declares lost in a call.                        *)
(* Every action takes the controller's answer as an OUTCOME record `o`.      *)
(* MC_/Gen_Recovery feed the answer of the DESIGN (RFC 9002 appendix A/B     *)
(* transcribed below: D_Send, D_Ack, D_Tick, ...); Trace_Recovery feeds the  *)
(* answer the real code gave (may_loss callbacks + verif_snapshot).  The     *)
(* eight properties of C13 are stated ONCE, over ground truth + outcome, and *)
(* checked in both uses.  Float-derived quantities (rtt, loss delay, pto     *)
(* durations) are never recomputed for the real code: their logged values    *)
(* are used and only relations are checked.                                  *)
(***************************************************************************)
EXTENDS Integers, FiniteSets, TLC

CONSTANTS Mtu,          \* max datagram size
          InitCwnd,     \* initial window (design only)
          InitRtt,      \* initial rtt (design only)
          Gran,         \* timer granularity
          MaxAckDelay,  \* peer's max_ack_delay
          MaxPto        \* the path is abandoned when pto_count exceeds this

PktThresh == 3
Spaces == 1..3          \* 1 Initial, 2 Handshake, 3 Application data
NONE == -1              \* "no time" / "infinite"

VARIABLES
    now,        \* clock
    pk,         \* pk[sp] : [0..n-1 -> [sz, t, ae, inf, st]]  every packet sent, by packet number
    la,         \* la[sp]  largest acknowledged packet number or NONE
    ceSeen,     \* ceSeen[sp] ECN-CE count already reacted to
    ph,         \* [server, hsKey, hsAck, conf, amp, gone]  (gone: the discarded spaces)
    c,          \* controller-resolved state (see D_Init for the fields)
    last,       \* the last step: what was called, what the controller answered, what it was before
    shrinkAt,   \* time of the last step in which the window shrank, or NONE
    probes,     \* number of probe timeouts so far
    ptoPrev,    \* NoPto, or [dur, srtt, var] of the probe timeout that expired last, while no acknowledgement of new
                \* packets and no discarding of a space has legitimately ended the back-off since
    grant,      \* bytes of send quota granted and not yet used (sender side of the composition)
    dead        \* the path was abandoned (too many probe timeouts)

vars == <<now, pk, la, ceSeen, ph, c, last, shrinkAt, probes, ptoPrev, grant, dead>>

Max(a, b) == IF a > b THEN a ELSE b
Min(a, b) == IF a < b THEN a ELSE b
Abs(a) == IF a < 0 THEN -a ELSE a
SetMax(S) == CHOOSE x \in S : \A y \in S : y <= x
SetMin(S) == CHOOSE x \in S : \A y \in S : y >= x
Pow2(k) == 2 ^ k
NoLost == [sp \in Spaces |-> {}]
NoPto == [dur |-> NONE, srtt |-> 0, var |-> 0]

-----------------------------------------------------------------------------
(* ground truth helpers *)
N(p, sp) == Cardinality(DOMAIN p[sp])
OutSet(p, sp) == {i \in DOMAIN p[sp] : p[sp][i].st = "out"}
AeOut(p, sp) == {i \in OutSet(p, sp) : p[sp][i].ae}
NoAeOut(p) == \A sp \in Spaces : AeOut(p, sp) = {}
RECURSIVE SumSz(_, _, _)
SumSz(p, sp, S) == IF S = {} THEN 0 ELSE LET i == CHOOSE x \in S : TRUE IN p[sp][i].sz + SumSz(p, sp, S \ {i})
InfOut(p, sp) == {i \in OutSet(p, sp) : p[sp][i].inf}
SumInFlight(p) == SumSz(p, 1, InfOut(p, 1)) + SumSz(p, 2, InfOut(p, 2)) + SumSz(p, 3, InfOut(p, 3))
Mark(p, sp, S, st) == [p EXCEPT ![sp] = [i \in DOMAIN @ |-> IF i \in S THEN [@[i] EXCEPT !.st = st] ELSE @[i]]]
MarkAll(p, L, st) == [sp \in Spaces |-> [i \in DOMAIN p[sp] |-> IF i \in L[sp] /\ p[sp][i].st = "out" THEN [p[sp][i] EXCEPT !.st = st] ELSE p[sp][i]]]
PeerValidated(h) == h.server \/ h.hsAck \/ h.conf
\* sending Handshake packets (client) / receiving a Handshake ACK (server) abandons the Initial space
DropsInitial(h, sp, act) == sp = 2 /\ ((act = "send" /\ ~h.server) \/ (act = "ack" /\ h.server))

-----------------------------------------------------------------------------
(* THE DESIGN: RFC 9002 appendix A (loss detection) and B (NewReno), on records cc shaped like c *)
LossDelay(cc) == Max((9 * Max(cc.srtt, cc.latest)) \div 8, Gran)
BasePto(cc) == (cc.srtt + Max(4 * cc.var, Gran)) * Pow2(cc.pton)
PtoDur(cc, sp) == BasePto(cc) + (IF sp = 3 THEN MaxAckDelay * Pow2(cc.pton) ELSE 0)
Derived(cc) == [cc EXCEPT !.ld = LossDelay(cc), !.pto = [sp \in Spaces |-> PtoDur(cc, sp)]]
D_Init == Derived([cwnd |-> InitCwnd, ssth |-> NONE, bif |-> 0, rec |-> NONE, pton |-> 0, timer |-> NONE,
                   latest |-> 0, srtt |-> InitRtt, var |-> InitRtt \div 2, minrtt |-> 0, sampleAt |-> NONE,
                   lossT |-> [sp \in Spaces |-> NONE], lastAe |-> [sp \in Spaces |-> NONE], need |-> [sp \in Spaces |-> 0],
                   ld |-> 0, pto |-> [sp \in Spaces |-> 0]])

\* A.8 GetPtoTimeAndSpace: [t, sp]; t = NONE when no space is eligible
D_PtoTimeSpace(cc, p, h, t) ==
    IF NoAeOut(p) THEN [t |-> t + BasePto(cc), sp |-> IF h.hsKey THEN 2 ELSE 1]
    ELSE LET cand == {sp \in Spaces : AeOut(p, sp) # {} /\ (sp # 3 \/ h.conf)}
             at(sp) == cc.lastAe[sp] + PtoDur(cc, sp)
         IN IF cand = {} THEN [t |-> NONE, sp |-> 1]
            ELSE LET best == SetMin({at(sp) : sp \in cand})
                 IN [t |-> best, sp |-> SetMin({sp \in cand : at(sp) = best})]

\* A.8 SetLossDetectionTimer
D_Timer(cc, p, h, t) ==
    LET lts == {cc.lossT[sp] : sp \in Spaces} \ {NONE} IN
    IF lts # {} THEN SetMin(lts)
    ELSE IF h.amp THEN NONE
    ELSE IF NoAeOut(p) /\ PeerValidated(h) THEN NONE
    ELSE D_PtoTimeSpace(cc, p, h, t).t

\* A.7 UpdateRtt
D_UpdateRtt(cc, sample, delay, h, t) ==
    IF cc.sampleAt = NONE
    THEN [cc EXCEPT !.latest = sample, !.minrtt = sample, !.srtt = sample, !.var = sample \div 2, !.sampleAt = t]
    ELSE LET mn == Min(cc.minrtt, sample)
             d == IF h.conf THEN Min(delay, MaxAckDelay) ELSE delay
             adj == IF sample >= mn + d THEN sample - d ELSE sample
         IN [cc EXCEPT !.latest = sample, !.minrtt = mn,
                       !.var = (3 * cc.var + Abs(cc.srtt - adj)) \div 4,
                       !.srtt = (7 * cc.srtt + adj) \div 8]

\* B.6 OnCongestionEvent
D_CongestionEvent(cc, sentT, t) ==
    IF cc.rec # NONE /\ sentT <= cc.rec THEN cc
    ELSE [cc EXCEPT !.rec = t, !.ssth = cc.cwnd \div 2, !.cwnd = Max(cc.cwnd \div 2, 2 * Mtu)]

\* A.10 DetectAndRemoveLostPackets: the packets lost now and the new loss time of the space
D_Lost(p, sp, laSp, ld, t) ==
    {i \in OutSet(p, sp) : i <= laSp /\ (laSp >= i + PktThresh \/ p[sp][i].t <= t - ld)}
D_LossTime(p, sp, laSp, ld, L) ==
    LET rest == {i \in OutSet(p, sp) \ L : i <= laSp} IN
    IF rest = {} THEN NONE ELSE SetMin({p[sp][i].t + ld : i \in rest})

\* B.8 OnPacketsLost (p: statuses before the lost ones are marked), incl. persistent congestion (7.6)
D_OnLost(cc, p, sp, L, t) ==
    LET infL == {i \in L : p[sp][i].inf}
        c1 == [cc EXCEPT !.bif = @ - SumSz(p, sp, infL)]
        c2 == IF infL = {} THEN c1 ELSE D_CongestionEvent(c1, SetMax({p[sp][i].t : i \in infL}), t)
        pcDur == (cc.srtt + Max(4 * cc.var, Gran) + MaxAckDelay) * 3
        cand == {i \in L : p[sp][i].ae /\ cc.sampleAt # NONE /\ p[sp][i].t > cc.sampleAt}
        persistent == \E a, b \in cand : /\ a < b /\ p[sp][b].t - p[sp][a].t >= pcDur
                                          /\ \A k \in a..b : p[sp][k].st # "acked"
    IN IF persistent THEN [c2 EXCEPT !.cwnd = 2 * Mtu, !.rec = NONE] ELSE c2

\* B.5 OnPacketsAcked, in packet-number order
RECURSIVE D_OnAcked(_, _, _, _)
D_OnAcked(cc, p, sp, S) ==
    IF S = {} THEN cc
    ELSE LET i == SetMin(S)
             q == p[sp][i]
             c1 == [cc EXCEPT !.bif = @ - q.sz]
             c2 == IF c1.rec # NONE /\ q.t <= c1.rec THEN c1
                   ELSE IF c1.ssth = NONE \/ c1.cwnd < c1.ssth THEN [c1 EXCEPT !.cwnd = @ + q.sz]
                   ELSE [c1 EXCEPT !.cwnd = @ + (Mtu * q.sz) \div @]
         IN D_OnAcked(c2, p, sp, S \ {i})

\* A.11 OnPacketNumberSpaceDiscarded (p: statuses before the space's packets are marked)
D_Discard(cc, p, sp) ==
    [cc EXCEPT !.bif = @ - SumSz(p, sp, InfOut(p, sp)), !.lastAe[sp] = NONE, !.lossT[sp] = NONE, !.pton = 0]

\* outcome of on_pkt_sent (A.5, B.4)
D_Send(sp, sz, ae, inf) ==
    LET p1 == [pk EXCEPT ![sp] = [i \in 0..N(pk, sp) |-> IF i < N(pk, sp) THEN @[i] ELSE [sz |-> sz, t |-> now, ae |-> ae, inf |-> inf, st |-> "out"]]]
        c1 == IF inf THEN [c EXCEPT !.bif = @ + sz, !.lastAe[sp] = IF ae THEN now ELSE @,
                                     !.need[sp] = IF ae /\ @ > 0 THEN @ - 1 ELSE @]
              ELSE c
        drop == DropsInitial(ph, sp, "send") /\ 1 \notin ph.gone
        c2 == IF drop THEN D_Discard(c1, p1, 1) ELSE c1
        p2 == IF drop THEN Mark(p1, 1, OutSet(p1, 1), "disc") ELSE p1
        c3 == IF inf \/ drop THEN [c2 EXCEPT !.timer = D_Timer(c2, p2, ph, now)] ELSE c2
    IN [c |-> Derived(c3), lost |-> NoLost, ok |-> TRUE, q |-> 0]

\* outcome of on_ack_rcvd (A.7): S = the packet numbers the frame acknowledges, ce = ECN-CE count or NONE
D_Ack(sp, S, delay, ce) ==
    LET la1 == Max(la[sp], SetMax(S))
        newly == {i \in S \cap DOMAIN pk[sp] : pk[sp][i].st = "out"}
        drop == DropsInitial(ph, sp, "ack") /\ 1 \notin ph.gone
    IN IF newly = {}
       THEN LET c1 == IF drop THEN D_Discard(c, pk, 1) ELSE c
                p1 == IF drop THEN Mark(pk, 1, OutSet(pk, 1), "disc") ELSE pk
                c2 == IF drop THEN [c1 EXCEPT !.timer = D_Timer(c1, p1, ph, now)] ELSE c1
            IN [c |-> Derived(c2), lost |-> NoLost, ok |-> TRUE, q |-> 0]
       ELSE
        LET p1 == Mark(pk, sp, newly, "acked")
            lg == SetMax(newly)
            c1 == IF lg = SetMax(S) /\ (\E i \in newly : pk[sp][i].ae)
                  THEN D_UpdateRtt(c, now - pk[sp][lg].t, delay, ph, now) ELSE c
            c2 == IF ce # NONE /\ ce > ceSeen[sp] THEN D_CongestionEvent(c1, pk[sp][lg].t, now) ELSE c1
            ld == LossDelay(c2)
            L == D_Lost(p1, sp, la1, ld, now)
            c3 == [D_OnLost(c2, p1, sp, L, now) EXCEPT !.lossT[sp] = D_LossTime(p1, sp, la1, ld, L)]
            c4 == D_OnAcked(c3, pk, sp, {i \in newly : pk[sp][i].inf})
            c5 == IF PeerValidated(ph) THEN [c4 EXCEPT !.pton = 0] ELSE c4
            p2 == Mark(p1, sp, L, "lost")
            c6 == IF drop THEN D_Discard(c5, p2, 1) ELSE c5
            p3 == IF drop THEN Mark(p2, 1, OutSet(p2, 1), "disc") ELSE p2
            c7 == [c6 EXCEPT !.timer = D_Timer(c6, p3, ph, now)]
        IN [c |-> Derived(c7), lost |-> [NoLost EXCEPT ![sp] = L], ok |-> TRUE, q |-> 0]

\* outcome of do_tick (A.9 OnLossDetectionTimeout when the timer has expired)
D_Tick ==
    IF dead \/ c.timer = NONE \/ c.timer > now THEN [c |-> c, lost |-> NoLost, ok |-> TRUE, q |-> 0]
    ELSE LET lts == {c.lossT[sp] : sp \in Spaces} \ {NONE} IN
         IF lts # {}
         THEN LET sp == SetMin({s \in Spaces : c.lossT[s] = SetMin(lts)})
                  L == D_Lost(pk, sp, la[sp], c.ld, now)
                  c1 == [D_OnLost(c, pk, sp, L, now) EXCEPT !.lossT[sp] = D_LossTime(pk, sp, la[sp], c.ld, L)]
                  p1 == Mark(pk, sp, L, "lost")
                  c2 == [c1 EXCEPT !.timer = D_Timer(c1, p1, ph, now)]
              IN [c |-> Derived(c2), lost |-> [NoLost EXCEPT ![sp] = L], ok |-> TRUE, q |-> 0]
         ELSE LET sp == D_PtoTimeSpace(c, pk, ph, now).sp
                  c1 == [c EXCEPT !.need[sp] = @ + 1, !.pton = @ + 1]
                  c2 == [c1 EXCEPT !.timer = D_Timer(c1, pk, ph, now)]
              IN [c |-> Derived(c2), lost |-> NoLost, ok |-> c2.pton <= MaxPto, q |-> 0]

\* outcome of discard_epoch
D_DiscardCall(sp) ==
    LET c1 == D_Discard(c, pk, sp)
        p1 == Mark(pk, sp, OutSet(pk, sp), "disc")
    IN [c |-> Derived([c1 EXCEPT !.timer = D_Timer(c1, p1, ph, now)]), lost |-> NoLost, ok |-> TRUE, q |-> 0]

\* outcome of send_quota (7. "MUST NOT send a packet if it would cause bytes_in_flight to be larger than the
\* congestion window", unless a probe is due); pacing may grant less, never more
ProbePending(cc) == \E sp \in Spaces : cc.need[sp] > 0
D_Quota ==
    LET room == IF c.cwnd > c.bif THEN c.cwnd - c.bif ELSE 0 IN
    IF room >= Mtu THEN [c |-> c, lost |-> NoLost, ok |-> TRUE, q |-> room]
    ELSE IF ProbePending(c) THEN [c |-> c, lost |-> NoLost, ok |-> TRUE, q |-> Mtu]
    ELSE [c |-> c, lost |-> NoLost, ok |-> FALSE, q |-> 0]

D_Same == [c |-> c, lost |-> NoLost, ok |-> TRUE, q |-> 0]

-----------------------------------------------------------------------------
(* ACTIONS: ground-truth bookkeeping + the controller's outcome o = [c, lost, ok, q] *)
\* rearm: the call is one after which the RFC recomputes the loss-detection timer
\* spread of the send times of the ack-eliciting packets declared lost in this call (persistent congestion, RFC 9002 7.6)
LostSpan(p, L) ==
    LET ts == UNION {{p[sp][i].t : i \in {j \in L[sp] \cap DOMAIN p[sp] : p[sp][j].ae}} : sp \in Spaces}
    IN IF ts = {} THEN 0 ELSE SetMax(ts) - SetMin(ts)
LastRec(act, sp, o, newly, late, ackedLost, trig, rearm) ==
    [act |-> act, sp |-> sp, lost |-> o.lost, span |-> LostSpan(pk, o.lost), newly |-> newly, late |-> late, ackedLost |-> ackedLost, trig |-> trig,
     c0 |-> c, shrinkAt0 |-> shrinkAt, ptoPrev0 |-> ptoPrev, ok |-> o.ok, q |-> o.q, probe0 |-> ProbePending(c), g |-> FALSE, rearm |-> rearm]

\* packets reported lost although they had been acknowledged (statuses p after this call's acknowledgements)
AckedLost(p, L) == UNION {{<<sp, i>> : i \in {j \in L[sp] \cap DOMAIN p[sp] : p[sp][j].st = "acked"}} : sp \in Spaces}
\* send times of the in-flight packets declared lost in this call
LostTrig(p, L) == UNION {{p[sp][i].t : i \in {j \in L[sp] \cap DOMAIN p[sp] : p[sp][j].st = "out" /\ p[sp][j].inf}} : sp \in Spaces}

\* a probe timeout fired: the back-off counter advanced or a probe packet was requested
SumNeed(cc) == cc.need[1] + cc.need[2] + cc.need[3]
ProbeFired(c0, c1) == c1.pton = c0.pton + 1 \/ SumNeed(c1) > SumNeed(c0)
Common(o, endsBackoff, isTick) ==
    /\ c' = o.c
    /\ ptoPrev' = IF isTick /\ ProbeFired(c, o.c) THEN [dur |-> c.pto[1], srtt |-> c.srtt, var |-> c.var]
                  ELSE IF endsBackoff THEN NoPto ELSE ptoPrev
    /\ shrinkAt' = IF o.c.cwnd < c.cwnd THEN now ELSE shrinkAt
    /\ probes' = IF isTick /\ ProbeFired(c, o.c) THEN probes + 1 ELSE probes
    /\ dead' = (dead \/ (isTick /\ ~o.ok))

Init ==
    /\ now = 0
    /\ pk = [sp \in Spaces |-> <<>>] /\ la = [sp \in Spaces |-> NONE] /\ ceSeen = [sp \in Spaces |-> 0]
    /\ ph \in {[server |-> s, hsKey |-> FALSE, hsAck |-> FALSE, conf |-> FALSE, amp |-> TRUE, gone |-> {}] : s \in BOOLEAN}
    /\ c = D_Init
    /\ last = [act |-> "init"]
    /\ shrinkAt = NONE /\ probes = 0 /\ ptoPrev = NoPto /\ grant = 0 /\ dead = FALSE

\* start of a recorded run: role and the controller's initial state come from the log
ResetTo(server, c0) ==
    /\ now' = 0
    /\ pk' = [sp \in Spaces |-> <<>>] /\ la' = [sp \in Spaces |-> NONE] /\ ceSeen' = [sp \in Spaces |-> 0]
    /\ ph' = [server |-> server, hsKey |-> FALSE, hsAck |-> FALSE, conf |-> FALSE, amp |-> TRUE, gone |-> {}]
    /\ c' = c0
    /\ last' = [act |-> "init"]
    /\ shrinkAt' = NONE /\ probes' = 0 /\ ptoPrev' = NoPto /\ grant' = 0 /\ dead' = FALSE

Advance(dt) ==
    /\ dt > 0
    /\ now' = now + dt
    /\ last' = [act |-> "adv"]
    /\ grant' = 0
    /\ UNCHANGED <<pk, la, ceSeen, ph, c, shrinkAt, probes, ptoPrev, dead>>

\* on_pkt_sent.  viaGrant: the sender sends this packet out of the quota it was granted
Send(sp, sz, ae, inf, viaGrant, o) ==
    /\ viaGrant => (inf /\ sz <= grant)
    /\ LET n == N(pk, sp)
           p1 == [pk EXCEPT ![sp] = [i \in 0..n |-> IF i < n THEN @[i] ELSE [sz |-> sz, t |-> now, ae |-> ae, inf |-> inf, st |-> "out"]]]
           p2 == MarkAll(p1, o.lost, "lost")
           p3 == IF DropsInitial(ph, sp, "send") THEN Mark(p2, 1, OutSet(p2, 1), "disc") ELSE p2
       IN /\ pk' = p3
          /\ last' = [LastRec("send", sp, o, {}, {}, AckedLost(p1, o.lost), LostTrig(p1, o.lost),
                               inf \/ (DropsInitial(ph, sp, "send") /\ 1 \notin ph.gone)) EXCEPT !.g = viaGrant]
    /\ grant' = IF inf THEN Max(grant - sz, 0) ELSE grant
    /\ ph' = IF DropsInitial(ph, sp, "send") THEN [ph EXCEPT !.gone = @ \cup {1}] ELSE ph
    /\ Common(o, DropsInitial(ph, sp, "send") /\ 1 \notin ph.gone, FALSE)
    /\ UNCHANGED <<now, la, ceSeen>>

\* on_ack_rcvd of a frame acknowledging exactly the packet numbers S (all of them sent), ECN-CE count ce or NONE
AckRcvd(sp, S, delay, ce, o) ==
    /\ S # {} /\ S \subseteq DOMAIN pk[sp]
    /\ LET newly == {i \in S : pk[sp][i].st = "out"}
           late == {i \in S : pk[sp][i].st = "lost"}
           p1 == Mark(pk, sp, newly \cup late, "acked")
           p2 == MarkAll(p1, o.lost, "lost")
           p3 == IF DropsInitial(ph, sp, "ack") THEN Mark(p2, 1, OutSet(p2, 1), "disc") ELSE p2
           \* an increased ECN-CE count justifies a reaction when the frame acknowledges a packet for the first time (the RFC
           \* requires a newly acknowledged packet; an acknowledgement of a packet already declared lost is tolerated too)
           ceUp == (newly \cup late) # {} /\ ce # NONE /\ ce > ceSeen[sp]
           trig == LostTrig(p1, o.lost) \cup (IF ceUp THEN {pk[sp][i].t : i \in newly \cup late} ELSE {})
       IN /\ pk' = p3
          /\ la' = [la EXCEPT ![sp] = Max(@, SetMax(S))]
          /\ ceSeen' = IF newly # {} /\ ce # NONE /\ ce > ceSeen[sp] THEN [ceSeen EXCEPT ![sp] = ce] ELSE ceSeen
          /\ last' = LastRec("ack", sp, o, newly, late, AckedLost(p1, o.lost), trig, newly # {} \/ (DropsInitial(ph, sp, "ack") /\ 1 \notin ph.gone))
    /\ grant' = 0
    /\ ph' = IF DropsInitial(ph, sp, "ack") THEN [ph EXCEPT !.gone = @ \cup {1}] ELSE ph
    /\ Common(o, (\E i \in S : pk[sp][i].st = "out") \/ (DropsInitial(ph, sp, "ack") /\ 1 \notin ph.gone), FALSE)
    /\ UNCHANGED now

\* do_tick
Tick(o) ==
    /\ pk' = MarkAll(pk, o.lost, "lost")
    /\ last' = LastRec("tick", 0, o, {}, {}, AckedLost(pk, o.lost), LostTrig(pk, o.lost), c.timer # NONE /\ c.timer <= now)
    /\ grant' = 0
    /\ Common(o, FALSE, TRUE)
    /\ UNCHANGED <<now, la, ceSeen, ph>>

\* send_quota
Quota(o) ==
    /\ pk' = MarkAll(pk, o.lost, "lost")
    /\ last' = LastRec("quota", 0, o, {}, {}, AckedLost(pk, o.lost), LostTrig(pk, o.lost), FALSE)
    /\ grant' = IF o.ok THEN o.q ELSE 0
    /\ Common(o, FALSE, FALSE)
    /\ UNCHANGED <<now, la, ceSeen, ph>>

\* discard_epoch(Initial | Handshake)
Discard(sp, o) ==
    /\ sp \in {1, 2}
    /\ LET p1 == MarkAll(pk, o.lost, "lost") IN pk' = Mark(p1, sp, OutSet(p1, sp), "disc")
    /\ last' = LastRec("discard", sp, o, {}, {}, AckedLost(pk, o.lost), LostTrig(pk, o.lost), TRUE)
    /\ grant' = 0
    /\ ph' = [ph EXCEPT !.gone = @ \cup {sp}]
    /\ Common(o, sp \notin ph.gone, FALSE)
    /\ UNCHANGED <<now, la, ceSeen>>

\* handshake progress and the anti-amplification flag (PathStatus / HandshakeStatus)
Phase(what, o) ==
    /\ ph' = CASE what = "hskey" -> [ph EXCEPT !.hsKey = TRUE]
               [] what = "hsack" -> [ph EXCEPT !.hsAck = TRUE]
               [] what = "conf"  -> [ph EXCEPT !.conf = TRUE]
               [] what = "grant" -> [ph EXCEPT !.amp = FALSE]
               [] what = "limit" -> [ph EXCEPT !.amp = TRUE]
    /\ pk' = MarkAll(pk, o.lost, "lost")
    /\ last' = LastRec("phase", 0, o, {}, {}, AckedLost(pk, o.lost), LostTrig(pk, o.lost), FALSE)
    /\ Common(o, FALSE, FALSE)
    /\ UNCHANGED <<now, la, ceSeen, grant>>

-----------------------------------------------------------------------------
(* C13, property by property.  `last` describes the step that led to the current state. *)
Stepped == last.act \notin {"init", "adv"}
LostPairs == IF Stepped THEN UNION {{<<sp, i>> : i \in last.lost[sp] \cap DOMAIN pk[sp]} : sp \in Spaces} ELSE {}
\* the time threshold that applied: the loss delay before the call or the one after its rtt update, whichever is smaller
TimeThr == Min(last.c0.ld, c.ld)

\* "a packet is declared lost only when a later packet has been acknowledged ..."
LossOnlyAfterLaterAck == \A x \in LostPairs : la[x[1]] > x[2]
\* "... and it is either at least three packets older or older than the time threshold"
LossOnlyBeyondThreshold ==
    \A x \in LostPairs : la[x[1]] > x[2] => (la[x[1]] >= x[2] + PktThresh \/ now - pk[x[1]][x[2]].t >= TimeThr)
\* the time threshold is 9/8 of max(smoothed, latest) rtt, at least the granularity (1 unit + 1e-3 relative tolerance)
TimeThresholdIsNineEighths ==
    LET m == Max(c.srtt, c.latest) IN
    Abs(8 * c.ld - Max(9 * m, 8 * Gran)) <= 8 + (9 * m) \div 1000
\* "an acknowledged packet is never declared lost"
AckedNeverLost == Stepped => last.ackedLost = {}

\* "the congestion window never falls below two datagrams"
CwndAtLeastTwoDatagrams == c.cwnd >= 2 * Mtu
\* "shrinks ... on loss or ECN marks"
ShrinkOnlyOnLossOrEcn == (Stepped /\ c.cwnd < last.c0.cwnd) => last.trig # {}
\* "... at most once per round trip": the packet whose loss / mark shrinks the window was sent after the previous shrink
\* (the collapse on persistent congestion -- losses spanning three probe timeouts -- is the RFC's explicit exception)
PersistentCongestion == last.span >= 3 * (last.c0.srtt + Max(4 * last.c0.var, Gran) + MaxAckDelay)
OncePerRttBroken ==
    /\ Stepped /\ c.cwnd < last.c0.cwnd /\ last.trig # {} /\ last.shrinkAt0 # NONE /\ ~PersistentCongestion
    /\ \A t \in last.trig : t <= last.shrinkAt0
LostCount == Cardinality(last.lost[1]) + Cardinality(last.lost[2]) + Cardinality(last.lost[3])
\* reported under three names by input class (their conjunction is the property): a second reduction although the
\* controller knows it is in a recovery period and fewer than three packets were lost / three or more packets lost in one
\* pass / the controller had forgotten the recovery period
ShrinkAtMostOncePerRtt == ~(OncePerRttBroken /\ last.c0.rec # NONE /\ LostCount < 3)
ShrinkOnceBurstLoss == ~(OncePerRttBroken /\ last.c0.rec # NONE /\ LostCount >= 3)
ShrinkOnceRecoveryCleared == ~(OncePerRttBroken /\ last.c0.rec = NONE)
\* "grows only on acknowledgements outside recovery": some packet acknowledged by this call was sent after recovery started
GrowOnlyOnAckOutsideRecovery ==
    (Stepped /\ c.cwnd > last.c0.cwnd) =>
        /\ last.act = "ack"
        /\ \E i \in last.newly \cup last.late : last.c0.rec = NONE \/ pk[last.sp][i].t > last.c0.rec
\* "the bytes counted in flight always equal the sizes of the packets still outstanding"
BytesInFlightExact == c.bif = SumInFlight(pk)
\* "the sender does not keep adding in-flight bytes beyond the window": no quota while the window is full (a probe excepted) ...
NoSendBeyondWindow == (Stepped /\ last.act = "quota" /\ last.ok /\ ~last.probe0) => c.bif < c.cwnd
\* ... and (design) a packet sent out of a grant never overshoots the window
GrantedSendWithinWindow == (Stepped /\ last.act = "send" /\ last.g /\ ~last.probe0) => c.bif <= c.cwnd

(* "every ack-eliciting packet in flight is eventually acknowledged, declared lost or probed by a timeout whose interval
   doubles until the connection is abandoned": the safety half -- a deadline is always armed while such a packet is
   outstanding in a space that may be probed, an expired deadline is acted upon, consecutive probe intervals double,
   the path is abandoned only after MaxPto probes.  (The liveness half is checked on the design in MC_Recovery.) *)
Probeable(sp) == sp # 3 \/ ph.conf
TimerArmed ==
    (Stepped /\ last.rearm /\ ~dead /\ ~ph.amp
        /\ (\E sp \in Spaces : Probeable(sp) /\ (\E i \in AeOut(pk, sp) : pk[sp][i].inf)))
    => (c.timer # NONE /\ c.timer <= now + c.pto[3] + c.ld)
ExpiredTimerActs ==
    (Stepped /\ last.act = "tick" /\ last.c0.timer # NONE /\ last.c0.timer + MaxAckDelay + Gran < now /\ ~dead)
    => \/ \E sp \in Spaces : last.lost[sp] # {}
       \/ ProbeFired(last.c0, c)
       \/ c.timer = NONE \/ c.timer > now
PtoIntervalDoubles ==
    (Stepped /\ last.act = "tick" /\ ProbeFired(last.c0, c) /\ c.srtt = last.c0.srtt /\ c.var = last.c0.var)
    => \A sp \in Spaces : Abs(c.pto[sp] - 2 * last.c0.pto[sp]) <= 2
\* the back-off is not restarted except by an acknowledgement of new packets or by discarding a space
PtoBackoffNotReset ==
    (Stepped /\ last.act = "tick" /\ ProbeFired(last.c0, c) /\ last.ptoPrev0.dur # NONE
        /\ last.ptoPrev0.srtt = last.c0.srtt /\ last.ptoPrev0.var = last.c0.var)
    => Abs(last.c0.pto[1] - 2 * last.ptoPrev0.dur) <= 2
AbandonOnlyAfterMaxPto == (Stepped /\ last.act = "tick" /\ ~last.ok) => c.pton > MaxPto

Inv == /\ LossOnlyAfterLaterAck /\ LossOnlyBeyondThreshold /\ TimeThresholdIsNineEighths /\ AckedNeverLost
       /\ CwndAtLeastTwoDatagrams /\ ShrinkOnlyOnLossOrEcn /\ ShrinkAtMostOncePerRtt /\ ShrinkOnceBurstLoss /\ ShrinkOnceRecoveryCleared
       /\ GrowOnlyOnAckOutsideRecovery
       /\ BytesInFlightExact /\ NoSendBeyondWindow
       /\ TimerArmed /\ ExpiredTimerActs /\ PtoIntervalDoubles /\ PtoBackoffNotReset /\ AbandonOnlyAfterMaxPto
=============================================================================
