----------------------------- MODULE Trace_Conn -----------------------------
(* impl -> spec: runs of the whole stack (vh-sim) over the in-memory network, judged against Conn.tla *)
EXTENDS Conn, TLC, Json, IOUtils
VARIABLES l, flag
Rec_ == ndJsonDeserialize(IOEnv.TRACE)
NE == Len(Rec_)
e == Rec_[l]
Ev(name) == l <= NE /\ e.ev = name /\ l' = l + 1
Arg == IF "arg" \in DOMAIN e THEN e.arg ELSE 0

TReset == Ev("reset") /\ c' = CInit(e.sc.bounded)
TDgram == Ev("dgram") /\ c' = Datagram(c, e.dir, e.i, e.pkts, e.fate, Arg)
TDlv == Ev("dlv") /\ c' = Delivered(c, e.dir, e.i)
TUndeliverable == Ev("undeliverable") /\ c' = c
TQ == Ev("q") /\ c' = (IF e.name = "packet_sent" THEN PacketSent(c, e.side, e.ty, e.pn, e.len)
                       ELSE IF e.name = "packet_received" THEN PacketReceived(c, e.side, e.ty, e.pn, e.carries_data)
                       ELSE c)
TApp == Ev("app") /\ c' = (CASE e.op = "write" -> AppWrite(c, e.side, e.sid, e.n)
                             [] e.op = "shutdown" -> AppShutdown(c, e.side, e.sid)
                             [] e.op = "read" -> AppRead(c, e.side, e.sid, e.n, e.data_ok)
                             [] e.op = "eos" -> AppEos(c, e.side, e.sid, e.at)
                             [] e.op = "dgram_send" -> DgramSend(c, e.id, e.size, e.res = "ok")
                             [] e.op = "dgram_recv" -> DgramRecv(c, e.id, e.size, e.data_ok)
                             [] OTHER -> c)
TSum == Ev("appsum") /\ c' = c
TPanic == Ev("panic") /\ c' = Panic(c)
TFinal == Ev("final") /\ c' = Final(c, e.cli_done, e.cli_ok, e.srv_done)

TraceInit == l = 1 /\ c = CInit(FALSE) /\ flag = FALSE
TraceNext == (TReset \/ TDgram \/ TDlv \/ TUndeliverable \/ TQ \/ TApp \/ TSum \/ TPanic \/ TFinal)
             /\ flag' = (c.ok /\ ~c'.ok)
ContractHolds == c.ok \/ PrintT(<<"CONTRACT", c.why>>) = FALSE
\* reported once, at the step that broke the contract; validation of the following runs continues
SoftContract == ~flag \/ PrintT(<<"SOFT_VIOLATION", "Contract", l, c.why>>)
TraceAccepted ==
    LET d == TLCGet("stats").diameter IN
    IF d - 1 = NE THEN TRUE
    ELSE PrintT(<<"TRACE_REJECTED_AT", d, IF d <= NE THEN Rec_[d] ELSE "eof">>) /\ FALSE
=============================================================================
