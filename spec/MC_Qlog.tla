------------------------------ MODULE MC_Qlog ------------------------------
(***************************************************************************)
(* A small producer of qlog streams in the orders a correct endpoint can      *)
(* emit them (connection states forward, packets sent with increasing         *)
(* numbers per space, then acknowledged or lost, stream sides walking their    *)
(* state machines), fed through the Qlog monitor: TLC checks that the monitor  *)
(* accepts every such stream (no false alarm on a correct producer) and that   *)
(* each ordering rule is reachable (vacuity).                                  *)
(***************************************************************************)
EXTENDS Qlog, TLC
CONSTANTS MaxPn
VARIABLES conn, nextPn, out, snd, rcv
vars == <<q, conn, nextPn, out, snd, rcv>>
Base(name, side) == [ev |-> "q", name |-> name, side |-> side, has_time |-> TRUE, has_name |-> TRUE, has_data |-> TRUE,
                     scheme_ok |-> TRUE, rt_ok |-> TRUE]
ConnStates == <<"attempted", "handshake_confirmed", "closing", "draining">>
MCInit == /\ q = QInit("g", "capture", FALSE) /\ conn = 0 /\ nextPn = 0 /\ out = {} /\ snd = "" /\ rcv = ""
ConnStep == /\ conn < Len(ConnStates) /\ conn' = conn + 1
            /\ q' = Event(q, Base("connection_state_updated", "cli") @@ [new |-> ConnStates[conn + 1], old |-> ""])
            /\ UNCHANGED <<nextPn, out, snd, rcv>>
Send == /\ nextPn < MaxPn /\ nextPn' = nextPn + 1 /\ out' = out \cup {nextPn}
        /\ q' = Event(q, Base("packet_sent", "cli") @@ [ty |-> "1RTT", pn |-> nextPn, has_header |-> TRUE])
        /\ UNCHANGED <<conn, snd, rcv>>
Acked == \E S \in SUBSET out : S # {} /\ out' = out \ S
         /\ q' = Event(q, Base("packets_acked", "cli") @@ [space |-> "application_data",
                                                            pns |-> IF Cardinality(S) = 1 THEN <<CHOOSE x \in S : TRUE>>
                                                                    ELSE <<CHOOSE x \in S : TRUE, CHOOSE y \in S : y # (CHOOSE x \in S : TRUE)>>])
         /\ UNCHANGED <<conn, nextPn, snd, rcv>>
Lost == \E p \in out : out' = out \ {p}
        /\ q' = Event(q, Base("packet_lost", "cli") @@ [ty |-> "1RTT", pn |-> p, has_header |-> TRUE])
        /\ UNCHANGED <<conn, nextPn, snd, rcv>>
SendSide == \E n \in SendNext(snd) : n # snd /\ snd' = n
            /\ q' = Event(q, Base("stream_state_updated", "cli") @@ [sid |-> 0, stype |-> "bidirectional", sside |-> "sending", new |-> n, old |-> snd])
            /\ UNCHANGED <<conn, nextPn, out, rcv>>
RecvSide == \E n \in RecvNext(rcv) : n # rcv /\ rcv' = n
            /\ q' = Event(q, Base("stream_state_updated", "cli") @@ [sid |-> 0, stype |-> "bidirectional", sside |-> "receiving", new |-> n, old |-> rcv])
            /\ UNCHANGED <<conn, nextPn, out, snd>>
MCNext == ConnStep \/ Send \/ Acked \/ Lost \/ SendSide \/ RecvSide
View == <<conn, nextPn, out, snd, rcv, q.ok>>
MonitorAccepts == q.ok \/ PrintT(<<"CONTRACT", q.why>>) = FALSE
=============================================================================
