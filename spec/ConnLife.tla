------------------------------ MODULE ConnLife ------------------------------
(***************************************************************************)
(* C17 — the life cycle of a connection as observable from outside: the      *)
(* connection state each endpoint logs, the application's close call, the     *)
(* completion (with virtual time) of every application operation, what the    *)
(* endpoint still puts on the wire after closing, and idle expiry.            *)
(* One record of monitor state; each recorded event is a state transformer.   *)
(***************************************************************************)
EXTENDS Integers, Sequences, FiniteSets
VARIABLE k

Sides == {"cli", "srv"}
Peer(s) == IF s = "cli" THEN "srv" ELSE "cli"
Max(a, b) == IF a > b THEN a ELSE b

\* connection states in the order a connection may pass through them
Rank(s) == CASE s = "" -> 0
             [] s = "attempted" -> 1
             [] s = "peer_validated" -> 2
             [] s = "handshake_started" -> 3
             [] s = "early_write" -> 4
             [] s \in {"handshake_complete", "handshake_completed"} -> 5
             [] s = "handshake_confirmed" -> 6
             [] s = "closing" -> 7
             [] s = "draining" -> 8
             [] s = "closed" -> 9
             [] OTHER -> 100

PromptUs == 1000000          \* "promptly" for the closing side: within one virtual second (the target is blocking forever)
SlackUs == 3000000           \* for the peer / idle expiry: the draining period and timer granularity

LInit(idleUs, lingers) ==
    [ idle     |-> idleUs,        \* negotiated idle timeout (smaller non-zero of the two), 0 = none
      lingers  |-> lingers,       \* the scenario leaves the connection idle instead of closing it
      state    |-> <<>>,                    \* <<side, connection (qlog group id)>> -> last connection state logged
      stateAt  |-> <<>>,                    \* ... and when it was logged
      closedEv |-> <<>>,                    \* <<side, connection>> -> connection_closed events logged
      closeAt  |-> [s \in Sides |-> -1],    \* virtual time of the application's close call (-1: none)
      termAt   |-> [s \in Sides |-> -1],    \* when the application learnt the connection is over
      terms    |-> [s \in Sides |-> 0],
      wbegun   |-> <<>>,                    \* <<side, sid>> -> time the pending write call started
      lastRcv  |-> [s \in Sides |-> 0],     \* last datagram delivered to s
      lastSnd  |-> [s \in Sides |-> 0],     \* last datagram s handed to the network
      doneAt   |-> [s \in Sides |-> -1],    \* when every application task of s had completed
      hasConn  |-> [s \in Sides |-> s = "cli"],  \* the endpoint has a connection object with application tasks on it
      ok |-> TRUE, why |-> "", at |-> 0 ]

Fail(st, why) == IF st.ok THEN [st EXCEPT !.ok = FALSE, !.why = why] ELSE st
Get(f, x, d) == IF x \in DOMAIN f THEN f[x] ELSE d
Put(f, x, v) == [y \in DOMAIN f \cup {x} |-> IF y = x THEN v ELSE f[y]]
FirstClose(st) == LET cs == {st.closeAt[s] : s \in {x \in Sides : st.closeAt[x] >= 0}} IN
                  IF cs = {} THEN -1 ELSE CHOOSE t \in cs : \A u \in cs : t <= u

\* an endpoint may hold more than one connection object (a server that saw a delayed duplicate of the first Initial):
\* states are tracked per connection
StateUpdated(st, side, gid, old, new, t) ==
    LET key == <<side, gid>> IN
    IF Rank(new) = 100 THEN Fail(st, "unknown connection state logged")
    \* "attempted" without a predecessor is the first event of a NEW connection object (the log cannot tell two server
    \* connections created for two copies of the same first Initial apart: both carry the original DCID as group id)
    ELSE IF new = "attempted" /\ old = "" THEN [st EXCEPT !.state = Put(@, key, new), !.stateAt = Put(@, key, t), !.closedEv = Put(@, key, 0)]
    ELSE IF Rank(new) <= Rank(Get(st.state, key, "")) THEN Fail(st, "the connection state moved backwards or repeated (C17)")
    ELSE [st EXCEPT !.state = Put(@, key, new), !.stateAt = Put(@, key, t)]

ConnectionClosed(st, side, gid) ==
    LET key == <<side, gid>> IN
    IF Get(st.closedEv, key, 0) >= 1 THEN Fail(st, "the terminating error was fixed twice: a second connection_closed (C17)")
    ELSE [st EXCEPT !.closedEv = Put(@, key, 1)]

AppClose(st, side, t) == IF st.closeAt[side] < 0 THEN [st EXCEPT !.closeAt[side] = t] ELSE st
Terminated(st, side, t) ==
    IF st.terms[side] >= 1 THEN Fail(st, "terminated() reported twice")
    ELSE [st EXCEPT !.termAt[side] = t, !.terms[side] = 1]

WriteBegin(st, side, sid, t) == [st EXCEPT !.wbegun = Put(@, <<side, sid>>, t)]
\* a write call that STARTED after this side closed (or learnt of the end) must not be accepted
WriteDone(st, side, sid, t) ==
    LET b == Get(st.wbegun, <<side, sid>>, 0)
        over == IF st.closeAt[side] >= 0 THEN st.closeAt[side] ELSE st.termAt[side]
    IN IF over >= 0 /\ b > over THEN Fail(st, "application data accepted after the connection was closed (C17)")
       ELSE st

\* what the endpoint puts on the wire after it entered closing/draining: only CONNECTION_CLOSE (with padding / acks)
\* (a packet assembled concurrently with the close, in the same virtual instant, is not held against the endpoint)
PacketSent(st, side, gid, carriesData, t) ==
    IF carriesData /\ Rank(Get(st.state, <<side, gid>>, "")) >= 7 /\ t > Get(st.stateAt, <<side, gid>>, 0)
    THEN Fail(st, "application data emitted after the connection entered closing/draining (C17)")
    ELSE st

NetSent(st, side, t) == [st EXCEPT !.lastSnd[side] = t]
NetDelivered(st, side, t) == [st EXCEPT !.lastRcv[side] = t]
Accepted(st, side) == [st EXCEPT !.hasConn[side] = TRUE]
TasksDone(st, side, t) == [st EXCEPT !.doneAt[side] = t]

\* end of the run
Final(st, cliDone, srvDone, tEnd) ==
    LET fc == FirstClose(st)
        lateLocal == {s \in Sides : st.closeAt[s] >= 0 /\ (st.doneAt[s] < 0 \/ st.doneAt[s] > st.closeAt[s] + PromptUs)}
        \* the peer is told by CONNECTION_CLOSE, or, if that is lost, by its idle timer
        peerBound == fc + st.idle + SlackUs
        latePeer == {s \in Sides : fc >= 0 /\ st.closeAt[s] < 0 /\ st.idle > 0 /\ st.hasConn[s] /\ (st.doneAt[s] < 0 \/ st.doneAt[s] > peerBound)}
        early == {s \in Sides : st.lingers /\ st.idle > 0 /\ st.termAt[s] >= 0 /\ fc < 0 /\ st.termAt[s] + 20000 < st.lastRcv[s] + st.idle}
        lateIdle == {s \in Sides : st.lingers /\ st.idle > 0 /\ fc < 0 /\ st.hasConn[s]
                                    /\ (st.termAt[s] < 0 \/ st.termAt[s] > Max(st.lastRcv[s], st.lastSnd[s]) + st.idle + SlackUs)}
    IN IF lateLocal # {} THEN Fail(st, "operations pending on the closing endpoint did not complete promptly after close (C17)")
       ELSE IF latePeer # {} THEN Fail(st, "operations pending on the peer of a closed connection did not complete within idle timeout + draining (C17)")
       ELSE IF early # {} THEN Fail(st, "the connection was closed as idle before the negotiated idle timeout had passed (C17)")
       ELSE IF lateIdle # {} THEN Fail(st, "an idle connection was not closed after the negotiated idle timeout (C17)")
       ELSE st

Contract == k.ok
=============================================================================
