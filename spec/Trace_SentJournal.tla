-------------------------- MODULE Trace_SentJournal --------------------------
(* impl -> spec: events recorded from the real ArcSentJournal / NewPacketGuard / SentRotateGuard *)
EXTENDS SentJournal, TLC, Json, IOUtils
VARIABLE l
Rec_ == ndJsonDeserialize(IOEnv.TRACE)
NE == Len(Rec_)
e == Rec_[l]
Ev(name) == l <= NE /\ e.ev = name /\ l' = l + 1

TReset == Ev("reset") /\ Reset
TSend == Ev("send") /\ Send(e.n, e.triv = 1, e.rt, e.et) /\ res'.pn = e.pn /\ e.next = NextPn'
TAbandon == Ev("abandon") /\ Abandon /\ res'.pn = e.pn /\ e.next = NextPn'
TRotBegin == Ev("rotbegin") /\ RotBegin
TLargest == Ev("largest") /\ UpdateLargest(e.L, e.ok)
TAck == Ev("ack") /\ Ack(e.pn) /\ res'.frames = e.frames
TLoss == Ev("loss") /\ Loss(e.pn) /\ res'.frames = e.frames
TFast == Ev("fastretx") /\ FastRetx /\ res'.frames = e.frames
TRotEnd == Ev("rotend") /\ RotEnd /\ e.next = NextPn'
TTick == Ev("tick") /\ Tick(e.d)

TraceInit == l = 1 /\ Init
TraceNext == TReset \/ TSend \/ TAbandon \/ TRotBegin \/ TLargest \/ TAck \/ TLoss \/ TFast \/ TRotEnd \/ TTick
TraceAccepted ==
    LET d == TLCGet("stats").diameter IN
    IF d - 1 = NE THEN TRUE
    ELSE PrintT(<<"TRACE_REJECTED_AT", d, IF d <= NE THEN Rec_[d] ELSE "eof">>) /\ FALSE
=============================================================================
