--------------------------- MODULE Trace_LocalCids ---------------------------
(* impl -> spec: events from the real ArcLocalCids over a real QuicRouter shared by the connections *)
EXTENDS LocalCids, TLC, Json, IOUtils
MCShared == {<<"x", 0>>}
VARIABLE l
Rec_ == ndJsonDeserialize(IOEnv.TRACE)
NE == Len(Rec_)
e == Rec_[l]
Ev(name) == l <= NE /\ e.ev = name /\ l' = l + 1
\* the call's outcome and the complete routing snapshot must equal the spec's
Matches ==
    /\ res'.ok = e.ok
    /\ res'.frames = e.frames
    /\ \A i \in DOMAIN e.routes : Route(table', <<e.routes[i][1], e.routes[i][2]>>) = e.routes[i][3]
TReset == Ev("reset") /\ Reset
TCreate == Ev("create") /\ Create(e.c) /\ Matches
TSetLimit == Ev("setlimit") /\ SetLimit(e.c, e.L) /\ Matches
TRetire == Ev("retire") /\ RecvRetire(e.c, e.seq) /\ Matches
TDrop == Ev("drop") /\ Drop(e.c) /\ Matches
TClaim == Ev("claim") /\ Claim(e.c, <<e.s, 0>>) /\ Matches
TUnclaim == Ev("unclaim") /\ Unclaim(e.c, <<e.s, 0>>) /\ Matches
TraceInit == l = 1 /\ Init
TraceNext == TReset \/ TCreate \/ TSetLimit \/ TRetire \/ TDrop \/ TClaim \/ TUnclaim
TraceAccepted ==
    LET d == TLCGet("stats").diameter IN
    IF d - 1 = NE THEN TRUE
    ELSE PrintT(<<"TRACE_REJECTED_AT", d, IF d <= NE THEN Rec_[d] ELSE "eof">>) /\ FALSE
=============================================================================
