----------------------------- MODULE Gen_Hostile -----------------------------
(* spec -> implementation: every legitimate history of at most Depth steps for the chosen focuses / spaces, followed by
   one hostile frame of every enabled class.  Printed as <<"init", focus, space>>, legitimate ops, <<"hostile", kind, cls>>. *)
EXTENDS Hostile, Json
CONSTANTS GenFocus, GenSpaces, SendK,
          DAck, DAckLong, DPn, DCrypto, DCid, DStream    \* history depth per focus (DAckLong: ACK in the Initial / Handshake spaces)
VARIABLE hist
GenInit == /\ \E f \in GenFocus, s \in GenSpaces : (f \in {"rcid", "lcid", "stream"} => s = "data") /\ Start(f, s)
           /\ hist = <<<<"init", focus, space>>>>
H(x) == hist' = Append(hist, x)
Depth == CASE focus = "ack" -> (IF space = "data" THEN DAck ELSE DAckLong) [] focus = "pn" -> DPn [] focus = "crypto" -> DCrypto
           [] focus \in {"rcid", "lcid"} -> DCid [] OTHER -> DStream
More == Len(hist) <= Depth
GenNext ==
    \/ More /\ \E k \in SendK : Send(k) /\ H(<<"send", k>>)
    \/ More /\ SendAck /\ H(<<"sendack">>)
    \/ More /\ \E s \in BOOLEAN : Rcv(s) /\ H(<<IF s THEN "rcvskip" ELSE "rcv">>)
    \/ More /\ \E w \in {"all", "last"} : PeerAck(w) /\ H(<<"peerack", w>>)
    \/ More /\ Crx /\ H(<<"crx">>)
    \/ More /\ \E m \in {"keep", "rpt"} : NewCid(m) /\ H(<<"newcid", m>>)
    \/ More /\ Retire /\ H(<<"retire">>)
    \/ More /\ \E d \in Dirs : Open(d) /\ H(<<"open", d>>)
    \/ More /\ \E d \in Dirs : Rx(d) /\ H(<<"rx", d>>)
    \/ \E k \in Kinds : \E cls \in Classes(k) :
          Enabled(k, cls) /\ Hostile(k, cls, CHOOSE o \in Allowed(k, cls) : TRUE) /\ H(<<"hostile", k, cls>>)
Emit == done => PrintT(<<"GEN", ToJson(hist)>>)
=============================================================================
