--------------------------- MODULE Trace_ConnLife ---------------------------
(* impl -> spec: vh-sim runs with close points / idle periods, judged against ConnLife.tla *)
EXTENDS ConnLife, TLC, Json, IOUtils, Integers
VARIABLES l, flag
Rec_ == ndJsonDeserialize(IOEnv.TRACE)
NE == Len(Rec_)
e == Rec_[l]
Ev(name) == l <= NE /\ e.ev = name /\ l' = l + 1

TReset == Ev("reset") /\ k' = LInit(e.sc.idle_us, e.sc.lingers)
TDgram == Ev("dgram") /\ k' = NetSent(k, IF e.dir = "c2s" THEN "cli" ELSE "srv", e.t)
TDlv == Ev("dlv") /\ k' = NetDelivered(k, IF e.dir = "c2s" THEN "srv" ELSE "cli", e.t)
TUndeliverable == Ev("undeliverable") /\ k' = k
TQ == Ev("q") /\ k' = (CASE e.name = "connection_state_updated" -> StateUpdated(k, e.side, e.gid, e.old, e.new, e.t)
                         [] e.name = "connection_closed" -> ConnectionClosed(k, e.side, e.gid)
                         [] e.name = "packet_sent" -> PacketSent(k, e.side, e.gid, e.carries_data, e.t)
                         [] OTHER -> k)
TApp == Ev("app") /\ k' = (CASE e.op = "close" -> AppClose(k, e.side, e.t)
                             [] e.op = "terminated" -> Terminated(k, e.side, e.t)
                             [] e.op = "write" -> WriteBegin(k, e.side, e.sid, e.t)
                             [] e.op = "wdone" -> WriteDone(k, e.side, e.sid, e.t)
                             [] e.op = "workload_done" -> TasksDone(k, "cli", e.t)
                             [] e.op = "conn_done" -> TasksDone(k, "srv", e.t)
                             [] e.op = "accepted_conn" -> Accepted(k, "srv")
                             [] OTHER -> k)
TSum == Ev("appsum") /\ k' = k
TPanic == Ev("panic") /\ k' = Fail(k, "panic inside the stack")
TFinal == Ev("final") /\ k' = Final(k, e.cli_done, e.srv_done, e.t)

TraceInit == l = 1 /\ k = LInit(0, FALSE) /\ flag = FALSE
TraceNext == (TReset \/ TDgram \/ TDlv \/ TUndeliverable \/ TQ \/ TApp \/ TSum \/ TPanic \/ TFinal)
             /\ flag' = (k.ok /\ ~k'.ok)
ContractHolds == k.ok \/ PrintT(<<"CONTRACT", k.why>>) = FALSE
\* reported once, at the step that broke the contract; validation of the following runs continues
SoftContract == ~flag \/ PrintT(<<"SOFT_VIOLATION", "Contract", l, k.why>>)
TraceAccepted ==
    LET d == TLCGet("stats").diameter IN
    IF d - 1 = NE THEN TRUE
    ELSE PrintT(<<"TRACE_REJECTED_AT", d, IF d <= NE THEN Rec_[d] ELSE "eof">>) /\ FALSE
=============================================================================
