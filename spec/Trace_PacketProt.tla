--------------------------- MODULE Trace_PacketProt ---------------------------
(* impl -> spec: records of the real receive path (vh-packetprot) judged by PacketProt.
   One "rx" record = one packet term presented n times (n > 1: once per flipped bit of the tampered region):
   nacc presentations were delivered, nident of them bit-identical to what was assembled, extra further packets
   came out of the same datagrams.  The judge follows what the implementation did (monitor style); what the property
   forbids is reported through SOFT invariants so that the rest of the run is still validated. *)
EXTENDS PacketProt, TLC, Json, IOUtils
VARIABLE l
Rec == ndJsonDeserialize(IOEnv.TRACE)
NE == Len(Rec)
e == Rec[l]
Ev(name) == l <= NE /\ e.ev = name /\ l' = l + 1

Pk == [sp |-> e.sp, gen |-> e.gen, pn |-> e.pn, plen |-> e.plen, tamper |-> e.tamper, keys |-> e.keys]
\* key-phase bit the receive path saw after removing header protection (-1: not a short header / removal failed)
Kp == IF "kp" \in DOMAIN e THEN e.kp ELSE -1
KpM == IF Kp >= 0 THEN Kp ELSE 0

TReset == Ev("reset") /\ Reset
TPosition == Ev("position") /\ Position(e.s, e.n)
TSenderUpdate == Ev("supdate") /\ SenderUpdate /\ sgen' = e.sgen
TPhaseOut == Ev("phaseout") /\ PhaseOut
TRx == /\ Ev("rx")
       /\ e.nacc <= e.n /\ e.nident <= e.nacc
       /\ Monitor(Pk, e.nacc > 0, e.nident = e.nacc, e.extra, e.reg, (IsLong(e.sp) \/ Kp >= 0) /\ CodeAccepts(Pk, KpM), e.nconn)
       /\ IF e.n = 1 /\ Kp >= 0 THEN Shadow(Pk, Kp) ELSE UNCHANGED <<cur, slot>>

\* the code under test panicked (during assembly, key handling, journal positioning or in the receive path); the harness
\* caught it, the run goes on (rx) or ends (every other phase).  A genuine packet that cannot even be assembled is not
\* recovered, and a receive path that panics on a datagram does not "discard" it: reported through SoftNoPanic.
TPanic == Ev("panic") /\ res' = [res EXCEPT !.op = "panic"] /\ UNCHANGED <<sgen, sconf, cur, slot, auth, largest, rcvd, floor>>

TraceInit == l = 1 /\ Init
TraceNext == TReset \/ TPosition \/ TSenderUpdate \/ TPhaseOut \/ TRx \/ TPanic

Soft(name, ok) == ok \/ PrintT(<<"SOFT_VIOLATION", name, l>>)
SoftNoForgedDelivered == Soft("ForgedDelivered", NoForgedDelivered)
\* a genuine packet the receiver had to accept was discarded.  If the code-shaped key-phase machine of PacketProt
\* predicts exactly this rejection the name says why (stale read key of generation g-2 in the slot of that phase).
SoftGenuineAccepted == Soft("GenuineRejected", res.model => GenuineAccepted)
SoftStaleReadKey == Soft("GenuineRejected_StaleReadKey", ~res.model => GenuineAccepted)
SoftBitIdentical == Soft("NotBitIdentical", BitIdentical)
SoftNothingElse == Soft("ExtraPacketDelivered", NothingElseDelivered)
SoftNoPanic == Soft("Panic", res.op # "panic")
SoftDiscardedSilently == Soft("ConnErrorOnUnauthenticated", DiscardedSilently)
\* diagnostic only (not a property of C06): the implementation's cur_phase follows the code-shaped machine
DiagShadow == Soft("DiagShadow", (l > 1 /\ Rec[l - 1].ev = "rx" /\ Rec[l - 1].n = 1) => Rec[l - 1].cur_phase = Phase(cur))

TraceAccepted ==
    LET d == TLCGet("stats").diameter IN
    IF d - 1 = NE THEN TRUE
    ELSE PrintT(<<"TRACE_REJECTED_AT", d, IF d <= NE THEN Rec[d] ELSE "eof">>) /\ FALSE
=============================================================================
