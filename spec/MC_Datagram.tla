---------------------------- MODULE MC_Datagram ----------------------------
(* design check: one sender, the network, a receiver whose limit is what the sender was told     *)
(* (localMax = peerMax), plus frames injected by the peer; bounds are in the guards (no state    *)
(* constraint) so that liveness is meaningful.                                                   *)
EXTENDS Datagram, TLC
CONSTANTS PeerMaxes,    \* values of the peer's max_datagram_frame_size (0 = disabled)
          Sizes,        \* payload sizes the application tries
          MaxPkt,       \* largest frame space of a packet
          Spaces,       \* remaining-space values offered besides the ones around the head frame
          InjSizes,     \* payload sizes of injected frames
          MaxSend, MaxInj

VARIABLES nsend, ninj
mcvars == <<vars, nsend, ninj>>

\* prologue: DatagramFlow::new, new_writer(peer parameters), new_reader — then anything
Ready == res.op \notin {"init", "setup", "writer"}
MCInit == Init /\ nsend = 0 /\ ninj = 0
DoSetup == res.op = "init" /\ \E pm \in PeerMaxes : Setup(pm, MaxPkt) /\ UNCHANGED <<nsend, ninj>>
DoNewWriter == res.op = "setup" /\ NewWriter(localMax) /\ UNCHANGED <<nsend, ninj>>
DoNewReader == res.op = "writer" /\ NewReader /\ UNCHANGED <<nsend, ninj>>
DoSend == Ready /\ nsend < MaxSend /\ (\E s \in Sizes : Send(s)) /\ nsend' = nsend + 1 /\ UNCHANGED ninj
HeadSpaces == IF queue = <<>> THEN {} ELSE {Head(queue).size + d : d \in 0..3}
Forms(sp) == {<<w, p>> : w \in BOOLEAN, p \in {0} \cup (IF EffQueue = <<>> THEN {} ELSE {Monus(sp, Head(EffQueue).size + 1)})}
DoPack == Ready /\ (\E sp \in Spaces \cup HeadSpaces : \E fm \in Forms(sp) : Pack(sp, fm[1], fm[2])) /\ UNCHANGED <<nsend, ninj>>
\* the assembler keeps offering empty full-size packets (open, uncongested connection)
DoPackFull == Ready /\ (\E fm \in Forms(MaxPkt) : Pack(MaxPkt, fm[1], fm[2])) /\ UNCHANGED <<nsend, ninj>>
DoLose == Ready /\ (\E i \in DOMAIN net : Lose(i)) /\ UNCHANGED <<nsend, ninj>>
DoDeliver == Ready /\ Deliver /\ UNCHANGED <<nsend, ninj>>
DoInject == Ready /\ ninj < MaxInj /\ (\E s \in InjSizes, w \in BOOLEAN : Inject(s, w)) /\ ninj' = ninj + 1 /\ UNCHANGED nsend
DoRead == Ready /\ Read /\ UNCHANGED <<nsend, ninj>>
DoConnError == Ready /\ ~err /\ ConnError /\ UNCHANGED <<nsend, ninj>>

MCNext == DoSetup \/ DoNewWriter \/ DoNewReader \/ DoSend \/ DoPack \/ DoPackFull \/ DoLose \/ DoDeliver
          \/ DoInject \/ DoRead \/ DoConnError
\* fairness: the assembler keeps asking while something is queued (that is what "open, uncongested" means)
MCSpec == MCInit /\ [][MCNext]_mcvars /\ WF_mcvars(DoPackFull /\ queue # <<>>)

\* an accepted datagram that fits a packet is put on the wire (unless the connection ends)
AcceptedEventuallyOnWire ==
    \A id \in 1..MaxSend :
        (id \in Ids(queue) /\ Fits(acc[id])) ~> (id \in Ids(wire) \/ err)
=============================================================================
