---------------------------- MODULE Trace_PnCodec ----------------------------
(* impl -> spec: every (pn, largest_acked, expected) triple the harness pushed through the real
   PacketNumber::encode / decode, with the width and truncated value the code chose, must agree with
   PnCodec at the REAL widths; legal triples must reconstruct pn.  Events "pnbig" (numbers beyond TLC's
   32-bit integers, up to 2^62) carry the harness's own verdict decoded = pn. *)
EXTENDS PnCodec, TLC, Json, IOUtils
VARIABLE l
Rec_ == ndJsonDeserialize(IOEnv.TRACE)
NE == Len(Rec_)
e == Rec_[l]
Ev(name) == l <= NE /\ e.ev = name /\ l' = l + 1
TReset == Ev("reset")
TPn == /\ Ev("pn")
       /\ LET w == WidthIdx(e.pn, e.acked) IN
            /\ w \in {2, 3}
            /\ e.bytes * 8 = Bits[w]
            /\ e.tr = Truncated(e.pn, w)
            /\ e.dec = Decode(e.tr, w, e.expected)
            /\ Legal(e.pn, e.acked, e.expected) => e.dec = e.pn
TPnBig == Ev("pnbig") /\ e.ok = TRUE
TraceInit == l = 1
TraceNext == TReset \/ TPn \/ TPnBig
TraceAccepted ==
    LET d == TLCGet("stats").diameter IN
    IF d - 1 = NE THEN TRUE
    ELSE PrintT(<<"TRACE_REJECTED_AT", d, IF d <= NE THEN Rec_[d] ELSE "eof">>) /\ FALSE
RealBits == <<8, 16, 24, 32>>
=============================================================================
