---------------------------- MODULE RcvdJournal ----------------------------
(***************************************************************************)
(* Received-packet journal of one packet-number space                      *)
(* (qrecovery/src/journal/rcvd.rs: ArcRcvdJournal).  Each method takes the  *)
(* RwLock for its whole body, so each is one action:                        *)
(*   Decode   decode_pn        OnRcvd  on_rcvd_pn                           *)
(*   GenAck   gen_ack_frame_util          OnAck  on_rcvd_ack (+ rotate)     *)
(* Records: "E" never received, "R" received, "S" an ACK covering it was    *)
(* put into our packets `in`, "C" one of those packets was acknowledged.    *)
(*                                                                         *)
(* GenAck takes the generated frame as a parameter (the set of covered     *)
(* numbers, its encoded size): WHICH ranges are chosen when the capacity is *)
(* short is the implementation's business; the property constrains it       *)
(* (AckTruthful).  The record update follows the code: besides the covered  *)
(* records, the next lower run of received records is also marked as        *)
(* "ack sent" when the frame had to be cut short (named MarkedButUncovered).*)
(***************************************************************************)
EXTENDS Naturals, FiniteSets, Sequences

VARIABLES
    now,      \* clock (ticks)
    off,      \* lowest tracked packet number
    recs,     \* sequence of records for off .. off+Len(recs)-1
    ackpkts,  \* numbers of our packets that carry an ACK frame (packet_include_ack)
    everRcvd, \* history: every number ever registered as received
    accepted, \* history: sequence of numbers Decode accepted and that were then registered
    res

vars == <<now, off, recs, ackpkts, everRcvd, accepted, res>>

Next_ == off + Len(recs)                  \* IndexDeque::largest(): one past the highest record
Tracked(p) == p >= off /\ p < Next_
R(p) == recs[p - off + 1]
Empty == [st |-> "E", el |-> FALSE, exp |-> 0, in |-> {}]
IsRcvd(p) == Tracked(p) /\ R(p).st # "E"

Init == /\ now = 0 /\ off = 0 /\ recs = <<>> /\ ackpkts = {} /\ everRcvd = {} /\ accepted = <<>>
        /\ res = [op |-> "init"]
Reset == /\ now' = 0 /\ off' = 0 /\ recs' = <<>> /\ ackpkts' = {} /\ everRcvd' = {} /\ accepted' = <<>>
         /\ res' = [op |-> "init"]

\* decode_pn on the full number the truncated encoding stands for (PnCodec covers the decoding itself)
Decode(p) ==
    /\ res' = [op |-> "decode", pn |-> p,
               out |-> IF p < off THEN "TooOld"
                       ELSE IF IsRcvd(p) THEN "Duplicate" ELSE "Ok"]
    /\ UNCHANGED <<now, off, recs, ackpkts, everRcvd, accepted>>

\* on_rcvd_pn: only called for a number decode_pn accepted
OnRcvd(p, eliciting, pto3) ==
    /\ p >= off /\ ~IsRcvd(p)
    /\ LET rec == [st |-> "R", el |-> eliciting, exp |-> now + pto3, in |-> {}]
           n == IF p >= Next_ THEN p - off + 1 ELSE Len(recs)
       IN recs' = [i \in 1..n |-> IF i = p - off + 1 THEN rec
                                   ELSE IF i <= Len(recs) THEN recs[i] ELSE Empty]
    /\ everRcvd' = everRcvd \cup {p}
    /\ accepted' = Append(accepted, p)
    /\ res' = [op |-> "rcvd"]
    /\ UNCHANGED <<now, off, ackpkts>>

\* received numbers not above `largest` that are still tracked
Ackable(largest) == {p \in off..largest : IsRcvd(p)}

\* the run of received records directly below number p (exclusive), skipping one gap
RunBelow(p) ==
    IF \E q \in off..(p-1) : IsRcvd(q)
    THEN LET top == CHOOSE q \in off..(p-1) : IsRcvd(q) /\ \A r \in (q+1)..(p-1) : ~IsRcvd(r)
         IN {q \in off..top : \A r \in q..top : IsRcvd(r)}
    ELSE {}

Mark(p, pktno) ==
    IF R(p).st = "R" THEN [R(p) EXCEPT !.st = "S", !.in = {pktno}]
    ELSE IF R(p).st = "S" THEN [R(p) EXCEPT !.in = @ \cup {pktno}]
    ELSE R(p)

\* ---- ACK frame geometry (RFC 9000 19.3): ranges are <<hi, lo>> pairs, highest first ----
VSize(v) == IF v < 64 THEN 1 ELSE IF v < 16384 THEN 2 ELSE IF v < 1073741824 THEN 4 ELSE 8
MaxOf(S) == CHOOSE m \in S : \A x \in S : x <= m
MinOf(S) == CHOOSE m \in S : \A x \in S : m <= x
RECURSIVE RangesOf(_)
RangesOf(S) ==
    IF S = {} THEN <<>>
    ELSE LET hi == MaxOf(S)
             lo == MinOf({q \in S : \A r \in q..hi : r \in S})
         IN << <<hi, lo>> >> \o RangesOf(S \ (lo..hi))
RECURSIVE CovOf(_)
CovOf(rs) == IF rs = <<>> THEN {} ELSE (rs[1][2]..rs[1][1]) \cup CovOf(Tail(rs))
RECURSIVE TailSize(_, _)
TailSize(rs, prevLo) ==      \* bytes of the (gap, length) pairs after the first range
    IF rs = <<>> THEN 0
    ELSE VSize(prevLo - rs[1][1] - 2) + VSize(rs[1][1] - rs[1][2]) + TailSize(Tail(rs), rs[1][2])
FrameSize(largest, delay, rs) ==
    1 + VSize(largest) + VSize(delay) + VSize(Len(rs) - 1) + VSize(rs[1][1] - rs[1][2])
      + TailSize(Tail(rs), rs[1][2])
WellFormed(rs, largest) ==
    /\ Len(rs) >= 1 /\ rs[1][1] = largest
    /\ \A i \in DOMAIN rs : rs[i][2] <= rs[i][1]
    /\ \A i \in 1..(Len(rs)-1) : rs[i+1][1] + 2 <= rs[i][2]

\* gen_ack_frame_util(pktno, largest, rcvd_time, capacity) returned Ok(frame with ranges rs) or
\* Err (ok = FALSE, rs ignored).  Precondition (callers): `largest` is a received, still tracked number.
GenAck(pktno, largest, delay, capacity, ok, rs) ==
    /\ IsRcvd(largest)
    /\ ok => WellFormed(rs, largest)
    /\ LET full == Ackable(largest)
           fullrs == RangesOf(full)
           cov == IF ok THEN CovOf(rs) ELSE {}
           lowest == IF cov = {} THEN largest + 1 ELSE MinOf(cov)
           marked == IF ok /\ cov = full THEN cov
                     ELSE cov \cup RunBelow(lowest)      \* MarkedButUncovered
           size == IF ok THEN FrameSize(largest, delay, rs)
                   ELSE FrameSize(largest, delay, << fullrs[1] >>)   \* the minimal frame
       IN /\ recs' = [i \in DOMAIN recs |-> IF (off + i - 1) \in marked THEN Mark(off + i - 1, pktno) ELSE recs[i]]
          /\ ackpkts' = IF ok THEN ackpkts \cup {pktno} ELSE ackpkts
          /\ res' = [op |-> "genack", ok |-> ok, largest |-> largest, cov |-> cov, full |-> full,
                     size |-> size, capacity |-> capacity, fullsize |-> FrameSize(largest, delay, fullrs)]
    /\ UNCHANGED <<now, off, everRcvd, accepted>>

\* the policy the code documents: the highest ranges that fit (used by the generators only)
FitCount(largest, delay, capacity) ==
    LET fullrs == RangesOf(Ackable(largest))
        K == {k \in 1..Len(fullrs) : FrameSize(largest, delay, SubSeq(fullrs, 1, k)) <= capacity}
    IN IF K = {} THEN 0 ELSE MaxOf(K)

\* a peer ACK acknowledging our packets `acked` (only those carrying ACK frames matter); then rotate
Confirmed(rec, hit) == IF rec.st = "S" /\ rec.in \cap hit # {} THEN [rec EXCEPT !.st = "C"] ELSE rec
CouldExpire(rec) == rec.st = "E" \/ (rec.st = "C" /\ (~rec.el \/ rec.exp < now))
DropCount(s) ==
    IF \E i \in DOMAIN s : ~CouldExpire(s[i])
    THEN (CHOOSE i \in DOMAIN s : ~CouldExpire(s[i]) /\ \A j \in 1..(i-1) : CouldExpire(s[j])) - 1
    ELSE Len(s)

OnAck(acked) ==
    /\ LET hit == acked \cap ackpkts
           s1 == [i \in DOMAIN recs |-> Confirmed(recs[i], hit)]
       IN /\ recs' = SubSeq(s1, DropCount(s1) + 1, Len(s1))
          /\ off' = off + DropCount(s1)
          /\ ackpkts' = ackpkts \ hit
    /\ res' = [op |-> "onack"]
    /\ UNCHANGED <<now, everRcvd, accepted>>

Tick(d) == now' = now + d /\ res' = [op |-> "tick"] /\ UNCHANGED <<off, recs, ackpkts, everRcvd, accepted>>

-----------------------------------------------------------------------------
(* C10, receive side *)
\* a generated ACK frame is truthful: only received numbers, the requested largest, fits its space,
\* and complete whenever a complete frame would have fitted
AckTruthful ==
    [][ (res'.op = "genack" /\ res'.ok) =>
          /\ res'.cov \subseteq everRcvd
          /\ res'.cov \subseteq res'.full
          /\ res'.largest \in res'.cov
          /\ res'.size <= res'.capacity
          /\ (res'.fullsize <= res'.capacity) => (res'.cov = res'.full) ]_vars
\* refusing to generate is only allowed when not even the minimal frame fits
AckRefusedOnlyWhenNoSpace ==
    [][ (res'.op = "genack" /\ ~res'.ok) => (res'.size > res'.capacity) ]_vars
\* a packet number is accepted at most once
AcceptedOnce == \A i, j \in DOMAIN accepted : i # j => accepted[i] # accepted[j]
DecodeTruthful ==
    [][ (res'.op = "decode" /\ res'.out = "Ok") => (res'.pn \notin everRcvd) ]_vars
TypeOK == \A i \in DOMAIN recs : recs[i].st \in {"E", "R", "S", "C"}
Inv == TypeOK /\ AcceptedOnce
=============================================================================
