------------------------------- MODULE Wire -------------------------------
(* The QUIC wire grammar understood by qbase, transcribed as TLA+ operators over byte sequences
   (Seq(0..255)): variable-length integers, connection ids, socket addresses and the table-driven
   frame layouts of qbase/src/frame/*.rs (RFC 9000 §19, RFC 9221 DATAGRAM, and the repository's
   extension frames ADD_ADDRESS / PUNCH_ME_NOW / REMOVE_ADDRESS / PUNCH_HELLO / PUNCH_DONE).

   This module is the reference codec of properties C05 (round trip, announced size) and C03
   (decoding untrusted bytes): EncodeFrame / DecodeFrame are the oracle the real encoder and
   decoder are compared with, in both directions, by Trace_Wire.

   Integers.  TLC integers are 32 bit.  A 62-bit varint VALUE is the tuple of its 8 big-endian
   bytes ("V8"); arithmetic that the grammar needs (minimal width, <=, +, "fits in 62 bits",
   "as a buffer length") is written on that representation.  Small integers (lengths, frame
   types, all < 2^31) are ordinary TLC integers.

   Where the code deviates from RFC 9000 and C03/C05 are silent, the spec follows the code and
   the deviation is named (see "Deviations" at the end). *)
EXTENDS Naturals, Sequences, FiniteSets, TLC

Take(s, n) == SubSeq(s, 1, n)
Drop(s, n) == SubSeq(s, n + 1, Len(s))
Zeros(n) == [i \in 1..n |-> 0]
RECURSIVE Cat(_)
Cat(ss) == IF ss = <<>> THEN <<>> ELSE Head(ss) \o Cat(Tail(ss))
RECURSIVE SumSeq(_)
SumSeq(ns) == IF ns = <<>> THEN 0 ELSE Head(ns) + SumSeq(Tail(ns))

\* --------------------------------------------------------------------------
\* 62-bit values as 8 big-endian bytes
BIG == 2147483647                       \* "longer than any buffer"
V8(n) == <<0, 0, 0, 0, (n \div 16777216) % 256, (n \div 65536) % 256, (n \div 256) % 256, n % 256>>
IsSmall(v) == v[1] = 0 /\ v[2] = 0 /\ v[3] = 0 /\ v[4] = 0 /\ v[5] < 128
ToInt(v) == v[5] * 16777216 + v[6] * 65536 + v[7] * 256 + v[8]
LenOf(v) == IF IsSmall(v) THEN ToInt(v) ELSE BIG           \* `as usize`, saturated
IsV8(v) == Len(v) = 8 /\ \A i \in 1..8 : v[i] \in 0..255
Fits62(v) == v[1] < 64                                      \* v <= 2^62-1 (VARINT_MAX)
Leq8(a, b) ==
    IF a = b THEN TRUE
    ELSE LET i == CHOOSE i \in 1..8 : a[i] # b[i] /\ \A j \in 1..(i - 1) : a[j] = b[j] IN a[i] < b[i]
RECURSIVE AddC(_, _, _, _)
AddC(a, b, i, c) == IF i = 0 THEN <<>> ELSE LET s == a[i] + b[i] + c IN AddC(a, b, i - 1, s \div 256) \o <<s % 256>>
Add8(a, b) == AddC(a, b, 8, 0)          \* a, b < 2^62 so the sum fits 8 bytes

VMAX == <<63, 255, 255, 255, 255, 255, 255, 255>>            \* 2^62-1
\* the boundary values of the property text
Boundary == { V8(0), V8(63), V8(64), V8(16383), V8(16384), V8(1073741823), V8(1073741824), VMAX }

\* --------------------------------------------------------------------------
\* variable-length integers (RFC 9000 §16; qbase/src/varint.rs)
VarintWidth(v) ==
    IF v[1] = 0 /\ v[2] = 0 /\ v[3] = 0 /\ v[4] = 0 /\ v[5] = 0 /\ v[6] = 0 /\ v[7] = 0 /\ v[8] < 64 THEN 1
    ELSE IF v[1] = 0 /\ v[2] = 0 /\ v[3] = 0 /\ v[4] = 0 /\ v[5] = 0 /\ v[6] = 0 /\ v[7] < 64 THEN 2
    ELSE IF v[1] = 0 /\ v[2] = 0 /\ v[3] = 0 /\ v[4] = 0 /\ v[5] < 64 THEN 4
    ELSE 8
EncVarint(v) ==                          \* put_varint: minimal width
    LET w == VarintWidth(v) IN
    IF w = 1 THEN <<v[8]>>
    ELSE IF w = 2 THEN <<64 + v[7], v[8]>>
    ELSE IF w = 4 THEN <<128 + v[5], v[6], v[7], v[8]>>
    ELSE <<192 + v[1], v[2], v[3], v[4], v[5], v[6], v[7], v[8]>>
\* be_varint: any width is accepted (QUIC does not require minimal encodings)
DecVarint(b) ==
    IF Len(b) = 0 THEN [ok |-> FALSE]
    ELSE LET p == b[1] \div 64
             w == IF p = 0 THEN 1 ELSE IF p = 1 THEN 2 ELSE IF p = 2 THEN 4 ELSE 8 IN
         IF Len(b) < w THEN [ok |-> FALSE]
         ELSE [ok |-> TRUE, v |-> Zeros(8 - w) \o <<b[1] % 64>> \o SubSeq(b, 2, w), n |-> w]

\* --------------------------------------------------------------------------
\* field kinds of the frame layouts
FV    == <<"v">>            \* varint                               value: V8
FIX(n) == <<"fix", n>>      \* n raw bytes                          value: byte sequence of length n
FCID  == <<"cid">>          \* 1 length byte (<= 20) + bytes        value: byte sequence
FLPB  == <<"lpb">>          \* varint length + bytes                value: byte sequence
FREST == <<"rest">>         \* extends to the end of the packet     value: byte sequence
FACKR == <<"ackr">>         \* ACK: count, first range, count x (gap, len); value: first \o g1 \o l1 \o g2 \o l2 ... (V8 each, flat,
                            \* so that every field value is a flat sequence of bytes and values of different kinds stay comparable)

RECURSIVE EncV8s(_)
EncV8s(vs) == IF vs = <<>> THEN <<>> ELSE EncVarint(Take(vs, 8)) \o EncV8s(Drop(vs, 8))
RECURSIVE SizeV8s(_)
SizeV8s(vs) == IF vs = <<>> THEN 0 ELSE VarintWidth(Take(vs, 8)) + SizeV8s(Drop(vs, 8))
NRanges(x) == (Len(x) \div 8 - 1) \div 2

EncField(d, x) ==
    CASE d[1] = "v"    -> EncVarint(x)
      [] d[1] = "fix"  -> x
      [] d[1] = "cid"  -> <<Len(x)>> \o x
      [] d[1] = "lpb"  -> EncVarint(V8(Len(x))) \o x
      [] d[1] = "rest" -> x
      [] d[1] = "ackr" -> EncVarint(V8(NRanges(x))) \o EncV8s(x)
\* the size of a field computed WITHOUT encoding it (what an encoder can announce beforehand)
FieldSize(d, x) ==
    CASE d[1] = "v"    -> VarintWidth(x)
      [] d[1] = "fix"  -> d[2]
      [] d[1] = "cid"  -> 1 + Len(x)
      [] d[1] = "lpb"  -> VarintWidth(V8(Len(x))) + Len(x)
      [] d[1] = "rest" -> Len(x)
      [] d[1] = "ackr" -> VarintWidth(V8(NRanges(x))) + SizeV8s(x)
FieldMax(d, x) ==
    CASE d[1] = "v"    -> 8
      [] d[1] = "fix"  -> d[2]
      [] d[1] = "cid"  -> 21
      [] d[1] = "lpb"  -> 8 + Len(x)
      [] d[1] = "rest" -> Len(x)
      [] d[1] = "ackr" -> 8 + Len(x)
FieldOk(d, x) ==                          \* well-typed value for the field
    CASE d[1] = "v"    -> IsV8(x) /\ Fits62(x)
      [] d[1] = "fix"  -> Len(x) = d[2]
      [] d[1] = "cid"  -> Len(x) <= 20
      [] d[1] = "lpb"  -> TRUE
      [] d[1] = "rest" -> TRUE
      [] d[1] = "ackr" -> Len(x) % 16 = 8 /\ \A i \in 1..Len(x) : x[i] \in 0..255 /\ (i % 8 = 1 => x[i] < 64)

\* k (gap, len) pairs
RECURSIVE DecPairs(_, _, _)
DecPairs(b, k, acc) ==
    IF k = 0 THEN [ok |-> TRUE, x |-> acc, n |-> 0]
    ELSE LET g == DecVarint(b) IN
         IF ~g.ok THEN [ok |-> FALSE]
         ELSE LET r == DecVarint(Drop(b, g.n)) IN
              IF ~r.ok THEN [ok |-> FALSE]
              ELSE LET t == DecPairs(Drop(b, g.n + r.n), k - 1, acc \o g.v \o r.v) IN
                   IF ~t.ok THEN [ok |-> FALSE] ELSE [ok |-> TRUE, x |-> t.x, n |-> g.n + r.n + t.n]

DecField(d, b) ==                         \* [ok, x, n]
    CASE d[1] = "v"    -> LET r == DecVarint(b) IN IF r.ok THEN [ok |-> TRUE, x |-> r.v, n |-> r.n] ELSE [ok |-> FALSE]
      [] d[1] = "fix"  -> IF Len(b) >= d[2] THEN [ok |-> TRUE, x |-> Take(b, d[2]), n |-> d[2]] ELSE [ok |-> FALSE]
      [] d[1] = "cid"  -> IF Len(b) >= 1 /\ b[1] <= 20 /\ Len(b) >= 1 + b[1]
                          THEN [ok |-> TRUE, x |-> SubSeq(b, 2, 1 + b[1]), n |-> 1 + b[1]] ELSE [ok |-> FALSE]
      [] d[1] = "lpb"  -> LET r == DecVarint(b) IN
                          IF r.ok /\ LenOf(r.v) <= Len(b) - r.n
                          THEN [ok |-> TRUE, x |-> SubSeq(b, r.n + 1, r.n + LenOf(r.v)), n |-> r.n + LenOf(r.v)]
                          ELSE [ok |-> FALSE]
      [] d[1] = "rest" -> [ok |-> TRUE, x |-> b, n |-> Len(b)]
      [] d[1] = "ackr" -> LET c == DecVarint(b) IN
                          IF ~c.ok THEN [ok |-> FALSE]
                          ELSE LET f == DecVarint(Drop(b, c.n)) IN
                               IF ~f.ok \/ LenOf(c.v) > Len(b) THEN [ok |-> FALSE]   \* every range needs >= 2 bytes
                               ELSE LET p == DecPairs(Drop(b, c.n + f.n), LenOf(c.v), f.v) IN
                                    IF ~p.ok THEN [ok |-> FALSE]
                                    ELSE [ok |-> TRUE, x |-> p.x, n |-> c.n + f.n + p.n]

RECURSIVE DecFields(_, _, _)
DecFields(lay, b, acc) ==                 \* [ok, fs, n]
    IF lay = <<>> THEN [ok |-> TRUE, fs |-> acc, n |-> 0]
    ELSE LET r == DecField(Head(lay), b) IN
         IF ~r.ok THEN [ok |-> FALSE]
         ELSE LET t == DecFields(Tail(lay), Drop(b, r.n), Append(acc, r.x)) IN
              IF ~t.ok THEN [ok |-> FALSE] ELSE [ok |-> TRUE, fs |-> t.fs, n |-> r.n + t.n]

\* --------------------------------------------------------------------------
\* frame types (qbase/src/frame.rs  TryFrom<VarInt> for FrameType)
EXT == 4030096                            \* 0x3d7e90
StreamTypes == 8..15
KnownTypes == (0..30) \cup {48, 49} \cup (EXT..(EXT + 6))
TypeName(t) ==
    CASE t = 0 -> "padding" [] t = 1 -> "ping" [] t \in {2, 3} -> "ack" [] t = 4 -> "reset_stream"
      [] t = 5 -> "stop_sending" [] t = 6 -> "crypto" [] t = 7 -> "new_token" [] t \in StreamTypes -> "stream"
      [] t = 16 -> "max_data" [] t = 17 -> "max_stream_data" [] t \in {18, 19} -> "max_streams"
      [] t = 20 -> "data_blocked" [] t = 21 -> "stream_data_blocked" [] t \in {22, 23} -> "streams_blocked"
      [] t = 24 -> "new_connection_id" [] t = 25 -> "retire_connection_id" [] t = 26 -> "path_challenge"
      [] t = 27 -> "path_response" [] t = 28 -> "connection_close_quic" [] t = 29 -> "connection_close_app"
      [] t = 30 -> "handshake_done" [] t \in {48, 49} -> "datagram"
      [] t \in {EXT, EXT + 1} -> "add_address" [] t \in {EXT + 2, EXT + 3} -> "punch_me_now"
      [] t = EXT + 4 -> "remove_address" [] t = EXT + 5 -> "punch_hello" [] t = EXT + 6 -> "punch_done"
      [] OTHER -> "unknown"

HasOff(t) == (t \div 4) % 2 = 1
HasLen(t) == (t \div 2) % 2 = 1
HasFin(t) == t % 2 = 1

Layout(t) ==
    CASE t \in {0, 1, 30} -> <<>>
      [] t = 2  -> <<FV, FV, FACKR>>                       \* largest, delay, ranges
      [] t = 3  -> <<FV, FV, FACKR, FV, FV, FV>>           \* + ect0, ect1, ce
      [] t = 4  -> <<FV, FV, FV>>                          \* stream id, error code, final size
      [] t = 5  -> <<FV, FV>>
      [] t = 6  -> <<FV, FLPB>>                            \* offset, data
      [] t = 7  -> <<FLPB>>
      [] t \in StreamTypes -> <<FV>> \o (IF HasOff(t) THEN <<FV>> ELSE <<>>) \o (IF HasLen(t) THEN <<FLPB>> ELSE <<FREST>>)
      [] t = 16 -> <<FV>>
      [] t = 17 -> <<FV, FV>>
      [] t \in {18, 19} -> <<FV>>
      [] t = 20 -> <<FV>>
      [] t = 21 -> <<FV, FV>>
      [] t \in {22, 23} -> <<FV>>
      [] t = 24 -> <<FV, FV, FCID, FIX(16)>>               \* sequence, retire prior to, cid, reset token
      [] t = 25 -> <<FV>>
      [] t \in {26, 27} -> <<FIX(8)>>
      [] t = 28 -> <<FV, FV, FLPB>>                        \* error code, frame type, reason
      [] t = 29 -> <<FV, FLPB>>
      [] t = 48 -> <<FREST>>
      [] t = 49 -> <<FLPB>>
      [] t = EXT     -> <<FV, FIX(6), FV, FV>>             \* seq, port+ipv4, tire, nat type
      [] t = EXT + 1 -> <<FV, FIX(18), FV, FV>>
      [] t = EXT + 2 -> <<FV, FV, FIX(6), FV, FV>>         \* local seq, remote seq, address, tire, nat type
      [] t = EXT + 3 -> <<FV, FV, FIX(18), FV, FV>>
      [] t = EXT + 4 -> <<FV>>
      [] t \in {EXT + 5, EXT + 6} -> <<FV, FV, FV>>

\* packet types: "I" Initial, "Z" 0-RTT, "H" Handshake, "S" 1-RTT (short header)
PTypes == {"I", "Z", "H", "S"}
\* RFC 9000 §12.4 table 3 + RFC 9221 + the extension frames (FrameType::belongs_to)
Permitted(t) ==
    CASE t \in {0, 1} -> {"I", "H", "Z", "S"}
      [] t \in {2, 3, 6} -> {"I", "H", "S"}
      [] t \in {7, 27, 30} -> {"S"}
      [] t = 28 -> {"I", "H", "Z", "S"}
      [] OTHER -> {"Z", "S"}

\* transport error codes a CONNECTION_CLOSE (0x1c) may carry (TryFrom<VarInt> for ErrorKind)
ErrKindOk(v) == IsSmall(v) /\ (ToInt(v) \in 0..16 \/ ToInt(v) \in 256..511)
FrameTypeOk(v) == IsSmall(v) /\ ToInt(v) \in KnownTypes
NatField(t) == IF t \in {EXT, EXT + 1} THEN 4 ELSE IF t \in {EXT + 2, EXT + 3} THEN 5 ELSE 0
StreamOffset(t, fs) == IF HasOff(t) THEN fs[2] ELSE V8(0)
StreamData(t, fs) == fs[Len(fs)]

\* semantic checks the parsers perform after the fields are read (all are FRAME_ENCODING_ERROR)
FieldsValid(t, fs) ==
    CASE t = 6 -> Fits62(Add8(fs[1], V8(Len(fs[2]))))                       \* offset + length <= 2^62-1
      [] t \in StreamTypes -> Fits62(Add8(StreamOffset(t, fs), V8(Len(StreamData(t, fs)))))
      [] t \in {18, 19} -> fs[1][1] < 16                                     \* <= 2^60-1 (MAX_STREAMS_LIMIT)
      [] t = 24 -> Leq8(fs[2], fs[1]) /\ Len(fs[3]) >= 1
      [] t = 28 -> ErrKindOk(fs[1]) /\ FrameTypeOk(fs[2])
      [] NatField(t) # 0 -> fs[NatField(t)][8] <= 5                          \* Deviation D3: `as u8`
      [] OTHER -> TRUE
\* the value the decoder hands out (D3: the NAT type is reduced modulo 256)
Canon(t, fs) == IF NatField(t) # 0 THEN [fs EXCEPT ![NatField(t)] = V8(fs[NatField(t)][8])] ELSE fs

\* a frame value: [t |-> type, x |-> <<field values>>]
FrameOk(fr) ==
    /\ fr.t \in KnownTypes
    /\ Len(fr.x) = Len(Layout(fr.t))
    /\ \A i \in 1..Len(fr.x) : FieldOk(Layout(fr.t)[i], fr.x[i])
    /\ FieldsValid(fr.t, fr.x)
    /\ (NatField(fr.t) # 0 => Canon(fr.t, fr.x) = fr.x)
    /\ (fr.t \in StreamTypes /\ HasOff(fr.t) => fr.x[2] # V8(0))            \* StreamFrame::frame_type(): offset 0 clears the bit

TypeBytes(t) == EncVarint(V8(t))
EncodeFrame(fr) ==
    LET lay == Layout(fr.t) IN TypeBytes(fr.t) \o Cat([i \in 1..Len(lay) |-> EncField(lay[i], fr.x[i])])
Size(fr) ==
    LET lay == Layout(fr.t) IN VarintWidth(V8(fr.t)) + SumSeq([i \in 1..Len(lay) |-> FieldSize(lay[i], fr.x[i])])
MaxSize(fr) ==
    LET lay == Layout(fr.t) IN (IF fr.t >= EXT THEN 4 ELSE 1) + SumSeq([i \in 1..Len(lay) |-> FieldMax(lay[i], fr.x[i])])
\* STREAM, CRYPTO and DATAGRAM announce the size of their header only; the data is accounted separately
IsDataFrame(t) == t = 6 \/ t \in StreamTypes \/ t \in {48, 49}
DataLen(fr) == IF IsDataFrame(fr.t) THEN Len(fr.x[Len(fr.x)]) ELSE 0

FE == "FrameEncoding"
PV == "ProtocolViolation"
DecodeFrame(b, pt) ==
    LET tv == DecVarint(b) IN
    IF ~tv.ok THEN [ok |-> FALSE, class |-> FE]                             \* IncompleteType
    ELSE IF ~FrameTypeOk(tv.v) THEN [ok |-> FALSE, class |-> FE]            \* InvalidType (RFC 9000 §12.4)
    ELSE LET t == ToInt(tv.v) IN
         IF pt \notin Permitted(t) THEN [ok |-> FALSE, class |-> PV]         \* RFC 9000 §12.4
         ELSE LET r == DecFields(Layout(t), Drop(b, tv.n), <<>>) IN
              IF ~r.ok THEN [ok |-> FALSE, class |-> FE]
              ELSE IF ~FieldsValid(t, r.fs) THEN [ok |-> FALSE, class |-> FE]
              ELSE [ok |-> TRUE, t |-> t, x |-> Canon(t, r.fs), consumed |-> tv.n + r.n]

\* a whole packet payload: FrameReader yields frames until the payload is empty or the first error
RECURSIVE DecodePayload(_, _, _)
DecodePayload(b, pt, fuel) ==
    IF b = <<>> \/ fuel = 0 THEN <<>>
    ELSE LET r == DecodeFrame(b, pt) IN
         IF ~r.ok THEN <<r>> ELSE <<r>> \o DecodePayload(Drop(b, r.consumed), pt, fuel - 1)

(* Deviations of the code from RFC 9000 that C03 / C05 do not speak about; the spec follows the code:
   D1  the frame type may be encoded non-minimally (RFC 9000 §12.4 says it MUST be minimal, MAY be an error).
   D2  NEW_TOKEN with an empty token is accepted (RFC 9000 §19.7: FRAME_ENCODING_ERROR).
   D3  the NAT type of ADD_ADDRESS / PUNCH_ME_NOW is reduced with `as u8` before it is validated.
   D4  CONNECTION_CLOSE (0x1c) with an error code outside 0..0x10, 0x100..0x1ff or a frame type the code does not
       know is rejected with FRAME_ENCODING_ERROR.
   D5  the reason phrase is converted with from_utf8_lossy (compared only when it is ASCII).
   D6  a packet payload without any frame yields no item and no error at this layer. *)
=============================================================================
