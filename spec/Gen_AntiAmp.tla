---------------------------- MODULE Gen_AntiAmp ----------------------------
(* spec -> implementation: every sequence of Depth public calls on one AntiAmplifier (+ its SendWaker and the      *)
(* Constraints built from its balance): on_rcvd of several sizes, balance, on_sent of amounts below / equal to /      *)
(* above the balance read before, grant, abort, wait_for(CREDIT) polls by the parked burst task, and datagram           *)
(* assemblies under Constraints.                                                                                       *)
EXTENDS AntiAmp, TLC, Json
CONSTANTS RcvSizes,     \* packet sizes
          SegCases,     \* datagram assemblies: records [quota, buf, pkts]
          Depth,
          After         \* calls still explored after the path left NORMAL
VARIABLES hist, post
GenInit == Init /\ hist = <<>> /\ post = 0
H(x) == hist' = Append(hist, x) /\ post' = IF state = NORMAL THEN 0 ELSE post + 1
\* amounts reported to on_sent relative to the balance v read before: 1, just below, exactly, just above, far above
Amounts(b) ==
    IF b.r = "credit" /\ b.v > 0 THEN {x \in {1, b.v - 1, b.v, b.v + 1, b.v + MTU} : x > 0}
    ELSE {1, MTU}
CanSend == sp.bal.r \in {"credit", "max"}
GenNext ==
  /\ Len(hist) < Depth /\ post < After
  /\ \/ \E n \in RcvSizes : OnRcvd(n) /\ H(<<"rcvd", n>>)
     \/ Balance /\ H(<<"balance">>)
     \/ \E a \in Amounts(sp.bal) : \E w \in BOOLEAN : CanSend /\ OnSent(a, w) /\ H(<<"sent", a>>)
     \/ Grant /\ H(<<"grant">>)
     \/ Abort /\ H(<<"abort">>)
     \/ (sp.bal.r = "wait" \/ (sp.bal.r = "parked" /\ ~asleep)) /\ WaitPoll /\ H(<<"wait">>)
     \/ \E i \in DOMAIN SegCases : CanSend /\ Segment(SegCases[i].quota, SegCases[i].buf, SegCases[i].pkts) /\ H(<<"seg", i>>)
Emit == (Len(hist) = Depth \/ post = After) => PrintT(<<"GEN", ToJson(hist)>>)
GenSegCases == <<
    [quota |-> Big, buf |-> 1200, pkts |-> <<[want |-> 300, inflight |-> TRUE], [want |-> 1200, inflight |-> TRUE]>>],
    [quota |-> 500, buf |-> 1200, pkts |-> <<[want |-> 300, inflight |-> FALSE], [want |-> 1200, inflight |-> TRUE], [want |-> 50, inflight |-> TRUE]>>],
    [quota |-> Big, buf |-> 100,  pkts |-> <<[want |-> 60, inflight |-> TRUE], [want |-> 60, inflight |-> FALSE]>>] >>
=============================================================================
