---------------------------- MODULE MC_Recovery ----------------------------
(* The DESIGN (RFC 9002 appendix A/B as transcribed in Recovery.tla, operators D_xxx) model-checked for small constants:    *)
(* every environment schedule of sends (three spaces, sizes, ack-eliciting / in-flight flags, with and without  *)
(* a quota grant), ACK frames (any non-empty subset of the sent packet numbers, delay, ECN-CE), clock advances, *)
(* ticks, quota requests, discards and handshake phases.                                                        *)
EXTENDS Recovery
CONSTANTS MaxPk,        \* packets per space
          MaxTotal,     \* packets in all spaces
          Sizes, Dts, Delays, Ces,
          SendSpaces,   \* spaces the environment sends in
          FlagSet,      \* which (ack-eliciting, in flight) combinations: 1 = (T,T), 2 = (F,T) padding only, 3 = (F,F) ACK only
          Established,  \* TRUE: start after the handshake (confirmed, Initial and Handshake spaces gone, validated path)
          Horizon,      \* no sends / acks / phases after this time (lets every back-off run to its end)
          MaxClock,
          MaxDepth      \* safety runs explore every schedule of at most this many calls

Total == N(pk, 1) + N(pk, 2) + N(pk, 3)
Early == now <= Horizon
AllFlags == <<<<TRUE, TRUE>>, <<FALSE, TRUE>>, <<FALSE, FALSE>>>>     \* (ack-eliciting, in flight); ack-eliciting => in flight
Flags == {AllFlags[k] : k \in FlagSet}
MCInitEst ==
    /\ now = 0
    /\ pk = [sp \in Spaces |-> <<>>] /\ la = [sp \in Spaces |-> NONE] /\ ceSeen = [sp \in Spaces |-> 0]
    /\ ph \in {[server |-> s, hsKey |-> TRUE, hsAck |-> TRUE, conf |-> TRUE, amp |-> FALSE, gone |-> {1, 2}] : s \in BOOLEAN}
    /\ c = D_Init
    /\ last = [act |-> "init"]
    /\ shrinkAt = NONE /\ probes = 0 /\ ptoPrev = NoPto /\ grant = 0 /\ dead = FALSE

DoSend == \E sp \in SendSpaces \ ph.gone, sz \in Sizes, f \in Flags :
            /\ Early /\ ~dead /\ N(pk, sp) < MaxPk /\ Total < MaxTotal
            /\ Send(sp, sz, f[1], f[2], f[2] /\ sz <= grant, D_Send(sp, sz, f[1], f[2]))
DoAck == \E sp \in Spaces \ ph.gone : \E S \in SUBSET (DOMAIN pk[sp]) \ {{}} : \E d \in Delays, ce \in {NONE} \cup Ces :
            /\ Early /\ ~dead
            /\ AckRcvd(sp, S, d, ce, D_Ack(sp, S, d, ce))
DoAdvance == \E dt \in Dts \cup (IF c.timer # NONE /\ c.timer > now THEN {c.timer - now} ELSE {}) :
            /\ now + dt <= MaxClock /\ (Early \/ (c.timer # NONE /\ now + dt <= c.timer))
            /\ Advance(dt)
DoTick == ~dead /\ Tick(D_Tick)
DoQuota == Early /\ ~dead /\ Quota(D_Quota)
DoDiscard == \E sp \in {1, 2} \ ph.gone : Early /\ ~dead /\ Discard(sp, D_DiscardCall(sp))
DoPhase == \E w \in {"hskey", "hsack", "conf", "grant", "limit"} :
            /\ Early /\ ~dead
            /\ CASE w = "hskey" -> ~ph.hsKey
                 [] w = "hsack" -> ~ph.hsAck /\ ~ph.server
                 [] w = "conf"  -> ~ph.conf
                 [] w = "grant" -> ph.amp
                 [] w = "limit" -> ~ph.amp /\ ph.server
            /\ Phase(w, D_Same)
MCNext == DoSend \/ DoAck \/ DoAdvance \/ DoTick \/ DoQuota \/ DoDiscard \/ DoPhase

MCInv == Inv /\ GrantedSendWithinWindow
DepthBound == TLCGet("level") <= MaxDepth

(* "eventually acknowledged, declared lost or probed ... until the connection is abandoned" on the design: once a deadline
   is armed for an outstanding ack-eliciting packet it is eventually acknowledged / lost / discarded, or another probe
   timeout fires, or the path is abandoned.  Ticks and the clock are fair; after Horizon the clock only runs up to the
   armed deadline, so MaxClock is reached only if a deadline is missed or nothing is armed. *)
MCStart == IF Established THEN MCInitEst ELSE Init
MCSpec == MCStart /\ [][MCNext]_vars /\ WF_vars(DoTick) /\ WF_vars(DoAdvance)
Waiting(sp, i, k) == /\ i \in DOMAIN pk[sp] /\ pk[sp][i].st = "out" /\ pk[sp][i].ae /\ pk[sp][i].inf
                     /\ probes = k /\ c.timer # NONE /\ ~dead
EveryAckElicitingResolvedOrProbed ==
    \A sp \in SendSpaces, i \in 0..(MaxPk - 1), k \in 0..(MaxPto + 1) :
        Waiting(sp, i, k) ~> (i \notin DOMAIN pk[sp] \/ pk[sp][i].st # "out" \/ probes > k \/ dead \/ ph.amp)
=============================================================================
