------------------------------ MODULE PnCodec ------------------------------
(***************************************************************************)
(* Packet-number truncation and reconstruction                             *)
(* (qbase/src/packet/number.rs: PacketNumber::encode / decode, RFC 9000     *)
(* 17.1 + A.2/A.3).  Widths are a parameter so that TLC can check the       *)
(* algorithm exhaustively for scaled-down widths; Bits = <<8,16,24,32>> and *)
(* MinRange = 65535 is the real codec.                                      *)
(***************************************************************************)
EXTENDS Naturals, Sequences

CONSTANTS Bits,      \* increasing sequence of 4 widths in bits
          MinRange   \* the code never encodes with a window smaller than this + 1

Pow2(n) == 2 ^ n
Max(a, b) == IF a > b THEN a ELSE b

\* PacketNumber::encode(pn, largest_acked): index of the chosen width (0 = too large, the code panics)
WidthIdx(pn, acked) ==
    LET range == Max((pn - acked) * 2, MinRange) IN
    IF range < Pow2(Bits[1]) THEN 1
    ELSE IF range < Pow2(Bits[2]) THEN 2
    ELSE IF range < Pow2(Bits[3]) THEN 3
    ELSE IF range < Pow2(Bits[4]) THEN 4
    ELSE 0
Truncated(pn, w) == pn % Pow2(Bits[w])

\* PacketNumber::decode(expected) for a number truncated to width index w
Decode(tr, w, expected) ==
    LET win == Pow2(Bits[w])
        hwin == win \div 2
        cand == (expected \div win) * win + tr
    IN IF expected >= hwin /\ cand <= expected - hwin THEN cand + win
       ELSE IF cand > expected + hwin /\ cand > win THEN cand - win
       ELSE cand

\* C07: a receiver that has received everything the sender knows to be acknowledged (its next expected
\* number lies in (acked, pn], or anywhere in [0, pn] while nothing is acknowledged yet) reconstructs pn.
RoundTrip(pn, acked, expected) ==
    LET w == WidthIdx(pn, acked) IN
    w # 0 /\ Decode(Truncated(pn, w), w, expected) = pn

Legal(pn, acked, expected) ==
    /\ acked <= pn
    /\ expected <= pn
    /\ expected > acked \/ acked = 0
=============================================================================
