------------------------------- MODULE Params -------------------------------
(***************************************************************************)
(* C18 - the peer's transport parameters are validated and bound to the     *)
(* connection IDs seen on the wire (qbase/src/param.rs: Parameters,          *)
(* ArcParameters; param/core.rs: ParameterId::{belong_to,validate},          *)
(* Parameters<Role>::set, ServerParameters::is_0rtt_accepted; param/io.rs:   *)
(* Parameters<Role>::parse_from_bytes; qconnection/src/tls.rs try_process_ee *)
(* / try_process_ch; qconnection/src/space/initial.rs).                      *)
(*                                                                           *)
(* Part 1 is the LEGALITY TABLE written from RFC 9000 section 18.2, RFC 9221 *)
(* and RFC 9287 (id x who may send it x type x range x mandatory).           *)
(* Part 2 is the two-event protocol: the TLS extension with the parameters   *)
(* (Parse, RecvParams) and the first packet carrying the peer's source        *)
(* connection id (RecvInitialScid) arrive in either order; the connection     *)
(* becomes usable ("ready") only when both are known, the set is valid and    *)
(* the connection ids it declares equal the observed ones; otherwise the      *)
(* handshake fails with TRANSPORT_PARAMETER_ERROR, and stays failed.          *)
(*                                                                           *)
(* Written to be bound: one action per public call of the code.  Every action *)
(* takes the VERDICT v = [ok, kind, ready] (and optionally the observed       *)
(* scalar state) as an input: MC_Params / Gen_Params restrict it to what this *)
(* specification expects (res'.dev = "none"); Trace_Params passes what the    *)
(* real code did, the specification names the deviation in res.dev (a         *)
(* property violation) and follows the code so that the rest of the run can   *)
(* still be compared.                                                         *)
(*                                                                           *)
(* Numbers above 2^31 cannot be TLC integers: every numeric value is one of   *)
(* the boundary points Pts (decimal strings in ascending order); only their   *)
(* order matters.  Connection ids, tokens, addresses are hex strings.         *)
(***************************************************************************)
EXTENDS Naturals, Sequences, FiniteSets, TLC

-----------------------------------------------------------------------------
(* values *)
Pts == << "0", "1", "2", "3", "19", "20", "21", "25", "63", "64", "1199", "1200", "1201",
          "16383", "16384", "65527", "65528", "1048576", "1073741823", "1073741824",
          "1152921504606846975", "1152921504606846976", "1152921504606846977",
          "4611686018427387903" >>
VMAX == "4611686018427387903"          \* 2^62-1
P60 == "1152921504606846976"           \* 2^60
IsPt(s) == \E i \in DOMAIN Pts : Pts[i] = s
Ix(s) == IF IsPt(s) THEN CHOOSE i \in DOMAIN Pts : Pts[i] = s ELSE 0
Le(a, b) == Ix(a) <= Ix(b)

TPE == "TransportParameter"
None == <<>>
Some(x) == <<x>>
NoCid == "-"                            \* "" is the (legal) zero-length connection id

\* the well-formed preferred_address values used by the generator (RFC 9000 figure 22)
PA  == "7f0000011151" \o "000000000000000000000000000000011151" \o "08c1c2c3c4c5c6c7c8" \o "000102030405060708090a0b0c0d0e0f"
PA0 == "7f0000011151" \o "000000000000000000000000000000011151" \o "00" \o "000102030405060708090a0b0c0d0e0f"

-----------------------------------------------------------------------------
(* Part 1: the legality table.                                              *)
(*  ty : cid | ms (varint, milliseconds) | int (varint) | tok (16 bytes) | flag (zero length) | pa | bytes *)
(*  snd: who may send it                                                    *)
(*  lo..hi : values that MUST be accepted; below lo or above acc MUST be     *)
(*  rejected; (hi, acc] is left to the implementation (only                  *)
(*  max_udp_payload_size: RFC 9000 calls only values below 1200 invalid,     *)
(*  the code also refuses values above the 65527 default).                   *)
(*  def: value assumed when absent                                           *)
Row(name, ty, snd, lo, hi, acc, def) ==
    [name |-> name, ty |-> ty, snd |-> snd, lo |-> lo, hi |-> hi, acc |-> acc, def |-> def]
Table ==
    0     :> Row("original_destination_connection_id", "cid", "server", "", "", "", "") @@
    1     :> Row("max_idle_timeout", "ms", "both", "0", VMAX, VMAX, "0") @@
    2     :> Row("stateless_reset_token", "tok", "server", "", "", "", "") @@
    3     :> Row("max_udp_payload_size", "int", "both", "1200", "65527", VMAX, "65527") @@
    4     :> Row("initial_max_data", "int", "both", "0", VMAX, VMAX, "0") @@
    5     :> Row("initial_max_stream_data_bidi_local", "int", "both", "0", VMAX, VMAX, "0") @@
    6     :> Row("initial_max_stream_data_bidi_remote", "int", "both", "0", VMAX, VMAX, "0") @@
    7     :> Row("initial_max_stream_data_uni", "int", "both", "0", VMAX, VMAX, "0") @@
    8     :> Row("initial_max_streams_bidi", "int", "both", "0", P60, P60, "0") @@
    9     :> Row("initial_max_streams_uni", "int", "both", "0", P60, P60, "0") @@
    10    :> Row("ack_delay_exponent", "int", "both", "0", "20", "20", "3") @@
    11    :> Row("max_ack_delay", "ms", "both", "0", "16383", "16383", "25") @@
    12    :> Row("disable_active_migration", "flag", "both", "", "", "", "") @@
    13    :> Row("preferred_address", "pa", "server", "", "", "", "") @@
    14    :> Row("active_connection_id_limit", "int", "both", "2", VMAX, VMAX, "2") @@
    15    :> Row("initial_source_connection_id", "cid", "both", "", "", "", "") @@
    16    :> Row("retry_source_connection_id", "cid", "server", "", "", "", "") @@
    32    :> Row("max_datagram_frame_size", "int", "both", "0", VMAX, VMAX, "0") @@      \* RFC 9221
    10930 :> Row("grease_quic_bit", "flag", "both", "", "", "", "") @@                   \* RFC 9287
    65518 :> Row("client_name", "bytes", "client", "", "", "", "")                       \* extension of this code base
KnownIds == DOMAIN Table
Known(id) == id \in KnownIds
Numeric(id) == Table[id].ty \in {"int", "ms"}
NumericIds == {id \in KnownIds : Numeric(id)}
PeerOf(r) == IF r = "client" THEN "server" ELSE "client"
Mandatory(snd) == IF snd = "client" THEN {15} ELSE {0, 15}
\* limits a client may have used for 0-RTT (RFC 9000 7.4.1, RFC 9221 section 3)
ZrttIds == {4, 5, 6, 7, 8, 9, 14, 32}

(* a parameter set as it is on the wire: a sequence of entries [id, t, v];   *)
(* t = "v" varint value (v decimal), "x" raw bytes (v hex), "f" zero length  *)
Has(w, id) == \E i \in DOMAIN w : w[i].id = id
Last(w, id) == CHOOSE i \in DOMAIN w : w[i].id = id /\ \A j \in DOMAIN w : w[j].id = id => j <= i
Get(w, id) == w[Last(w, id)].v
Val(w, id) == IF Has(w, id) THEN Get(w, id) ELSE Table[id].def

RoleOk(en, snd) == Table[en.id].snd \in {"both", snd}
Below(en) == Numeric(en.id) /\ ~Le(Table[en.id].lo, en.v)
Above(en) == Numeric(en.id) /\ ~Le(en.v, Table[en.id].acc)
Gray(en) == Numeric(en.id) /\ Le(en.v, Table[en.id].acc) /\ ~Le(en.v, Table[en.id].hi)
BadEntry(en, snd) == Known(en.id) /\ (~RoleOk(en, snd) \/ Below(en) \/ Above(en))
MinOf(S) == CHOOSE x \in S : \A y \in S : x <= y

\* Validate: "none" if the set is legal for sender snd, else the name of the first reason it MUST be rejected.
\* Unknown ids are ignored (RFC 9000 7.4.2).  mode "typed" = built through the setters: no mandatory check there.
ParseFault(w, snd, mode) ==
    LET bad == {i \in DOMAIN w : BadEntry(w[i], snd)}
        missing == {m \in Mandatory(snd) : ~Has(w, m)}
    IN IF bad # {} THEN
          LET en == w[MinOf(bad)] IN
          (IF ~RoleOk(en, snd) THEN "RoleIllegal_" ELSE IF Below(en) THEN "BelowMin_" ELSE "AboveMax_") \o ToString(en.id)
       ELSE IF mode = "wire" /\ missing # {} THEN "MissingMandatory_" \o ToString(MinOf(missing))
       ELSE "none"
Validate(w, snd) == ParseFault(w, snd, "wire") = "none"
\* sets whose acceptance the RFC leaves open (SHOULD / silent): duplicates, the gray range, a preferred_address with an empty cid
ParseFree(w) ==
    \/ \E i, j \in DOMAIN w : i < j /\ w[i].id = w[j].id
    \/ \E i \in DOMAIN w : Known(w[i].id) /\ Gray(w[i])
    \/ \E i \in DOMAIN w : w[i].id = 13 /\ w[i].v = PA0

\* the smaller NON-ZERO of the two advertised values; "none" = no idle timeout
NegotiatedIdle(a, b) ==
    IF a = "0" THEN (IF b = "0" THEN "none" ELSE b)
    ELSE IF b = "0" THEN a ELSE IF Le(a, b) THEN a ELSE b

\* RFC 9000 7.4.1: remembered limits are honoured only if none of the new ones is smaller
ZeroRttAcceptable(old, new) == \A id \in ZrttIds : Le(Val(old, id), Val(new, id))

-----------------------------------------------------------------------------
(* Part 2: the protocol *)
VARIABLES
    cfg,       \* [role, mode, odcid, lidle, rem]: local role, how the peer set is built, the DCID a client first used,
               \* the local max_idle_timeout, the remembered server parameters (option)
    retry,     \* SCID of the Retry packet a client processed, or NoCid
    tried,     \* the peer's extension has been seen (it arrives once)
    parsed,    \* option: the set the parser / the setters accepted, not yet handed to recv_remote_params
    got,       \* option: the set handed to recv_remote_params
    scid,      \* SCID of the peer's first packet, or NoCid
    status,    \* "waiting" | "ready" | "failed"
    err,       \* error kind the connection failed with ("" while alive)
    deviated,  \* ghost: the implementation already deviated in this run
    res        \* last call: [op, dev]; dev = "none" or the name of the deviation
vars == <<cfg, retry, tried, parsed, got, scid, status, err, deviated, res>>

Peer == PeerOf(cfg.role)

\* why the connection ids declared in w do not authenticate against what was observed ("none" if they do)
AuthFault(w, sc) ==
    IF ~Has(w, 15) \/ Get(w, 15) # sc THEN "IscidMismatch"
    ELSE IF cfg.role = "server" THEN "none"
    ELSE IF ~Has(w, 0) \/ Get(w, 0) # cfg.odcid THEN "OdcidMismatch"
    ELSE IF retry = NoCid /\ Has(w, 16) THEN "RetryScidUnexpected"
    ELSE IF retry # NoCid /\ ~Has(w, 16) THEN "RetryScidMissing"
    ELSE IF retry # NoCid /\ Get(w, 16) # retry THEN "RetryScidMismatch"
    ELSE "none"
CidsAuthenticated(w, sc) == AuthFault(w, sc) = "none"

\* decision once the set g (option) and the first-packet scid sc are known
Outcome(g, sc) ==
    IF g = None \/ sc = NoCid THEN "waiting"
    ELSE IF CidsAuthenticated(g[1], sc) THEN "ready" ELSE "failed"

First(cands) ==     \* cands: sequence of <<condition, name>>; name of the first true condition
    IF \E i \in DOMAIN cands : cands[i][1]
    THEN cands[MinOf({i \in DOMAIN cands : cands[i][1]})][2] ELSE "none"

\* deviation of the verdict v = [ok, kind, ready] of recv_remote_params / initial_scid_from_peer_need_equal
StepDev(g, sc, v) ==
    IF status = "failed" THEN
        First(<< <<v.ok, "SucceededAfterFailure">>, <<v.kind # err, "ErrorNotSticky">> >>)
    ELSE LET exp == Outcome(g, sc) IN
        IF exp = "waiting" THEN First(<< <<~v.ok, "RejectedEarly">>, <<v.ready, "ReadyEarly">> >>)
        ELSE IF exp = "ready" THEN First(<< <<~v.ok, "RejectedAuthentic">>, <<~v.ready, "NotReadyWhenAuthenticated">> >>)
        ELSE LET f == AuthFault(g[1], sc) IN
             First(<< <<v.ok /\ v.ready, "Ready" \o f>>, <<v.ok, "Ignored" \o f>>, <<v.kind # TPE, "WrongErrorKind">> >>)

NextStatus(v) == IF status = "failed" \/ ~v.ok THEN "failed" ELSE IF v.ready THEN "ready" ELSE "waiting"
NextErr(v) == IF status # "failed" /\ ~v.ok THEN v.kind ELSE err

\* scalar state observable after every call, as a function of the abstract state
ExpObs(st, er, g, lidle, rem) ==
    [ready   |-> st = "ready",
     guard   |-> IF st = "failed" THEN er ELSE "ok",
     fut     |-> IF st = "waiting" THEN "pending" ELSE IF st = "ready" THEN "ok" ELSE "err",
     futkind |-> IF st = "failed" THEN er ELSE "",
     idle    |-> IF st = "ready" THEN NegotiatedIdle(lidle, Val(g[1], 1)) ELSE "unknown",
     ridle   |-> st = "ready",
     hasrem  |-> st = "waiting" /\ rem # None]
\* oo = None (no observation: MC/Gen) or Some(o)
ObsDev(x, oo) ==
    IF oo = None THEN "none" ELSE LET o == oo[1] IN
    First(<< <<o.guard # x.guard, "GuardMismatch">>,
             <<x.fut # "pending" /\ o.fut = "pending", "FutureNotWoken">>,
             <<x.fut = "pending" /\ o.fut # "pending", "FutureResolvedEarly">>,
             <<o.fut # x.fut, "FutureWrongResult">>,
             <<o.futkind # x.futkind, "FutureWrongErrorKind">>,
             <<x.idle = "unknown" /\ o.idle # "unknown", "IdleExposedEarly">>,
             <<o.idle # x.idle, "IdleMismatch">>,
             <<~x.ridle /\ o.ridle, "RemoteExposedEarly">>,
             <<o.ridle # x.ridle, "RemoteHiddenWhenReady">>,
             <<o.hasrem # x.hasrem, "RememberedMismatch">> >>)
Dev2(a, b) == IF a # "none" THEN a ELSE b

Finish(op, d) == /\ res' = [op |-> op, dev |-> d]
                 /\ deviated' = (deviated \/ d # "none")

Init == /\ cfg = [role |-> "server", mode |-> "wire", odcid |-> NoCid, lidle |-> "0", rem |-> None]
        /\ retry = NoCid /\ tried = FALSE /\ parsed = None /\ got = None /\ scid = NoCid /\ status = "waiting" /\ err = ""
        /\ deviated = FALSE /\ res = [op |-> "init", dev |-> "none"]

\* Parameters::new_client / new_server behind an ArcParameters, with a task awaiting remote_ready()
New(role, mode, odcid, lidle, rem, oo) ==
    /\ cfg' = [role |-> role, mode |-> mode, odcid |-> odcid, lidle |-> lidle, rem |-> rem]
    /\ retry' = NoCid /\ tried' = FALSE /\ parsed' = None /\ got' = None /\ scid' = NoCid /\ status' = "waiting" /\ err' = ""
    /\ LET d == ObsDev(ExpObs("waiting", "", None, lidle, rem), oo) IN
       res' = [op |-> "new", dev |-> d] /\ deviated' = (d # "none")

\* a client processed a Retry packet: Parameters::retry_scid_from_server_need_equal
RetrySeen(c, v, oo) ==
    /\ cfg.role = "client" /\ retry = NoCid /\ ~tried /\ scid = NoCid
    /\ retry' = IF status = "failed" THEN retry ELSE c
    /\ status' = NextStatus(v) /\ err' = NextErr(v)
    /\ Finish("retry", Dev2(IF status = "failed"
                            THEN First(<< <<v.ok, "SucceededAfterFailure">>, <<v.kind # err, "ErrorNotSticky">> >>)
                            ELSE First(<< <<~v.ok, "RejectedEarly">>, <<v.ready, "ReadyEarly">> >>),
                            ObsDev(ExpObs(status', err', got, cfg.lidle, cfg.rem), oo)))
    /\ UNCHANGED <<cfg, tried, parsed, got, scid>>

\* the peer's set w arrives in the TLS extension: Parameters::<Peer>::parse_from_bytes (mode "wire") or is built through
\* Parameters::<Peer>::set (mode "typed"); an Err becomes the connection error
Parse(w, v, oo) ==
    /\ ~tried /\ tried' = TRUE
    /\ LET f == ParseFault(w, Peer, cfg.mode)
           d == First(<< <<v.ok /\ f # "none", "Accepted" \o f>>,
                         <<~v.ok /\ f = "none" /\ ~ParseFree(w), "RejectedLegal">>,
                         <<~v.ok /\ v.kind # TPE, "WrongErrorKind">> >>)
       IN /\ parsed' = IF v.ok THEN Some(w) ELSE None
          /\ status' = IF v.ok THEN status ELSE "failed"
          /\ err' = NextErr(v)
          /\ Finish("parse", Dev2(d, ObsDev(ExpObs(status', err', got, cfg.lidle, cfg.rem), oo)))
    /\ UNCHANGED <<cfg, retry, got, scid>>

\* tls.rs try_process_ee / try_process_ch: the 0-RTT decision z against the remembered set, then
\* Parameters::recv_remote_params
RecvParams(v, z, oo) ==
    /\ parsed # None /\ got = None
    /\ got' = parsed /\ parsed' = None
    /\ status' = NextStatus(v) /\ err' = NextErr(v)
    /\ LET ez == IF status = "failed" \/ cfg.rem = None THEN "na"
                 ELSE IF ZeroRttAcceptable(cfg.rem[1], parsed[1]) THEN "yes" ELSE "no"
       IN Finish("recv", Dev2(Dev2(StepDev(parsed, scid, v), IF z # ez THEN "ZeroRttDecisionWrong" ELSE "none"),
                              ObsDev(ExpObs(status', err', got', cfg.lidle, cfg.rem), oo)))
    /\ UNCHANGED <<cfg, retry, tried, scid>>

\* the peer's first packet: Parameters::initial_scid_from_peer_need_equal
RecvInitialScid(c, v, oo) ==
    /\ scid = NoCid /\ c # NoCid
    /\ scid' = c
    /\ status' = NextStatus(v) /\ err' = NextErr(v)
    /\ Finish("scid", Dev2(StepDev(got, c, v), ObsDev(ExpObs(status', err', got, cfg.lidle, cfg.rem), oo)))
    /\ UNCHANGED <<cfg, retry, tried, parsed, got>>

-----------------------------------------------------------------------------
(* C18 as invariants over the history of what was received *)
TypeOK == /\ status \in {"waiting", "ready", "failed"}
          /\ cfg.role \in {"client", "server"} /\ cfg.mode \in {"wire", "typed"}
\* usable only after: parameters received, every value legal for the peer's role and in range, mandatory ones present,
\* first packet seen, declared connection ids equal the observed ones
ReadySound == status = "ready" =>
                 /\ got # None /\ scid # NoCid
                 /\ ParseFault(got[1], Peer, cfg.mode) = "none"
                 /\ CidsAuthenticated(got[1], scid)
\* ... and it does become usable / fail as soon as both are known
Decided == (got # None /\ scid # NoCid) => status # "waiting"
\* otherwise the handshake fails with a transport-parameter error
FailedIsTPE == status = "failed" => err = TPE
Inv == TypeOK /\ ReadySound /\ Decided /\ FailedIsTPE
\* failure is sticky, never ready after a failure; ready is stable (New starts another connection)
FailureSticky == [][(status = "failed" /\ res'.op # "new") => status' = "failed" /\ err' = err]_vars
ReadyStable == [][(status = "ready" /\ res'.op # "new") => status' = "ready"]_vars
=============================================================================
