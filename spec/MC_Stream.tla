----------------------------- MODULE MC_Stream -----------------------------
(***************************************************************************)
(* The DESIGN behind C01 for one flow: a sender with a per-byte colour map  *)
(* (Pending / Flighting / Lost / Recved, qrecovery/src/send/sndbuf.rs) and  *)
(* FIN state (send/sender.rs), a frame network that delivers any in-flight  *)
(* copy any number of times in any order, loses it or acknowledges it, and  *)
(* a receiver that reassembles (recv/rcvbuf.rs) and reads.  Every step also  *)
(* feeds the contract monitor of Stream.tla with the event the real harness  *)
(* would record, so TLC checks (1) the design satisfies C01's clauses in      *)
(* every reachable state, (2) the monitor accepts every behaviour of a       *)
(* correct design (it cannot raise a false alarm on it), and (3) under fair   *)
(* scheduling and finitely many losses everything written is read.           *)
(***************************************************************************)
EXTENDS Stream, TLC, Integers
CONSTANTS MaxLen,      \* bytes the application may write
          MaxNet,      \* frames in flight at once
          S, SID,      \* the sending side of the flow and its stream id
          Win, CWin    \* per-stream and connection windows both sides advertise
VARIABLES written, shut, col, finst, net, nextId, have, finalSize, nread, eos, losses, limbo

dvars == <<written, shut, col, finst, net, nextId, have, finalSize, nread, eos, losses, limbo>>
mvars == <<m, written, shut, col, finst, net, nextId, have, finalSize, nread, eos, losses, limbo>>

R == Peer(S)
MaxLoss == 2

Side(w, c) == [max_data |-> c, bidi_local |-> w, bidi_remote |-> w, uni |-> w, streams_bidi |-> 1, streams_uni |-> 1]
MCCfg == [cli |-> Side(Win, CWin), srv |-> Side(Win, CWin), rem |-> Side(0, 0), hasRem |-> FALSE]

MCInit ==
    /\ m = Open(Handshake(Init0(MCCfg), FALSE), S, DirOf(SID), "ok", SID)
    /\ written = 0 /\ shut = FALSE /\ col = <<>> /\ finst = "none"
    /\ net = <<>> /\ nextId = 0
    /\ have = {} /\ finalSize = -1 /\ nread = 0 /\ eos = FALSE /\ losses = 0
    /\ limbo = <<>>                 \* frames declared lost: they may still arrive / be acknowledged late (spurious loss)

Frame(f) == [t |-> "stream", sid |-> SID, off |-> f.off, len |-> f.len, fin |-> f.fin, id |-> f.id, data_ok |-> TRUE]
Positions(f) == f.off .. (f.off + f.len - 1)
RemoveAt(s, i) == [j \in 1..(Len(s) - 1) |-> IF j < i THEN s[j] ELSE s[j + 1]]

AWrite(n) ==
    /\ ~shut /\ written + n <= MaxLen
    /\ written' = written + n
    /\ col' = [i \in 1..(written + n) |-> IF i <= written THEN col[i] ELSE "P"]
    /\ m' = Write(m, S, SID, n, n, "ok")
    /\ UNCHANGED <<shut, finst, net, nextId, have, finalSize, nread, eos, losses, limbo>>

AShutdown ==
    /\ ~shut
    /\ shut' = TRUE
    /\ m' = Shutdown(m, S, SID, "pending")
    /\ UNCHANGED <<written, col, finst, net, nextId, have, finalSize, nread, eos, losses, limbo>>

\* a STREAM frame over any contiguous range of never-sent or lost bytes; FIN only with the last byte after shutdown
Sendable(i) == col[i + 1] \in {"P", "L"}
PackRange(off, len, fin) ==
    /\ Len(net) < MaxNet
    /\ off + len <= written
    /\ \A i \in off .. (off + len - 1) : Sendable(i)
    /\ fin => (shut /\ off + len = written /\ finst \in {"none", "lost"})
    /\ (len > 0 \/ fin)
    /\ LET f == [off |-> off, len |-> len, fin |-> fin, id |-> nextId, delivered |-> FALSE]
       IN /\ net' = Append(net, f)
          \* the connection credit the real endpoint reports is whatever the monitor computed: re-run with it
          /\ m' = Pack(m, S, <<Frame(f)>>, (EmitAll(m, S, <<Frame(f)>>)).cSndLim[S] - (EmitAll(m, S, <<Frame(f)>>)).cCharged[S])
    /\ nextId' = nextId + 1
    /\ col' = [i \in 1..written |-> IF (i - 1) \in off .. (off + len - 1) THEN "F" ELSE col[i]]
    /\ finst' = IF fin THEN "sent" ELSE finst
    /\ UNCHANGED <<written, shut, have, finalSize, nread, eos, losses, limbo>>
APack == \E off \in 0..written, len \in 0..written, fin \in BOOLEAN : PackRange(off, len, fin)

\* hand (a copy of) in-flight frame i to the receiver; the frame stays in flight until acknowledged or declared lost
Hi == IF have = {} THEN 0 ELSE 1 + (CHOOSE x \in have : \A y \in have : y <= x)
ADeliver(i) ==
    /\ i \in 1..Len(net)
    /\ LET f == net[i]
           hi1 == IF f.len > 0 /\ f.off + f.len > Hi THEN f.off + f.len ELSE Hi
       IN /\ have' = have \cup Positions(f)
          /\ finalSize' = IF f.fin THEN f.off + f.len ELSE finalSize
          /\ m' = Deliver(m, S, Frame(f), "ok", hi1 - Hi)
          /\ net' = [net EXCEPT ![i].delivered = TRUE]
    /\ UNCHANGED <<written, shut, col, finst, nextId, nread, eos, losses, limbo>>

ALose(i) ==
    /\ i \in 1..Len(net) /\ losses < MaxLoss
    /\ LET f == net[i] IN
       /\ col' = [j \in 1..written |-> IF (j - 1) \in Positions(f) /\ col[j] = "F" THEN "L" ELSE col[j]]
       /\ finst' = IF f.fin /\ finst = "sent" THEN "lost" ELSE finst
    /\ net' = RemoveAt(net, i)
    /\ limbo' = Append(limbo, net[i])
    /\ losses' = losses + 1
    /\ m' = m
    /\ UNCHANGED <<written, shut, nextId, have, finalSize, nread, eos>>

AAck(i) ==
    /\ i \in 1..Len(net) /\ net[i].delivered
    /\ LET f == net[i] IN
       /\ col' = [j \in 1..written |-> IF (j - 1) \in Positions(f) THEN "R" ELSE col[j]]
       /\ finst' = IF f.fin THEN "acked" ELSE finst
    /\ net' = RemoveAt(net, i)
    /\ m' = m
    /\ UNCHANGED <<written, shut, nextId, have, finalSize, nread, eos, losses, limbo>>

\* a frame that was declared lost arrives after all ...
ALateDeliver(j) ==
    /\ j \in 1..Len(limbo)
    /\ LET f == limbo[j]
           hi1 == IF f.len > 0 /\ f.off + f.len > Hi THEN f.off + f.len ELSE Hi
       IN /\ have' = have \cup Positions(f)
          /\ finalSize' = IF f.fin THEN f.off + f.len ELSE finalSize
          /\ m' = Deliver(m, S, Frame(f), "ok", hi1 - Hi)
          /\ limbo' = [limbo EXCEPT ![j].delivered = TRUE]
    /\ UNCHANGED <<written, shut, col, finst, net, nextId, nread, eos, losses>>
\* ... and is acknowledged after all: its bytes are received whatever was retransmitted meanwhile
ALateAck(j) ==
    /\ j \in 1..Len(limbo) /\ limbo[j].delivered
    /\ LET f == limbo[j] IN
       /\ col' = [x \in 1..written |-> IF (x - 1) \in Positions(f) THEN "R" ELSE col[x]]
       /\ finst' = IF f.fin THEN "acked" ELSE finst
    /\ limbo' = RemoveAt(limbo, j)
    /\ m' = m
    /\ UNCHANGED <<written, shut, net, nextId, have, finalSize, nread, eos, losses>>

\* the application reads up to k bytes: the contiguous arrived prefix beyond nread, end-of-stream after the last byte
Run(from, k) == CHOOSE n \in 0..k : (\A j \in from .. (from + n - 1) : j \in have) /\ (n = k \/ (from + n) \notin have)
ARead(k) ==
    LET n == Run(nread, k)
        atEnd == finalSize >= 0 /\ nread = finalSize
    IN /\ ~eos
       /\ IF n > 0 THEN /\ nread' = nread + n /\ eos' = eos
                        /\ m' = Read(m, R, SID, n, FALSE, "ok", TRUE)
          ELSE IF atEnd THEN /\ eos' = TRUE /\ nread' = nread
                             /\ m' = Read(m, R, SID, 0, TRUE, "ok", TRUE)
          ELSE /\ UNCHANGED <<nread, eos>>
               /\ m' = Read(m, R, SID, 0, FALSE, "pending", TRUE)
       /\ UNCHANGED <<written, shut, col, finst, net, nextId, have, finalSize, losses, limbo>>

\* frame ids are bookkeeping of the harness: they are not part of the state the properties talk about
Shape(q) == [i \in 1..Len(q) |-> [off |-> q[i].off, len |-> q[i].len, fin |-> q[i].fin, delivered |-> q[i].delivered]]
MCView == <<m, written, shut, col, finst, Shape(net), have, finalSize, nread, eos, losses, Shape(limbo)>>
DoWrite == \E n \in 1..MaxLen : AWrite(n)
DoDeliver == \E i \in 1..MaxNet : ADeliver(i)
DoLose == \E i \in 1..MaxNet : ALose(i)
DoAck == \E i \in 1..MaxNet : AAck(i)
DoRead == \E k \in {1, MaxLen} : ARead(k)
DoLateDeliver == \E j \in 1..MaxLoss : ALateDeliver(j)
DoLateAck == \E j \in 1..MaxLoss : ALateAck(j)
MCNext == DoWrite \/ AShutdown \/ APack \/ DoDeliver \/ DoLose \/ DoAck \/ DoRead \/ DoLateDeliver \/ DoLateAck

\* C01 on the design
ReadIsPrefix == nread <= written /\ (0 .. (nread - 1)) \subseteq have /\ have \subseteq (0 .. (written - 1))
EosOnlyAtEnd == eos => (shut /\ nread = written /\ finalSize = written)
AckedWasDelivered == \A i \in 1..written : col[i] = "R" => (i - 1) \in have
KeepUnacked == \A i \in 1..written : (i - 1) \notin have => col[i] # "R"
FinalSizeStable == finalSize >= 0 => (shut /\ finalSize = written)
MonitorAccepts == m.ok \/ PrintT(<<"CONTRACT", m.why>>) = FALSE
MonitorAgrees == Get(m.nread, Key(SID, S), 0) = nread /\ Get(m.wr, Key(SID, S), 0) = written
MCInv == ReadIsPrefix /\ EosOnlyAtEnd /\ AckedWasDelivered /\ KeepUnacked /\ FinalSizeStable /\ MonitorAccepts /\ MonitorAgrees

\* liveness: finitely many losses (MaxLoss), fair sender / network / reader => every written byte and the end of stream are read
MCSpec == MCInit /\ [][MCNext]_mvars
          /\ WF_mvars(APack) /\ WF_mvars(DoDeliver /\ net' # net)
          /\ WF_mvars(DoAck) /\ SF_mvars(DoRead /\ (nread' # nread \/ eos' # eos)) /\ WF_mvars(AShutdown)
EverythingRead == <>(eos /\ nread = written)
=============================================================================
