---------------------------- MODULE Gen_ConnLife ----------------------------
(* spec -> impl: the environment choices of MC_ConnLife as scenarios for `vh-sim`: who closes (client, server, both racing),
   at which point of the connection's life (before / during / after the handshake, during the transfer), which operations are
   parked (stream-count limit, flow-control window, nothing to read, nothing to accept), whether the CONNECTION_CLOSE is lost,
   and idle periods with equal / unequal / one-sided idle timeouts. *)
EXTENDS Naturals, Sequences, TLC, Json
VARIABLES done
Who == {"cli", "srv", "both", "none"}
At == {0, 4, 9, 14, 19, 40, 120}          \* ms: lat 5 ms => handshake finishes around 15-20 ms
Parked == {"none", "streams", "window", "both", "dgram"}     \* "dgram": a datagram reader waits for a datagram that never comes
Loss == {"none", "close_lost"}
Idle == {<<600, 600>>, <<600, 1500>>, <<1500, 0>>, <<0, 900>>}   \* <<client, server>> max_idle_timeout in ms, 0 = not advertised
Case(w, a, p, lo, idl) == [who |-> w, at |-> a, parked |-> p, loss |-> lo, idle_cli |-> idl[1], idle_srv |-> idl[2]]
Cases == {Case(w, a, p, lo, idl) : w \in Who \ {"none"}, a \in At, p \in Parked, lo \in Loss, idl \in {<<1500, 1500>>}}
         \cup {Case("none", 0, p, "none", idl) : p \in {"none", "streams"}, idl \in Idle}
         \* closes in the middle of a transfer over a reordering, lossy network: streams whose FIN overtook earlier data,
         \* retransmissions in flight, acknowledgements outstanding
         \cup {Case(w, a, "none", "reorder", <<1500, 1500>>) : w \in {"cli", "srv"}, a \in {70, 75, 80, 85, 90, 100, 110, 130}}
GenInit == done = FALSE
GenNext == ~done /\ done' = TRUE
EmitGen == done => \A cse \in Cases : PrintT(<<"GEN", ToJson(cse)>>)
=============================================================================
