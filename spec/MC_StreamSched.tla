--------------------------- MODULE MC_StreamSched ---------------------------
(***************************************************************************)
(* The DESIGN of the stream output scheduler, closed with an environment:  *)
(* applications that keep writing (bounded backlog, unbounded total),      *)
(* shutdown / reset, acknowledgements that remove finished streams, window *)
(* and connection credit updates, and packets of several capacities filled *)
(* by repeated Once calls (other calls may interleave between two of them, *)
(* as the `outgoings` lock is taken per call).                             *)
(*                                                                         *)
(* RefillSame = FALSE: the documented token rule.  TLC checks that the     *)
(* design never trips its own alarms (bounded wait, one visit per round,   *)
(* tokens in range, cursor valid) and, under fair packet assembly, that a  *)
(* stream that stays sendable is eventually served (NoStarvation).         *)
(* RefillSame = TRUE: what the code does.  `CodeGuarantee` is the fairness *)
(* that rule can still promise: one visit per round, and service once the  *)
(* applications stop writing (every backlog is then finite).               *)
(***************************************************************************)
EXTENDS StreamSched
CONSTANTS Ids,         \* stream ids that may be opened
          Windowed,    \* the streams whose flow-control window is modelled (the others always have room)
          RefillSame,  \* FALSE: documented refill rule, TRUE: the code's
          MaxPend, MaxRoom, MaxCredit,
          Caps,        \* packet capacities
          Ovh,         \* bytes of frame header per frame
          Interleave   \* TRUE: any environment step may fall between two Once calls of one packet; FALSE: only writes do
VARIABLES m, pk        \* pk: room left in the packet under assembly (0: none)
vars == <<m, pk>>

MCInit == m = Init0(MaxCredit) /\ pk = 0

\* streams outside Windowed get their window back at once
TopUp(x) == [x EXCEPT !.room = [s \in DOMAIN x.room |->
                 IF s \notin Windowed /\ x.st[s] \in {"send", "fin"} THEN MaxRoom ELSE x.room[s]]]
Env(x) == (Interleave \/ pk = 0) /\ m' = x /\ UNCHANGED pk
DoOpen == \E s \in Ids \ m.created : \E r \in (IF s \in Windowed THEN {0, MaxRoom} ELSE {MaxRoom}) : Env(Open(m, s, r))
DoWrite == \E s \in m.created : \E n \in 1..MaxPend :
              /\ Live(m, s) /\ m.st[s] = "send" /\ m.pend[s] + n <= MaxPend
              /\ m' = Write(m, s, n) /\ UNCHANGED pk
DoShutdown == \E s \in m.created : Live(m, s) /\ m.st[s] = "send" /\ Env(Shutdown(m, s))
DoCancel == \E s \in m.created : Live(m, s) /\ m.st[s] \in {"send", "fin", "done"} /\ Env(Cancel(m, s))
DoAckAll == \E s \in m.created : Live(m, s) /\ m.st[s] = "done" /\ Env(AckAll(m, s))
DoResetAcked == \E s \in m.created : Live(m, s) /\ m.st[s] = "reset" /\ Env(ResetAcked(m, s))
DoWindowUpdate == \E s \in m.created \cap Windowed :
                     Live(m, s) /\ m.st[s] \in {"send", "fin"} /\ m.room[s] < MaxRoom /\ Env(WindowUpdate(m, s, MaxRoom))
DoMaxData == m.credit < MaxCredit /\ Env(MaxData(m, MaxCredit))

StartPack(cap) == pk = 0 /\ pk' = cap /\ m' = NewPack(m)
\* one try_load_data_into_once: the design picks the stream; how much of what is allowed it sends is open
DoOnce ==
    /\ pk > 0
    /\ IF pk >= MinRoom /\ SendSet(m) # {}
       THEN LET s == Pick(m, RefillSame) IN
            \E len \in 0..Min(T, MaxPend) :
               LET fin == m.st[s] = "fin" /\ len = m.pend[s]
                   x == Once(m, pk, TRUE, s, len, fin) IN
               /\ x.ok
               /\ m' = TopUp(x)
               /\ pk' = Max(0, pk - len - Ovh)
       ELSE m' = Once(m, pk, FALSE, -1, 0, FALSE) /\ pk' = 0

MCNext == DoOpen \/ DoWrite \/ DoShutdown \/ DoCancel \/ DoAckAll \/ DoResetAcked \/ DoWindowUpdate \/ DoMaxData
          \/ (\E cap \in Caps : StartPack(cap)) \/ DoOnce

\* the outcome record of the last call is only read by the liveness properties
View == <<[m EXCEPT !.res = NoRes], pk>>

\* packets with room keep being assembled and filled
GoodPack == \E cap \in Caps : cap >= MinRoom /\ StartPack(cap)
MCSpec == MCInit /\ [][MCNext]_vars /\ SF_vars(GoodPack) /\ WF_vars(DoOnce)

-----------------------------------------------------------------------------
MCInv == /\ NoAlarm(m) /\ TokensInRange(m) /\ CursorValid(m)
         /\ (~RefillSame => m.soft = "")
         \* WorkConserving at the packet level: an attempt with room that wrote nothing means nothing was sendable
         /\ (m.res.now /\ ~m.res.ok /\ m.res.room => SendSet(m) = {})

Served(s) == m.res.now /\ m.res.ok /\ m.res.sid = s
\* (1) NoStarvation: a stream cannot stay sendable forever without being served
NoStarvation == \A s \in Ids : Sendable(m, s) ~> (Served(s) \/ ~Sendable(m, s))
\* what the code's refill rule still guarantees: service once the applications stop feeding the streams (a stream that
\* "runs dry infinitely often" is not enough: it may always have been refilled by the time the next packet is assembled)
WritesStop == <>[][~DoWrite]_vars
CodeGuarantee == WritesStop => NoStarvation
=============================================================================
