--------------------------- MODULE Trace_AckPolicy ---------------------------
(* impl -> spec: one event per call of the real ArcCC / ArcRcvdJournal (vh-ackpolicy), each carrying the observation *)
(* `o` taken right after the call (do_tick's wake-up, cc.need_ack and journal.need_ack of the three spaces) under     *)
(* tokio's paused clock.  AckPolicy's actions rebuild the ground truth from the arguments; the properties are soft    *)
(* invariants (SOFT_VIOLATION name, line, "interleaved" | "sequential"): validation of the remaining runs continues.  *)
EXTENDS AckPolicy, Json, IOUtils
VARIABLE l
Rec_ == ndJsonDeserialize(IOEnv.TRACE)
NE == Len(Rec_)
e == Rec_[l]
Ev(name) == l <= NE /\ e.ev = name /\ l' = l + 1
ToSet(q) == {q[i] : i \in DOMAIN q}
Obs == [w |-> e.o.w, c |-> e.o.c, ct |-> e.o.ct, j |-> e.o.j, jt |-> e.o.jt]

TReset == Ev("reset") /\ e.mad = MaxAckDelay /\ Reset(Obs)
TRcvd == Ev("rcvd") /\ e.dec = "Ok" /\ e.now = now /\ Rcvd(e.sp, e.pn, e.el, Obs)
TAdv == Ev("adv") /\ e.now = now + e.dt /\ Advance(e.dt, Obs)
TPoll == Ev("poll") /\ e.now = now /\ Poll(e.sp, e.c, e.ct, Obs)
TGen == Ev("gen") /\ e.now = now /\ e.err = FALSE /\ (e.ok => e.flargest = e.L) /\ Gen(e.sp, e.ok, e.L, e.lt, ToSet(e.cov), Obs)
TSent == Ev("sent") /\ e.now = now /\ e.L = build[e.sp].L /\ Sent(e.sp, Obs)
TSend == Ev("send") /\ e.now = now /\ Other("send", Obs)
TTick == Ev("tick") /\ e.now = now /\ Other("tick", Obs)
TDiscard == Ev("discard") /\ e.now = now /\ Discard(e.sp, Obs)

How == IF \E s \in Spaces : raced[s] THEN "interleaved" ELSE "sequential"
Soft(name, P) == P \/ PrintT(<<"SOFT_VIOLATION", name, l, How>>)
SoftInv ==
    /\ Soft("EveryElicitingAcked", EveryElicitingAcked)
    /\ Soft("OverdueWakes", OverdueWakes)
    /\ Soft("NoAckOfAckOnly", NoAckOfAckOnly)
    /\ Soft("AckSentSettles", AckSentSettles)
    /\ Soft("LargestReported", LargestReported)
    /\ Soft("CoverComplete", CoverComplete)
\* diagnostics pass (never a violation): SHOULDs and agreement with the design
DiagInv ==
    /\ Soft("DiagEverySecond", DiagEverySecond)
    /\ Soft("DiagImmediateOnReorder", DiagImmediateOnReorder)
    /\ Soft("DiagLargestIsMax", DiagLargestIsMax)
    /\ Soft("DiagDesignAgrees", DiagDesignAgrees)

TraceInit == l = 1 /\ Init
TraceNext == TReset \/ TRcvd \/ TAdv \/ TPoll \/ TGen \/ TSent \/ TSend \/ TTick \/ TDiscard
TraceAccepted ==
    LET dd == TLCGet("stats").diameter IN
    IF dd - 1 = NE THEN TRUE
    ELSE PrintT(<<"TRACE_REJECTED_AT", dd, IF dd <= NE THEN Rec_[dd] ELSE "eof">>) /\ FALSE
=============================================================================
