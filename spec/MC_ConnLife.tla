---------------------------- MODULE MC_ConnLife ----------------------------
(***************************************************************************)
(* The design behind C17: two endpoints whose connection state only moves    *)
(* forward; an application may close at any point, the peer learns of it by   *)
(* a CONNECTION_CLOSE that may be lost, or by its idle timer; every pending    *)
(* application operation is failed when its endpoint leaves the open states.   *)
(* Each step feeds the ConnLife monitor with the event the harness records     *)
(* (abstract clock: one tick = 100 ms), so TLC checks StateMonotone,           *)
(* ErrorFixedOnce, NothingAfterClose on the design, that the monitor accepts   *)
(* every behaviour of a correct design, and PendingEventuallyFails.            *)
(***************************************************************************)
EXTENDS ConnLife, TLC
CONSTANTS MaxTime, IdleTicks
VARIABLES now, st, pend, closeMsg, err, lastRcv

vars == <<k, now, st, pend, closeMsg, err, lastRcv>>
Tick == 100000      \* microseconds per abstract tick
Open(s) == st[s] \in {"attempted", "handshake_confirmed"}

MCInit ==
    /\ k = [LInit(IdleTicks * Tick, FALSE) EXCEPT !.state = [x \in {<<s, "g">> : s \in Sides} |-> "attempted"],
                                                  !.stateAt = [x \in {<<s, "g">> : s \in Sides} |-> 0]]
    /\ now = 0
    /\ st = [s \in Sides |-> "attempted"]
    /\ pend = [s \in Sides |-> {"read", "write", "open", "accept"}]     \* operations parked on each endpoint
    /\ closeMsg = {}          \* CONNECTION_CLOSE in flight towards these endpoints
    /\ err = [s \in Sides |-> ""]
    /\ lastRcv = [s \in Sides |-> 0]

Advance == /\ now < MaxTime /\ now' = now + 1
           /\ UNCHANGED <<k, st, pend, closeMsg, err, lastRcv>>

Confirm(s) == /\ st[s] = "attempted"
              /\ st' = [st EXCEPT ![s] = "handshake_confirmed"]
              /\ k' = StateUpdated(k, s, "g", "attempted", "handshake_confirmed", now * Tick)
              /\ UNCHANGED <<now, pend, closeMsg, err, lastRcv>>

\* entering closing fails every pending operation at once and fixes the error
Leave(s, to, why, kk) ==
    /\ st' = [st EXCEPT ![s] = to]
    /\ err' = [err EXCEPT ![s] = IF err[s] = "" THEN why ELSE err[s]]
    /\ pend' = [pend EXCEPT ![s] = {}]
    /\ k' = TasksDone(Terminated(ConnectionClosed(StateUpdated(kk, s, "g", st[s], to, now * Tick), s, "g"), s, now * Tick), s, now * Tick)

AppCloses(s) == /\ Open(s)
                /\ Leave(s, "closing", "local", AppClose(k, s, now * Tick))
                /\ closeMsg' = closeMsg \cup {Peer(s)}
                /\ UNCHANGED <<now, lastRcv>>
LoseClose(s) == /\ s \in closeMsg /\ closeMsg' = closeMsg \ {s}
                /\ UNCHANGED <<k, now, st, pend, err, lastRcv>>
RecvClose(s) == /\ s \in closeMsg /\ closeMsg' = closeMsg \ {s}
                /\ IF Open(s) THEN Leave(s, "draining", "peer", k) /\ UNCHANGED <<now, lastRcv>>
                   ELSE UNCHANGED <<k, now, st, pend, err, lastRcv>>
IdleExpires(s) == /\ Open(s) /\ now >= lastRcv[s] + IdleTicks
                  /\ Leave(s, "closed", "idle", k)
                  /\ UNCHANGED <<now, closeMsg, lastRcv>>
\* a completed operation on an open connection parks again (the application keeps using the connection)
Traffic(s) == /\ Open(s) /\ Open(Peer(s)) /\ lastRcv' = [lastRcv EXCEPT ![s] = now]
              /\ UNCHANGED <<k, now, st, pend, closeMsg, err>>

MCNext == Advance \/ (\E s \in Sides : Confirm(s) \/ AppCloses(s) \/ LoseClose(s) \/ RecvClose(s) \/ IdleExpires(s) \/ Traffic(s))

StateMonotone == [][\A s \in Sides : Rank(st'[s]) >= Rank(st[s])]_vars
ErrorFixedOnce == [][\A s \in Sides : err[s] # "" => err'[s] = err[s]]_vars
NothingPendingAfterClose == \A s \in Sides : ~Open(s) => pend[s] = {}
MonitorAccepts == k.ok \/ PrintT(<<"CONTRACT", k.why>>) = FALSE
MCInv == NothingPendingAfterClose /\ MonitorAccepts
\* liveness: once one side closed, every pending operation of BOTH sides eventually fails (by CONNECTION_CLOSE or by idle expiry)
MCSpec == MCInit /\ [][MCNext]_vars /\ WF_vars(Advance) /\ \A s \in Sides : WF_vars(IdleExpires(s)) /\ WF_vars(RecvClose(s) \/ LoseClose(s))
PendingEventuallyFails == (\E s \in Sides : ~Open(s)) ~> (\A s \in Sides : pend[s] = {} \/ now = MaxTime)
=============================================================================
