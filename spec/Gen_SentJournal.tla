--------------------------- MODULE Gen_SentJournal ---------------------------
(* all call sequences of length Depth on the sent journal (spec -> impl) *)
EXTENDS SentJournal, TLC, Json
CONSTANTS MaxPn, NFrames, RTs, ETs, Ticks, Depth
VARIABLE hist
GenInit == Init /\ hist = <<>>
H(x) == hist' = Append(hist, x)
B(b) == IF b THEN 1 ELSE 0
GenNext ==
  /\ Len(hist) < Depth
  /\ \/ \E n \in NFrames, tr \in BOOLEAN, rt \in RTs, et \in ETs :
            NextPn < MaxPn /\ Send(n, tr, rt, et) /\ H(<<"s", n, B(tr), rt, et>>)
     \/ \E tr \in BOOLEAN : Abandon /\ H(<<"b", B(tr)>>)
     \/ RotBegin /\ H(<<"rb">>)
     \/ \E L \in 0..(NextPn + 1) : UpdateLargest(L, L < NextPn) /\ H(<<"u", L>>)
     \/ \E p \in 0..NextPn : Ack(p) /\ H(<<"a", p>>)
     \/ \E p \in 0..NextPn : Loss(p) /\ H(<<"l", p>>)
     \/ FastRetx /\ H(<<"f">>)
     \/ RotEnd /\ H(<<"re">>)
     \/ \E d \in Ticks : Tick(d) /\ H(<<"t", d>>)
Emit == (Len(hist) = Depth) => PrintT(<<"GEN", ToJson(hist)>>)
=============================================================================
