---------------------------- MODULE Trace_Stream ----------------------------
(* impl -> spec: runs of two real DataStreams endpoints over the harness's frame network *)
EXTENDS Stream, TLC, Json, IOUtils
VARIABLE l
Rec_ == ndJsonDeserialize(IOEnv.TRACE)
NE == Len(Rec_)
e == Rec_[l]
Ev(name) == l <= NE /\ e.ev = name /\ l' = l + 1
NoCfg == [max_data |-> 0, bidi_local |-> 0, bidi_remote |-> 0, uni |-> 0, streams_bidi |-> 0, streams_uni |-> 0]
Cfg(c) == LET has == "max_data" \in DOMAIN c.rem IN
          [cli |-> c.cli, srv |-> c.srv, rem |-> IF has THEN c.rem ELSE NoCfg, hasRem |-> has]

TReset == Ev("reset") /\ m' = ZeroRttInit(Init0(Cfg(e.cfg)))
THs == Ev("hs") /\ m' = Handshake(m, e.rejected)
TOpen == Ev("open") /\ m' = Open(m, e.side, e.dir, e.res, e.sid)
TAccept == Ev("accept") /\ m' = Accept(m, e.side, e.dir, e.res, e.sid)
TWrite == Ev("write") /\ m' = Write(m, e.side, e.sid, e.n, e.acc, e.res)
TShutdown == Ev("shutdown") /\ m' = Shutdown(m, e.side, e.sid, e.res)
TFlush == Ev("flush") /\ m' = m
TCancel == Ev("cancel") /\ m' = End(m, e.sid, e.side)
TStop == Ev("stop") /\ m' = End(m, e.sid, Peer(e.side))
TRead == Ev("read") /\ m' = Read(m, e.side, e.sid, e.n, e.eos, e.res, e.data_ok)
TPack == Ev("pack") /\ m' = Pack(m, e.side, e.frames, e.conn_avail)
TCtl == Ev("ctl") /\ m' = EmitCtlAll(m, e.side, e.frames)
\* a frame the harness injected (never produced by the peer's code) voids the delivery contract of the flows it touches
Void(st, from, fr) == IF "sid" \in DOMAIN fr THEN End(End(st, fr.sid, from), fr.sid, Peer(from)) ELSE st
TDeliver == Ev("deliver") /\ m' = IF "inj" \in DOMAIN e THEN Void(Deliver(m, e.from, e.frame, e.res, e.fresh), e.from, e.frame)
                                   ELSE Deliver(m, e.from, e.frame, e.res, e.fresh)
TLose == Ev("lose") /\ m' = m
TAck == Ev("ack") /\ m' = m
TFinal == Ev("final") /\ m' = Final(m, e.side, e.sid, e.written, e.peer_read, e.flushed, e.parked, e.peer_has_reader, e.quiescent, e.dead)

\* Known deviation StaleLossPanicsAfter0RttRejection: the frames of a rejected 0-RTT flight stay in the sent
\* journal; when loss detection reports them, the send buffers (whose state was forgotten) hit a debug assertion
\* (release builds silently recolour never-sent bytes as lost).  The run ends there.
TPanic == Ev("panic") /\ e.class = "stale_loss" /\ m.rej /\ m' = [m EXCEPT !.soft = "StaleLossPanicsAfter0RttRejection"]
TraceInit == l = 1 /\ m = Init0([cli |-> NoCfg, srv |-> NoCfg, rem |-> NoCfg, hasRem |-> FALSE])
TraceNext == TReset \/ THs \/ TOpen \/ TAccept \/ TWrite \/ TShutdown \/ TFlush \/ TCancel \/ TStop \/ TRead
             \/ TPack \/ TCtl \/ TDeliver \/ TLose \/ TAck \/ TFinal \/ TPanic
\* every clause of the contract, reported with its reason
ContractHolds == m.ok \/ PrintT(<<"CONTRACT", m.why>>) = FALSE
SoftHolds == m.soft = "" \/ PrintT(<<"SOFT_VIOLATION", m.soft, l>>)
TraceAccepted ==
    LET d == TLCGet("stats").diameter IN
    IF d - 1 = NE THEN TRUE
    ELSE PrintT(<<"TRACE_REJECTED_AT", d, IF d <= NE THEN Rec_[d] ELSE "eof">>) /\ FALSE
=============================================================================
