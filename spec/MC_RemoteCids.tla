---------------------------- MODULE MC_RemoteCids ----------------------------
EXTENDS RemoteCids, TLC
CONSTANTS MaxSeq, MaxCells
DoApply == Len(cells) < MaxCells /\ ApplyDcid
DoInitial == \E c \in DOMAIN cells : ApplyInitial(c)
DoNewCid == \E s \in 1..MaxSeq, r \in 0..MaxSeq : RecvNewCid(s, r)
DoBorrow == \E c \in DOMAIN cells : Borrow(c)
DoRelease == \E c \in DOMAIN cells : Release(c)
DoRetireCell == \E c \in DOMAIN cells : RetireCell(c)
MCNext == DoApply \/ DoInitial \/ DoNewCid \/ DoBorrow \/ DoRelease \/ DoRetireCell
View == <<dqOff, dq, rdyOff, rdy, pend, cursor, cells, SeqToSet(retiredEver)>>
=============================================================================
