--------------------------- MODULE MC_RcvdJournal ---------------------------
EXTENDS RcvdJournal, TLC
CONSTANTS MaxPn, MaxNow, Caps, PktNos
DoDecode == \E p \in 0..MaxPn : Decode(p)
DoRcvd == \E p \in 0..MaxPn, el \in BOOLEAN : OnRcvd(p, el, 3)
\* the implementation may choose any non-empty prefix of the complete range list that fits
DoGenAck == \E k \in PktNos, L \in 0..MaxPn, c \in Caps :
              /\ IsRcvd(L)
              /\ LET fullrs == RangesOf(Ackable(L)) IN
                   \/ \E n \in 1..Len(fullrs) :
                        /\ FrameSize(L, 0, SubSeq(fullrs, 1, n)) <= c
                        /\ (n < Len(fullrs) => FrameSize(L, 0, fullrs) > c)
                        /\ GenAck(k, L, 0, c, TRUE, SubSeq(fullrs, 1, n))
                   \/ /\ FrameSize(L, 0, << fullrs[1] >>) > c
                      /\ GenAck(k, L, 0, c, FALSE, <<>>)
DoOnAck == \E A \in SUBSET PktNos : A # {} /\ OnAck(A)
DoTick == \E d \in {2} : now + d <= MaxNow /\ Tick(d)
MCNext == DoDecode \/ DoRcvd \/ DoGenAck \/ DoOnAck \/ DoTick
View == <<now, off, recs, ackpkts, everRcvd>>
=============================================================================
