---------------------------- MODULE Gen_Wakers ----------------------------
(* spec -> implementation: every call order (to the class's depth) of waiters and notifiers on one object.  *)
(* One TLC run enumerates all classes (the initial state picks one):                                          *)
(*   slot / nw tasks : poll(w) drop(w) set touch close            - objects with a waker slot                  *)
(*   sw   / nw tasks : check(w,S) wait(w) drop(w) flag(s) notify(s) - SendWaker(s); the condition flags live   *)
(*                     in the harness, are read by check OUTSIDE the SendWaker lock, and a notifier is the     *)
(*                     two calls flag(s) ; notify(s), so every check / set / notify / register order appears   *)
(*   cell            : check(w) wait(w) drop(w) set close          - ArcCidCell, AntiAmplifier (+ SendWaker)   *)
(*   swh             : check(w) wait(w) drop(w) nbegin nend        - a notifier CALL made of two critical      *)
(*                     sections (SendBuffer::write), held between them at a code sync point                    *)
(* The guards are program order only (a task waits after it checked, a notifier notifies after it set its     *)
(* flag); the state is advanced with the design actions of Wakers.tla.  The harness drops a sequence when a   *)
(* call is not applicable to the concrete object (set_keys twice, wait after a successful check ...).          *)
EXTENDS Wakers, Json
CONSTANTS Classes
VARIABLES hist, g, live
gvars == <<vars, hist, g, live>>

Class(name, mode, multi, nw, c, needs, depth) ==
    [name |-> name, mode |-> mode, multi |-> multi, nw |-> nw, consume |-> c, needs |-> needs, depth |-> depth]
\* needs are encoded as strings for the harness: "a" = {a}, "ab" = {a, b}
NeedSet(x) == IF x = "ab" THEN {"a", "b"} ELSE IF x = "b" THEN {"b"} ELSE {"a"}

QuickClasses == {Class("slot1", "slot", FALSE, 1, TRUE, {"a"}, 5), Class("slot2", "slot", TRUE, 2, TRUE, {"a"}, 4),
                 Class("sw1", "sw", FALSE, 1, TRUE, {"a", "ab"}, 5), Class("sw2", "sw", FALSE, 2, TRUE, {"a"}, 4),
                 Class("cellF", "cell", FALSE, 1, FALSE, {"a"}, 6), Class("cellT", "cell", FALSE, 1, TRUE, {"a"}, 5),
                 Class("swh", "swh", FALSE, 1, TRUE, {"a"}, 7)}
ThoroughClasses == {Class("slot1", "slot", FALSE, 1, TRUE, {"a"}, 6), Class("slot2", "slot", TRUE, 2, TRUE, {"a"}, 5),
                    Class("sw1", "sw", FALSE, 1, TRUE, {"a", "ab"}, 6), Class("sw2", "sw", FALSE, 2, TRUE, {"a"}, 5),
                    Class("sw2ab", "sw", FALSE, 2, TRUE, {"a", "ab"}, 4),
                    Class("cellF", "cell", FALSE, 1, FALSE, {"a"}, 8), Class("cellT", "cell", FALSE, 1, TRUE, {"a"}, 7),
                    Class("swh", "swh", FALSE, 1, TRUE, {"a"}, 8)}

GenInit == /\ g \in Classes
           /\ MInit(g.consume, 0) /\ DInit
           /\ hist = <<>>
           /\ live = [w \in Waiters |-> "none"]

Act == 1..g.nw
H(x) == hist' = Append(hist, x) /\ UNCHANGED g
L(w, v) == live' = [live EXCEPT ![w] = v]

SlotOps ==
    \/ \E w \in Act : DSlotPoll(w, g.multi) /\ H(<<"poll", w>>) /\ L(w, "polled")
    \/ \E w \in Act : live[w] = "polled" /\ DSlotDrop(w) /\ H(<<"drop", w>>) /\ L(w, "none")
    \/ DSlotSet(1) /\ H(<<"set">>) /\ UNCHANGED live
    \/ DSlotTouch /\ H(<<"touch">>) /\ UNCHANGED live
    \/ DSlotClose /\ H(<<"close">>) /\ UNCHANGED live

WaitOps ==
    \/ \E w \in Act : live[w] # "none" /\ DSwWait(w) /\ H(<<"wait", w>>) /\ L(w, "waited")
    \/ \E w \in Act : live[w] # "none" /\ DSwDrop(w) /\ H(<<"drop", w>>) /\ L(w, "none")

SwOps ==
    \/ \E w \in Act : \E x \in g.needs : DSwCheck(w, NeedSet(x)) /\ H(<<"check", w, x>>) /\ L(w, "checked")
    \/ WaitOps
    \/ \E s \in Sigs : DSwSetFlag(s) /\ H(<<"flag", s>>) /\ UNCHANGED live
    \/ \E s \in Sigs : DSwNotify(s) /\ H(<<"notify", s>>) /\ UNCHANGED live

\* Only program order is imposed here (no predicted results): where the code orders the two critical sections of the
\* notifier differently from the intended design, the interesting continuations are exactly the ones a prediction
\* would prune.  owed[Main] tells whether a notifier call is in flight.
HookOps ==
    \/ \E w \in Act : H(<<"check", w, "a">>) /\ L(w, "checked") /\ UNCHANGED vars
    \/ \E w \in Act : live[w] # "none" /\ H(<<"wait", w>>) /\ L(w, "waited") /\ UNCHANGED vars
    \/ \E w \in Act : live[w] # "none" /\ H(<<"drop", w>>) /\ L(w, "none") /\ UNCHANGED vars
    \/ owed[Main] = 0 /\ DSwSetFlag(Main) /\ H(<<"nbegin">>) /\ UNCHANGED live
    \/ DSwNotify(Main) /\ H(<<"nend">>) /\ UNCHANGED live

CellOps ==
    \/ \E w \in Act : DCellCheck(w) /\ H(<<"check", w, "a">>) /\ L(w, "checked")
    \/ WaitOps
    \/ DCellSet /\ H(<<"set">>) /\ UNCHANGED live
    \/ DCellClose /\ H(<<"close">>) /\ UNCHANGED live

GenNext ==
    /\ Len(hist) < g.depth
    /\ \/ g.mode = "slot" /\ SlotOps
       \/ g.mode = "sw" /\ SwOps
       \/ g.mode = "cell" /\ CellOps
       \/ g.mode = "swh" /\ HookOps

Emit == (Len(hist) = g.depth) => PrintT(<<"GEN", ToJson(<<g.name>> \o hist)>>)
=============================================================================
