---------------------------- MODULE Gen_RecvBuf ----------------------------
(* every call sequence of length Depth over fragments of an N-byte stream, reads and try_next *)
EXTENDS RecvBuf, TLC, Json, Sequences
CONSTANTS N, Reads, Depth
VARIABLE hist
GenInit == Init /\ hist = <<>>
H(x) == hist' = Append(hist, x)
GenNext ==
  /\ Len(hist) < Depth
  /\ \/ \E off \in 0..N : \E len \in 0..(N - off) : Recv(off, len) /\ H(<<"v", off, len>>)
     \/ \E k \in Reads : Read(k) /\ H(<<"r", k>>)
     \/ Next(IF Avail = 0 THEN 0 ELSE Avail) /\ H(<<"n">>)
Emit == (Len(hist) = Depth) => PrintT(<<"GEN", ToJson(hist)>>)
=============================================================================
