--------------------------- MODULE Trace_AntiAmp ---------------------------
(* impl -> spec.  Two entry points:                                                                                  *)
(*  TraceNext      call-granularity events recorded from the real AntiAmplifier / ArcSendWaker / Constraints           *)
(*                 (vh-antiamp replay): every call's result, credit, state and wake-ups must be a step of AntiAmp.     *)
(*  PathTraceNext  per-path byte events recorded by the network of a full-stack run:                                    *)
(*                 {"ev":"rcvd","n":..} {"ev":"sent","n":..} {"ev":"grant"} {"ev":"abort"}; only the totals and the    *)
(*                 validation state are tracked and only the property invariants are meaningful (no internal credit).   *)
EXTENDS AntiAmp, TLC, Json, IOUtils
VARIABLE l
Rec_ == ndJsonDeserialize(IOEnv.TRACE)
NE == Len(Rec_)
e == Rec_[l]
Ev(name) == l <= NE /\ e.ev = name /\ l' = l + 1
\* logged after every call: the counter (as a signed 64-bit number), the state, wake-ups issued during the call
\* (a wake-up is required only where a parked burst task must be resumed; additional, spurious ones are legal)
\* e.woke_saw: what balance() answered when called from inside Waker::wake during this call (the woken task running at once).
\* When the call is a notifier that made budget available to a parked task, some wake-up must have found it available.
SawBudget == \E i \in DOMAIN e.woke_saw : e.woke_saw[i].r # "wait"
Obs == /\ credit' = e.credit /\ state' = e.state
       /\ (asleep /\ wakes' > wakes) => e.wakes > 0
       /\ (asleep /\ wakes' > wakes /\ ~(state' = NORMAL /\ credit' = 0)) => SawBudget
Clip(x) == IF Huge(x) THEN -1 ELSE x
TReset == Ev("reset") /\ Reset
TRcvd == Ev("rcvd") /\ OnRcvd(e.n) /\ Obs
TBalance == Ev("balance") /\ Balance /\ Obs /\ res'.r = e.r /\ res'.v = e.v
\* a correct counter saturates; the wrapped value is also a step (the model follows the code) and is reported by CreditNeverWraps
TSent == Ev("sent") /\ (\E w \in BOOLEAN : OnSent(e.n, w)) /\ Obs
TGrant == Ev("grant") /\ Grant /\ Obs
TAbort == Ev("abort") /\ Abort /\ Obs
TWait == Ev("wait") /\ WaitPoll /\ Obs /\ res'.r = e.r
TSeg == Ev("seg") /\ Segment(IF e.quota < 0 THEN Big ELSE e.quota, e.buf, e.pkts) /\ res'.takes = e.takes
        /\ Clip(cons'.cl) = e.cl /\ Clip(cons'.sq) = e.sq /\ Obs
\* the driver skipped a generated call that does not apply to the state the real object is in (no balance held)
TNoop == Ev("noop") /\ UNCHANGED vars
TraceInit == l = 1 /\ Init
TraceNext == TReset \/ TRcvd \/ TBalance \/ TSent \/ TGrant \/ TAbort \/ TWait \/ TSeg \/ TNoop

\* ---- per-path byte stream of a full-stack run
PKeep == UNCHANGED <<credit, wbit, wreg, wakes, asleep, badwake, disc, cons, task, sp, res>>
PRcvd == Ev("rcvd") /\ rcvd' = rcvd + e.n /\ UNCHANGED <<sent, state>> /\ PKeep
PSent == Ev("sent") /\ sent' = sent + e.n /\ UNCHANGED <<rcvd, state>> /\ PKeep
PGrant == Ev("grant") /\ state' = (IF state = NORMAL THEN GRANTED ELSE state) /\ UNCHANGED <<rcvd, sent>> /\ PKeep
PAbort == Ev("abort") /\ state' = (IF state = NORMAL THEN ABORTED ELSE state) /\ UNCHANGED <<rcvd, sent>> /\ PKeep
PathTraceNext == TReset \/ PRcvd \/ PSent \/ PGrant \/ PAbort

\* reported without stopping the validation of the remaining runs
SoftCreditNeverWraps == CreditNeverWraps \/ PrintT(<<"SOFT_VIOLATION", "CreditNeverWraps", l>>)
SoftAmp3x == Amp3x \/ PrintT(<<"SOFT_VIOLATION", "Amp3x", l>>)
TraceAccepted ==
    LET d == TLCGet("stats").diameter IN
    IF d - 1 = NE THEN TRUE
    ELSE PrintT(<<"TRACE_REJECTED_AT", d, IF d <= NE THEN Rec_[d] ELSE "eof">>) /\ FALSE
=============================================================================
