---------------------------- MODULE MC_AckPolicy ----------------------------
(* The DESIGN of the acknowledgement policy (D_* of AckPolicy.tla) against the properties, exhaustively for small     *)
(* constants: every order of arrivals (in / out of order, ack-eliciting or not) in the chosen spaces, every clock     *)
(* advance around max_ack_delay, every placement of the three steps of sending a packet with an ACK frame.            *)
(*   Race = FALSE  no arrival falls between ack_package (cc sampled) and commit (cc notified): the sequential path    *)
(*   Race = TRUE   arrivals interleave with those steps (receive and send tasks run on different threads)             *)
(* Liveness under fair polling and a progressing clock: every ack-eliciting packet is eventually covered by a sent    *)
(* ACK frame.                                                                                                         *)
EXTENDS AckPolicy
CONSTANTS MCSpaces, Pns, Dts, Horizon, Race

DoRcvd == \E s \in MCSpaces \ gone : \E p \in Pns \ rcvd[s] : \E el \in BOOLEAN :
            /\ Race \/ phase[s] = "idle"
            /\ now + MaxAckDelay + 1 <= Horizon
            /\ Rcvd(s, p, el, D_Obs')
DoAdvance == \E dt \in Dts : now + dt <= Horizon /\ Advance(dt, D_Obs')
DoPoll(s) == Poll(s, D_C(s), D_Ct(s), D_Obs')
DoGen(s) == LET w == Want(s)
                ok == w[1] # NONE
            IN Gen(s, ok, w[1], w[2], IF ok THEN {p \in rcvd[s] : p <= w[1]} ELSE {}, D_Obs')
DoSent(s) == Sent(s, D_Obs')
DoDiscard == \E s \in MCSpaces : Discard(s, D_Obs')
DoTick == Other("tick", D_Obs')

MCNext == DoRcvd \/ DoAdvance \/ DoDiscard \/ DoTick
          \/ \E s \in MCSpaces : DoPoll(s) \/ DoGen(s) \/ DoSent(s)
MCSpec == Init /\ [][MCNext]_vars /\ WF_vars(DoAdvance)
          /\ \A s \in MCSpaces : WF_vars(DoPoll(s)) /\ WF_vars(DoGen(s)) /\ WF_vars(DoSent(s))

\* everything except the wake-up clause (used for the repaired design under Race, see the design part)
InvNoWake == EveryElicitingAcked /\ NoAckOfAckOnly /\ AckSentSettles /\ LargestReported /\ CoverComplete
EventuallyAcked == \A s \in MCSpaces : \A p \in Pns : (p \in pend[s]) ~> (p \notin pend[s])
\* vacuity probes (must be VIOLATED when checked as invariants; the check asserts the actions via coverage instead)
=============================================================================
