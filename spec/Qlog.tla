-------------------------------- MODULE Qlog --------------------------------
(***************************************************************************)
(* C20 — the qlog stream of a connection as a trace language: vocabulary,   *)
(* mandatory fields, JSON round trip, and the ordering rules that make the   *)
(* log meaningful (connection states only move forward, packet numbers of    *)
(* packet_sent increase per space, acknowledged / lost packets were sent,    *)
(* stream states follow the RFC 9000 stream state machines); plus the        *)
(* observational clause: the same workload run under different exporters     *)
(* (none / no-op / capturing / filtered / raw) is indistinguishable to the    *)
(* application.                                                             *)
(***************************************************************************)
EXTENDS Integers, Sequences, FiniteSets
VARIABLE q

Sides == {"cli", "srv"}
Get(f, x, d) == IF x \in DOMAIN f THEN f[x] ELSE d
Put(f, x, v) == [y \in DOMAIN f \cup {x} |-> IF y = x THEN v ELSE f[y]]
Fail(st, why) == IF st.ok THEN [st EXCEPT !.ok = FALSE, !.why = why] ELSE st

Vocabulary == {"server_listening", "connection_started", "connection_closed", "connection_id_updated", "spin_bit_updated",
               "connection_state_updated", "path_assigned", "mtu_updated", "version_information", "alpn_information",
               "parameters_set", "parameters_restored", "packet_sent", "packet_received", "packet_dropped", "packet_buffered",
               "packets_acked", "udp_datagrams_sent", "udp_datagrams_received", "udp_datagram_dropped",
               "stream_state_updated", "frames_processed", "stream_data_moved", "datagram_data_moved", "migration_state_updated",
               "key_updated", "key_discarded", "recovery_parameters_set", "recovery_metrics_updated", "congestion_state_updated",
               "loss_timer_updated", "packet_lost", "marked_for_retransmit", "ecn_state_updated"}

ConnRank(s) == CASE s = "" -> 0 [] s = "attempted" -> 1 [] s = "peer_validated" -> 2 [] s = "handshake_started" -> 3
                 [] s = "early_write" -> 4 [] s \in {"handshake_complete", "handshake_completed"} -> 5
                 [] s = "handshake_confirmed" -> 6 [] s = "closing" -> 7 [] s = "draining" -> 8 [] s = "closed" -> 9 [] OTHER -> 100

SpaceOfTy(ty) == CASE ty = "initial" -> "initial" [] ty = "handshake" -> "handshake"
                   [] ty \in {"1RTT", "0RTT"} -> "application_data" [] OTHER -> "none"

\* RFC 9000 section 3: legal successor states of a stream side (qlog's granular names)
SendNext(s) == CASE s \in {"", "ready"} -> {"ready", "send", "data_sent", "reset_sent"}
                 [] s = "send" -> {"data_sent", "reset_sent"}
                 [] s = "data_sent" -> {"data_received", "reset_sent"}
                 [] s = "reset_sent" -> {"reset_received"}
                 [] OTHER -> {}
RecvNext(s) == CASE s \in {"", "receive"} -> {"receive", "size_known", "data_received", "reset_received"}
                 [] s = "size_known" -> {"data_received", "reset_received"}
                 [] s = "data_received" -> {"data_read", "reset_received"}
                 [] s = "reset_received" -> {"reset_read", "data_received"}
                 [] OTHER -> {}

QInit(group, mode, filtered) ==
    [ group |-> group, mode |-> mode, filtered |-> filtered,
      conn   |-> [s \in Sides |-> ""],
      sent   |-> <<>>,         \* <<side, space>> -> set of packet numbers logged as sent
      lastPn |-> <<>>,         \* <<side, space>> -> largest packet number logged as sent
      sstate |-> <<>>,         \* <<side, sid, stream_type, stream_side>> -> last state logged
      nev    |-> 0,
      ok |-> TRUE, why |-> "", at |-> 0 ]

\* every event: vocabulary and mandatory fields, JSON round trip
Common(st, e) ==
    IF ~(e.has_time /\ e.has_name /\ e.has_data) THEN Fail(st, "a qlog event lacks a mandatory field (time, name, data) (C20)")
    ELSE IF ~e.scheme_ok \/ e.name \notin Vocabulary THEN Fail(st, "a qlog event has a name outside the quic vocabulary (C20)")
    ELSE IF ~e.rt_ok THEN Fail(st, "a qlog event does not parse back to an equal event (C20)")
    ELSE [st EXCEPT !.nev = @ + 1]

Specific(st, e) ==
    CASE e.name = "connection_state_updated" ->
            IF ConnRank(e.new) = 100 THEN Fail(st, "unknown connection state (C20)")
            ELSE IF ConnRank(e.new) <= ConnRank(st.conn[e.side]) THEN Fail(st, "logged connection states do not move forward (C20)")
            ELSE [st EXCEPT !.conn[e.side] = e.new]
      [] e.name \in {"packet_sent", "packet_received"} ->
            IF ~e.has_header \/ e.ty = "" THEN Fail(st, "packet event without header / packet type (C20)")
            ELSE IF SpaceOfTy(e.ty) # "none" /\ e.pn < 0 THEN Fail(st, "packet event of a numbered packet type without packet number (C20)")
            ELSE IF e.name = "packet_sent" /\ SpaceOfTy(e.ty) # "none" THEN
                 LET key == <<e.side, SpaceOfTy(e.ty)>> IN
                 IF e.pn <= Get(st.lastPn, key, -1) THEN Fail(st, "packet_sent packet numbers do not increase within a space (C20/C07)")
                 ELSE [st EXCEPT !.lastPn = Put(@, key, e.pn), !.sent = Put(@, key, Get(st.sent, key, {}) \cup {e.pn})]
            ELSE st
      [] e.name = "packet_lost" ->
            IF SpaceOfTy(e.ty) # "none" /\ ~st.filtered /\ e.pn \notin Get(st.sent, <<e.side, SpaceOfTy(e.ty)>>, {})
            THEN Fail(st, "packet_lost refers to a packet that was never logged as sent (C20)") ELSE st
      [] e.name = "packets_acked" ->
            IF ~st.filtered /\ \E i \in 1..Len(e.pns) : e.pns[i] \notin Get(st.sent, <<e.side, e.space>>, {})
            THEN Fail(st, "packets_acked refers to a packet that was never logged as sent (C20)") ELSE st
      [] e.name = "stream_state_updated" ->
            LET key == <<e.side, e.sid, e.stype, e.sside>>   \* the code logs the stream INDEX as stream_id: the type is part of the identity
                prev == Get(st.sstate, key, "")
                nxt == IF e.sside = "sending" THEN SendNext(prev) ELSE RecvNext(prev)
            IN IF e.new \notin nxt THEN Fail(st, "logged stream states do not follow the stream state machine (C20)")
               ELSE [st EXCEPT !.sstate = Put(@, key, e.new)]
      [] OTHER -> st

Event(st, e) == LET st1 == Common(st, e) IN IF st1.ok THEN Specific(st1, e) ELSE st1

\* observational clause: `sums` maps a scenario group to the application-visible summary of its first run
AppSummary(st, sums, sum) ==
    IF st.group \in DOMAIN sums /\ sums[st.group] # sum
    THEN Fail(st, "the application-visible behaviour differs between exporter configurations (C20)") ELSE st
\* an exporter that captures nothing must see nothing; a capturing one must see the connection
EndOfRun(st) ==
    IF st.mode \in {"none", "noop"} /\ st.nev > 0 THEN Fail(st, "events were exported although logging is off")
    ELSE IF st.mode \in {"capture", "raw"} /\ st.nev = 0 THEN Fail(st, "a capturing exporter saw no event at all")
    ELSE st
=============================================================================
