INIT TraceInit
NEXT TraceNext
INVARIANT Inv
PROPERTY PickOnlyPendingOrLost
POSTCONDITION TraceAccepted
CHECK_DEADLOCK FALSE
