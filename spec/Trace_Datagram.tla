--------------------------- MODULE Trace_Datagram ---------------------------
(* implementation -> spec.                                                                        *)
(* (a) component runs: events recorded from the real DatagramFlow / DatagramWriter / DatagramReader *)
(*     and a bounded packet target; every call is validated exactly (result, frame form, padding,   *)
(*     bytes used, payload id/size; payload bytes compared by the harness: data_ok; the packet is    *)
(*     re-parsed with FrameReader: parsed_ok).                                                       *)
(* (b) connection runs: real client + server; csend = DatagramWriter::send on the client, cwire = a  *)
(*     DATAGRAM frame in a packet_sent qlog event of the client, cread = DatagramReader on the       *)
(*     server, final = counts after a generous wait.                                                 *)
EXTENDS Datagram, TLC, Json, IOUtils
VARIABLE l
Rec_ == ndJsonDeserialize(IOEnv.TRACE)
NE == Len(Rec_)
e == Rec_[l]
Ev(name) == l <= NE /\ e.ev = name /\ l' = l + 1

TReset == Ev("reset") /\ Setup(e.lm, e.mp)
TWriter == Ev("writer") /\ NewWriter(e.pm) /\ res'.ret = e.ret
TReader == Ev("reader") /\ NewReader /\ res'.ret = e.ret
TSend == Ev("send") /\ Send(e.size) /\ res'.ret = e.ret
\* the form (with / without length, padding) is the implementation's choice: the logged one must be LEGAL (Pack's guards)
FrameMatches ==
    res'.ret = "ok" =>
        /\ res'.f.size = e.size /\ res'.used = e.used
        /\ (e.size > 0 => res'.f.id = e.id)
        /\ e.data_ok = TRUE /\ e.parsed_ok = TRUE /\ e.nframes = 1
TPack == /\ Ev("pack")
         /\ IF e.ret = "ok" THEN Pack(e.space, e.withlen, e.pad) ELSE Pack(e.space, FALSE, 0)
         /\ res'.ret = e.ret /\ FrameMatches
TLose == Ev("lose") /\ Lose(e.i)
TDeliver == Ev("deliver") /\ Deliver /\ res'.ret = e.ret
TInject == Ev("inject") /\ Inject(e.size, e.withlen) /\ res'.ret = e.ret
TRead == Ev("read") /\ Read /\ res'.ret = e.ret
         /\ (e.ret = "ok" => res'.size = e.size /\ (e.size > 0 => res'.id = e.id) /\ e.data_ok = TRUE)
TConnErr == Ev("connerr") /\ ConnError

\* ---- connection level ----
TCSend == Ev("csend") /\ Send(e.size) /\ res'.ret = e.ret
\* the assembler resolved the remaining space itself: any space that yields the observed form
TCWire == /\ Ev("cwire")
          /\ Pack(IF e.withlen THEN FSize(e.size, TRUE) ELSE e.size + 1, e.withlen, 0)
          /\ res'.ret = "ok" /\ res'.f.size = e.size /\ e.fsize = FSize(e.size, e.withlen)
\* the server application read a datagram: it is one that is in flight; everything sent before it and not
\* read yet was lost (the network of the run only loses, it never reorders)
TCRead == /\ Ev("cread") /\ e.data_ok = TRUE
          /\ \E p \in DOMAIN net :
                /\ net[p].size = e.size /\ (e.size > 0 => net[p].id = e.id)
                /\ \A k \in 1..(p - 1) : ~(net[k].size = e.size /\ (e.size > 0 => net[k].id = e.id))
                /\ net' = SubSeq(net, p + 1, Len(net))
                /\ got' = Append(got, [id |-> net[p].id, size |-> net[p].size])
                /\ res' = [op |-> "cread", ret |-> "ok", id |-> net[p].id, size |-> net[p].size]
          /\ UNCHANGED <<peerMax, localMax, maxPkt, hasWriter, hasReader, err, nextId, acc, queue, wire, rq>>
\* degraded runs (the qlog may hide DATAGRAM frames behind a PADDING/PING entry): no wire events; what the server reads
\* must still be an accepted datagram, later in sending order than everything read before, unchanged
TCReadQ == /\ Ev("creadq") /\ e.data_ok = TRUE
           /\ \E p \in DOMAIN queue :
                /\ queue[p].size = e.size /\ (e.size > 0 => queue[p].id = e.id)
                /\ \A k \in 1..(p - 1) : ~(queue[k].size = e.size /\ (e.size > 0 => queue[k].id = e.id))
                /\ queue' = SubSeq(queue, p + 1, Len(queue))
                /\ wire' = wire \o [k \in 1..p |-> [id |-> queue[k].id, size |-> queue[k].size, withLen |-> FALSE, pad |-> 0, pm |-> peerMax]]
                /\ got' = Append(got, queue[p])
                /\ res' = [op |-> "cread", ret |-> "ok", id |-> queue[p].id, size |-> queue[p].size]
           /\ UNCHANGED <<peerMax, localMax, maxPkt, hasWriter, hasReader, err, nextId, acc, net, rq>>
TCErr == Ev("cerr") /\ ConnError
TFinal == /\ Ev("final") /\ e.accepted = Len(acc) /\ e.delivered = Len(got) /\ (e.claim => e.on_wire = Len(wire))
          /\ res' = [op |-> "final", open |-> ~err /\ e.claim]
          /\ UNCHANGED <<peerMax, localMax, maxPkt, hasWriter, hasReader, err, nextId, acc, queue, wire, net, rq, got>>

\* the run did not get as far as an established connection: nothing to validate
TAbort == /\ Ev("abort") /\ res' = [op |-> "abort"]
          /\ UNCHANGED <<peerMax, localMax, maxPkt, hasWriter, hasReader, err, nextId, acc, queue, wire, net, rq, got>>

\* liveness clause on the recorded run: after the wait on an open, idle (uncongested) connection nothing that
\* fits a packet is still waiting in the queue
\* (the case of a head that fits no packet blocking the rest is deviation D2 and reported under its own name)
HolCase == queue # <<>> /\ ~Fits(Head(queue).size) /\ SomeFits(queue)
AcceptedEventuallyOnWire == (res.op = "final" /\ res.open /\ ~HolCase) => ~SomeFits(queue)
HeadOfLineBlocked == (res.op = "final" /\ res.open) => ~HolCase

\* properties the code is known / suspected not to satisfy are reported without stopping the validation
Soft(name, P) == P \/ PrintT(<<"SOFT_VIOLATION", name, l>>)
SoftFrameWithinPeerMax == Soft("FrameWithinPeerMax", FrameWithinPeerMax)
SoftFullPacketProgress == Soft("FullPacketProgress", FullPacketProgress)
SoftAcceptedNeverKillsPeer == Soft("AcceptedNeverKillsPeer", AcceptedNeverKillsPeer)
SoftAcceptedEventuallyOnWire == Soft("AcceptedEventuallyOnWire", AcceptedEventuallyOnWire)
SoftHeadOfLineBlocked == Soft("HeadOfLineBlocked", HeadOfLineBlocked)

TraceInit == l = 1 /\ Init
TraceNext == TReset \/ TWriter \/ TReader \/ TSend \/ TPack \/ TLose \/ TDeliver \/ TInject \/ TRead \/ TConnErr
             \/ TCSend \/ TCWire \/ TCRead \/ TCReadQ \/ TCErr \/ TFinal \/ TAbort
TraceAccepted ==
    LET d == TLCGet("stats").diameter IN
    IF d - 1 = NE THEN TRUE
    ELSE PrintT(<<"TRACE_REJECTED_AT", d, IF d <= NE THEN Rec_[d] ELSE "eof">>) /\ FALSE
=============================================================================
