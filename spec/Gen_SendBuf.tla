---------------------------- MODULE Gen_SendBuf ----------------------------
(* Behaviour generator (spec -> impl): every input sequence of length Depth   *)
(* over the enabled operations Ops, optionally after a prefill write.         *)
(* Inputs only; what the real SendBuf answers is recorded by the harness and  *)
(* judged by Trace_SendBuf.  Picks use the maximal length so that each input  *)
(* sequence is emitted once; acks / losses name earlier picks by index.       *)
EXTENDS SendBuf, TLC, Json
CONSTANTS MaxBytes, MaxWin, Limits, Flows, Depth, Wins, Prefill, Ops
VARIABLE hist

GenInit ==
    \E m \in Wins :
        IF Prefill = 0
        THEN InitWith(m) /\ hist = << <<"i", m>> >>
        ELSE /\ written = Prefill /\ max = m /\ col = Grow(<<>>, SizeOf(Prefill, m)) /\ base = 0
             /\ picks = <<>> /\ offered = {} /\ res = [op |-> "write"]
             /\ hist = << <<"i", m>>, <<"w", Prefill>> >>

H(x) == hist' = Append(hist, x)
Steps == Len(hist) - (IF Prefill = 0 THEN 1 ELSE 2)

GenNext ==
  /\ Steps < Depth
  /\
    \/ "w" \in Ops /\ \E n \in 1..2 : written + n <= MaxBytes /\ Write(n) /\ H(<<"w", n>>)
    \/ "x" \in Ops /\ \E m \in (max+1)..MaxWin : Extend(m) /\ H(<<"x", m>>)
    \/ "p" \in Ops /\ \E l \in Limits, f \in Flows :
          /\ \/ (Sendable(f) # {} /\ Pick(l, f, PickMaxLen(l, f)))
             \/ PickNothing(l, f)
          /\ H(<<"p", l, f>>)
    \/ "c" \in Ops /\ PickCongested(1) /\ H(<<"p", 0, 1>>)
    \/ "a" \in Ops /\ \E k \in 1..Len(picks) : Ack(k) /\ H(<<"a", k>>)
    \/ "l" \in Ops /\ \E k \in 1..Len(picks) : Loss(k) /\ H(<<"l", k>>)
    \/ "r" \in Ops /\ Resend /\ H(<<"r">>)
    \/ "f" \in Ops /\ Forget /\ H(<<"f">>)

Emit == (Steps = Depth) => PrintT(<<"GEN", ToJson(hist)>>)
=============================================================================
