-------------------------- MODULE Trace_RcvdJournal --------------------------
(* impl -> spec: events recorded from the real ArcRcvdJournal *)
EXTENDS RcvdJournal, TLC, Json, IOUtils
VARIABLE l
Rec_ == ndJsonDeserialize(IOEnv.TRACE)
NE == Len(Rec_)
e == Rec_[l]
Ev(name) == l <= NE /\ e.ev = name /\ l' = l + 1
ToSet(s) == {s[i] : i \in DOMAIN s}

TReset == Ev("reset") /\ Reset
TDecode == Ev("decode") /\ Decode(e.pn) /\ res'.out = e.out
TRcvd == Ev("rcvd") /\ OnRcvd(e.pn, e.el = 1, 3)
TGenAck ==
    /\ Ev("genack")
    /\ GenAck(e.k, e.L, e.delay, e.cap, e.ok, e.ranges)
    /\ e.ok => /\ e.flargest = e.L
               /\ e.size = res'.size        \* encoding_size() agrees with the spec's frame geometry
               /\ e.written = e.size        \* and with the bytes actually written
TOnAck == Ev("onack") /\ OnAck(ToSet(e.acked))
TTick == Ev("tick") /\ Tick(e.d)

TraceInit == l = 1 /\ Init
TraceNext == TReset \/ TDecode \/ TRcvd \/ TGenAck \/ TOnAck \/ TTick
TraceAccepted ==
    LET d == TLCGet("stats").diameter IN
    IF d - 1 = NE THEN TRUE
    ELSE PrintT(<<"TRACE_REJECTED_AT", d, IF d <= NE THEN Rec_[d] ELSE "eof">>) /\ FALSE
=============================================================================
