----------------------------- MODULE WireParams -----------------------------
(* Transport parameters (RFC 9000 §18, RFC 9221, RFC 9287 grease_quic_bit and the repository's client_name;
   qbase/src/param/{core,io,preferred_address}.rs): the sequence of (id, length, value) entries, the role
   legality table (ParameterId::belong_to), value bounds (ParameterId::validate) and the parameters a role
   must send (RequiredParameters).  A malformed blob is TRANSPORT_PARAMETER_ERROR (RFC 9000 §7.4, §18). *)
EXTENDS Wire

\* id -> value type.  "varint" / "duration" values are V8, "bool" is <<>>, the others are byte sequences;
\* "pa" (preferred_address) is its 41+n byte body: ipv4(4) port(2) ipv6(16) port(2) cidLen(1) cid(n) token(16)
PType(id) ==
    CASE id \in {0, 15, 16} -> "cid"
      [] id \in {1, 11} -> "duration"
      [] id = 2 -> "token"
      [] id \in {3, 4, 5, 6, 7, 8, 9, 10, 14, 32} -> "varint"
      [] id \in {12, 10930} -> "bool"
      [] id = 13 -> "pa"
      [] id = 65518 -> "bytes"
KnownIds == <<0, 1, 2, 3, 4, 5, 6, 7, 8, 9, 10, 11, 12, 13, 14, 15, 16, 32, 10930, 65518>>
KnownIdSet == {KnownIds[i] : i \in 1..Len(KnownIds)}
ServerOnly == {0, 2, 13, 16}
ClientOnly == {65518}
\* role = the SENDER of the parameters: "client" | "server" | "remembered" (a server's parameters stored by a client)
Belongs(id, role) == IF role = "client" THEN id \notin ServerOnly ELSE id \notin ClientOnly
Required(role) == CASE role = "client" -> {15} [] role = "server" -> {15, 0} [] OTHER -> {}

\* bounds (ParameterId::validate): max_udp_payload_size 1200..65527, ack_delay_exponent 0..20, active_connection_id_limit >= 2.
\* RFC 9000 also bounds max_ack_delay (< 2^14, §18.2) and initial_max_streams_* (<= 2^60, §4.6); the pinned code does not
\* (that is property C18's business, and a proposed fix adds these bounds), so here both behaviours are legal:
\* `strict` selects the RFC bounds, and a recorded decode has to agree with the strict OR the lenient reference.
InBoundsS(id, v, strict) ==
    CASE id = 3 -> IsSmall(v) /\ ToInt(v) \in 1200..65527
      [] id = 10 -> IsSmall(v) /\ ToInt(v) <= 20
      [] id = 14 -> ~(IsSmall(v) /\ ToInt(v) < 2)
      [] id \in {8, 9} /\ strict -> Leq8(v, <<16, 0, 0, 0, 0, 0, 0, 0>>)
      [] id = 11 /\ strict -> IsSmall(v) /\ ToInt(v) < 16384
      [] OTHER -> TRUE
InBounds(id, v) == InBoundsS(id, v, TRUE)          \* values used for C05 satisfy the strict bounds

PaOk(x) == Len(x) >= 41 /\ x[25] <= 20 /\ Len(x) = 41 + x[25]
ValOk(id, x) ==
    CASE PType(id) \in {"varint", "duration"} -> IsV8(x) /\ Fits62(x) /\ InBounds(id, x)
      [] PType(id) = "bool" -> x = <<>>
      [] PType(id) = "token" -> Len(x) = 16
      [] PType(id) = "cid" -> Len(x) <= 20
      [] PType(id) = "pa" -> PaOk(x)
      [] PType(id) = "bytes" -> TRUE

Body(id, x) == IF PType(id) \in {"varint", "duration"} THEN EncVarint(x) ELSE x
EncodeParam(e) == EncVarint(V8(e.id)) \o EncVarint(V8(Len(Body(e.id, e.val)))) \o Body(e.id, e.val)
\* a parameter set is a sequence of entries [id, val] with distinct ids; the wire order is unspecified
\* (the code iterates a HashMap), so only the multiset of encoded entries is determined
ParamsOk(ps, role) ==
    /\ \A i \in 1..Len(ps) : ps[i].id \in KnownIdSet /\ Belongs(ps[i].id, role) /\ ValOk(ps[i].id, ps[i].val)
    /\ \A i, j \in 1..Len(ps) : i # j => ps[i].id # ps[j].id
    /\ \A r \in Required(role) : \E i \in 1..Len(ps) : ps[i].id = r
EncodeParams(ps) == Cat([i \in 1..Len(ps) |-> EncodeParam(ps[i])])

\* the value of one entry from its length-delimited body; the body must be consumed exactly
DecValue(id, body, strict) ==
    CASE PType(id) \in {"varint", "duration"} ->
            LET r == DecVarint(body) IN
            IF r.ok /\ r.n = Len(body) /\ InBoundsS(id, r.v, strict) THEN [ok |-> TRUE, x |-> r.v] ELSE [ok |-> FALSE]
      [] PType(id) = "bool" -> IF body = <<>> THEN [ok |-> TRUE, x |-> <<>>] ELSE [ok |-> FALSE]
      [] PType(id) = "token" -> IF Len(body) = 16 THEN [ok |-> TRUE, x |-> body] ELSE [ok |-> FALSE]
      [] PType(id) = "cid" -> IF Len(body) <= 20 THEN [ok |-> TRUE, x |-> body] ELSE [ok |-> FALSE]
      [] PType(id) = "pa" -> IF PaOk(body) THEN [ok |-> TRUE, x |-> body] ELSE [ok |-> FALSE]
      [] PType(id) = "bytes" -> [ok |-> TRUE, x |-> body]

\* raw entries: <<[id (V8), body]>> or failure when an id / length / body is truncated
RECURSIVE RawEntries(_, _)
RawEntries(b, acc) ==
    IF b = <<>> THEN [ok |-> TRUE, es |-> acc]
    ELSE LET i == DecVarint(b) IN
         IF ~i.ok THEN [ok |-> FALSE]
         ELSE LET d == DecField(FLPB, Drop(b, i.n)) IN
              IF ~d.ok THEN [ok |-> FALSE]
              ELSE RawEntries(Drop(b, i.n + d.n), Append(acc, [id |-> i.v, body |-> d.x]))

TPE == "TransportParameter"
\* fold the entries in order (a later duplicate overwrites: D8); m is a function id -> value on the ids seen
RECURSIVE Fold(_, _, _, _)
Fold(es, role, m, strict) ==
    IF es = <<>> THEN [ok |-> TRUE, m |-> m]
    ELSE LET e == Head(es) IN
         IF ~(IsSmall(e.id) /\ ToInt(e.id) \in KnownIdSet) THEN Fold(Tail(es), role, m, strict)      \* unknown ids are ignored (RFC 9000 §7.4.2)
         ELSE LET id == ToInt(e.id) IN
              IF ~Belongs(id, role) THEN [ok |-> FALSE]
              ELSE LET v == DecValue(id, e.body, strict) IN
                   IF ~v.ok THEN [ok |-> FALSE]
                   ELSE Fold(Tail(es), role, [k \in DOMAIN m \cup {id} |-> IF k = id THEN v.x ELSE m[k]], strict)

\* Parameters::<Role>::parse_from_bytes: [ok, ps] with ps sorted by id, or TRANSPORT_PARAMETER_ERROR.
\* The error order of the code (first offending entry wins) cannot change the class: every failure is TPE.
Present(m) == SelectSeq(KnownIds, LAMBDA k : k \in DOMAIN m)
DecodeParamsS(b, role, strict) ==
    LET raw == RawEntries(b, <<>>) IN
    \* a truncated tail does not hide an earlier error of another class, because there is only one class
    IF ~raw.ok THEN [ok |-> FALSE, class |-> TPE]
    ELSE LET f == Fold(raw.es, role, <<>>, strict) IN
         IF ~f.ok THEN [ok |-> FALSE, class |-> TPE]
         ELSE IF ~(Required(role) \subseteq DOMAIN f.m) THEN [ok |-> FALSE, class |-> TPE]
         ELSE [ok |-> TRUE, ps |-> [i \in 1..Len(Present(f.m)) |-> [id |-> Present(f.m)[i], val |-> f.m[Present(f.m)[i]]]]]

DecodeParams(b, role) == DecodeParamsS(b, role, TRUE)

(* D8  a repeated parameter is accepted and the last value wins (RFC 9000 §7.4: MUST NOT be sent twice, an endpoint
       SHOULD treat it as TRANSPORT_PARAMETER_ERROR). *)
=============================================================================
