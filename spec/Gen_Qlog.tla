------------------------------ MODULE Gen_Qlog ------------------------------
(* spec -> impl: exporter configurations x workloads x fault classes x close styles, as scenario groups for `vh-sim`;
   all runs of one group differ only in the exporter and must be indistinguishable to the application. *)
EXTENDS Naturals, Sequences, TLC, Json
VARIABLES done
Modes == {"none", "noop", "capture", "filtered", "raw"}
Work == {<<1, 0, 0>>, <<1, 1, 3000>>, <<3, 2, 20000>>, <<2, 0, 70000>>}      \* <<bidi streams, uni streams, bytes>>
Faults == {"none", "loss", "dupflip", "reorder"}
Closes == {"cli_end", "srv_mid"}
Case(m, w, f, cl) == [mode |-> m, bi |-> w[1], uni |-> w[2], size |-> w[3], faults |-> f, close |-> cl]
Cases == {Case(m, w, f, cl) : m \in Modes, w \in Work, f \in Faults, cl \in Closes}
GenInit == done = FALSE
GenNext == ~done /\ done' = TRUE
EmitGen == done => \A cse \in Cases : PrintT(<<"GEN", ToJson(cse)>>)
=============================================================================
