------------------------------- MODULE Hostile -------------------------------
(***************************************************************************)
(* C04 - hostile but well-formed frames cost bounded work and get the      *)
(* RFC's error.                                                            *)
(*                                                                         *)
(* One endpoint is set up by a short LEGITIMATE history and then receives   *)
(* ONE frame whose fields are attacker-chosen 62-bit values.  TLC integers  *)
(* are 32-bit, so the attacker's values are SYMBOLIC BOUNDARY CLASSES       *)
(* relative to the endpoint's state ("the next, not yet sent, packet        *)
(* number", "2^31", "2^62-1", "one more than the advertised limit" ...);     *)
(* the harness instantiates a class to concrete u64 values.                 *)
(*                                                                         *)
(* For every frame kind and class the module states                         *)
(*   Allowed(kind, cls) - the set of outcomes RFC 9000 permits: exactly one  *)
(*       where the property lists the situation (acknowledging packets      *)
(*       never sent, negative packet numbers, exceeding advertised limits,  *)
(*       impossible identifiers), every non-crashing outcome where the      *)
(*       property is silent;                                                *)
(*   an error outcome leaves the state unchanged ("instead of being acted   *)
(*       on");                                                              *)
(*   Work(kind, cls) - the abstract cost of the INTENDED design (records     *)
(*       touched / allocated, frames generated), bounded by                 *)
(*       K * (bytes + held + 1).                                            *)
(* The `focus` selects which component the behaviour exercises; handlers    *)
(* are bound to the code in the order of qconnection/src/space/*.rs.        *)
(***************************************************************************)
EXTENDS Naturals, Sequences, FiniteSets, TLC

CONSTANTS RcLimit,   \* our active_connection_id_limit (ids the peer may keep active with us)
          LcLimit,   \* the peer's active_connection_id_limit (ids we keep issued)
          K          \* work constant

\* limits advertised by the endpoint under test (a server) and by its peer; same numbers as the harness
OurMaxData == 100
OurBidiLocal == 30
OurBidiRemote == 40
OurUni == 50
OurStreams == 2
PeerMaxData == 60
PeerStreams == 1

Spaces == {"initial", "handshake", "data"}
Focuses == {"ack", "pn", "crypto", "rcid", "lcid", "stream"}
Dirs == {"bi", "uni"}

VARIABLES
    focus, space,
    nextPn,      \* next packet number to send in `space` (largest sent + 1)
    unacked,     \* sent packet numbers not yet acknowledged (tracked by the sent journal)
    rcvd,        \* received packet numbers (tracked by the received journal)
    rxNext,      \* next expected packet number
    crxOff,      \* CRYPTO bytes received in order
    rcKnown,     \* remote cids: known, not retired sequence numbers
    rcRpt,       \* largest retire_prior_to received
    rcNext,      \* next sequence number the peer would legitimately use
    lcNext,      \* local cids: next sequence number we would issue
    lcRetired,   \* sequence numbers the peer has retired
    opened,      \* [dir -> number of streams we opened]
    rx,          \* [dir -> bytes received on the peer's first stream of that direction]
    done,        \* the hostile frame has been delivered
    res          \* result of the last action

state == <<nextPn, unacked, rcvd, rxNext, crxOff, rcKnown, rcRpt, rcNext, lcNext, lcRetired, opened, rx>>
vars == <<focus, space, state, done, res>>

Min(S) == CHOOSE x \in S : \A y \in S : x <= y
Max(S) == CHOOSE x \in S : \A y \in S : x >= y
MinN(a, b) == IF a < b THEN a ELSE b
MaxN(a, b) == IF a > b THEN a ELSE b

InitState ==
    /\ nextPn = 0 /\ unacked = {} /\ rcvd = {} /\ rxNext = 0 /\ crxOff = 0
    /\ rcKnown = {0} /\ rcRpt = 0 /\ rcNext = 1
    /\ lcNext = LcLimit /\ lcRetired = {}
    /\ opened = [d \in Dirs |-> 0] /\ rx = [d \in Dirs |-> 0]
    /\ done = FALSE

Start(f, s) == /\ focus = f /\ space = s /\ InitState /\ res = [op |-> "init"]
Init == \E f \in Focuses, s \in Spaces : (f \in {"rcid", "lcid", "stream"} => s = "data") /\ Start(f, s)

Reset(f, s) ==
    /\ focus' = f /\ space' = s
    /\ nextPn' = 0 /\ unacked' = {} /\ rcvd' = {} /\ rxNext' = 0 /\ crxOff' = 0
    /\ rcKnown' = {0} /\ rcRpt' = 0 /\ rcNext' = 1
    /\ lcNext' = LcLimit /\ lcRetired' = {}
    /\ opened' = [d \in Dirs |-> 0] /\ rx' = [d \in Dirs |-> 0]
    /\ done' = FALSE /\ res' = [op |-> "init"]

-----------------------------------------------------------------------------
(* legitimate history *)
Legit(op) == ~done /\ done' = FALSE /\ res' = [op |-> op] /\ UNCHANGED <<focus, space>>

\* send k ack-eliciting packets (NewPacketGuard::build_with_time + cc.on_pkt_sent)
Send(k) ==
    /\ focus = "ack" /\ Legit("send")
    /\ nextPn' = nextPn + k /\ unacked' = unacked \cup (nextPn..(nextPn + k - 1))
    /\ UNCHANGED <<rcvd, rxNext, crxOff, rcKnown, rcRpt, rcNext, lcNext, lcRetired, opened, rx>>
\* send a packet that carries an ACK of what was received (gen_ack_frame_util)
SendAck ==
    /\ focus = "ack" /\ rcvd # {} /\ Legit("sendack")
    /\ nextPn' = nextPn + 1 /\ unacked' = unacked \cup {nextPn}
    /\ UNCHANGED <<rcvd, rxNext, crxOff, rcKnown, rcRpt, rcNext, lcNext, lcRetired, opened, rx>>
\* receive the next packet, or the one after it (decode_pn, on_rcvd_pn, cc.on_pkt_rcvd)
Rcv(skip) ==
    /\ focus \in {"ack", "pn"} /\ Legit(IF skip THEN "rcvskip" ELSE "rcv")
    /\ LET pn == rxNext + (IF skip THEN 1 ELSE 0) IN rcvd' = rcvd \cup {pn} /\ rxNext' = pn + 1
    /\ UNCHANGED <<nextPn, unacked, crxOff, rcKnown, rcRpt, rcNext, lcNext, lcRetired, opened, rx>>
\* a truthful ACK from the peer: everything outstanding, or only the last packet
PeerAck(which) ==
    /\ focus = "ack" /\ unacked # {} /\ Legit("peerack")
    /\ LET hi == nextPn - 1
           lo == IF which = "all" THEN Min(unacked) ELSE hi
       IN unacked' = {p \in unacked : p < lo}
    /\ UNCHANGED <<nextPn, rcvd, rxNext, crxOff, rcKnown, rcRpt, rcNext, lcNext, lcRetired, opened, rx>>
\* in-order CRYPTO data
Crx ==
    /\ focus = "crypto" /\ Legit("crx") /\ crxOff' = crxOff + 10
    /\ UNCHANGED <<nextPn, unacked, rcvd, rxNext, rcKnown, rcRpt, rcNext, lcNext, lcRetired, opened, rx>>
\* the peer issues its next connection id, keeping the old ones (only while that respects our limit) or retiring them
NewCid(mode) ==
    /\ focus = "rcid" /\ Legit("newcid")
    /\ mode = "keep" => Cardinality(rcKnown) < RcLimit
    /\ IF mode = "keep" THEN rcKnown' = rcKnown \cup {rcNext} /\ rcRpt' = rcRpt
       ELSE rcKnown' = {rcNext} /\ rcRpt' = rcNext
    /\ rcNext' = rcNext + 1
    /\ UNCHANGED <<nextPn, unacked, rcvd, rxNext, crxOff, lcNext, lcRetired, opened, rx>>
\* the peer retires our lowest active connection id; we issue a replacement
Retire ==
    /\ focus = "lcid" /\ Legit("retire")
    /\ lcRetired' = lcRetired \cup {Min((0..(lcNext - 1)) \ lcRetired)} /\ lcNext' = lcNext + 1
    /\ UNCHANGED <<nextPn, unacked, rcvd, rxNext, crxOff, rcKnown, rcRpt, rcNext, opened, rx>>
\* we open a stream (within the peer's limit); the peer sends 10 in-order bytes on its first stream of a direction
Open(d) ==
    /\ focus = "stream" /\ opened[d] < PeerStreams /\ Legit("open")
    /\ opened' = [opened EXCEPT ![d] = @ + 1]
    /\ UNCHANGED <<nextPn, unacked, rcvd, rxNext, crxOff, rcKnown, rcRpt, rcNext, lcNext, lcRetired, rx>>
Rx(d) ==
    /\ focus = "stream" /\ rx[d] < 20 /\ Legit("rx")
    /\ rx' = [rx EXCEPT ![d] = @ + 10]
    /\ UNCHANGED <<nextPn, unacked, rcvd, rxNext, crxOff, rcKnown, rcRpt, rcNext, lcNext, lcRetired, opened>>

-----------------------------------------------------------------------------
(* outcomes *)
OK == "ok"
PV == "err:ProtocolViolation"
FE == "err:FrameEncoding"
CIL == "err:ConnectionIdLimit"
FC == "err:FlowControl"
SL == "err:StreamLimit"
SS == "err:StreamState"
FS == "err:FinalSize"
CBE == "err:CryptoBufferExceeded"
Errors == {PV, FE, CIL, FC, SL, SS, FS, CBE}
Drops == {"drop:TooOld", "drop:TooLarge", "drop:Duplicate"}
\* the property is silent: anything but a crash, a hang or a blow-up
AnyOutcome == {OK} \cup Errors \cup Drops
\* never allowed: "panic", "timeout", "abort", "abort:alloc"

NoCls == [a |-> "-", b |-> "-", c |-> "-", d |-> "-"]
C1(a) == [NoCls EXCEPT !.a = a]
C2(a, b) == [NoCls EXCEPT !.a = a, !.b = b]
C3(a, b, c) == [NoCls EXCEPT !.a = a, !.b = b, !.c = c]

(* ---- ACK (all three spaces) ---------------------------------------------------------------- *)
\* a: Largest Acknowledged   old  = 0, already acknowledged          mid   = oldest outstanding
\*                           last = largest sent                     next  = next pn (never sent)
\*                           next1 = next pn + 1      p31 = 2^31     max   = 2^62-1
\* b: First ACK Range        zero | all (= largest: down to 0) | neg (= largest+1: negative pn) | huge (2^62-1)
\* c: additional ranges      r0 | r1 | r3, each with length 0 and   d: gap  small (0) | huge (2^62-1)
AckL == {"old", "mid", "last", "next", "next1", "p31", "max"}
AckF == {"zero", "all", "neg", "huge"}
AckR == {"r0", "r1", "r3"}
AckG == {"small", "huge"}
AckClasses == {[a |-> a, b |-> b, c |-> "r0", d |-> "-"] : a \in AckL, b \in AckF}
              \cup {[a |-> a, b |-> b, c |-> c, d |-> d] : a \in AckL, b \in AckF, c \in {"r1", "r3"}, d \in AckG}
LBig(a) == a \in {"p31", "max"}
LVal(a) == CASE a = "old" -> 0 [] a = "mid" -> Min(unacked) [] a = "last" -> nextPn - 1
             [] a = "next" -> nextPn [] a = "next1" -> nextPn + 1 [] OTHER -> 0
NExtra(c) == CASE c = "r0" -> 0 [] c = "r1" -> 1 [] c = "r3" -> 3
AckEnabled(cls) ==
    /\ cls.a = "old" => (nextPn > 0 /\ 0 \notin unacked)
    /\ cls.a = "mid" => unacked # {}
    /\ cls.a = "last" => nextPn >= 1
    /\ cls.b \in {"neg", "huge"} => cls.a # "max"
\* acknowledges a packet that was never sent (RFC 9000 13.1: PROTOCOL_VIOLATION)
AckOfUnsent(cls) == LBig(cls.a) \/ LVal(cls.a) >= nextPn
\* some computed packet number is negative (RFC 9000 19.3.1: FRAME_ENCODING_ERROR)
AckNegative(cls) ==
    \/ cls.b \in {"neg", "huge"}
    \/ /\ cls.c # "r0"
       /\ \/ cls.d = "huge"
          \/ cls.b = "all"                                         \* first range reaches 0: no room below
          \/ ~LBig(cls.a) /\ LVal(cls.a) < 2 * NExtra(cls.c)        \* each extra range needs gap+2 numbers
AckAllowed(cls) ==
    IF AckOfUnsent(cls) /\ AckNegative(cls) THEN {PV, FE}
    ELSE IF AckOfUnsent(cls) THEN {PV}
    ELSE IF AckNegative(cls) THEN {FE}
    ELSE {OK}
\* packet numbers a valid ACK covers
AckCovered(cls) ==
    LET L == LVal(cls.a)
        lo == IF cls.b = "all" THEN 0 ELSE L
    IN (lo..L) \cup {L - 2 * i : i \in 1..NExtra(cls.c)}
\* intended cost: one step per range plus one per tracked record it touches
AckWork(cls) == 1 + NExtra(cls.c) + Cardinality(unacked) + Cardinality(rcvd)

(* ---- packet number jumps (all three spaces) ------------------------------------------------ *)
PnClasses == {C1(a) : a \in {"next", "p20", "p31m"}}       \* expected, expected + 2^20, expected + 2^31 - 1

(* ---- CRYPTO (all three spaces) ------------------------------------------------------------- *)
\* offset: dup (0, already received) | next | gap (+100) | p31 | p61m (2^61-1) | p62m (2^62-6, end = 2^62-1) | over (end > 2^62-1)
CryptoClasses == {C1(a) : a \in {"dup", "next", "gap", "p31", "p61m", "p62m", "over"}}
CryptoEnabled(cls) == cls.a = "dup" => crxOff >= 5
CryptoAllowed(cls) == IF cls.a = "over" THEN {FE, CBE} ELSE AnyOutcome

(* ---- NEW_CONNECTION_ID --------------------------------------------------------------------- *)
\* a: sequence   dup (largest known) | next | skip (next+1) | p31 | max
\* b: retire prior to   cur (unchanged) | seq (= sequence) | seqm1 (= sequence - 1)
NewCidClasses == {C2(a, b) : a \in {"dup", "next", "skip", "p31", "max"}, b \in {"cur", "seq", "seqm1"}}
NcSeq(a) == CASE a = "dup" -> Max(rcKnown) [] a = "next" -> rcNext [] a = "skip" -> rcNext + 1 [] OTHER -> 0
NcBig(a) == a \in {"p31", "max"}
NewCidEnabled(cls) == (cls.b = "seqm1" /\ ~NcBig(cls.a)) => NcSeq(cls.a) >= 1
\* active ids after the frame, as RFC 9000 5.1.1 counts them (ids we know and have not been told to retire)
NcActiveAfter(cls) ==
    IF NcBig(cls.a) THEN (IF cls.b = "cur" THEN Cardinality(rcKnown) + 1 ELSE 1)
    ELSE LET s == NcSeq(cls.a)
             rpt == CASE cls.b = "cur" -> rcRpt [] cls.b = "seq" -> s [] cls.b = "seqm1" -> s - 1
         IN Cardinality({x \in rcKnown \cup {s} : x >= MaxN(rpt, rcRpt)})
NewCidAllowed(cls) ==
    IF cls.a = "dup" THEN (IF cls.b = "cur" THEN {OK} ELSE AnyOutcome)
    ELSE IF NcActiveAfter(cls) > RcLimit + 1 THEN {CIL}
    ELSE IF NcActiveAfter(cls) = RcLimit + 1
         \* exceeds by exactly one.  With consecutive numbers the code accepts it: known finding of C14
         \* (RemoteCids off by one); C04 does not report it a second time.
         THEN (IF cls.a = "next" THEN {OK, CIL} ELSE {CIL})
    \* within the limit: acceptable; a far jump of the sequence number may also be refused (RFC 9000 5.1.2 MAY)
    ELSE IF NcBig(cls.a) THEN {OK, CIL} ELSE {OK}
NewCidWork(cls) == 1 + Cardinality(rcKnown)

(* ---- RETIRE_CONNECTION_ID ------------------------------------------------------------------ *)
\* a: active (lowest active) | retired | next (never issued) | p31 | max
RetireClasses == {C1(a) : a \in {"active", "retired", "next", "p31", "max"}}
RetireEnabled(cls) == cls.a = "retired" => lcRetired # {}
\* RFC 9000 19.16: a sequence number greater than any previously sent MUST be PROTOCOL_VIOLATION
RetireAllowed(cls) == IF cls.a \in {"active", "retired"} THEN {OK} ELSE {PV}

(* ---- stream and flow-control frames (data space; the endpoint is a server) ------------------ *)
\* stream id classes: the peer's first bidirectional / unidirectional stream, a stream we opened, the next stream
\* we have NOT yet opened, a peer stream beyond the stream count we advertised (index limit+1: index = limit is the
\* off-by-one recorded under C12), the largest encodable index.
SidClasses == {"peer_bi", "peer_uni", "local_bi_open", "local_uni_open", "local_bi_unopened", "local_uni_unopened",
               "beyond_bi", "beyond_uni", "huge_bi"}
SidEnabled(s) == /\ s = "local_bi_open" => opened["bi"] >= 1
                 /\ s = "local_uni_open" => opened["uni"] >= 1
\* errors for a frame sent by the SENDING side of the stream (STREAM, RESET_STREAM)
SidErrSender(s) ==
    CASE s \in {"peer_bi", "peer_uni", "local_bi_open"} -> {}
      [] s \in {"local_uni_open", "local_bi_unopened", "local_uni_unopened"} -> {SS}   \* RFC 9000 19.8 / 19.4
      [] s \in {"beyond_bi", "beyond_uni", "huge_bi"} -> {SL}                           \* RFC 9000 4.6
\* errors for a frame sent by the RECEIVING side of the stream (MAX_STREAM_DATA, STOP_SENDING)
SidErrRecver(s) ==
    CASE s \in {"peer_bi", "local_bi_open", "local_uni_open"} -> {}
      [] s \in {"peer_uni", "local_bi_unopened", "local_uni_unopened"} -> {SS}          \* RFC 9000 19.10 / 19.5
      [] s \in {"beyond_bi", "huge_bi"} -> {SL}
      [] s = "beyond_uni" -> {SS, SL}
SidLimit(s) == CASE s \in {"peer_uni", "beyond_uni"} -> OurUni
                 [] s \in {"local_bi_open", "local_bi_unopened"} -> OurBidiLocal
                 [] OTHER -> OurBidiRemote
SidGot(s) == CASE s = "peer_bi" -> rx["bi"] [] s = "peer_uni" -> rx["uni"] [] OTHER -> 0
Outcome(errs) == IF errs = {} THEN {OK} ELSE errs

MaxDataClasses == {C1(a) : a \in {"lower", "equal", "higher", "max"}}
MaxStreamsClasses == {C2(d, b) : d \in Dirs, b \in {"lower", "equal", "higher", "p60m", "p60", "over60", "max"}}
\* RFC 9000 19.11: a count above 2^60 MUST be FRAME_ENCODING_ERROR.  The code's bound is 2^60-1 (sid::MAX_STREAMS_LIMIT), so it
\* refuses the valid value 2^60 itself; refusing a valid frame is not C04's subject: both outcomes are accepted for p60.
MaxStreamsAllowed(cls) == IF cls.b \in {"over60", "max"} THEN {FE} ELSE IF cls.b = "p60" THEN {OK, FE} ELSE {OK}
MaxStreamsVal(b) == CASE b = "lower" -> 0 [] b = "equal" -> PeerStreams [] b = "higher" -> PeerStreams + 2 [] OTHER -> 1000
MaxStreamDataClasses == {C2(s, b) : s \in SidClasses, b \in {"lower", "higher", "max"}}
\* offset classes (5 bytes): inwin | atlimit (ends at the limit) | overlimit (+1) | p31 | endmax (ends at 2^62-1) | overmax
StreamClasses == {C3(s, b, c) : s \in SidClasses, b \in {"inwin", "atlimit", "overlimit", "p31", "endmax", "overmax"},
                                c \in {"fin", "nofin"}}
OffErr(b) == CASE b \in {"inwin", "atlimit"} -> {} [] b \in {"overlimit", "p31", "endmax"} -> {FC} [] b = "overmax" -> {FE, FC}
\* final size classes: exact | below (FINAL_SIZE_ERROR) | atlimit | overlimit | max
ResetClasses == {C2(s, b) : s \in SidClasses, b \in {"exact", "below", "atlimit", "overlimit", "max"}}
ResetEnabled(cls) == cls.b = "below" => SidGot(cls.a) >= 1
FinalErr(b) == CASE b \in {"exact", "atlimit"} -> {} [] b = "below" -> {FS} [] b \in {"overlimit", "max"} -> {FC}
StopClasses == {C1(s) : s \in SidClasses}

-----------------------------------------------------------------------------
Kinds == {"ack", "pnjump", "crypto", "newcid", "retirecid", "maxdata", "maxstreams", "maxstreamdata", "stream", "reset", "stop"}
KindFocus(k) == CASE k = "ack" -> "ack" [] k = "pnjump" -> "pn" [] k = "crypto" -> "crypto" [] k = "newcid" -> "rcid"
                  [] k = "retirecid" -> "lcid" [] OTHER -> "stream"
Classes(k) == CASE k = "ack" -> AckClasses [] k = "pnjump" -> PnClasses [] k = "crypto" -> CryptoClasses
                [] k = "newcid" -> NewCidClasses [] k = "retirecid" -> RetireClasses [] k = "maxdata" -> MaxDataClasses
                [] k = "maxstreams" -> MaxStreamsClasses [] k = "maxstreamdata" -> MaxStreamDataClasses
                [] k = "stream" -> StreamClasses [] k = "reset" -> ResetClasses [] k = "stop" -> StopClasses
Enabled(k, cls) ==
    /\ focus = KindFocus(k)
    /\ CASE k = "ack" -> AckEnabled(cls) [] k = "crypto" -> CryptoEnabled(cls) [] k = "newcid" -> NewCidEnabled(cls)
         [] k = "retirecid" -> RetireEnabled(cls)
         [] k \in {"maxstreamdata", "stream", "stop"} -> SidEnabled(cls.a)
         [] k = "reset" -> SidEnabled(cls.a) /\ ResetEnabled(cls)
         [] OTHER -> TRUE
Allowed(k, cls) ==
    CASE k = "ack" -> AckAllowed(cls)
      [] k = "pnjump" -> AnyOutcome
      [] k = "crypto" -> CryptoAllowed(cls)
      [] k = "newcid" -> NewCidAllowed(cls)
      [] k = "retirecid" -> RetireAllowed(cls)
      [] k = "maxdata" -> {OK}                               \* MAX_* only raise: lower values are ignored, not errors
      [] k = "maxstreams" -> MaxStreamsAllowed(cls)
      [] k = "maxstreamdata" -> Outcome(SidErrRecver(cls.a))
      [] k = "stream" -> Outcome(SidErrSender(cls.a) \cup OffErr(cls.b))
      \* RFC 9000 has no explicit MUST for RESET_STREAM on a locally initiated stream that does not exist yet
      [] k = "reset" -> IF cls.a = "local_bi_unopened" THEN {OK, SS} \cup FinalErr(cls.b)
                        ELSE Outcome(SidErrSender(cls.a) \cup FinalErr(cls.b))
      [] k = "stop" -> Outcome(SidErrRecver(cls.a))
\* Classes where the property is silent (or the only question is whether a VALID frame is refused): the specification accepts
\* acceptance as well as refusal.  Everywhere else the property lists the situation: exactly the prescribed outcome(s),
\* never a mixture of accept and reject.
Lenient(k, cls) ==
    \/ k = "pnjump"
    \/ k = "crypto" /\ cls.a # "over"
    \/ k = "newcid" /\ cls.a = "dup" /\ cls.b # "cur"
    \/ k = "newcid" /\ cls.a = "next" /\ NcActiveAfter(cls) = RcLimit + 1
    \/ k = "newcid" /\ NcBig(cls.a) /\ NcActiveAfter(cls) <= RcLimit
    \/ k = "maxstreams" /\ cls.b = "p60"
    \/ k = "reset" /\ cls.a = "local_bi_unopened"
Strict(k, cls) == ~Lenient(k, cls)

\* size of the state the endpoint holds for the component under attack (records)
Held == CASE focus \in {"ack", "pn"} -> nextPn + Cardinality(rcvd)
          [] focus = "crypto" -> crxOff \div 10
          [] focus = "rcid" -> Cardinality(rcKnown)
          [] focus = "lcid" -> lcNext - Cardinality(lcRetired)
          [] focus = "stream" -> opened["bi"] + opened["uni"] + 2 * OurStreams
\* smallest encoding of a frame of the kind (bytes)
MinBytes(k) == CASE k = "pnjump" -> 4 [] k = "newcid" -> 28 [] k \in {"ack", "stream", "crypto"} -> 5 [] OTHER -> 2
Work(k, cls) == CASE k = "ack" -> AckWork(cls)
                  [] k = "newcid" -> NewCidWork(cls)
                  [] k \in {"maxstreamdata", "stream", "reset", "stop"} -> 1 + OurStreams    \* implicit opening up to the limit we advertised
                  [] OTHER -> 1

\* The hostile frame.  `out` is the outcome (chosen from Allowed in the model, observed on a trace).
Hostile(k, cls, out) ==
    /\ ~done /\ Enabled(k, cls) /\ done' = TRUE
    /\ res' = [op |-> "hostile", kind |-> k, cls |-> cls, allowed |-> Allowed(k, cls), strict |-> Strict(k, cls), out |-> out,
               work |-> Work(k, cls), held |-> Held, minbytes |-> MinBytes(k),
               unackedAfter |-> IF k = "ack" /\ out = OK /\ Allowed(k, cls) = {OK} THEN Cardinality(unacked \ AckCovered(cls))
                                ELSE Cardinality(unacked),
               canOpen |-> [d \in Dirs |-> IF k = "maxstreams" /\ out = OK /\ cls.a = d
                                           THEN MinN(6, MaxN(PeerStreams, MaxStreamsVal(cls.b)) - opened[d])
                                           ELSE PeerStreams - opened[d]],
               avail |-> IF k = "maxdata" /\ out = OK /\ cls.a = "higher" THEN PeerMaxData + 10 ELSE PeerMaxData]
    \* an error is not acted on; an accepted ACK takes effect (later effects are not needed: the behaviour ends here)
    /\ unacked' = IF k = "ack" /\ out = OK /\ Allowed(k, cls) = {OK} THEN unacked \ AckCovered(cls) ELSE unacked
    /\ UNCHANGED <<focus, space, nextPn, rcvd, rxNext, crxOff, rcKnown, rcRpt, rcNext, lcNext, lcRetired, opened, rx>>

-----------------------------------------------------------------------------
(* what TLC checks on the specification itself *)
TypeOK == /\ focus \in Focuses /\ space \in Spaces /\ unacked \subseteq 0..(nextPn - 1) /\ done \in BOOLEAN
          /\ rcKnown # {} /\ \A x \in rcKnown : x >= rcRpt /\ x < rcNext
          /\ lcRetired \subseteq 0..(lcNext - 1)
\* the legitimate history respects every limit (so the hostile frame is the only thing that does not)
LegitWithinLimits == /\ Cardinality(rcKnown) <= RcLimit /\ lcNext - Cardinality(lcRetired) = LcLimit
                     /\ \A d \in Dirs : opened[d] <= PeerStreams /\ rx[d] <= 20
\* total and consistent: every enabled class has an outcome; where the property prescribes, it is never "accept or reject"
Total == \A k \in Kinds : \A cls \in Classes(k) : Enabled(k, cls) =>
            /\ Allowed(k, cls) # {} /\ Allowed(k, cls) \subseteq AnyOutcome
            /\ Strict(k, cls) => (Allowed(k, cls) = {OK} \/ OK \notin Allowed(k, cls))
            /\ Lenient(k, cls) => OK \in Allowed(k, cls)
\* the abstract cost of the intended design is bounded by the bytes received and the state held
WorkBounded == res.op = "hostile" => res.work <= K * (res.minbytes + res.held + 1)
\* acknowledging a packet never sent is always PROTOCOL_VIOLATION (possibly FRAME_ENCODING_ERROR if also malformed)
AckOfUnsentRejected == \A cls \in AckClasses : (focus = "ack" /\ AckEnabled(cls) /\ AckOfUnsent(cls)) =>
                           (OK \notin AckAllowed(cls) /\ PV \in AckAllowed(cls))
\* (the class table depends only on the pre-hostile state)
Inv == TypeOK /\ LegitWithinLimits /\ WorkBounded /\ (done \/ (Total /\ AckOfUnsentRejected))
\* the part that depends on the state reached (evaluated on every step of a recorded trace)
TraceInv == TypeOK /\ LegitWithinLimits /\ WorkBounded
\* an error outcome changes nothing ("instead of being acted on")
NoChangeOnError == [][(res'.op = "hostile" /\ res'.out # OK) => UNCHANGED state]_vars
=============================================================================
