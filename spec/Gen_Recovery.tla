---------------------------- MODULE Gen_Recovery ----------------------------
(* spec -> impl: ENVIRONMENT schedules for the real ArcCC.  TLC walks the design (so that packet numbers, discarded  *)
(* spaces, grants and the design's own deadlines are known) and emits only the environment's choices: sends (space,    *)
(* size, flags), sends out of a granted quota, bursts, ACK frames (packet-number sets, delay, ECN-CE), clock advances   *)
(* (fixed steps, and exactly to / just past the design's armed deadline), ticks, quota requests, discards, phases.      *)
(* What the real controller answers is recorded by the harness and judged by Trace_Recovery.  Every state of the walk   *)
(* is also checked against the properties (the design is checked on these real-size schedules too).                     *)
EXTENDS Recovery, Sequences, Json
CONSTANTS Depth, MaxPk, GSizes, GDts, GDelays, GCes, GSpaces, GFlagSet, Roles, Ops, BurstMode,
          Script,    \* <<>> or, per step, the set of operations allowed at that step (all-paths profiles)
          Start      \* "fresh": handshake not started; "est": after the handshake (the prefix of every schedule performs it)
VARIABLE hist

ScriptNone == <<>>
\* three sends, a pause, one ACK frame, the deadline handling, a quota request
ScriptCc == <<{"send"}, {"send"}, {"send"}, {"adv"}, {"ack"}, {"tick"}, {"quota"}>>
ScriptCc2 == <<{"send"}, {"send"}, {"send"}, {"adv"}, {"ack"}, {"adv"}, {"tick", "ack"}, {"quota"}>>
\* handshake: a phase, sends in any space, a pause, then a tick / ACK / discard, and the deadline handling
ScriptHs == <<{"phase"}, {"send"}, {"send", "phase"}, {"adv"}, {"tick", "acktop", "discard"}, {"tick"}>>
ScriptHs2 == <<{"phase"}, {"send"}, {"send", "phase"}, {"adv"}, {"tick", "acktop", "discard", "send"}, {"adv"}, {"tick"}>>
\* four packets, then two rounds of ACK frames / pauses, then the deadline handling or another ACK frame
ScriptLoss == <<{"send"}, {"send"}, {"send"}, {"send"}, {"ack"}, {"ack", "adv"}, {"tick", "ack"}>>
ScriptLoss2 == <<{"send"}, {"send"}, {"send"}, {"send"}, {"ack"}, {"ack", "adv"}, {"tick", "ack"}, {"adv"}, {"tick"}>>
\* consecutive probe timeouts: pauses only up to / just past the armed deadline
ScriptPto == <<{"phase"}, {"send"}, {"adv"}, {"tick"}, {"adv"}, {"tick"}, {"adv"}, {"tick"}>>
ScriptPto2 == <<{"phase"}, {"send"}, {"adv"}, {"tick"}, {"adv"}, {"tick"}, {"adv"}, {"tick"}, {"adv"}, {"tick"}>>
AllFlags == <<<<TRUE, TRUE>>, <<FALSE, TRUE>>, <<FALSE, FALSE>>>>
Flags == {AllFlags[k] : k \in GFlagSet}
B(x) == IF x THEN 1 ELSE 0
H(x) == hist' = Append(hist, x)
SetToSeq(S) == LET n == Cardinality(S)
                   RECURSIVE F(_)
                   F(T) == IF T = {} THEN <<>> ELSE LET m == SetMin(T) IN <<m>> \o F(T \ {m})
               IN F(S)
TopN(sp, n) == {i \in DOMAIN pk[sp] : i + n >= N(pk, sp)}

Pre(server) ==
    IF Start = "fresh" THEN << <<"cfg", B(server)>> >>
    ELSE << <<"cfg", B(server)>>, <<"phase", "grant">>, <<"phase", "hskey">> >>
         \o (IF server THEN <<>> ELSE << <<"phase", "hsack">> >>)
         \o << <<"phase", "conf">>, <<"discard", 1>>, <<"discard", 2>> >>
GenInit == /\ now = 0
           /\ pk = [sp \in Spaces |-> <<>>] /\ la = [sp \in Spaces |-> NONE] /\ ceSeen = [sp \in Spaces |-> 0]
           /\ \E s \in Roles :
                /\ ph = IF Start = "fresh"
                        THEN [server |-> s, hsKey |-> FALSE, hsAck |-> FALSE, conf |-> FALSE, amp |-> TRUE, gone |-> {}]
                        ELSE [server |-> s, hsKey |-> TRUE, hsAck |-> ~s, conf |-> TRUE, amp |-> FALSE, gone |-> {1, 2}]
                /\ hist = Pre(s)
           /\ c = D_Init
           /\ last = [act |-> "init"]
           /\ shrinkAt = NONE /\ probes = 0 /\ ptoPrev = NoPto /\ grant = 0 /\ dead = FALSE
Steps == Len(hist) - Len(Pre(ph.server))
InBurst == BurstMode /\ grant >= Mtu
Allowed(op) == op \in Ops /\ (Script = <<>> \/ (Steps + 1 <= Len(Script) /\ op \in Script[Steps + 1]))

GenNext ==
  /\ Steps < Depth
  /\ \/ /\ Allowed("send") /\ ~InBurst
        /\ \E sp \in GSpaces \ ph.gone, sz \in GSizes, f \in Flags :
             /\ N(pk, sp) < MaxPk
             /\ Send(sp, sz, f[1], f[2], FALSE, D_Send(sp, sz, f[1], f[2]))
             /\ H(<<"send", sp, sz, B(f[1]), B(f[2])>>)
     \/ /\ Allowed("gsend") /\ grant >= Mtu
        /\ \E sp \in GSpaces \ ph.gone :
             /\ N(pk, sp) < MaxPk
             /\ Send(sp, Mtu, TRUE, TRUE, TRUE, D_Send(sp, Mtu, TRUE, TRUE))
             /\ H(<<"gsend", sp>>)
     \/ /\ Allowed("burst") /\ ~InBurst
        /\ \E sp \in GSpaces \ ph.gone, k \in {4, 12} : Quota([D_Quota EXCEPT !.q = 0]) /\ H(<<"burst", sp, k>>)
     \/ /\ Allowed("quota") /\ ~InBurst /\ Quota(D_Quota) /\ H(<<"quota">>)
     \/ /\ Allowed("ack") /\ ~InBurst
        /\ \E sp \in GSpaces \ ph.gone : \E S \in SUBSET (DOMAIN pk[sp]) \ {{}} : \E d \in GDelays, ce \in {NONE} \cup GCes :
             /\ AckRcvd(sp, S, d, ce, D_Ack(sp, S, d, ce))
             /\ H(<<"ack", sp, SetToSeq(S), d, ce>>)
     \/ /\ Allowed("acktop") /\ ~InBurst
        /\ \E sp \in GSpaces \ ph.gone, n \in {1, 3, 100}, d \in GDelays :
             /\ N(pk, sp) > 0
             /\ AckRcvd(sp, TopN(sp, n), d, NONE, D_Ack(sp, TopN(sp, n), d, NONE))
             /\ H(<<"acktop", sp, n, d>>)
     \/ /\ Allowed("adv")
        /\ \E dt \in GDts \cup (IF c.timer # NONE /\ c.timer >= now THEN {c.timer - now, c.timer - now + 1, c.timer - now + MaxAckDelay + Gran + 1} \ {0} ELSE {}) :
             Advance(dt) /\ H(<<"adv", dt>>)
     \/ /\ Allowed("tick") /\ ~InBurst /\ Tick(D_Tick) /\ H(<<"tick">>)
     \/ /\ Allowed("discard") /\ ~InBurst
        /\ \E sp \in {1, 2} \ ph.gone : Discard(sp, D_DiscardCall(sp)) /\ H(<<"discard", sp>>)
     \/ /\ Allowed("phase") /\ ~InBurst
        /\ \E w \in {"hskey", "hsack", "conf", "grant", "limit"} :
             /\ CASE w = "hskey" -> ~ph.hsKey
                  [] w = "hsack" -> ~ph.hsAck /\ ~ph.server
                  [] w = "conf"  -> ~ph.conf
                  [] w = "grant" -> ph.amp
                  [] w = "limit" -> ~ph.amp /\ ph.server
             /\ Phase(w, D_Same) /\ H(<<"phase", w>>)

Emit == (Steps = Depth) => PrintT(<<"GEN", ToJson(hist)>>)
GenInv == Inv /\ GrantedSendWithinWindow
=============================================================================
