------------------------------ MODULE Gen_Wire ------------------------------
(* spec -> implementation.  Emits, one JSON object per line,
     EmitVals    the abstract values of C05 with the size the spec computes (the harness builds the Rust value,
                 encodes and decodes it with the real codecs; Trace_Wire recomputes bytes and size from the value)
     EmitStrings the C03 inputs (i): every payload string  head ++ s,  s over the reduced alphabet, |s| <= L
     EmitMut     the C03 inputs (ii): every truncation and single-byte substitution of the valid encodings of the
                 C05 values with small byte fields (frames per packet type, datagrams, transport parameters)
   The generator is a one-state specification; the enumeration is TLC's evaluation of the set expressions. *)
EXTENDS WireVals, Json
CONSTANTS L, Quick         \* Quick: the reduced C03 input sets of the quick tier
VARIABLE z
GenInit == z = 0
GenNext == UNCHANGED z

Out(x) == PrintT(<<"GEN", ToJson(x)>>)

WithSize(v) ==
    CASE v.c = "frame" -> [c |-> "frame", t |-> v.t, x |-> v.x, size |-> Size(v), max |-> MaxSize(v), kind |-> TypeName(v.t), pts |-> Permitted(v.t)]
      [] v.c = "hdr" -> [c |-> "hdr", h |-> v.h, size |-> IF HasSize(v.h.k) THEN HdrSize(v.h) ELSE Len(EncodeHeader(v.h))]
      [] v.c = "prim" -> [c |-> "prim", p |-> v.p, x |-> v.x, size |-> FieldSize(PrimDesc(v.p), v.x)]
      [] v.c = "params" -> [c |-> "params", role |-> v.role, ps |-> v.ps, size |-> Len(EncodeParams(v.ps))]
EmitVals == z = 0 => \A v \in C05Vals : Out(WithSize(v))

\* ---- C03 (i)
EmitStrings == z = 0 => \A s \in PayloadStrings(L) : Out([c |-> "in_frame", b |-> s])
MutHead == IF Quick THEN 12 ELSE 24

\* ---- C03 (ii)
Small(fr) == \A i \in 1..Len(fr.x) : Layout(fr.t)[i][1] \in {"lpb", "rest"} => Len(fr.x[i]) <= 64
MutAlphabet == IF Quick THEN {0, 21, 64, 128, 192, 255} ELSE Alphabet \cup CidBytes
\* one representative of each frame kind x flag x width class is enough for the substitutions: the C05 values whose
\* varint fields all sit at the same boundary, plus the rejected-by-construction values
Diag(fr) == \A i, j \in 1..Len(fr.x) : (Layout(fr.t)[i][1] = "v" /\ Layout(fr.t)[j][1] = "v") => fr.x[i] = fr.x[j]
MutFrames(u) == { fr \in FrameVals : Small(fr) /\ (Diag(fr) \/ (~Quick /\ fr.t \in {2, 3, 24, 28})) } \cup RejectedFrameVals
\* (nested quantifiers instead of one big UNION: TLC would sort ~10^6 sequences to normalise the union; duplicates are
\*  removed by the collector)
EmitFrameMut == z = 0 => \A fr \in MutFrames(z) : \A s \in Mutations(EncodeFrame(fr), MutAlphabet, MutHead) \cup {EncodeFrame(fr)} :
                             Out([c |-> "in_frame", b |-> s])

\* datagrams: every header kind with Length and a 20 / 21 byte payload; mutated; and pairs coalesced
Pkt(h, n) ==
    EncodeHeader(h) \o (IF h.k \in {"initial", "zero_rtt", "handshake"} THEN EncVarint(V8(n)) ELSE <<>>)
    \o (IF h.k \in {"vn", "retry"} THEN <<>> ELSE [i \in 1..n |-> (i * 5) % 256])
SmallHdrs(u) == { v.h : v \in { w \in HdrVals : /\ Len(w.h.tok) <= (IF Quick THEN 1 ELSE 64)
                                                   /\ Len(w.h.dcid) \in (IF Quick THEN {0, 8} ELSE {0, 8, 20})
                                                   /\ Len(w.h.scid) \in (IF Quick THEN {0, 8} ELSE {0, 8}) } }
Datagrams(u) ==
    { Pkt(h, n) : h \in SmallHdrs(u), n \in {0, 19, 20, 21} }
    \cup { Pkt(h, 20) \o Pkt(g, 22) : h \in { x \in SmallHdrs(u) : x.k \in {"initial", "handshake"} /\ Len(x.tok) <= 1 /\ Len(x.dcid) = 8 /\ Len(x.scid) = 8 },
                                      g \in { x \in SmallHdrs(u) : Len(x.tok) <= 1 /\ Len(x.dcid) = 8 /\ Len(x.scid) \in {0, 8} } }
MutDatagrams(u) == { Pkt(h, 20) : h \in { x \in SmallHdrs(u) : Len(x.tok) <= 1 } }
OutD(s) == Out([c |-> "in_dgram", b |-> s])
EmitDgram == z = 0 => /\ \A s \in Datagrams(z) \cup StrsUpTo(Alphabet, 2) : OutD(s)
                      /\ \A d \in MutDatagrams(z) : \A s \in Mutations(d, MutAlphabet, MutHead + 12) : OutD(s)

\* transport parameters: the encodings of the C05 sets, mutated
SmallParams(u) == { p \in ParamVals : /\ \A i \in 1..Len(p.ps) : PType(p.ps[i].id) = "bytes" => Len(p.ps[i].val) <= 64
                                      /\ (Quick => (Len(p.ps) <= 3 /\ p.role # "remembered")) }
OutP(s) == Out([c |-> "in_params", b |-> s])
EmitParams == z = 0 => /\ \A s \in StrsUpTo(Alphabet, 3) : OutP(s)
                       /\ \A p \in SmallParams(z) : \A s \in Mutations(EncodeParams(p.ps), MutAlphabet, MutHead) \cup {EncodeParams(p.ps)} : OutP(s)
EmitC03 == EmitStrings /\ EmitFrameMut /\ EmitDgram /\ EmitParams
=============================================================================
