-------------------------- MODULE Gen_StreamSched --------------------------
(* spec -> impl: ENVIRONMENT schedules for `vh-sched replay`.  After a scenario's fixed script (which opens the streams, fills
   them and moves the cursor into the middle of a round) every schedule of Depth further environment steps is emitted:
   writes of several sizes on every stream, shutdown, reset, acknowledgement of everything in flight (removes a finished
   stream from `outgoings`), acknowledgement of a reset (removes it), window and connection credit updates, a new
   stream, packets of small / medium / large capacity.  Every step is offered on EVERY stream, so removal / blocking /
   refilling of the stream under the cursor, just below it and just above it are all enumerated.
   The real scheduler decides what each packet carries; the design model below only tracks enough (with an estimate
   of the frame sizes) to skip steps that cannot matter (acknowledging nothing, unblocking what is not blocked);
   what the code actually did is judged afterwards by Trace_StreamSched.
   In simulation mode (-simulate) the same next-state relation yields long random walks. *)
EXTENDS StreamSched, Sequences, Json
CONSTANTS Use,               \* names of the scenarios to generate from
          Depth,             \* free steps after a scenario's script (plus the scenario's bonus)
          Caps, Incs,        \* packet capacities, window increments
          Drain, Refill
VARIABLES m, hist, flown,    \* flown: streams with frames in flight
          sc                 \* the scenario (constant along a behaviour)

-----------------------------------------------------------------------------
(* scripts *)
\* three streams (ids 0, 2, 4) with a backlog larger than one token bucket; two packets move the cursor into a visit
Round3 == << <<"open", "bi">>, <<"open", "uni">>, <<"open", "bi">>,
             <<"write", 0, 9000>>, <<"write", 2, 9000>>, <<"write", 4, 9000>>,
             <<"pack", 1200>>, <<"pack", 1200>> >>
\* the same with the cursor at the end of a visit: the bucket of stream 4 is exactly used up (tokens = 0)
Exhausted3 == Round3 \o << <<"pack", 1200>>, <<"pack", 1200>> >>
\* four streams, two of them idle: the cursor has to skip
Sparse4 == << <<"open", "bi">>, <<"open", "uni">>, <<"open", "bi">>, <<"open", "uni">>,
              <<"write", 2, 6000>>, <<"write", 6, 6000>>, <<"pack", 1200>> >>
\* two streams and nothing else
Pair2 == << <<"open", "bi">>, <<"open", "bi">>, <<"write", 0, 5000>>, <<"write", 4, 5000>> >>
\* the cursor in the MIDDLE of the ring (stream 2, tokens left), sendable streams below (0) and above (4) it, and the
\* cursor stream about to leave `outgoings`: finished (FIN sent, waiting for the acknowledgement) ...
MidFin == << <<"open", "bi">>, <<"open", "uni">>, <<"open", "bi">>,
             <<"write", 4, 1000>>, <<"write", 2, 1100>>, <<"fin", 2>>, <<"write", 0, 9000>>, <<"pack", 1200>>,
             <<"write", 4, 9000>>, <<"pack", 920>> >>
\* ... or reset (waiting for the acknowledgement of the RESET_STREAM)
MidReset == << <<"open", "bi">>, <<"open", "uni">>, <<"open", "bi">>,
               <<"write", 4, 1000>>, <<"write", 2, 9000>>, <<"write", 0, 9000>>, <<"pack", 1200>>,
               <<"write", 4, 9000>>, <<"cancel", 2>> >>
Big == 16777216
Scenarios ==
    { [name |-> "round3", script |-> Round3, swin |-> Big, cwin |-> Big, sizes |-> {1, 5000}, maxs |-> 4, bonus |-> 0],
      [name |-> "exhausted3", script |-> Exhausted3, swin |-> Big, cwin |-> Big, sizes |-> {1, 5000}, maxs |-> 4, bonus |-> 0],
      [name |-> "sparse4", script |-> Sparse4, swin |-> Big, cwin |-> Big, sizes |-> {1, 5000}, maxs |-> 4, bonus |-> 0],
      [name |-> "windows", script |-> Round3, swin |-> 10000, cwin |-> 14000, sizes |-> {1, 5000}, maxs |-> 4, bonus |-> 0],
      [name |-> "midfin", script |-> MidFin, swin |-> Big, cwin |-> Big, sizes |-> {1, 5000}, maxs |-> 4, bonus |-> 0],
      [name |-> "midreset", script |-> MidReset, swin |-> Big, cwin |-> Big, sizes |-> {1, 5000}, maxs |-> 4, bonus |-> 0],
      [name |-> "pair2", script |-> Pair2, swin |-> 6000, cwin |-> Big, sizes |-> {1, 3000}, maxs |-> 3, bonus |-> 1],
      [name |-> "blank", script |-> << >>, swin |-> Big, cwin |-> Big, sizes |-> {5000}, maxs |-> 3, bonus |-> 2],
      [name |-> "walk", script |-> Round3, swin |-> 20000, cwin |-> 60000, sizes |-> {1, 700, 5000}, maxs |-> 6, bonus |-> 0] }

GenCfg(s) == [swin_bi |-> s.swin, swin_uni |-> s.swin, cwin |-> s.cwin, streams |-> 8, drain |-> Drain, scen |-> s.name]
GenInit == \E s \in {x \in Scenarios : x.name \in Use} :
              sc = s /\ m = Init0(s.cwin) /\ hist = <<GenCfg(s)>> /\ flown = {}
Steps == Len(hist) - 1
Total == Len(sc.script) + Depth + sc.bonus

\* ids the real endpoint will hand out: client bidi 0,4,8..  client uni 2,6,10..
NextId(kind) == LET ty == IF kind = "bi" THEN 0 ELSE 2
                    used == {s \in m.created : s % 4 = ty}
                IN 4 * Cardinality(used) + ty

\* an estimate of what one packet carries (frame header ~ 4 bytes); only used to keep the guards below meaningful
RECURSIVE Fill(_, _, _)
Fill(mm, rem, fl) ==
    IF rem < MinRoom \/ SendSet(mm) = {} THEN <<mm, fl>>
    ELSE LET s == Pick(mm, Refill)
             tok == TokFor(mm, s)
             len == IF HasData(mm, s) THEN Min(Min(tok, Avail(mm, s)), Min(mm.credit, rem - 4)) ELSE 0
             fin == mm.st[s] = "fin" /\ len = mm.pend[s]
             x == Once(mm, rem, TRUE, s, len, fin)
         IN Fill([x EXCEPT !.ok = TRUE, !.why = ""], rem - len - 4, fl \cup {s})

Do(op) ==
    LET k == op[1] IN
    /\ hist' = Append(hist, op)
    /\ UNCHANGED sc
    /\ CASE k = "open" -> m' = Open(m, NextId(op[2]), sc.swin) /\ UNCHANGED flown
         [] k = "write" -> m' = Write(m, op[2], op[3]) /\ UNCHANGED flown
         [] k = "fin" -> m' = Shutdown(m, op[2]) /\ UNCHANGED flown
         [] k = "cancel" -> m' = Cancel(m, op[2]) /\ UNCHANGED flown
         [] k = "ack" -> m' = AckAll(m, op[2]) /\ flown' = flown \ {op[2]}
         [] k = "rstack" -> m' = ResetAcked(m, op[2]) /\ UNCHANGED flown
         [] k = "wu" -> m' = WindowUpdate(m, op[2], m.room[op[2]] + op[3]) /\ UNCHANGED flown
         [] k = "md" -> m' = MaxData(m, m.credit + op[2]) /\ UNCHANGED flown
         [] k = "pack" -> LET r == Fill(NewPack(m), op[2], flown) IN m' = r[1] /\ flown' = r[2]

LiveSet == {s \in m.created : Live(m, s)}
Choices ==
    {<<"write", s, n>> : s \in {x \in LiveSet : m.st[x] = "send"}, n \in sc.sizes}
    \cup {<<"fin", s>> : s \in {x \in LiveSet : m.st[x] = "send"}}
    \cup {<<"cancel", s>> : s \in {x \in LiveSet : m.st[x] \in {"send", "fin", "done"}}}
    \cup {<<"ack", s>> : s \in flown \cap LiveSet}
    \cup {<<"rstack", s>> : s \in {x \in LiveSet : m.st[x] = "reset"}}
    \cup {<<"wu", s, i>> : s \in {x \in LiveSet : m.st[x] \in {"send", "fin"} /\ m.room[x] < m.pend[x]}, i \in Incs}
    \cup {<<"md", i>> : i \in IF m.credit = 0 THEN Incs ELSE {}}
    \cup {<<"open", k>> : k \in IF Cardinality(m.created) < sc.maxs THEN {"bi", "uni"} ELSE {}}
    \cup {<<"pack", c>> : c \in Caps}

GenNext ==
    /\ Steps < Total
    /\ IF Steps < Len(sc.script) THEN Do(sc.script[Steps + 1]) ELSE \E op \in Choices : Do(op)
Emit == (Steps = Total) => PrintT(<<"GEN", ToJson(hist)>>)
=============================================================================
