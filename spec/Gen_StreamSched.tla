-------------------------- MODULE Gen_StreamSched --------------------------
(* spec -> impl: ENVIRONMENT schedules for `vh-sched replay`.  After a fixed script (which opens the streams, fills
   them and moves the cursor into the middle of a round) every schedule of Depth further environment steps is emitted:
   writes of several sizes on every stream, shutdown, reset, acknowledgement of everything in flight (removes a finished
   stream from `outgoings`), acknowledgement of a reset (removes it), window and connection credit updates, a new
   stream, packets of small / medium / large capacity.  Every step is offered on EVERY stream, so removal / blocking /
   refilling of the stream under the cursor, just below it and just above it are all enumerated.
   The real scheduler decides what each packet carries; the design model below only tracks enough (with an estimate
   of the frame sizes) to skip steps that cannot matter (acknowledging nothing, unblocking what is not blocked);
   what the code actually did is judged afterwards by Trace_StreamSched.
   In simulation mode (-simulate) the same next-state relation yields long random walks. *)
EXTENDS StreamSched, Sequences, Json
CONSTANTS Script,            \* forced prefix of steps
          Depth,             \* free steps after it
          SWin, CWin,        \* initial stream window / connection window granted by the peer
          Sizes, Caps, Incs, \* write sizes, packet capacities, window increments
          MaxStreams, Drain, Refill
VARIABLES m, hist, flown     \* flown: streams with frames in flight

GenCfg == [swin_bi |-> SWin, swin_uni |-> SWin, cwin |-> CWin, streams |-> 8, drain |-> Drain]
GenInit == m = Init0(CWin) /\ hist = <<GenCfg>> /\ flown = {}
Steps == Len(hist) - 1

\* ids the real endpoint will hand out: client bidi 0,4,8..  client uni 2,6,10..
NextId(kind) == LET ty == IF kind = "bi" THEN 0 ELSE 2
                    used == {s \in m.created : s % 4 = ty}
                IN 4 * Cardinality(used) + ty

\* an estimate of what one packet carries (frame header ~ 4 bytes); only used to keep the guards below meaningful
RECURSIVE Fill(_, _, _)
Fill(mm, rem, fl) ==
    IF rem < MinRoom \/ SendSet(mm) = {} THEN <<mm, fl>>
    ELSE LET s == Pick(mm, Refill)
             tok == TokFor(mm, s)
             len == IF HasData(mm, s) THEN Min(Min(tok, Avail(mm, s)), Min(mm.credit, rem - 4)) ELSE 0
             fin == mm.st[s] = "fin" /\ len = mm.pend[s]
             x == Once(mm, rem, TRUE, s, len, fin)
         IN Fill([x EXCEPT !.ok = TRUE, !.why = ""], rem - len - 4, fl \cup {s})

Do(op) ==
    LET k == op[1] IN
    /\ hist' = Append(hist, op)
    /\ CASE k = "open" -> m' = Open(m, NextId(op[2]), SWin) /\ UNCHANGED flown
         [] k = "write" -> m' = Write(m, op[2], op[3]) /\ UNCHANGED flown
         [] k = "fin" -> m' = Shutdown(m, op[2]) /\ UNCHANGED flown
         [] k = "cancel" -> m' = Cancel(m, op[2]) /\ UNCHANGED flown
         [] k = "ack" -> m' = AckAll(m, op[2]) /\ flown' = flown \ {op[2]}
         [] k = "rstack" -> m' = ResetAcked(m, op[2]) /\ UNCHANGED flown
         [] k = "wu" -> m' = WindowUpdate(m, op[2], m.room[op[2]] + op[3]) /\ UNCHANGED flown
         [] k = "md" -> m' = MaxData(m, m.credit + op[2]) /\ UNCHANGED flown
         [] k = "pack" -> LET r == Fill(NewPack(m), op[2], flown) IN m' = r[1] /\ flown' = r[2]

LiveSet == {s \in m.created : Live(m, s)}
Choices ==
    {<<"write", s, n>> : s \in {x \in LiveSet : m.st[x] = "send"}, n \in Sizes}
    \cup {<<"fin", s>> : s \in {x \in LiveSet : m.st[x] = "send"}}
    \cup {<<"cancel", s>> : s \in {x \in LiveSet : m.st[x] \in {"send", "fin", "done"}}}
    \cup {<<"ack", s>> : s \in flown \cap LiveSet}
    \cup {<<"rstack", s>> : s \in {x \in LiveSet : m.st[x] = "reset"}}
    \cup {<<"wu", s, i>> : s \in {x \in LiveSet : m.st[x] \in {"send", "fin"} /\ m.room[x] < m.pend[x]}, i \in Incs}
    \cup {<<"md", i>> : i \in IF m.credit = 0 THEN Incs ELSE {}}
    \cup {<<"open", k>> : k \in IF Cardinality(m.created) < MaxStreams THEN {"bi", "uni"} ELSE {}}
    \cup {<<"pack", c>> : c \in Caps}

GenNext ==
    /\ Steps < Len(Script) + Depth
    /\ IF Steps < Len(Script) THEN Do(Script[Steps + 1]) ELSE \E op \in Choices : Do(op)
Emit == (Steps = Len(Script) + Depth) => PrintT(<<"GEN", ToJson(hist)>>)

-----------------------------------------------------------------------------
(* scripts *)
\* three streams (ids 0, 2, 4) with a backlog larger than one token bucket; two packets move the cursor into a visit
Round3 == << <<"open", "bi">>, <<"open", "uni">>, <<"open", "bi">>,
             <<"write", 0, 9000>>, <<"write", 2, 9000>>, <<"write", 4, 9000>>,
             <<"pack", 1200>>, <<"pack", 1200>> >>
\* the same with the cursor at the end of a visit: the bucket of stream 4 is exactly used up (tokens = 0)
Exhausted3 == Round3 \o << <<"pack", 1200>>, <<"pack", 1200>> >>
\* four streams, two of them idle: the cursor has to skip
Sparse4 == << <<"open", "bi">>, <<"open", "uni">>, <<"open", "bi">>, <<"open", "uni">>,
              <<"write", 2, 6000>>, <<"write", 6, 6000>>, <<"pack", 1200>> >>
\* two streams and nothing else
Pair2 == << <<"open", "bi">>, <<"open", "bi">>, <<"write", 0, 5000>>, <<"write", 4, 5000>> >>
Blank == << >>
=============================================================================
