---------------------------- MODULE Trace_Hostile ----------------------------
(* implementation -> spec: runs recorded by vh-hostile (real parser, real handlers in the real dispatch order, each
   hostile frame measured in a child process with a counting allocator under a watchdog).  The legitimate history is
   re-played through Hostile's actions (packet numbers, sequence numbers, stream ids and results must agree); the
   hostile event is accepted for any observed outcome and then judged by the Soft* invariants, each with its reason. *)
EXTENDS Hostile, Json, IOUtils
VARIABLE l
Rec_ == ndJsonDeserialize(IOEnv.TRACE)
NE == Len(Rec_)
e == Rec_[l]
Ev(name) == l <= NE /\ e.ev = name /\ l' = l + 1
TReset == Ev("reset") /\ Reset(e.focus, e.space)
TSend == Ev("send") /\ Send(e.k) /\ e.first = nextPn /\ e.next = nextPn'
TSendAck == Ev("sendack") /\ SendAck /\ e.pn = nextPn /\ e.next = nextPn'
TRcv == Ev("rcv") /\ Rcv(FALSE) /\ e.pn = rxNext /\ e.res = "ok"
TRcvSkip == Ev("rcvskip") /\ Rcv(TRUE) /\ e.pn = rxNext + 1 /\ e.res = "ok"
TPeerAck == Ev("peerack") /\ PeerAck(e.which) /\ e.hi = nextPn - 1 /\ e.res = "ok"
TCrx == Ev("crx") /\ Crx /\ e.off = crxOff /\ e.res = "ok"
TNewCid == Ev("newcid") /\ NewCid(e.mode) /\ e.seq = rcNext /\ e.res = "ok"
TRetire == Ev("retire") /\ Retire /\ e.res = "ok" /\ e.issued = 1
TOpen == Ev("open") /\ Open(e.dir) /\ e.res = "ok"
TRx == Ev("rx") /\ Rx(e.dir) /\ e.off = rx[e.dir] /\ e.res = "ok"
THostile == Ev("hostile") /\ e.focus = focus /\ e.space = space /\ Hostile(e.kind, e.cls, e.res)
TraceInit == l = 1 /\ Start("ack", "data")
TraceNext == TReset \/ TSend \/ TSendAck \/ TRcv \/ TRcvSkip \/ TPeerAck \/ TCrx \/ TNewCid \/ TRetire \/ TOpen \/ TRx \/ THostile

\* the hostile event just consumed
p == Rec_[l - 1]
Judged == res.op = "hostile"
Crashed == p.res \in {"panic", "timeout", "abort", "abort:alloc"}
Soft(name, ok) == ok \/ PrintT(<<"SOFT_VIOLATION", name, l>>)
\* "takes time ... bounded": the handler returned under the watchdog (microseconds are needed, seconds are allowed)
SoftNotTimedOut == Soft("NotTimedOut", Judged => ~p.timed_out)
\* "... and memory bounded by a small function of the bytes received and of the state the endpoint already holds":
\* 4096 bytes per unit of the specification's bound - detects asymptotic blow-ups, not constant factors
SoftAllocBounded == Soft("AllocBounded", Judged => (~p.aborted /\ p.alloc <= 4096 * K * (p.bytes + res.held + 1)))
SoftNoPanic == Soft("NoPanic", Judged => p.res # "panic")
\* the outcome is the one RFC 9000 prescribes where the property lists the situation, any non-crashing one elsewhere
SoftOutcomeAllowed == Soft("OutcomeAllowed", Judged => (Crashed \/ p.res \in res.allowed))
\* "... end the connection with the prescribed error instead of being acted on"
SoftNoChangeOnError == Soft("NoChangeOnError", Judged => (p.res \in Errors => p.state_changed = FALSE))
\* what an accepted frame does (and a refused one does not): exactly the covered packets are acknowledged, MAX_DATA /
\* MAX_STREAMS only raise
SoftEffect == Soft("Effect", (Judged /\ ~Crashed) =>
                 /\ p.kind = "ack" => p.post.unacked_after = res.unackedAfter
                 /\ p.kind = "maxdata" => p.post.avail = (IF p.cls.a = "max" /\ p.res = OK THEN 1073741824 ELSE res.avail)
                 /\ p.kind = "maxstreams" => (p.post.can_open_bi = res.canOpen["bi"] /\ p.post.can_open_uni = res.canOpen["uni"]))
TraceAccepted ==
    LET d == TLCGet("stats").diameter IN
    IF d - 1 = NE THEN TRUE
    ELSE PrintT(<<"TRACE_REJECTED_AT", d, IF d <= NE THEN Rec_[d] ELSE "eof">>) /\ FALSE
=============================================================================
