-------------------------- MODULE Gen_StreamCover --------------------------
(* spec -> impl, transition cover: one environment schedule for every (design state, incoming step) pair of the one-flow
   design model, each reached by a shortest path.  TLC explores the state graph under a VIEW that ignores the history and the
   frame ids, so every distinct pair is visited once and printed with the history of the path that reached it first.  Deep
   situations (a FIN carried only by a retransmission that is lost after the original was acknowledged late, ...) that
   all-paths-to-depth-k cannot afford are reached this way. *)
EXTENDS Gen_Stream
CONSTANT CoverDepth
LastOp == hist[Len(hist)]
CoverView == <<written, shut, col, finst, Shape(net), have, finalSize, nread, eos, losses, Shape(limbo), LastOp>>
CoverNext == nsteps < CoverDepth /\ GenNextBody
EmitCover == (nsteps >= 1) => PrintT(<<"GEN", ToJson(hist)>>)
=============================================================================
