--------------------------- MODULE Trace_Recovery ---------------------------
(* impl -> spec: one event per call of the real qcongestion::ArcCC (on_pkt_sent, on_ack_rcvd, do_tick, send_quota,   *)
(* discard_epoch, handshake / anti-amplification flags) under tokio's paused clock.  The ground truth (clock, packets   *)
(* sent, what the ACK frames acknowledged) is rebuilt by Recovery's actions from the arguments; what the controller     *)
(* answered -- packet numbers handed to Feedback::may_loss, the result, and ArcCC::verif_snapshot() -- is the outcome.  *)
(* The properties are soft invariants: a violation is reported (SOFT_VIOLATION) and the validation of the remaining     *)
(* events and runs continues.                                                                                          *)
EXTENDS Recovery, Sequences, Json, IOUtils
VARIABLE l
Rec_ == ndJsonDeserialize(IOEnv.TRACE)
NE == Len(Rec_)
e == Rec_[l]
Ev(name) == l <= NE /\ e.ev = name /\ l' = l + 1
ToSet(s) == {s[i] : i \in DOMAIN s}

Snap(s) == [cwnd |-> s.cwnd, ssth |-> s.ssth, bif |-> s.bif, rec |-> s.rec, pton |-> s.pton, timer |-> s.timer,
            latest |-> s.latest, srtt |-> s.srtt, var |-> s.var, minrtt |-> s.minrtt, sampleAt |-> s.sampleAt,
            lossT |-> s.lossT, lastAe |-> s.lastAe, need |-> s.need, ld |-> s.ld, pto |-> s.pto]
Outcome(ok, q) == [c |-> Snap(e.s), lost |-> [sp \in Spaces |-> ToSet(e.lost[sp])], ok |-> ok, q |-> q]

TReset == Ev("reset") /\ ResetTo(e.server, Snap(e.s))
TAdv == Ev("adv") /\ Advance(e.dt) /\ e.now = now + e.dt
TSend == Ev("send") /\ e.now = now /\ e.pn = N(pk, e.sp) /\ Send(e.sp, e.sz, e.ae, e.inf, e.g, Outcome(TRUE, 0))
TAck == Ev("ack") /\ e.now = now /\ AckRcvd(e.sp, ToSet(e.pns), e.delay, e.ce, Outcome(TRUE, 0))
TTick == Ev("tick") /\ e.now = now /\ Tick(Outcome(e.ok, 0))
TQuota == Ev("quota") /\ e.now = now /\ Quota(Outcome(e.ok, e.q))
TDiscard == Ev("discard") /\ e.now = now /\ Discard(e.sp, Outcome(TRUE, 0))
TPhase == Ev("phase") /\ e.now = now /\ Phase(e.what, Outcome(TRUE, 0))

Soft(name, P) == P \/ PrintT(<<"SOFT_VIOLATION", name, l>>)
SoftInv ==
    /\ Soft("LossOnlyAfterLaterAck", LossOnlyAfterLaterAck)
    /\ Soft("LossOnlyBeyondThreshold", LossOnlyBeyondThreshold)
    /\ Soft("TimeThresholdIsNineEighths", TimeThresholdIsNineEighths)
    /\ Soft("AckedNeverLost", AckedNeverLost)
    /\ Soft("CwndAtLeastTwoDatagrams", CwndAtLeastTwoDatagrams)
    /\ Soft("ShrinkOnlyOnLossOrEcn", ShrinkOnlyOnLossOrEcn)
    /\ Soft("ShrinkAtMostOncePerRtt", ShrinkAtMostOncePerRtt)
    /\ Soft("ShrinkOnceBurstLoss", ShrinkOnceBurstLoss)
    /\ Soft("ShrinkOnceRecoveryCleared", ShrinkOnceRecoveryCleared)
    /\ Soft("GrowOnlyOnAckOutsideRecovery", GrowOnlyOnAckOutsideRecovery)
    /\ Soft("BytesInFlightExact", BytesInFlightExact)
    /\ Soft("NoSendBeyondWindow", NoSendBeyondWindow)
    /\ Soft("TimerArmed", TimerArmed)
    /\ Soft("ExpiredTimerActs", ExpiredTimerActs)
    /\ Soft("PtoIntervalDoubles", PtoIntervalDoubles)
    /\ Soft("PtoBackoffNotReset", PtoBackoffNotReset)
    /\ Soft("AbandonOnlyAfterMaxPto", AbandonOnlyAfterMaxPto)

TraceInit == l = 1 /\ Init /\ ph.server = FALSE
TraceNext == TReset \/ TAdv \/ TSend \/ TAck \/ TTick \/ TQuota \/ TDiscard \/ TPhase
TraceAccepted ==
    LET d == TLCGet("stats").diameter IN
    IF d - 1 = NE THEN TRUE
    ELSE PrintT(<<"TRACE_REJECTED_AT", d, IF d <= NE THEN Rec_[d] ELSE "eof">>) /\ FALSE
=============================================================================
