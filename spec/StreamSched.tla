----------------------------- MODULE StreamSched -----------------------------
(***************************************************************************)
(* The output scheduler of the stream layer                                *)
(* (qrecovery/src/streams/raw.rs: DataStreams::try_load_data_into_once,    *)
(*  qrecovery/src/streams/io.rs: Output{outgoings, cursor},                *)
(*  qrecovery/src/send/outgoing.rs: Outgoing::try_load_data_into).         *)
(*                                                                         *)
(* C01's liveness clause ("every written byte eventually becomes readable")*)
(* silently depends on it: a stream that is never picked never delivers.    *)
(*                                                                         *)
(* THE DESIGN (as written in the code and its doc comment).  `outgoings`   *)
(* is a BTreeMap ordered by the wire value of the stream id.  `cursor` is  *)
(* None or (sid, tokens).  One call of try_load_data_into_once ("Once")    *)
(* puts ONE stream frame of ONE stream into the packet:                    *)
(*   - the streams are tried in DESCENDING id order, cyclically, starting  *)
(*     at the cursor: the cursor stream first while it has tokens left,    *)
(*     then the streams below it, then (wrap) the streams above it;        *)
(*   - the first stream that has something to send is served; it may send  *)
(*     at most `tokens` bytes: the cursor's remaining tokens if it is the  *)
(*     cursor stream and tokens > 0, a fresh bucket of T otherwise;        *)
(*   - cursor := (served stream, tokens - bytes sent).                     *)
(* A packet is filled by repeating Once until it fails (qbase Repeat).     *)
(*                                                                         *)
(* REFILL RULE.  The doc comment says: "when a stream exhausts its tokens  *)
(* ... the method will move to the next stream".  The code's arm for       *)
(* tokens == 0 iterates `range(..=sid).rev()` -- INCLUDING the exhausted   *)
(* stream, first, with a fresh bucket.  Both rules are modelled: `refill`  *)
(* = FALSE is the documented rule (exhausted stream goes to the end of the *)
(* ring), `refill` = TRUE is what the code does (exhausted stream is       *)
(* refilled on the spot, i.e. it is served until it has nothing to send).  *)
(*                                                                         *)
(* The monitor state is one record `m`; every call is a state transformer  *)
(* taking what was observed (written to be bound to a recorded trace) and  *)
(* the design model MC_StreamSched draws the same parameters itself.       *)
(***************************************************************************)
EXTENDS Naturals, Integers, FiniteSets, TLC

CONSTANTS T,        \* DEFAULT_TOKENS (4096 in the code)
          MinRoom,  \* STREAM_FRAME_MAX_ENCODING_SIZE (25): less room than this and Once refuses (CONGESTION)
          WatchSet  \* streams whose waiting time is accounted (all of them in trace validation, one in the model check)

Min(a, b) == IF a < b THEN a ELSE b
Max(a, b) == IF a > b THEN a ELSE b
Get(f, k, d) == IF k \in DOMAIN f THEN f[k] ELSE d
Put(f, k, v) == [x \in (DOMAIN f) \cup {k} |-> IF x = k THEN v ELSE f[x]]
Empty == [x \in {} |-> 0]

NoCur == [sid |-> -1, tok |-> 0]
\* outcome of the last Once (now = it was the last call); room = the packet had at least MinRoom left
NoRes == [ok |-> FALSE, sid |-> -1, room |-> FALSE, now |-> FALSE]
\* what happened since stream s started to wait: bytes / visits given to every other stream, frames and packets
ZeroWait == [b |-> Empty, r |-> Empty, last |-> -1, n |-> 0, p |-> 0, inpk |-> FALSE, ref |-> FALSE]

Init0(credit) ==
    [created |-> {}, removed |-> {},
     st |-> Empty,      \* "send" accepts writes | "fin" shutdown requested, FIN not yet emitted | "done" FIN emitted | "reset"
     pend |-> Empty,    \* bytes written and not yet sent
     room |-> Empty,    \* stream window minus bytes sent
     credit |-> credit, \* connection window minus fresh bytes sent
     cur |-> NoCur, wait |-> Empty, res |-> NoRes,
     ok |-> TRUE, why |-> "", soft |-> ""]

-----------------------------------------------------------------------------
(* what the scheduler sees *)
Live(m, s) == s \in m.created /\ s \notin m.removed
Avail(m, s) == Min(m.pend[s], m.room[s])
\* fresh data needs stream window AND connection credit (BufMap::pick: `Pending if flow_limit != 0`)
HasData(m, s) == m.st[s] \in {"send", "fin"} /\ Avail(m, s) > 0 /\ m.credit > 0
\* an empty frame carrying only FIN: shutdown requested and everything written was sent (SendingSender::pick_up)
FinOnly(m, s) == m.st[s] = "fin" /\ m.pend[s] = 0
Sendable(m, s) == Live(m, s) /\ (HasData(m, s) \/ FinOnly(m, s))
SendSet(m) == {s \in m.created : Sendable(m, s)}

MaxOf(S) == CHOOSE x \in S : \A y \in S : y <= x
Below(S, c, incl) == {x \in S : IF incl THEN x <= c ELSE x < c}
\* first element of S met when walking down from c (c itself only if incl) and wrapping to the top
Ring(S, c, incl) == IF Below(S, c, incl) # {} THEN MaxOf(Below(S, c, incl)) ELSE MaxOf(S)

\* the stream Once serves (SendSet(m) # {})
Pick(m, refill) ==
    LET S == SendSet(m)
        c == m.cur.sid
    IN  IF c = -1 THEN MaxOf(S)                                         \* None: rev([..])
        ELSE IF m.cur.tok > 0 THEN (IF c \in S THEN c ELSE Ring(S, c, FALSE))  \* [sid] + rev([..sid]) + rev([sid+1..])
        ELSE Ring(S, c, refill)        \* documented: rev([..sid]) + rev([sid..]);  code: rev([..=sid]) + rev([sid+1..])
\* its token budget for this frame
TokFor(m, s) == IF s = m.cur.sid /\ m.cur.tok > 0 THEN m.cur.tok ELSE T

-----------------------------------------------------------------------------
(* the fairness the design guarantees, as history accounting.

   Walking a ring downwards, the cursor meets every position once before it meets any position twice, and a stream
   that is sendable when the cursor passes is served.  Hence, while a stream s is CONTINUOUSLY sendable and not served,
   every other stream u gets at most ONE visit (one maximal run of consecutive frames), and with the documented
   refill rule a visit is at most T bytes (plus at most one empty FIN frame).  From this:
       bytes sent by the others while s waits   <=  (N-1) * T
       frames / non-empty packets while s waits <=  KWait(N) = (N-1) * (T+1)      (a data frame carries >= 1 byte)
   so s is served at the latest by the (KWait(N)+1)-th successful Once, in particular within KWait(N)+1 consecutive
   non-empty Pack calls, N = number of streams that exist during the wait.  The byte form is the sharp one. *)
KWait(n) == (n - 1) * (T + 1)
Sat(x, cap) == Min(x, cap)
Watched(m) == {s \in m.created : s \in WatchSet}

Fail(m, why) == [m EXCEPT !.ok = FALSE, !.why = why]
Clear(m) == [m EXCEPT !.soft = "", !.res = [m.res EXCEPT !.now = FALSE]]

\* after an environment step: a stream that is not sendable waits for nothing
Resettle(m) == [m EXCEPT !.wait = [s \in Watched(m) |-> IF Sendable(m, s) THEN Get(m.wait, s, ZeroWait) ELSE ZeroWait]]

Starved(m, w) == (\E u \in DOMAIN w.b : w.b[u] > T) \/ w.n > KWait(Cardinality(m.created)) \/ w.p > KWait(Cardinality(m.created))
Repeats(w) == \E u \in DOMAIN w.r : w.r[u] > 1

\* after Once served `sid` with `len` bytes (m0 before, m1 after); dev = the code's refill rule was needed to explain the step
Account(m0, m1, sid, len, dev) ==
    LET n == Cardinality(m1.created)
        w1 == [s \in Watched(m1) |->
                 IF s = sid \/ ~Sendable(m1, s) THEN ZeroWait
                 ELSE LET w == Get(m0.wait, s, ZeroWait) IN
                      [b |-> Put(w.b, sid, Sat(Get(w.b, sid, 0) + len, T + 1)),
                       r |-> Put(w.r, sid, Sat(Get(w.r, sid, 0) + (IF w.last = sid THEN 0 ELSE 1), 2)),
                       last |-> sid,
                       n |-> Sat(w.n + 1, KWait(n) + 1),
                       p |-> Sat(w.p + (IF w.inpk THEN 0 ELSE 1), KWait(n) + 1),
                       inpk |-> TRUE,
                       ref |-> w.ref \/ dev]]
        rep == {s \in DOMAIN w1 : Repeats(w1[s])}
        stv == {s \in DOMAIN w1 : Starved(m1, w1[s])}
        \* a reported wait starts again from zero
        w2 == [s \in DOMAIN w1 |-> IF s \in stv THEN ZeroWait ELSE w1[s]]
        m2 == [m1 EXCEPT !.wait = w2]
    IN  IF rep # {} THEN Fail(m2, "RoundRepeats")                      \* CursorValid: a stream visited twice while another one waits
        ELSE IF \E s \in stv : ~w1[s].ref THEN Fail(m2, "NoStarvation")
        ELSE IF stv # {} THEN [m2 EXCEPT !.soft = "NoStarvationByRefill"]  \* explained by the code's refill rule (known deviation)
        ELSE IF dev THEN [m2 EXCEPT !.soft = "RefillSameStream"]
        ELSE m2

-----------------------------------------------------------------------------
(* the scheduler: one call of try_load_data_into_once with `rem` bytes of room left in the packet.
   ok = it wrote a frame of stream `sid` with `len` bytes of data and the FIN bit `fin`. *)
Once(mm, rem, ok, sid, len, fin) ==
    LET m == Clear(mm)
        S == SendSet(m)
    IN
    IF ~ok THEN
        \* WorkConserving: "nothing to send" only if the packet is full or no stream is sendable
        IF rem >= MinRoom /\ S # {} THEN Fail(m, "WorkConserving")
        ELSE [m EXCEPT !.res = [NoRes EXCEPT !.room = (rem >= MinRoom), !.now = TRUE]]
    ELSE IF rem < MinRoom THEN Fail(m, "NoRoom")
    ELSE IF sid \notin S THEN Fail(m, "ServedNotSendable")
    ELSE IF sid # Pick(m, FALSE) /\ sid # Pick(m, TRUE) THEN Fail(m, "OrderMismatch")
    ELSE
        LET dev == sid # Pick(m, FALSE)
            tok == TokFor(m, sid)
            data == HasData(m, sid)
            maxlen == Min(Min(tok, Avail(m, sid)), Min(m.credit, rem))
        IN
        IF data /\ len > tok THEN Fail(m, "TokenOverrun")
        ELSE IF data /\ (len < 1 \/ len > maxlen) THEN Fail(m, "LenOutOfRange")
        ELSE IF ~data /\ len # 0 THEN Fail(m, "LenOutOfRange")
        ELSE IF fin # (m.st[sid] = "fin" /\ len = m.pend[sid]) THEN Fail(m, "FinMismatch")
        ELSE
            \* (a stream that emitted its FIN sends nothing more: its window is of no interest any longer)
            LET m1 == [m EXCEPT !.pend[sid] = @ - len, !.room[sid] = IF fin THEN 0 ELSE @ - len, !.credit = @ - len,
                                !.st[sid] = IF fin THEN "done" ELSE @,
                                !.cur = [sid |-> sid, tok |-> tok - len],
                                !.res = [ok |-> TRUE, sid |-> sid, room |-> TRUE, now |-> TRUE]]
            IN Account(m, m1, sid, len, dev)

\* a new packet is being assembled
NewPack(mm) == LET m == Clear(mm) IN [m EXCEPT !.wait = [s \in DOMAIN m.wait |-> [m.wait[s] EXCEPT !.inpk = FALSE]]]

-----------------------------------------------------------------------------
(* the environment *)
Open(mm, s, room) ==
    LET m == Clear(mm) IN
    IF s \in m.created THEN Fail(m, "DuplicateOpen")
    ELSE Resettle([m EXCEPT !.created = @ \cup {s}, !.st = Put(@, s, "send"), !.pend = Put(@, s, 0), !.room = Put(@, s, room)])
Write(mm, s, n) ==
    LET m == Clear(mm) IN
    IF Live(m, s) /\ m.st[s] = "send" THEN Resettle([m EXCEPT !.pend[s] = @ + n]) ELSE m
Shutdown(mm, s) ==
    LET m == Clear(mm) IN
    IF Live(m, s) /\ m.st[s] = "send" THEN Resettle([m EXCEPT !.st[s] = "fin"]) ELSE m
\* cancelled by the application or stopped by the peer: RESET_STREAM queued, nothing is sent any more
Cancel(mm, s) ==
    LET m == Clear(mm) IN
    IF Live(m, s) /\ m.st[s] \in {"send", "fin", "done"}
    THEN Resettle([m EXCEPT !.st[s] = "reset", !.pend[s] = 0, !.room[s] = 0]) ELSE m
\* every frame of s in flight is acknowledged: a finished stream leaves `outgoings`
AckAll(mm, s) ==
    LET m == Clear(mm) IN
    IF Live(m, s) /\ m.st[s] = "done" THEN Resettle([m EXCEPT !.removed = @ \cup {s}]) ELSE m
ResetAcked(mm, s) ==
    LET m == Clear(mm) IN
    IF Live(m, s) /\ m.st[s] = "reset" THEN Resettle([m EXCEPT !.removed = @ \cup {s}]) ELSE m
\* MAX_STREAM_DATA: the window only grows
WindowUpdate(mm, s, newroom) ==
    LET m == Clear(mm) IN
    IF Live(m, s) /\ m.st[s] \in {"send", "fin"} THEN Resettle([m EXCEPT !.room[s] = Max(@, newroom)]) ELSE m
\* MAX_DATA
MaxData(mm, newcredit) ==
    LET m == Clear(mm) IN Resettle([m EXCEPT !.credit = Max(@, newcredit)])

-----------------------------------------------------------------------------
(* properties of the state *)
\* (4) tokens never negative, never more than the bucket
TokensInRange(m) == m.cur.tok \in 0..T
\* (2) the cursor is the start or designates a stream that was created (it may have been removed since: the
\*     ring walk treats a removed stream like one that has nothing to send)
CursorValid(m) == m.cur = NoCur \/ m.cur.sid \in m.created
\* (1) bounded form of NoStarvation, (2) no visit twice in a round: checked by Account, reported through ok / soft
NoAlarm(m) == m.ok
=============================================================================
