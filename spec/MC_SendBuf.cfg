CONSTANTS
  MaxBytes = 4
  MaxWin = 5
  Limits = {1, 2, 3}
  Flows = {0, 1, 9}
INIT MCInit
NEXT MCNext
VIEW View
INVARIANT Inv
PROPERTY PickOnlyPendingOrLost
CHECK_DEADLOCK FALSE
