--------------------------- MODULE Trace_Wakers ---------------------------
(* implementation -> spec: events recorded while a call sequence was executed on a real waiter/notifier      *)
(* object with one counting Waker per task.  Every event carries the call, its result and `wk`, the wake      *)
(* counters of all tasks after the call.  The woken set of a call is computed here from the counters.        *)
(* Only the MONITOR actions of Wakers.tla are used: the result of every poll / check must agree with the     *)
(* abstract condition, and after every call NoLostWakeup and CloseWakesAll must hold; how many wakers an      *)
(* implementation invokes beyond that (spurious wake-ups, waking on every notify) is not constrained.        *)
(* The two properties are evaluated as soft invariants so that one defective object does not stop the        *)
(* validation of the remaining runs of the file.                                                              *)
EXTENDS Wakers, Json, IOUtils
VARIABLES l, cnt
Rec == ndJsonDeserialize(IOEnv.TRACE)
NE == Len(Rec)
e == Rec[l]
Ev(name) == l <= NE /\ e.ev = name /\ l' = l + 1

W == {u \in Waiters : e.wk[u] > cnt[u]}
Counted == /\ \A u \in Waiters : e.wk[u] >= cnt[u]
           /\ cnt' = [u \in Waiters |-> e.wk[u]]
           /\ UNCHANGED dvars
NeedSet(x) == IF x = "ab" THEN {"a", "b"} ELSE IF x = "b" THEN {"b"} ELSE {"a"}

TReset == Ev("reset") /\ Reset(e.consume, e.cond0) /\ cnt' = [u \in Waiters |-> 0] /\ UNCHANGED dvars
TPoll == Ev("poll") /\ Poll(e.w, {Main}, e.r, W) /\ Counted
TCheck == Ev("check") /\ Check(e.w, NeedSet(e.s), e.r, W) /\ Counted
TWait == Ev("wait") /\ Wait(e.w, e.r, W) /\ Counted
TDrop == Ev("drop") /\ Drop(e.w, W) /\ Counted
TFlag == Ev("flag") /\ SetFlag(e.s, 1, W) /\ Counted
TNotify == Ev("notify") /\ Notify(e.s, W) /\ Counted
\* hooked notifier (SendBuffer::write): the code reports each critical section as it completes
TStored == Ev("stored") /\ SetFlag(e.s, 1, W) /\ Counted
TNotified == Ev("notified") /\ (IF owed[e.s] > 0 THEN Notify(e.s, W) ELSE Touch(W)) /\ Counted
TNDone == Ev("ndone") /\ NotifierDone(e.s, W) /\ Counted
TSet == Ev("set") /\ Set(Main, 1, W) /\ Counted
TTouch == Ev("touch") /\ Touch(W) /\ Counted
TClose == Ev("close") /\ Close(W) /\ Counted

TraceInit == l = 1 /\ cnt = [u \in Waiters |-> 0] /\ MInit(TRUE, 0) /\ DInit
TraceNext == TReset \/ TPoll \/ TCheck \/ TWait \/ TDrop \/ TFlag \/ TNotify \/ TSet \/ TTouch \/ TClose
             \/ TStored \/ TNotified \/ TNDone

SoftResultAgrees == ResultAgrees \/ PrintT(<<"SOFT_VIOLATION", "ResultAgrees", l>>)
SoftNoLostWakeup == NoLostWakeup \/ PrintT(<<"SOFT_VIOLATION", "NoLostWakeup", l>>)
SoftCloseWakesAll == CloseWakesAll \/ PrintT(<<"SOFT_VIOLATION", "CloseWakesAll", l>>)

TraceAccepted ==
    LET d == TLCGet("stats").diameter IN
    IF d - 1 = NE THEN TRUE
    ELSE PrintT(<<"TRACE_REJECTED_AT", d, IF d <= NE THEN Rec[d] ELSE "eof">>) /\ FALSE
=============================================================================
