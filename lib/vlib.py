"""Shared machinery for /verif/check: build the harness, run TLC in its three uses
(model check, behaviour generation, trace validation), write evidence, handle known findings.
python3 stdlib only."""
import json, os, re, shutil, subprocess, sys, time, hashlib
from concurrent.futures import ThreadPoolExecutor

ROOT = os.path.dirname(os.path.dirname(os.path.abspath(__file__)))
SPEC = os.path.join(ROOT, "spec")
HARNESS = os.path.join(ROOT, "harness")
WORK = os.path.join(ROOT, "work")
EVID = os.path.join(ROOT, "evidence")
VH = os.path.join(HARNESS, "target", "debug", "vh")
CP = "/opt/veriftools/tla/tla2tools.jar:/opt/veriftools/tla/CommunityModules-deps.jar"
NCPU = int(os.environ.get("VERIF_WORKERS", "16"))
XMX = os.environ.get("VERIF_XMX", "16g")
REPO = os.environ.get("VERIF_REPO", "/repo")
GCOPTS = ["-XX:+UseSerialGC", "-XX:CICompilerCount=2"]
TRACE_CHUNKS = 4   # measured: 1 proc 65k events/s; 4 procs best; 16 procs slower than 1 (VM memory contention)


class ToolError(Exception):
    pass


class StopWithViolations(Exception):
    """the code under test killed the harness process (abort, stack overflow, watchdog): the violation is already recorded in the
    Report, nothing more can be explored in this run; ./check finishes the report (exit 1 + VIOLATION line)."""


def log(*a):
    print("[check]", *a, flush=True)


def workdir(pid):
    d = os.path.join(WORK, pid)
    os.makedirs(d, exist_ok=True)
    return d


def seed():
    try:
        return int(os.environ.get("VERIF_SEED", "1"))
    except ValueError:
        return 1


# ---------------------------------------------------------------------------
# harness
def build_harness(bins=("vh",)):
    """Rebuild the harness binaries a check needs (and the /repo crates they depend on) from the current working tree."""
    t = time.time()
    lock_src = os.path.join(REPO, "Cargo.lock")
    lock_dst = os.path.join(HARNESS, "Cargo.lock")
    if not os.path.exists(lock_dst):
        shutil.copy(lock_src, lock_dst)
    env = dict(os.environ, CARGO_NET_OFFLINE="true")
    cmd = ["cargo", "build", "--offline"]
    for b in bins:
        cmd += ["-p", b]
    p = subprocess.run(cmd, cwd=HARNESS, env=env,
                       stdout=subprocess.PIPE, stderr=subprocess.STDOUT, text=True)
    if p.returncode != 0:
        sys.stdout.write(p.stdout[-6000:])
        raise ToolError("harness build failed (does /repo still compile with --cfg gmquic_verif?)")
    log("harness built in %.1fs" % (time.time() - t))


def vhx(binary, args, timeout=3600, check=True, env=None):
    """run another harness binary (workspace member vh-<name>)"""
    return vh(args, timeout=timeout, check=check, env=env, binary=os.path.join(HARNESS, "target", "debug", binary))


def vh(args, timeout=3600, check=True, env=None, binary=None):
    e = dict(os.environ)
    if env:
        e.update(env)
    p = subprocess.run([binary or VH] + [str(a) for a in args], stdout=subprocess.PIPE, stderr=subprocess.PIPE,
                       text=True, timeout=timeout, env=e)
    if check and p.returncode != 0:
        sys.stdout.write(p.stdout[-3000:] + p.stderr[-3000:])
        raise ToolError("vh %s exited %d" % (args[0], p.returncode))
    return p


# ---------------------------------------------------------------------------
# TLC
def write_cfg(path, body, constants=None):
    """body: text of the cfg without CONSTANTS; constants: dict name -> TLA text."""
    with open(path, "w") as f:
        if constants:
            f.write("CONSTANTS\n")
            for k, v in constants.items():
                if str(v).startswith("<-"):
                    f.write("  %s %s\n" % (k, v))
                else:
                    f.write("  %s = %s\n" % (k, v))
        f.write(body)


def _java(module, cfg, metadir, workers, extra=None, xmx="8g", env=None, timeout=3600, dfs=False, cwd=SPEC):
    opts = (GCOPTS if workers == 1 else ["-XX:+UseParallelGC"]) + ["-Xss512m", "-Xmx" + xmx]
    if dfs:
        opts.append("-Dtlc2.tool.queue.IStateQueue=StateDeque")
    cmd = ["java"] + opts + ["-cp", CP, "tlc2.TLC", "-workers", str(workers), "-metadir", metadir,
                             "-cleanup", "-noGenerateSpecTE", "-config", cfg] + (extra or []) + [module]
    e = dict(os.environ)
    e.pop("JAVA_TOOL_OPTIONS", None)
    if env:
        e.update(env)
    t = time.time()
    try:
        p = subprocess.run(cmd, cwd=cwd, env=e, stdout=subprocess.PIPE, stderr=subprocess.STDOUT,
                           text=True, timeout=timeout, errors="replace")
        out = p.stdout
        rc = p.returncode
    except subprocess.TimeoutExpired as ex:
        out = (ex.stdout or b"").decode("utf8", "replace") if isinstance(ex.stdout, bytes) else (ex.stdout or "")
        rc = -9
    shutil.rmtree(metadir, ignore_errors=True)
    return rc, out, time.time() - t


_STATS = re.compile(r"(\d+) states generated, (\d+) distinct states found")
_DEPTH = re.compile(r"The depth of the complete state graph search is (\d+)")


def parse_stats(out):
    m = None
    for m in _STATS.finditer(out):
        pass
    gen, dist = (int(m.group(1)), int(m.group(2))) if m else (0, 0)
    d = _DEPTH.search(out)
    return {"generated": gen, "distinct": dist, "depth": int(d.group(1)) if d else 0}


_COV = re.compile(r"^<(\w+) line (\d+), col (\d+) to line (\d+), col (\d+) of module (\w+)(?: \([\d ]+\))?>: (\d+):(\d+)", re.M)


def parse_action_coverage(out):
    """Per-action (distinct, total) counts from -coverage output."""
    cov = {}
    for m in _COV.finditer(out):
        name = m.group(1)
        d, t = cov.get(name, (0, 0))
        cov[name] = (d + int(m.group(7)), t + int(m.group(8)))
    return cov


def tlc_mc(pid, module, cfg_body, constants, workers=NCPU, timeout=1800, need_actions=None, xmx=None):
    """Exhaustive model check of the design.  A violation here is a defect of the SPEC (exit 2)."""
    wd = workdir(pid)
    cfg = os.path.join(wd, module + ".cfg")
    write_cfg(cfg, cfg_body, constants)
    rc, out, wall = _java(module + ".tla", cfg, os.path.join(wd, "meta_" + module), workers,
                          extra=["-coverage", "1"], timeout=timeout, xmx=xmx or XMX)
    with open(os.path.join(wd, module + ".mc.log"), "w") as f:
        f.write(out)
    st = parse_stats(out)
    st["wall_s"] = round(wall, 1)
    if rc == -9:
        raise ToolError("TLC timed out on %s" % module)
    if "Model checking completed. No error has been found." not in out:
        tail = "\n".join(l for l in out.splitlines() if not re.match(r"^\s*\|*line ", l))[-4000:]
        sys.stdout.write(tail + "\n")
        raise ToolError("TLC reports an error in the model %s itself (spec defect, not an implementation violation)" % module)
    cov = parse_action_coverage(out)
    st["actions"] = {k: v[1] for k, v in cov.items()}
    dead = [k for k, v in cov.items() if v[1] == 0 and not k.startswith(("MCInit", "Init"))]
    st["never_taken"] = dead
    if need_actions:
        for a in need_actions:
            if sum(cov.get(x, (0, 0))[1] + cov.get("Do" + x, (0, 0))[1] for x in a.split("|")) == 0:
                raise ToolError("vacuity: action %s never taken in %s" % (a, module))
    log("TLC %s: %d generated, %d distinct, depth %d, %.1fs" % (module, st["generated"], st["distinct"], st["depth"], wall))
    return st


_GEN = re.compile(r'^<<"GEN", "(.*)">>$')


def tlc_gen(pid, module, cfg_body, constants, outfile, workers=NCPU, timeout=1800, simulate=None, xmx=None, dfs=False):
    """Behaviour generation: collect the JSON printed by the Emit invariant into outfile (one per line)."""
    wd = workdir(pid)
    cfg = os.path.join(wd, module + ".cfg")
    write_cfg(cfg, cfg_body, constants)
    extra = []
    if simulate:
        extra = ["-simulate", "num=%d" % simulate["num"], "-depth", str(simulate["depth"]), "-seed", str(seed())]
        workers = 1
    if dfs:
        workers = 1    # in-memory depth-first queue (no state serialisation)
    rc, out, wall = _java(module + ".tla", cfg, os.path.join(wd, "meta_" + module), workers, extra=extra,
                          timeout=timeout, xmx=xmx or XMX, dfs=dfs)
    if rc == -9:
        raise ToolError("TLC timed out generating from %s" % module)
    n = 0
    seen = set()
    with open(outfile, "w") as f:
        for line in out.splitlines():
            m = _GEN.match(line)
            if m:
                s = m.group(1).replace('\\"', '"').replace("\\\\", "\\")
                h = hashlib.blake2b(s.encode(), digest_size=12).digest()
                if h in seen:
                    continue
                seen.add(h)
                f.write(s + "\n")
                n += 1
    st = parse_stats(out)
    if n == 0:
        sys.stdout.write(out[-3000:])
        raise ToolError("generator %s produced nothing" % module)
    st.update({"behaviours": n, "wall_s": round(wall, 1)})
    log("TLC %s generated %d behaviours (%d states) in %.1fs" % (module, n, st["distinct"], wall))
    return st


# ---------------------------------------------------------------------------
# trace validation
_REJ = re.compile(r'TRACE_REJECTED_AT",\s*(\d+)')
_INVV = re.compile(r"Error: Invariant (\w+) is violated")
_PROPV = re.compile(r"Error: Action property (\w+) is violated")
_L = re.compile(r"^/\\ l = (\d+)", re.M)
_CONTRACT = re.compile(r'<<\s*"CONTRACT",\s*"([^"]*)"\s*>>')


def split_runs(tracefile, nchunks, outdir, reset_key="reset"):
    """Split an NDJSON trace at reset events into nchunks files of roughly equal size.
    Returns [(path, [run_start_line_numbers (0-based in chunk)], n_events)]"""
    os.makedirs(outdir, exist_ok=True)
    runs = []   # list of lists of lines
    cur = None
    marker = '"ev":"%s"' % reset_key
    with open(tracefile) as f:
        for line in f:
            if marker in line:
                cur = [line]
                runs.append(cur)
            elif cur is not None:
                cur.append(line)
    total = sum(len(r) for r in runs)
    target = max(1, total // nchunks + 1)
    chunks, curc, curn = [], [], 0
    for r in runs:
        curc.append(r)
        curn += len(r)
        if curn >= target:
            chunks.append(curc)
            curc, curn = [], 0
    if curc:
        chunks.append(curc)
    res = []
    for i, c in enumerate(chunks):
        p = os.path.join(outdir, "chunk_%03d.ndjson" % i)
        with open(p, "w") as f:
            for r in c:
                f.writelines(r)
        res.append((p, c))
    return res, len(runs), total


def _validate_file(pid, module, cfg, path, idx, timeout):
    wd = workdir(pid)
    # the metadir is derived from the trace file so that concurrent validations never share one
    mtag = hashlib.blake2b(path.encode(), digest_size=5).hexdigest()
    rc, out, wall = _java(module + ".tla", cfg, os.path.join(wd, "meta_%s_%d_%s" % (module, idx, mtag)), 1,
                          env={"TRACE": path}, xmx="3g", dfs=True, timeout=timeout)
    return rc, out


_SOFT = re.compile(r'"SOFT_VIOLATION",\s*"(\w+)",\s*(\d+)(?:,\s*"([^"]*)")?')


def _soft(out, runs):
    """Soft invariants (`X \/ PrintT(<<"SOFT_VIOLATION", "X", l>>)`) report a violated property without stopping
    the validation of the rest of the trace.  Returns one entry per (run, name): the first offending event."""
    first = {}
    starts = []
    pos = 0
    for r in runs:
        starts.append(pos)
        pos += len(r)
    import bisect
    whys = {}
    for m in _SOFT.finditer(out):
        name, l = m.group(1), int(m.group(2))
        at = l - 1                      # the state was reached by consuming event l-1 (1-based line)
        k = bisect.bisect_right(starts, at - 1) - 1
        if k < 0:
            continue
        key = (k, name)
        rel = at - starts[k]
        if key not in first or rel < first[key]:
            first[key] = rel
            whys[key] = m.group(3)
    return [{"run": [json.loads(x) for x in runs[k]], "at": rel,
             "reason": "%s violated after this event%s" % (name, (": " + whys[(k, name)]) if whys.get((k, name)) else "")}
            for (k, name), rel in sorted(first.items())]


def _diagnose(out, nlines):
    """Return None if accepted, else (line_index_1based_of_first_unmatched_event, reason)."""
    if "Model checking completed. No error has been found." in out and "TRACE_REJECTED_AT" not in out:
        return None
    m = _INVV.search(out) or _PROPV.search(out)
    if m:
        # the violating state is the last one printed before the post-condition output;
        # it was reached by consuming event l-1
        head = out.split("TRACE_REJECTED_AT")[0]
        ls = _L.findall(head)
        at = int(ls[-1]) - 1 if ls else 1
        c = _CONTRACT.findall(head)
        return at, "%s violated after this event%s" % (m.group(1), (": " + c[-1]) if c else "")
    m = _REJ.search(out)
    if m:
        return int(m.group(1)), "no spec step matches this event"
    return -1, "TLC error: " + out[-1500:]


def validate_traces(pid, module, cfg_body, tracefile, constants=None, nchunks=TRACE_CHUNKS, max_violations=8, timeout=1800, tag="", max_soft=200):
    """Validate every run of an NDJSON trace file against Trace_<module>.  Returns
    dict(runs, events, rejected=[{run:[events], at:int, reason:str}])."""
    wd = workdir(pid)
    cfg = os.path.join(wd, module + ".cfg")
    write_cfg(cfg, cfg_body, constants)
    cdir = os.path.join(wd, "chunks_" + module + tag)
    shutil.rmtree(cdir, ignore_errors=True)
    chunks, nruns, nevents = split_runs(tracefile, nchunks, cdir)
    if nruns == 0:
        raise ToolError("trace file %s contains no runs" % tracefile)
    t = time.time()

    def work(item):
        idx, (path, runs) = item
        rejected = []
        remaining = runs
        cur_path = path
        rounds = 0
        hard = 0
        retried = False
        while remaining and hard < max_violations:
            rounds += 1
            n = sum(len(r) for r in remaining)
            rc, out = _validate_file(pid, module, cfg, cur_path, idx, timeout)
            if rc == -9:
                return ("timeout", rejected)
            rejected.extend(_soft(out, remaining)[:max_soft])
            d = _diagnose(out, n)
            if d is None:
                break
            at, reason = d
            if at < 1:
                # an unreadable TLC run (JVM killed / starved on a loaded machine): try once more before giving up
                if retried:
                    return ("error:" + reason, rejected)
                retried = True
                continue
            # locate the run containing line `at`
            pos = 0
            k = 0
            for k, r in enumerate(remaining):
                if pos + len(r) >= at:
                    break
                pos += len(r)
            bad = remaining[k]
            rejected.append({"run": [json.loads(x) for x in bad], "at": at - pos, "reason": reason})
            hard += 1
            remaining = remaining[k + 1:]
            cur_path = path + ".rest%d" % rounds
            with open(cur_path, "w") as f:
                for r in remaining:
                    f.writelines(r)
        return ("ok", rejected)

    with ThreadPoolExecutor(max_workers=NCPU) as ex:
        results = list(ex.map(work, enumerate(chunks)))
    rejected = []
    for status, rej in results:
        if status != "ok":
            raise ToolError("trace validation of %s failed: %s" % (module, status))
        rejected.extend(rej)
    shutil.rmtree(cdir, ignore_errors=True)
    log("Trace validation %s: %d runs, %d events, %d rejected, %.1fs" % (module, nruns, nevents, len(rejected), time.time() - t))
    return {"runs": nruns, "events": nevents, "rejected": rejected, "wall_s": round(time.time() - t, 1)}


# ---------------------------------------------------------------------------
# findings / violations / evidence
def load_known():
    p = os.path.join(ROOT, "known_findings.json")
    if not os.path.exists(p):
        return []
    with open(p) as f:
        return json.load(f).get("findings", [])


class Report:
    """Collects violations for one property, applies the known-findings file, writes evidence."""

    def __init__(self, pid, tier, level="model_checking"):
        self.pid, self.tier, self.level = pid, tier, level
        self.t0 = time.time()
        self.cov = {"states": 0, "transitions": 0, "traces_validated_against_impl": 0, "samples": [],
                    "evaluations": 0, "distinct_nontrivial": 0, "rule": "", "parts": {}}
        self.assumptions = []
        self.violations = []    # (signature, what, payload)
        self.known = [k for k in load_known() if k.get("property") == pid and k.get("status") == "finding"]
        self.vdir = os.path.join(workdir(pid), "violations")
        shutil.rmtree(self.vdir, ignore_errors=True)
        os.makedirs(self.vdir, exist_ok=True)

    def add_mc(self, name, st):
        self.cov["states"] += st.get("distinct", 0)
        self.cov["transitions"] += st.get("generated", 0)
        self.cov["parts"][name] = {k: st[k] for k in st if k in ("generated", "distinct", "depth", "wall_s", "behaviours", "never_taken")}

    def add_traces(self, name, n, nontrivial=None, events=None):
        self.cov["traces_validated_against_impl"] += n
        self.cov["evaluations"] += n
        if nontrivial is not None:
            self.cov["distinct_nontrivial"] += nontrivial
        self.cov["parts"].setdefault(name, {}).update({"traces": n, "events": events, "nontrivial": nontrivial})

    def sample(self, s):
        if len(self.cov["samples"]) < 6:
            self.cov["samples"].append(s)

    def violation(self, signature, what, payload):
        self.violations.append((signature, what, payload))

    def finish(self):
        unknown = []
        known_hit = {}
        for sig, what, payload in self.violations:
            k = next((k for k in self.known if re.search(k["signature"], sig)), None)
            if k:
                known_hit.setdefault(k["signature"], [k, 0])[1] += 1
            else:
                unknown.append((sig, what, payload))
        for sig, (k, n) in known_hit.items():
            print("KNOWN-FINDING: property=%s %s (%d occurrence(s) this run; signature %s)" % (self.pid, k["what"], n, sig), flush=True)
        paths = []
        seen_sig = set()
        for sig, what, payload in unknown:
            if sig in seen_sig and len(paths) >= 3:
                continue
            seen_sig.add(sig)
            p = os.path.join(self.vdir, "%d.json" % len(paths))
            with open(p, "w") as f:
                json.dump({"property": self.pid, "signature": sig, "what": what, "payload": payload}, f, indent=1)
            paths.append((p, sig, what))
            if len(paths) >= 10:
                break
        self.cov["known_findings_hit"] = {s: n for s, (k, n) in known_hit.items()}
        ev = {"property_id": self.pid, "tier": self.tier, "seed": seed(), "level": self.level,
              "coverage": self.cov, "assumptions": self.assumptions,
              "wall_s": round(time.time() - self.t0, 1), "violations": len(unknown)}
        if not self.cov["samples"]:
            self.cov["samples"] = ["(none)"]
        os.makedirs(EVID, exist_ok=True)
        with open(os.path.join(EVID, self.pid + ".json"), "w") as f:
            json.dump(ev, f, indent=1)
        for p, sig, what in paths:
            print("  violation: %s — %s" % (sig, what), flush=True)
            print("VIOLATION property=%s replay=%s" % (self.pid, p), flush=True)
        log("%s %s: %d violation(s), %d known-finding hit(s), %.1fs" % (self.pid, self.tier, len(unknown), sum(n for _, n in known_hit.values()), time.time() - self.t0))
        return 1 if unknown else 0
