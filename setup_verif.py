"""./check setup — build the framework from files on disk only (offline)."""
import glob, os, re, subprocess, sys
sys.path.insert(0, os.path.join(os.path.dirname(os.path.abspath(__file__)), "lib"))
import vlib


def members():
    s = open(os.path.join(vlib.HARNESS, "Cargo.toml")).read()
    m = re.search(r"members\s*=\s*\[(.*?)\]", s, re.S)
    names = ["vh"]
    if m:
        for d in re.findall(r'"([^"]+)"', m.group(1)):
            t = open(os.path.join(vlib.HARNESS, d, "Cargo.toml")).read()
            names.append(re.search(r'name\s*=\s*"([^"]+)"', t).group(1))
    return names


def main():
    os.makedirs(vlib.WORK, exist_ok=True)
    os.makedirs(vlib.EVID, exist_ok=True)
    try:
        vlib.build_harness(members())
    except vlib.ToolError as e:
        print("TOOL-ERROR:", e)
        return 2
    bad = 0
    for f in sorted(glob.glob(os.path.join(vlib.SPEC, "*.tla"))):
        p = subprocess.run(["java", "-cp", vlib.CP, "tla2sany.SANY", os.path.basename(f)], cwd=vlib.SPEC,
                           stdout=subprocess.PIPE, stderr=subprocess.STDOUT, text=True)
        if p.returncode != 0 or "*** Errors" in p.stdout or "Fatal errors" in p.stdout:
            print("SANY failed on", f)
            print(p.stdout[-1500:])
            bad += 1
    print("setup ok" if not bad else "setup: %d spec(s) do not parse" % bad)
    return 0 if not bad else 2
