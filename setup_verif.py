"""./check setup — build the framework from files on disk only (offline)."""
import glob, importlib, json, os, re, subprocess, sys
ROOT = os.path.dirname(os.path.abspath(__file__))
sys.path.insert(0, os.path.join(ROOT, "lib"))
sys.path.insert(0, ROOT)
import vlib


def members():
    s = open(os.path.join(vlib.HARNESS, "Cargo.toml")).read()
    m = re.search(r"members\s*=\s*\[(.*?)\]", s, re.S)
    names = []
    if m:
        for d in re.findall(r'"([^"]+)"', m.group(1)):
            try:
                t = open(os.path.join(vlib.HARNESS, d, "Cargo.toml")).read()
                names.append(re.search(r'name\s*=\s*"([^"]+)"', t).group(1))
            except OSError:
                pass
    return names


def required():
    """harness binaries needed by the checks registered in MANIFEST.json"""
    need = {"vh"}
    try:
        man = json.load(open(os.path.join(ROOT, "MANIFEST.json")))
        for c in man.get("checks", []):
            mod = importlib.import_module("checks." + c["property_id"].lower())
            need.update(getattr(mod, "BINS", ["vh"]))
    except Exception as e:
        print("setup: could not read MANIFEST.json:", e)
    return sorted(need)


def main():
    os.makedirs(vlib.WORK, exist_ok=True)
    os.makedirs(vlib.EVID, exist_ok=True)
    req = required()
    try:
        vlib.build_harness(req)
    except vlib.ToolError as e:
        print("TOOL-ERROR:", e)
        return 2
    for b in members():
        if b not in req:
            try:
                vlib.build_harness([b])
            except vlib.ToolError:
                print("setup: optional harness member %s does not build (not used by a registered check)" % b)
    bad = 0
    for f in sorted(glob.glob(os.path.join(vlib.SPEC, "*.tla"))):
        p = subprocess.run(["java", "-cp", vlib.CP, "tla2sany.SANY", os.path.basename(f)], cwd=vlib.SPEC,
                           stdout=subprocess.PIPE, stderr=subprocess.STDOUT, text=True)
        if p.returncode != 0 or "*** Errors" in p.stdout or "Fatal errors" in p.stdout:
            print("setup: warning: SANY failed on", f)
            print(p.stdout[-800:])
            bad += 1
    print("setup ok" if not bad else "setup ok (%d spec(s) under construction do not parse)" % bad)
    return 0
