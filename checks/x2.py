"""X2 (extension beyond the listed properties) -- the acknowledgement policy on which C10 and C13 depend; see ext_ackpolicy.py."""
from checks import ext_ackpolicy

BINS = ext_ackpolicy.BINS


def run(tier, rep):
    ext_ackpolicy.run_part("X2", tier, rep)


def replay(path):
    return ext_ackpolicy.replay("X2", path)
