"""C10 — acknowledgement bookkeeping is truthful in both directions.
specs: SentJournal.tla (ack/loss -> frames), RcvdJournal.tla (ACK generation, duplicates)."""
import json
import vlib
from checks import common, sentj, rcvdj, ext_ackpolicy

BINS = ["vh"] + ext_ackpolicy.BINS


def run(tier, rep):
    rcvdj.run("C10", tier, rep)
    sentj.run("C10", tier, rep)
    rep.cov["rule"] = ("(a) received journal: call sequences (decode_pn, on_rcvd_pn, gen_ack_frame_util over every capacity from below the minimum "
                       "upward, on_rcvd_ack, clock ticks) enumerated by TLC to the stated depth plus seeded random histories with up to ~130 ranges and "
                       "capacities swept around the exact frame sizes; (b) sent journal: send with 0/1/2 frames, trivial, abandon, rotate sessions with "
                       "update_largest/ack/loss/fast-retransmit, ticks. Everything is executed on the real journals under paused tokio time and every "
                       "recorded step validated by TLC. distinct_nontrivial = distinct runs producing an ACK frame with >= 2 ranges (a) / an ack that "
                       "reported at least one frame (b).")
    # the acknowledgement POLICY (when an ACK is demanded): a truthful generator is useless if nobody asks it
    ext_ackpolicy.run_part("C10", tier, rep)
    rep.cov["exhaustive"] = True
    rep.assumptions += ["gen_ack_frame_util is asked for a `largest` that is received and still tracked (what need_ack()/the paths pass)",
                        "on_rcvd_pn is only called for numbers decode_pn accepted",
                        "an assembly is abandoned only before a frame was recorded (Package::dump fails only if nothing was written)"]


def replay(path):
    v = json.load(open(path))
    if v["payload"].get("component") == "AckPolicy" or "/AckPolicy/" in v.get("signature", ""):
        return ext_ackpolicy.replay("C10", path)
    if v["payload"].get("component") == "RcvdJournal":
        return rcvdj.replay("C10", path)
    return sentj.replay("C10", path)
