"""C18 — peer transport parameters are validated and bound to the on-wire connection IDs.
spec: Params.tla (legality table from RFC 9000 §18.2 / RFC 9221 / RFC 9287 + the two-event protocol RecvParams / RecvInitialScid,
NegotiatedIdle, ZeroRttAcceptable); MC_Params (protocol, both orders), Gen_Params (parameter sets x cids x roles x orders),
Trace_Params (every recorded call of the real qbase::param code judged against the spec; deviations are named)."""
import json, os, re
import vlib
from checks import common

BINS = ["vh-params", "vh-sim"]
PID = "C18"
MC_CFG = common.mc_cfg(invs=("Inv", "NeverDeviates", "OrderIndependent"), props=("FailureSticky", "ReadyStable"))
TRACE_CFG = common.trace_cfg(invs=("SoftNoDeviation", "Consistent"))
NEED = ["New", "RetrySeen", "ParseOk", "ParseErr", "RecvWaiting", "RecvReady", "RecvFailed",
        "ScidWaiting", "ScidReady", "ScidFailed", "AfterFailure"]


def signature(pid, comp, rej):
    run, at = rej["run"], rej["at"]
    ev = run[at - 1] if 0 < at <= len(run) else {"ev": "eof"}
    if ev.get("ev") == "panic":
        op = ev.get("op") or ["?"]
        slug = re.sub(r"[^A-Za-z0-9]+", "_", ev.get("msg", ""))[:48].strip("_")
        return "%s/%s/panic/%s/%s" % (pid, comp, op[0], slug), \
            "panic in qbase::param during %s: %s (input %s)" % (op[0], ev.get("msg", "")[:200], json.dumps(op[1:])[:400])
    name = rej["reason"].split()[0]
    return "%s/%s/%s/%s" % (pid, comp, ev.get("ev"), name), \
        "event %d (%s) deviates from Params.tla: %s" % (at, json.dumps(ev)[:600], rej["reason"])


def is_hit(line):
    """a run is non-trivial if the connection became usable or the handshake failed on a decision of the code under test"""
    return '"ready":true' in line or ('"ok":false' in line and '"ev":"reset"' not in line)


def stats(trace):
    """measured outcome classes, reported in the evidence (never judged here)"""
    c = {"runs": 0, "ready": 0, "failed_parse": 0, "failed_typed": 0, "failed_auth": 0, "panics": 0,
         "zrtt_yes": 0, "zrtt_no": 0, "pa_zero_cid_accepted": 0, "dup_accepted": 0, "udp_above_65527_rejected": 0}
    cur_ready = False
    with open(trace) as f:
        for line in f:
            e = json.loads(line)
            k = e["ev"]
            if k == "reset":
                c["runs"] += 1
                cur_ready = False
            elif k == "panic":
                c["panics"] += 1
            elif k in ("parse", "typed"):
                if not e["ok"]:
                    c["failed_" + k] += 1
                    if any(p["id"] == 3 and p["t"] == "v" and int(p["v"]) > 65527 for p in e["params"]):
                        c["udp_above_65527_rejected"] += 1
                else:
                    ids = [p["id"] for p in e["params"]]
                    if len(ids) != len(set(ids)):
                        c["dup_accepted"] += 1
                    if any(p["id"] == 13 and p["v"][48:50] == "00" for p in e["params"]):
                        c["pa_zero_cid_accepted"] += 1
            elif k in ("recv", "scid"):
                if k == "recv" and e.get("zrtt") in ("yes", "no"):
                    c["zrtt_" + e["zrtt"]] += 1
                if e["ready"] and not cur_ready:
                    c["ready"] += 1
                    cur_ready = True
                if not e["ok"] and e["fut"] == "err" and e["wakes"] > 0:
                    c["failed_auth"] += 1
    return c


def _gen_replay(rep, part, consts, simulate=None):
    wd = vlib.workdir(PID)
    beh = os.path.join(wd, "beh_%s.ndjson" % part)
    trace = os.path.join(wd, "trace_%s.ndjson" % part)
    try:
        g = vlib.tlc_gen(PID, "Gen_Params", common.GEN_CFG, consts, beh, simulate=simulate, xmx="4g")
    except vlib.ToolError as e:      # a JVM killed under memory pressure prints nothing: one retry
        vlib.log("generator failed (%s), retrying once" % e)
        g = vlib.tlc_gen(PID, "Gen_Params", common.GEN_CFG, consts, beh, simulate=simulate, xmx="4g")
    rep.add_mc("Gen_Params/" + part, g)
    vlib.vhx("vh-params", ["replay", beh, trace])
    st = stats(trace)
    rep.cov["parts"]["Gen_Params/" + part]["outcomes"] = st
    return trace, st


def run(tier, rep):
    quick = tier == "quick"
    st = vlib.tlc_mc(PID, "MC_Params", MC_CFG, None, need_actions=NEED, xmx="4g")
    rep.add_mc("MC_Params", st)
    fams = '{"sweep", "cids", "idle", "zrtt"}' if quick else '{"sweep", "cids", "idle", "zrtt", "pairs"}'
    t1, s1 = _gen_replay(rep, "allpaths", {"Families": fams, "MaxMods": 1})
    t2, s2 = _gen_replay(rep, "random", {"Families": '{"randlegal", "randany"}', "MaxMods": 0},
                         simulate={"num": 150 if quick else 12000, "depth": 30})
    trace = os.path.join(vlib.workdir(PID), "trace_all.ndjson")
    with open(trace, "w") as out:
        for t in (t1, t2):
            with open(t) as f:
                out.write(f.read())
    common.validate(rep, PID, "Params", "Trace_Params", TRACE_CFG, trace, "replay", is_hit, sig=signature)
    if s1["ready"] == 0 or s1["failed_parse"] == 0 or s1["zrtt_yes"] == 0 or s1["zrtt_no"] == 0:
        raise vlib.ToolError("vacuity: the generated behaviours did not reach every outcome class: %s" % s1)
    rep.cov["diagnostics"] = {
        "preferred_address_with_zero_length_cid_accepted": s1["pa_zero_cid_accepted"] + s2["pa_zero_cid_accepted"],
        "duplicate_parameter_accepted": s1["dup_accepted"] + s2["dup_accepted"],
        "max_udp_payload_size_above_65527_rejected": s1["udp_above_65527_rejected"] + s2["udp_above_65527_rejected"],
        "note": "left open by the property (RFC 9000: MUST NOT send / SHOULD reject / not invalid): recorded, never a violation"}
    rep.cov["rule"] = ("parameter sets enumerated by TLC from the legality table of Params.tla: a minimal and a full base set per sender role, "
                       "one modification each (every numeric id at all 24 boundary points incl. below-min / above-max / 2^62-1, role-inappropriate "
                       "and undefined ids, flag / token / preferred_address / client_name entries, each mandatory id deleted, an entry duplicated; "
                       "two modifications at the bounds in the thorough tier), declared x observed connection ids (equal, different, proper prefix, "
                       "20-byte, zero-length) x Retry seen / retry_source_connection_id present, local x remote max_idle_timeout, remembered x new "
                       "limit for each 0-RTT-relevant id; each for both roles, both arrival orders (extension first / first packet first), built as "
                       "wire bytes for parse_from_bytes and through the typed setters where expressible; plus seeded random walks of up to 12 "
                       "modifications.  Each behaviour is executed on a real ArcParameters (new_client/new_server, recv_remote_params, "
                       "initial_scid_from_peer_need_equal, retry_scid_from_server_need_equal, remote_ready() future under a counting waker, "
                       "negotiated_max_idle_timeout, is_0rtt_accepted); every call's Ok/Err kind and scalar state is judged by TLC against Params.tla. "
                       "distinct_nontrivial = distinct runs in which the connection became usable or the code under test failed the handshake.")
    # the effective idle timeout of a real connection (the connection negotiates it in qbase::time::IdleConfig, not in Parameters):
    # idle configurations enumerated by Gen_ConnLife, run on the whole stack, judged by ConnLife.tla's idle clauses
    _idle_part(rep)
    rep.cov["exhaustive"] = True
    rep.assumptions += [
        "parameter blobs are well-formed TLV (exact varint lengths, 16-byte tokens, connection ids of at most 20 bytes): malformed blobs belong to C03",
        "an Err returned by parse_from_bytes / recv_remote_params / initial_scid_from_peer_need_equal becomes the connection error (the harness calls ArcParameters::on_conn_error with it, as the connection does)",
        "numeric values are the 24 boundary points of Params.tla!Pts; only their order enters the specification",
        "the TLS-level half of the 0-RTT decision (HandshakeKind::Resumed) is outside the component"]


def _idle_part(rep):
    from checks import sim, c17
    scs = []
    i = 0
    for ic, isv in ((600, 600), (600, 1500), (1500, 600), (1500, 0), (0, 900), (700, 0)):
        for parked in ("none",):
            c = {"who": "none", "at": 0, "parked": parked, "loss": "none", "idle_cli": ic, "idle_srv": isv}
            sc = c17.scenario(vlib.seed() * 1000 + i, c)
            scs.append(sc)
            i += 1
    trace, _ = sim.run_sim("C18", "idle", scs, nproc=min(len(scs), 8))
    sim.validate(rep, "C18", "ConnLife", "Trace_ConnLife", c17.TRACE_CFG, trace, "effective-idle-timeout", lambda l: '"lingers":true' in l)


def _ops(trace):
    new = trace[0]
    ops = [["new", new["role"], new["mode"], new["odcid"], new["lidle"], new["rem"]]]
    for e in trace[1:]:
        k = e["ev"]
        if k == "retry": ops.append(["retry", e["cid"]])
        elif k in ("parse", "typed"): ops.append(["params", e["params"]])
        elif k == "scid": ops.append(["scid", e["cid"]])
        elif k == "panic":
            op = e["op"][1]
            if not (ops and ops[-1] == op):
                ops.append(op)
    return ops


def replay(path):
    v0 = json.load(open(path))
    if v0["payload"].get("component") == "ConnLife":
        from checks import sim, c17
        trace, _ = sim.run_sim("C18", "replay", [v0["payload"]["scenario"]], nproc=1)
        r = vlib.validate_traces("C18", "Trace_ConnLife", c17.TRACE_CFG, trace, nchunks=1)
        if r["rejected"]:
            print("VIOLATION property=C18 replay=%s" % path)
            return 1
        print("not reproduced on the current tree")
        return 0
    v = json.load(open(path))
    wd = vlib.workdir(PID)
    ops = _ops(v["payload"]["trace"])
    beh, trace = os.path.join(wd, "replay_beh.ndjson"), os.path.join(wd, "replay_trace.ndjson")
    open(beh, "w").write(json.dumps(ops) + "\n")
    vlib.vhx("vh-params", ["replay", beh, trace])
    r = vlib.validate_traces(PID, "Trace_Params", TRACE_CFG, trace, nchunks=1)
    if r["rejected"]:
        print("  reproduced:", *signature(PID, "Params", r["rejected"][0]))
        print("VIOLATION property=%s replay=%s" % (PID, path))
        return 1
    print("not reproduced on the current tree")
    return 0
