"""C12 — stream limits, stream direction and final size are enforced.
specs: Stream.tla (contract monitor), MC_Stream (design + liveness), Gen_Stream (environment schedules), Trace_Stream."""
from checks import streams


def run(tier, rep):
    streams.run("C12", tier, rep)


def replay(path):
    return streams.replay("C12", path)
