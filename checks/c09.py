"""C09 — the send buffer keeps every unacknowledged byte and offers it for resending.
spec: SendBuf.tla; MC_SendBuf (design), Gen_SendBuf (behaviours), Trace_SendBuf (impl -> spec)."""
import json, os
import vlib

MC_CFG = """INIT MCInit
NEXT MCNext
VIEW View
INVARIANT Inv
PROPERTY PickOnlyPendingOrLost
CHECK_DEADLOCK FALSE
"""
GEN_CFG = """INIT GenInit
NEXT GenNext
INVARIANT Emit
CHECK_DEADLOCK FALSE
"""
TRACE_CFG = """INIT TraceInit
NEXT TraceNext
INVARIANT Inv
PROPERTY PickOnlyPendingOrLost
POSTCONDITION TraceAccepted
CHECK_DEADLOCK FALSE
"""


def signature(rej):
    run = rej["run"]
    at = rej["at"]
    ev = run[at - 1] if 0 < at <= len(run) else {"ev": "eof"}
    if ev.get("ev") == "panic":
        msg = ev.get("msg", "")
        return "C09/SendBuf/panic/%s" % (ev["op"][0]), "panic in SendBuf on %s: %s" % (ev["op"], msg[:200])
    return "C09/SendBuf/%s/%s" % (ev.get("ev"), rej["reason"].split()[0]), \
        "event %d (%s) of the run is not a behaviour of SendBuf.tla: %s" % (at, json.dumps(ev)[:300], rej["reason"])


def nontrivial(tracefile):
    """distinct runs that reach at least one non-pending colour (something was picked)."""
    seen = set()
    cur = []
    hit = False

    def close():
        if cur and hit:
            seen.add(hash(tuple(cur)))
    with open(tracefile) as f:
        for line in f:
            if '"ev":"reset"' in line:
                close()
                cur, hit = [], False
            else:
                cur.append(line)
                if '"F"' in line or '"L"' in line or '"R"' in line:
                    hit = True
    close()
    return len(seen)


def run(tier, rep):
    wd = vlib.workdir("C09")
    quick = tier == "quick"
    # 1. the design: exhaustive for small constants
    st = vlib.tlc_mc("C09", "MC_SendBuf", MC_CFG,
                     {"MaxBytes": 4 if quick else 5, "MaxWin": 5 if quick else 6, "Limits": "{1, 2, 3}", "Flows": "{0, 1, 9}"},
                     need_actions=["Write", "Extend", "Pick", "PickNothing", "Ack", "Loss", "Resend", "Forget"])
    rep.add_mc("MC_SendBuf", st)
    # 2. spec -> impl: all input sequences to a depth (two alphabets), replayed into the real SendBuf
    jobs = [
        ("full", {"MaxBytes": 4, "MaxWin": 4, "Limits": "{1, 2}", "Flows": "{0, 1, 9}", "Depth": 4 if quick else 5,
                  "Wins": "{0, 3, 4}", "Prefill": 0, "Ops": '{"w","x","p","c","a","l","r","f"}'}),
        ("prefilled", {"MaxBytes": 5, "MaxWin": 5, "Limits": "{1, 2, 3}", "Flows": "{9}", "Depth": 6 if quick else 7,
                       "Wins": "{5}", "Prefill": 5, "Ops": '{"p","a","l"}'}),
    ]
    for name, consts in jobs:
        beh = os.path.join(wd, "beh_%s.ndjson" % name)
        trace = os.path.join(wd, "trace_%s.ndjson" % name)
        g = vlib.tlc_gen("C09", "Gen_SendBuf", GEN_CFG, consts, beh)
        rep.add_mc("Gen_SendBuf/" + name, g)
        vlib.vh(["sendbuf-replay", beh, trace])
        _validate(rep, "allpaths/" + name, trace, exhaustive_depth=consts["Depth"])
    # 3. seeded random long walks over bigger buffers
    beh = os.path.join(wd, "beh_random.ndjson")
    trace = os.path.join(wd, "trace_random.ndjson")
    runs = 3000 if quick else 40000
    vlib.vh(["sendbuf-random", vlib.seed(), runs, 60, 24, beh])
    vlib.vh(["sendbuf-replay", beh, trace, "lenient"])
    _validate(rep, "random", trace)
    rep.cov["rule"] = ("behaviours = input sequences enumerated by TLC from Gen_SendBuf (all paths to the stated depth) plus "
                       "seeded random walks; each is executed on the real SendBuf and the recorded trace validated step by step by "
                       "TLC against Trace_SendBuf (colours compared exactly after every call). distinct_nontrivial = distinct recorded "
                       "runs in which at least one byte left the Pending colour.")
    rep.cov["exhaustive"] = True
    rep.assumptions += ["ack/loss ranges are ranges previously returned by pick_up (frames are acknowledged whole)",
                        "forget_sent_state only when nothing was acknowledged (0-RTT rejection)",
                        "byte values checked by the harness against a position-determined generator (data_ok), not by TLC"]


def _validate(rep, name, trace, exhaustive_depth=None):
    r = vlib.validate_traces("C09", "Trace_SendBuf", TRACE_CFG, trace)
    rep.add_traces(name, r["runs"], nontrivial(trace), r["events"])
    with open(trace) as f:
        lines = [next(f) for _ in range(7)]
    rep.sample({"part": name, "first_events": [json.loads(x) for x in lines if x.strip()]})
    for rej in r["rejected"]:
        sig, what = signature(rej)
        rep.violation(sig, what, {"component": "sendbuf", "rejected_at": rej["at"], "reason": rej["reason"], "trace": rej["run"]})


def replay(path):
    """Re-execute the inputs of a stored violation on the current tree and re-validate."""
    v = json.load(open(path))
    wd = vlib.workdir("C09")
    ops = [["i", v["payload"]["trace"][0]["max"]]]
    picks = []
    for e in v["payload"]["trace"][1:]:
        k = e["ev"]
        if k == "write": ops.append(["w", e["n"]])
        elif k == "extend": ops.append(["x", e["m"]])
        elif k == "pick":
            ops.append(["p", e["limit"], e["flow"]])
            if e.get("ok"): picks.append([e["start"], e["end"]])
        elif k in ("ack", "loss"):
            ops.append(["a" if k == "ack" else "l", picks.index([e["a"], e["b"]]) + 1])
        elif k == "resend": ops.append(["r"])
        elif k == "forget": ops.append(["f"])
        elif k == "panic": ops.append(e["op"])
    beh = os.path.join(wd, "replay_beh.ndjson")
    trace = os.path.join(wd, "replay_trace.ndjson")
    open(beh, "w").write(json.dumps(ops) + "\n")
    vlib.vh(["sendbuf-replay", beh, trace, "lenient"])
    r = vlib.validate_traces("C09", "Trace_SendBuf", TRACE_CFG, trace, nchunks=1)
    if r["rejected"]:
        sig, what = signature(r["rejected"][0])
        print("  reproduced:", sig, what)
        print("VIOLATION property=C09 replay=%s" % path)
        return 1
    print("not reproduced on the current tree")
    return 0
